/-
  Model of the toplevel event loop: /repo/src/tickit.c (watch lists, timers, laters, io, signal and
  process watches, cancel, destroy) and /repo/src/evloop-default.c (one loop iteration, poll slots,
  signal bookkeeping), statement by statement, together with the environment the correspondence
  harness (harness/evloop.c) puts it in: a virtual clock, scripted descriptor readiness, virtual child
  processes, and the kernel's signal state (blocked / handled / pending).

  Representation.  Watches live in a heap `List Watch` indexed by allocation number and carry a
  `freed` mark.  A C linked list `head, ->next, ->next …` is the Lean list of the addresses it links;
  *reading a field of a freed node is undefined behaviour* and yields the outcome `Status.ub why`.
  This is what lets the model reproduce the stale `t->timers` head while timer callbacks run: the
  list still contains the freed prefix, and a walk that touches it is `ub`.

  Callbacks are data (`Beh`): the `n`-th FIRE invocation of the callback of watch slot `k` runs a
  list of actions.  Unbind and destroy notifications are passive (they are logged, they do not act).

  The variants of the source text that the repairs introduced (all of them have landed in /repo) are a `Config`; the driver
  takes it from `Gen/EvLoop.lean`, which is regenerated from the C source on every run.

  Core Lean only; everything is structurally recursive (loops whose length depends on what callbacks
  register take `fuel`) so that `decide +kernel` can evaluate concrete histories.
-/
namespace Tickit.EvLoop

/-! ### constants (include/tickit.h, <poll.h>, <errno.h>, <signal.h>) -/

def BIND_FIRST : Nat := 1
def BIND_UNBIND : Nat := 2
def BIND_DESTROY : Nat := 4
def EV_FIRE : Nat := 1
def EV_UNBIND : Nat := 2
def EV_DESTROY : Nat := 4
def IO_IN : Nat := 1
def IO_OUT : Nat := 2
def IO_HUP : Nat := 4
def IO_ERR : Nat := 8
def IO_INVAL : Nat := 16
def POLLIN : Nat := 1
def POLLOUT : Nat := 4
def POLLERR : Nat := 8
def POLLHUP : Nat := 16
def POLLNVAL : Nat := 32
def EINTR : Int := 4
def ECHILD : Int := 10
def SIGCHLD : Int := 17
def SIGWINCH : Int := 28
/-- `NSIG` (glibc: 65). -/
def NSIG : Nat := 65

/-- The harness's virtual descriptors and children. -/
def FD0 : Int := 100
def NFD : Int := 8
def PID0 : Int := 1000000000
def NPID : Int := 8
def MAXW : Int := 96
/-- Signals the harness raises and reports. -/
def SIGS : List Int := [1, 10, 12, 17, 23, 28]
/-- Default action "terminate" (SIGHUP, SIGUSR1, SIGUSR2) as opposed to "ignore" (SIGCHLD, SIGURG, SIGWINCH). -/
def sigTerminates (s : Int) : Bool := s == 1 || s == 10 || s == 12

/-- AddressSanitizer fills fresh `malloc`/`realloc` memory with this byte (`malloc_fill_byte`).  It is
    what an *uninitialised read* observes in the harness build; the model needs it only where the
    C code reads memory it never wrote (`pollfds[idx].revents` of a new slot, `pending_signals`). -/
def fillByte : Nat := 0xbe
/-- An uninitialised `short revents`. -/
def fillRevents : Nat := fillByte * 256 + fillByte
/-- Is signal `s` a member of an uninitialised `sigset_t`?  (bit `(s-1) % 8` of byte `(s-1) / 8`). -/
def fillSigMember (s : Int) : Bool := (fillByte >>> ((s - 1) % 8).toNat) % 2 == 1

/-! ### `struct timeval` -/

structure TV where
  sec : Int
  usec : Int
deriving DecidableEq, Repr, Inhabited

/-- `timercmp(a, b, >)`. -/
def TV.gt (a b : TV) : Bool := a.sec > b.sec || (a.sec == b.sec && a.usec > b.usec)

/-- `timeradd`. -/
def TV.add (a b : TV) : TV :=
  if a.usec + b.usec ≥ 1000000 then ⟨a.sec + b.sec + 1, a.usec + b.usec - 1000000⟩
  else ⟨a.sec + b.sec, a.usec + b.usec⟩

/-- `timersub`. -/
def TV.sub (a b : TV) : TV :=
  if a.usec - b.usec < 0 then ⟨a.sec - b.sec - 1, a.usec - b.usec + 1000000⟩
  else ⟨a.sec - b.sec, a.usec - b.usec⟩

/-- The harness's `gettimeofday`: the virtual clock in microseconds. -/
def TV.ofUs (us : Int) : TV := ⟨us / 1000000, us % 1000000⟩

/-! ### watches -/

inductive WType | none | io | timer | later | signal | process
deriving DecidableEq, Repr, Inhabited

/-- `struct TickitWatch` (src/tickit.c 23–65).  `slot ≥ 0`: the harness's callback for watch slot
    `slot`.  Internal callbacks: `-1` on_term_readable, `-2` on_sigwinch, `-3` on_sigchld,
    `-4` process_notify (its `user` is the process watch `puser`). -/
structure Watch where
  freed : Bool := false
  type : WType := .none
  flags : Nat := 0
  slot : Int := 0
  evi : Nat := 0
  fd : Int := 0
  cond : Nat := 0
  due : TV := ⟨0, 0⟩
  signum : Int := 0
  pid : Int := 0
  wstatus : Int := 0
  puser : Nat := 0
  /-- `process.notify` (repaired `tickit_watch_process`): the deferred callback that will deliver a pre-exited child -/
  notify : Option Nat := none
deriving DecidableEq, Repr, Inhabited

/-- Why a history left defined behaviour (which read touched freed memory). -/
inductive Ub
  | timerInsertWalk     -- tickit_watch_timer_at_tv: `(*prevp)->timer.at` of a freed node
  | insertWalk          -- insert_watch: `(*watchesptr)->next` of a freed node
  | cancelType          -- tickit_watch_cancel: `watch->type` of a freed watch
  | cancelWalk          -- tickit_watch_cancel: walk reads a freed node
  | timerLoopThis       -- tickit_evloop_invoke_timers: `this->timer.at` / `this->next` of a freed timer
  | laterLoopThis       -- tickit_evloop_invoke_timers: `later->fn` / `later->next` of a freed later
  | invokeWatchType     -- invoke_watch: `watch->type` after the callback freed the watch
  | invokeWatchWalk     -- invoke_watch: walk of the one-shot list reads a freed node
  | sigLoopThis         -- tickit_evloop_invoke_sigwatches: `this->signal.signum` / `this->next` of a freed watch
  | procLoopThis        -- on_sigchld: `this->next` / `this->process.pid` of a freed watch
  | destroyWalk         -- destroy_watchlist reads a freed node
  | nextTimerHead       -- tickit_evloop_next_timer_msec: `t->timers->timer.at` of a freed timer
  | doubleFree
deriving DecidableEq, Repr, Inhabited

inductive Status
  | ok
  | ub (why : Ub)
  | killed (sig : Int)     -- a signal with default action "terminate" reached the process
  | outOfFuel
deriving DecidableEq, Repr, Inhabited

inductive Info
  | none
  | io (fd : Int) (cond : Nat)
  | proc (pid : Int) (wstatus : Int)
deriving DecidableEq, Repr, Inhabited

/-- What the harness logs. -/
inductive Ev
  | g                                                   -- gettimeofday
  | poll (timeout : Option Int) (slots : List (Int × Nat)) (ret : Option Nat)   -- `ret = none`: -1/EINTR
  | cb (slot : Int) (flags : Nat) (info : Info)
  | skip (k : Int)
  | dup (k : Int)
  | a                                                   -- a callback starts its next action
  | hstop                                               -- the harness calls `tickit_stop` from inside the wait of a `run`
deriving DecidableEq, Repr, Inhabited

/-- Actions of a callback (and the top-level operations that do the same thing). -/
inductive Act
  | timer (k ms : Int) (flags : Nat)                    -- tickit_watch_timer_after_msec
  | timerAt (k sec usec : Int) (flags : Nat)            -- tickit_watch_timer_at_tv
  | later (k : Int) (flags : Nat)
  | io (k fd : Int) (cond flags : Nat)
  | signal (k sig : Int) (flags : Nat)
  | process (k pid : Int) (flags : Nat)
  | cancel (k : Int)
  | errno (v : Int)
  | raise (sig : Int)
  | exit (pid status : Int)
  | stop                                                -- tickit_stop
  | nop
deriving DecidableEq, Repr, Inhabited

structure Beh where
  k : Int
  n : Nat
  acts : List Act
deriving DecidableEq, Repr, Inhabited

/-- Variants of the source text (all `false`/unfixed values = the tree as shipped). -/
structure Config where
  /-- mask applied to `flags` in `tickit_watch_io` (shipped: `UNBIND|UNBIND` = 2; repaired: 6). -/
  ioFlagMask : Nat
  /-- `tickit_evloop_invoke_timers` unlinks a timer from `t->timers` before invoking it. -/
  timersPop : Bool
  /-- `evloop_run` reads `errno` right after `ppoll`, before any callback runs. -/
  errnoSaved : Bool
  /-- `evloop_init` empties `pending_signals`. -/
  pendingInit : Bool
  /-- `evloop_io` clears `revents` of the slot it hands out. -/
  reventsCleared : Bool
  /-- `invoke_watch` reads `watch->type` and `watch->t` before it calls the callback. -/
  invokeTypeSaved : Bool
  /-- `tickit_evloop_invoke_sigwatches` walks a snapshot of `t->signals` and skips entries no longer linked. -/
  sigSnapshot : Bool
  /-- `on_sigchld` walks a snapshot of `t->processes` and skips entries no longer linked. -/
  procSnapshot : Bool
  /-- `tickit_watch_cancel` of a deferred callback that is not in `t->laters` (its batch has been detached by the
      running iteration) notifies it and marks it `WATCH_NONE`; `tickit_evloop_invoke_timers` skips marked entries. -/
  laterCancelMarks : Bool := false
  /-- `tickit_watch_process` links the watch of an already exited child into `t->processes` like any other and
      remembers the deferred callback that will deliver it (`process.notify`); `tickit_watch_cancel` of the watch
      cancels that deferred callback; `process_notify` clears the pointer. -/
  processLinked : Bool := false
  /-- `on_sigpipe_readable` (the self-pipe signal fallback of tickit.c, Model/EvLoopFb.lean) hands every signal of
      its snapshot to `tickit_evloop_invoke_sigwatches` instead of walking `t->signals` itself. -/
  sigpipeViaInvoke : Bool := false
deriving DecidableEq, Repr, Inhabited

def Config.shipped : Config :=
  { ioFlagMask := 2, timersPop := false, errnoSaved := false, pendingInit := false, reventsCleared := false,
    invokeTypeSaved := false, sigSnapshot := false, procSnapshot := false }
def Config.repaired : Config :=
  { ioFlagMask := 6, timersPop := true, errnoSaved := true, pendingInit := true, reventsCleared := true,
    invokeTypeSaved := true, sigSnapshot := true, procSnapshot := true, laterCancelMarks := true,
    processLinked := true, sigpipeViaInvoke := true }

/-- One entry of `pollfds[]`/`pollwatches[]`.  `revents = none`: never written (uninitialised). -/
structure PollSlot where
  fd : Int
  events : Nat
  revents : Option Nat
  watch : Option Nat
deriving DecidableEq, Repr, Inhabited

/-- Where the file-scope `signal_observer` of evloop-default.c points, seen from the instance whose
    `struct Tickit`/`EventLoopData` the state describes: at this instance's loop, at the loop of another
    toplevel instance of the process, or nowhere (`NULL`). -/
inductive Observer | self | other | none
deriving DecidableEq, Repr, Inhabited

/-- The harness's table of watch slots. -/
structure SlotRec where
  k : Int
  handle : Nat
  fires : Nat
deriving DecidableEq, Repr, Inhabited

structure Proc where
  pid : Int
  exited : Bool
  reaped : Bool
  status : Int
deriving DecidableEq, Repr, Inhabited

structure St where
  cfg : Config
  status : Status := .ok
  heap : List Watch := []
  -- struct Tickit
  alive : Bool := false
  iow : List Nat := []
  timers : List Nat := []
  laters : List Nat := []
  signals : List Nat := []
  procs : List Nat := []
  sigchldwatch : Option Nat := none
  -- EventLoopData
  pfd : List PollSlot := []          -- `nfds` = length
  signums : List Int := []           -- `nsignals` = length
  watched : List Int := []           -- watched_signals
  pendingSig : List Int := []        -- pending_signals (members among 1 … NSIG-1)
  /-- `signal_observer` (file scope of evloop-default.c), relative to this instance -/
  observer : Observer := .self
  /-- `signal_observer->pending_signals` when the observer is another instance's loop (Model/EvLoopMulti.lean) -/
  otherPending : List Int := []
  -- process / kernel
  blocked : List Int := []
  handled : List Int := []
  kpending : List Int := []
  /-- `EventLoopData.still_running` -/
  stillRunning : Bool := false
  /-- the harness is inside `tickit_run`, and how often its `ppoll` has been called there -/
  inRun : Bool := false
  runPolls : Nat := 0
  errno : Int := 0
  clockUs : Int := 1000000000
  ready : List (Int × Nat) := []
  inpoll : List Int := []
  children : List Proc := []
  -- harness
  slots : List SlotRec := []
  /-- ghost: the slot numbers the history has called `tickit_watch_cancel` for (nothing reads it; Props/C17) -/
  cancelReq : List Int := []
  behs : List Beh := []
  log : List Ev := []                -- events of the current operation, newest first
  /-- the self-pipe of tickit.c's signal fallback (Model/EvLoopFb.lean; unused with the default hooks):
      bytes written to `t->signal.pipefds[1]` and not yet read, and `t->signal.pipewatch` -/
  pipeBytes : Nat := 0
  pipewatch : Option Nat := none
  /-- pipes the library has made in this process (the harness numbers their descriptors 90+2n / 91+2n) -/
  pipesMade : Nat := 0
deriving Repr, Inhabited

namespace St

@[inline] def isOk (st : St) : Bool := st.status == .ok
def fail (st : St) (why : Ub) : St := if st.isOk then { st with status := .ub why } else st
def emit (st : St) (e : Ev) : St := { st with log := e :: st.log }

/-- Address is allocated and not freed. -/
def live (st : St) (a : Nat) : Bool :=
  match st.heap[a]? with
  | some w => !w.freed
  | none => false

def getW (st : St) (a : Nat) : Watch := st.heap.getD a default

def setW (st : St) (a : Nat) (w : Watch) : St := { st with heap := st.heap.set a w }

def alloc (st : St) (w : Watch) : St × Nat := ({ st with heap := st.heap ++ [w] }, st.heap.length)

def free (st : St) (a : Nat) : St :=
  if st.live a then st.setW a { st.getW a with freed := true } else st.fail .doubleFree

def allLive (st : St) (l : List Nat) : Bool := l.all st.live

end St

/-- Element following the first occurrence of `a`. -/
def succOf (a : Nat) : List Nat → Option Nat
  | [] => none
  | x :: rest => if x = a then rest.head? else succOf a rest

/-- Suffix starting at the first occurrence of `a` (`[]` for `none` or when absent):
    what `head = a` denotes when `a` is a node of the list. -/
def suffixFrom (a : Option Nat) (l : List Nat) : List Nat :=
  match a with
  | none => []
  | some x => l.dropWhile (· ≠ x)

def setInsert (s : Int) (l : List Int) : List Int := if l.contains s then l else s :: l
def setErase (s : Int) (l : List Int) : List Int := l.filter (· ≠ s)

/-! ### the kernel's signal semantics (hypothesis `OsPpoll` of C18, implemented by the harness) -/

/-- `sighandler` (evloop-default.c 52–57): `if(signal_observer) sigaddset(&signal_observer->pending_signals, signum);` -/
def sigRecord (st : St) (s : Int) : St :=
  match st.observer with
  | .self => { st with pendingSig := setInsert s st.pendingSig }
  | .other => { st with otherPending := setInsert s st.otherPending }
  | .none => st

/-- `raise(s)` while the process runs (outside `ppoll`): blocked → stays pending; otherwise a handler
    (the loop's `sighandler`) or the default action runs. -/
def raiseSig (st : St) (s : Int) : St :=
  if !st.isOk then st
  else if st.blocked.contains s then { st with kpending := setInsert s st.kpending }
  else if st.handled.contains s then sigRecord st s
  else if sigTerminates s then { st with status := .killed s }
  else st

/-! ### evloop-default.c: slot tables -/

/-- `cond → events` of `evloop_io` (lines 232–239). -/
def eventsOfCond (cond : Nat) : Nat :=
  (if cond &&& IO_IN ≠ 0 then POLLIN else 0) |||
  (if cond &&& IO_OUT ≠ 0 then POLLOUT else 0) |||
  (if cond &&& IO_HUP ≠ 0 then POLLHUP else 0)

/-- `revents → cond` of `evloop_run` (lines 171–181). -/
def condOfRevents (revents : Nat) : Nat :=
  (if revents &&& POLLIN ≠ 0 then IO_IN else 0) |||
  (if revents &&& POLLOUT ≠ 0 then IO_OUT else 0) |||
  (if revents &&& POLLHUP ≠ 0 then IO_HUP else 0) |||
  (if revents &&& POLLERR ≠ 0 then IO_ERR else 0) |||
  (if revents &&& POLLNVAL ≠ 0 then IO_INVAL else 0)

/-- First index whose `fd == -1`. -/
def findFreeSlot : List PollSlot → Nat → Option Nat
  | [], _ => none
  | s :: rest, i => if s.fd = -1 then some i else findFreeSlot rest (i + 1)

/-- `evloop_io`: returns the slot index. -/
def evloopIo (st : St) (fd : Int) (cond : Nat) (watch : Nat) : St × Nat :=
  match findFreeSlot st.pfd 0 with
  | some idx =>
    let old := st.pfd.getD idx default
    let s : PollSlot := { fd := fd, events := eventsOfCond cond,
                          revents := if st.cfg.reventsCleared then some 0 else old.revents, watch := some watch }
    ({ st with pfd := st.pfd.set idx s }, idx)
  | none =>
    let s : PollSlot := { fd := fd, events := eventsOfCond cond,
                          revents := if st.cfg.reventsCleared then some 0 else none, watch := some watch }
    ({ st with pfd := st.pfd ++ [s] }, st.pfd.length)

/-- `evloop_cancel_io`. -/
def evloopCancelIo (st : St) (idx : Nat) : St :=
  let old := st.pfd.getD idx default
  { st with pfd := st.pfd.set idx { old with fd := -1, watch := none } }

def findZero : List Int → Nat → Option Nat
  | [], _ => none
  | s :: rest, i => if s = 0 then some i else findZero rest (i + 1)

/-- `evloop_signal`: returns the slot index. -/
def evloopSignal (st : St) (signum : Int) : St × Nat :=
  let idx := (findZero st.signums 0).getD st.signums.length
  let st := { st with signums := if idx < st.signums.length then st.signums.set idx signum else st.signums ++ [signum] }
  if st.watched.contains signum then (st, idx)
  else
    ({ st with blocked := setInsert signum st.blocked,
               handled := setInsert signum st.handled,
               watched := setInsert signum st.watched }, idx)

/-- `evloop_cancel_signal`. -/
def evloopCancelSignal (st : St) (idx : Nat) : St :=
  let signum := st.signums.getD idx 0
  let st := { st with signums := st.signums.set idx 0 }
  if st.signums.contains signum then st
  else
    -- sigdelset; sigaction(SIG_DFL): a pending signal whose default action is "ignore" is discarded;
    -- sigprocmask(SIG_UNBLOCK): a pending one whose default action is "terminate" is delivered
    let st := { st with watched := setErase signum st.watched, handled := setErase signum st.handled,
                        blocked := setErase signum st.blocked }
    if st.kpending.contains signum then
      let st := { st with kpending := setErase signum st.kpending }
      if sigTerminates signum then { st with status := .killed signum } else st
    else st

/-! ### tickit.c: constructors -/

/-- `insert_watch`: the walk to the tail reads `->next` of every node. -/
def insertWatch (st : St) (l : List Nat) (flags : Nat) (new : Nat) : St × List Nat :=
  if flags &&& BIND_FIRST ≠ 0 then (st, new :: l)
  else if st.allLive l then (st, l ++ [new])
  else (st.fail .insertWalk, l)

/-- The sorted insert of `tickit_watch_timer_at_tv` (lines 513–519); `none` = a freed node was read. -/
def insTimer (st : St) (new : Nat) (due : TV) : List Nat → Option (List Nat)
  | [] => some [new]
  | a :: rest =>
    if !st.live a then none
    else if (st.getW a).due.gt due then some (new :: a :: rest)
    else (insTimer st new due rest).map (a :: ·)

/-- `tickit_watch_timer_at_tv`. -/
def watchTimerAt (st : St) (due : TV) (flags : Nat) (slot : Int) : St × Nat :=
  let a := st.heap.length
  let st := (st.alloc { type := .timer, flags := flags &&& (BIND_UNBIND ||| BIND_DESTROY), slot := slot, due := due }).1
  match insTimer st a due st.timers with
  | some l => ({ st with timers := l }, a)
  | none => (st.fail .timerInsertWalk, a)

/-- `tickit_watch_timer_after_msec` (`msec ≥ 0`). -/
def watchTimerAfterMsec (st : St) (msec : Int) (flags : Nat) (slot : Int) : St × Nat :=
  let st := st.emit .g
  let now := TV.ofUs st.clockUs
  let after : TV := ⟨msec / 1000, (msec % 1000) * 1000⟩
  watchTimerAt st (now.add after) flags slot

/-- `tickit_watch_later`. -/
def watchLater (st : St) (flags : Nat) (slot : Int) (puser : Nat := 0) : St × Nat :=
  let a := st.heap.length
  let st := (st.alloc { type := .later, flags := flags &&& (BIND_UNBIND ||| BIND_DESTROY), slot := slot, puser := puser }).1
  let r := insertWatch st st.laters flags a
  ({ r.1 with laters := r.2 }, a)

/-- `tickit_watch_io`. -/
def watchIo (st : St) (fd : Int) (cond flags : Nat) (slot : Int) : St × Nat :=
  let a := st.heap.length
  let st := (st.alloc { type := .io, flags := flags &&& st.cfg.ioFlagMask, slot := slot, fd := fd, cond := cond }).1
  let r := evloopIo st fd cond a
  let st := r.1.setW a { r.1.getW a with evi := r.2 }
  let r := insertWatch st st.iow flags a
  ({ r.1 with iow := r.2 }, a)

/-- `tickit_watch_signal` up to the call of the `signal` hook: allocate, fill in, `evloop_signal`
    (the default loop supplies the hook, so the self-pipe fallback `watch_signal` is never used). -/
def watchSignalPre (st : St) (signum : Int) (flags : Nat) (slot : Int) : St :=
  (evloopSignal (st.alloc { type := .signal, flags := flags &&& (BIND_UNBIND ||| BIND_DESTROY), slot := slot, signum := signum }).1 signum).1.setW
    st.heap.length
    { (evloopSignal (st.alloc { type := .signal, flags := flags &&& (BIND_UNBIND ||| BIND_DESTROY), slot := slot, signum := signum }).1 signum).1.getW st.heap.length with
      evi := (evloopSignal (st.alloc { type := .signal, flags := flags &&& (BIND_UNBIND ||| BIND_DESTROY), slot := slot, signum := signum }).1 signum).2 }

/-- `tickit_watch_signal`: … and `insert_watch(&t->signals, flags, watch)`. -/
def watchSignal (st : St) (signum : Int) (flags : Nat) (slot : Int) : St × Nat :=
  ({ (insertWatch (watchSignalPre st signum flags slot) (watchSignalPre st signum flags slot).signals flags st.heap.length).1 with
     signals := (insertWatch (watchSignalPre st signum flags slot) (watchSignalPre st signum flags slot).signals flags st.heap.length).2 },
   st.heap.length)

/-- The harness's `waitpid(pid, &wstatus, WNOHANG)`: `(st', ret, wstatus)`. -/
structure WaitRes where
  st : St
  ret : Int
  wstatus : Int

def waitpid (st : St) (pid : Int) : WaitRes :=
  match st.children.find? (·.pid = pid) with
  | some c =>
    if c.reaped then ⟨{ st with errno := ECHILD }, -1, 0⟩
    else if !c.exited then ⟨st, 0, 0⟩
    else ⟨{ st with children := st.children.map fun d => if d.pid = pid then { d with reaped := true } else d }, pid, c.status⟩
  | none => ⟨st, 0, 0⟩

/-- `if(!t->sigchldwatch) t->sigchldwatch = tickit_watch_signal(t, SIGCHLD, 0, &on_sigchld, NULL);` -/
def ensureSigchld (st : St) : St :=
  match st.sigchldwatch with
  | some _ => st
  | none => { (watchSignal st SIGCHLD 0 (-3)).1 with sigchldwatch := some (watchSignal st SIGCHLD 0 (-3)).2 }

/-- `watch->process.notify = n;` -/
def setNotify (st : St) (a : Nat) (n : Option Nat) : St := st.setW a { st.getW a with notify := n }

/-- Repaired `tickit_watch_process` for a child that has already exited, after `tickit_watch_later` returned
    (`r` = state and handle): `watch->process.notify = <the later>; insert_watch(&t->processes, flags, watch);` -/
def linkNotified (r : St × Nat) (a : Nat) (flags : Nat) : St :=
  { (insertWatch (setNotify r.1 a (some r.2)) (setNotify r.1 a (some r.2)).procs flags a).1 with
    procs := (insertWatch (setNotify r.1 a (some r.2)) (setNotify r.1 a (some r.2)).procs flags a).2 }

/-- The tail of `tickit_watch_process` (lines 685–698): a child that has already exited is handed to a
    `later` and the watch is *not* linked into `t->processes`. -/
def linkProcess (st : St) (a : Nat) (pid : Int) (flags : Nat) : St :=
  let r := waitpid st pid
  if r.ret > 0 then
    if st.cfg.processLinked then linkNotified (watchLater (r.st.setW a { r.st.getW a with wstatus := r.wstatus }) 0 (-4) a) a flags
    else (watchLater (r.st.setW a { r.st.getW a with wstatus := r.wstatus }) 0 (-4) a).1
  else { (insertWatch r.st r.st.procs flags a).1 with procs := (insertWatch r.st r.st.procs flags a).2 }

/-- `tickit_watch_process` (the default loop has no `process` hook). -/
def watchProcess (st : St) (pid : Int) (flags : Nat) (slot : Int) : St × Nat :=
  (linkProcess (ensureSigchld (st.alloc { type := .process, flags := flags &&& (BIND_UNBIND ||| BIND_DESTROY), slot := slot, pid := pid }).1)
     st.heap.length pid flags, st.heap.length)

/-! ### tickit.c: cancel -/

/-- A passive notification `(*watch->fn)(t, flags, NULL, user)` (unbind / destroy). -/
def notify (st : St) (a : Nat) (flags : Nat) : St :=
  let w := st.getW a
  if w.slot ≥ 0 then st.emit (.cb w.slot flags .none) else st

def listOf (st : St) : WType → List Nat
  | .io => st.iow | .timer => st.timers | .later => st.laters | .signal => st.signals | .process => st.procs
  | .none => []

def setListOf (st : St) (t : WType) (l : List Nat) : St :=
  match t with
  | .io => { st with iow := l } | .timer => { st with timers := l } | .later => { st with laters := l }
  | .signal => { st with signals := l } | .process => { st with procs := l } | .none => st

/-- The `switch(this->type)` of `tickit_watch_cancel` / the `cancelfunc` of `destroy_watchlist`: the
    default loop has hooks for io and signal watches only. -/
def cancelHook (st : St) (t : WType) (evi : Nat) : St :=
  match t with
  | .io => evloopCancelIo st evi
  | .signal => evloopCancelSignal st evi
  | _ => st

/-- `if(this->flags & TICKIT_BIND_UNBIND) (*this->fn)(t, TICKIT_EV_UNBIND, NULL, this->user);` -/
def cancelNotify (st : St) (a : Nat) (w : Watch) : St :=
  if w.flags &&& BIND_UNBIND ≠ 0 then notify st a EV_UNBIND else st

/-- After the watch was found and freed the loop of `tickit_watch_cancel` keeps walking the rest of the list. -/
def cancelRest (st : St) (rest : List Nat) : St :=
  if !st.isOk then st
  else if !st.allLive rest then st.fail .cancelWalk
  else st

/-- `tickit_watch_cancel` once the watch `a` (contents `w`) has been found in its list `l`: unlink,
    notify, hook, free — and then the loop keeps walking. -/
def cancelFound (st : St) (a : Nat) (w : Watch) (l : List Nat) : St :=
  cancelRest ((cancelHook (cancelNotify (setListOf st w.type (l.erase a)) a w) w.type w.evi).free a)
    ((l.dropWhile (· ≠ a)).drop 1)

/-- The repaired tail of `tickit_watch_cancel`: a deferred callback that was not found in `t->laters` belongs to the
    batch the running iteration has detached; the loop still owns it.
    `if(watch->flags & UNBIND) (*watch->fn)(t, UNBIND, …); watch->type = WATCH_NONE;` -/
def cancelDetached (st : St) (a : Nat) : St :=
  (cancelNotify st a (st.getW a)).setW a { (cancelNotify st a (st.getW a)).getW a with type := .none }

/-- `tickit_watch_cancel` (lines 701–770).  The loop reads `->next` of every node of the list the
    watch's type selects (also after it has found the watch). -/
def watchCancel0 (st : St) (a : Nat) : St :=
  if !st.isOk then st
  else if !st.live a then st.fail .cancelType
  else if (st.getW a).type = .none then st
  else if !st.allLive ((listOf st (st.getW a).type).takeWhile (· ≠ a)) then st.fail .cancelWalk
  else if !(listOf st (st.getW a).type).contains a then
    (if st.cfg.laterCancelMarks = true ∧ (st.getW a).type = .later then cancelDetached st a else st)
  else cancelFound st a (st.getW a) (listOf st (st.getW a).type)

/-- Will `tickit_watch_cancel` find `a` — a process watch — in `t->processes`? -/
def cancelFindsProcess (st : St) (a : Nat) : Bool :=
  st.isOk && st.live a && (st.getW a).type == .process && st.procs.contains a

/-- `tickit_watch_cancel`.  `watchCancel0` is the function for every watch; repaired, a process watch found in
    `t->processes` whose child had already exited (`process.notify` set) also cancels the deferred callback that
    would deliver it: `if(this->process.notify) tickit_watch_cancel(t, this->process.notify);` — in the C text
    between the hook and `free(this)`; it touches only `t->laters` and that deferred callback (which asked for no
    notification), so the model performs it after the rest. -/
def watchCancel (st : St) (a : Nat) : St :=
  if st.cfg.processLinked = true ∧ cancelFindsProcess st a = true then
    match (st.getW a).notify with
    | some l => watchCancel0 (watchCancel0 st a) l
    | none => watchCancel0 st a
  else watchCancel0 st a

/-! ### the harness's callback: behaviour tables -/

def findSlot (st : St) (k : Int) : Option SlotRec := st.slots.find? (·.k = k)

def doRegister (st : St) (k : Int) (reg : St → St × Nat) : St :=
  if k < 0 || k ≥ MAXW then st.emit (.skip k)
  else match findSlot st k with
    | some _ => st.emit (.dup k)
    | none =>
      let r := reg st
      { r.1 with slots := r.1.slots ++ [{ k := k, handle := r.2, fires := 0 }] }

def doCancel (st : St) (k : Int) : St :=
  match findSlot st k with
  | none => st.emit (.skip k)
  | some r => watchCancel { st with cancelReq := k :: st.cancelReq } r.handle

def validSig (s : Int) : Bool := SIGS.contains s
def validPid (p : Int) : Bool := PID0 ≤ p && p < PID0 + NPID

/-- One action; `inCb`: inside a callback (where the harness restores `errno` around its own bookkeeping,
    so only `E` and a failing `waitpid` inside the library change it). -/
def runAct (st : St) (act : Act) : St :=
  if !st.isOk then st else
  match act with
  | .timer k ms flags => if ms ≥ 0 then doRegister st k (fun s => watchTimerAfterMsec s ms flags k) else st
  | .timerAt k sec usec flags => if usec ≥ 0 then doRegister st k (fun s => watchTimerAt s ⟨sec, usec⟩ flags k) else st
  | .later k flags => doRegister st k (fun s => watchLater s flags k)
  | .io k fd cond flags => doRegister st k (fun s => watchIo s fd cond flags k)
  | .signal k sig flags => if validSig sig then doRegister st k (fun s => watchSignal s sig flags k) else st
  | .process k pid flags => if validPid pid then doRegister st k (fun s => watchProcess s pid flags k) else st
  | .cancel k => doCancel st k
  | .errno v => { st with errno := v }
  | .raise s => if validSig s then raiseSig st s else st
  | .exit pid status =>
    if validPid pid then
      if st.children.any (·.pid = pid) then st      -- a child exits once
      else { st with children := st.children ++ [{ pid := pid, exited := true, reaped := false, status := status }] }
    else st
  | .stop => { st with stillRunning := false }
  | .nop => st

/-- `(*watch->fn)(t, flags, info, user)` with `FIRE` set, for the harness's callback of slot `k`. -/
def fireUser (st : St) (k : Int) (flags : Nat) (info : Info) : St :=
  let st := st.emit (.cb k flags info)
  match findSlot st k with
  | none => st
  | some r =>
    let st := { st with slots := st.slots.map fun (s : SlotRec) => if s.k = k then { s with fires := s.fires + 1 } else s }
    match st.behs.find? (fun (b : Beh) => b.k = k && b.n = r.fires) with
    | none => st
    | some b => b.acts.foldl (fun st act => if st.isOk then runAct (st.emit .a) act else st) st

/-! ### tickit.c: invoke_watch, process watches -/

def isChild (st : St) (pid : Int) : Bool := validPid pid && st.children.any (·.pid = pid)

/-- The tail of `invoke_watch` (lines 301–332): a one-shot watch (timer, later, process) is searched in
    its list, unlinked and freed; nothing happens when it is not found. -/
def unlinkOneshot (st : St) (a : Nat) : St :=
  if !st.live a then st.fail .invokeWatchType
  else if (st.getW a).type = .none || (st.getW a).type = .io || (st.getW a).type = .signal then st
  else if !st.allLive ((listOf st (st.getW a).type).takeWhile (· ≠ a)) then st.fail .invokeWatchWalk
  else if !(listOf st (st.getW a).type).contains a then st
  else
    ((setListOf st (st.getW a).type ((listOf st (st.getW a).type).erase a)).setW a { st.getW a with type := .none }).free a

/-- The same with the type `t` read *before* the callback (the repaired `invoke_watch`): the watch itself is
    not touched unless it is found in its list, where it is live. -/
def unlinkOneshotSaved (st : St) (a : Nat) (t : WType) : St :=
  if t = .none || t = .io || t = .signal then st
  else if !st.allLive ((listOf st t).takeWhile (· ≠ a)) then st.fail .invokeWatchWalk
  else if !(listOf st t).contains a then st
  else ((setListOf st t ((listOf st t).erase a)).setW a { st.getW a with type := .none }).free a

/-- `invoke_watch` for a watch whose callback is the harness's (lines 297–333). -/
def invokeWatch (st : St) (a : Nat) (flags : Nat) (info : Info) : St :=
  if !st.isOk then st
  else if !st.live a then st.fail .invokeWatchType
  else if !(if (st.getW a).slot ≥ 0 then fireUser st (st.getW a).slot flags info else st).isOk then
    (if (st.getW a).slot ≥ 0 then fireUser st (st.getW a).slot flags info else st)
  else if st.cfg.invokeTypeSaved then
    unlinkOneshotSaved (if (st.getW a).slot ≥ 0 then fireUser st (st.getW a).slot flags info else st) a (st.getW a).type
  else unlinkOneshot (if (st.getW a).slot ≥ 0 then fireUser st (st.getW a).slot flags info else st) a

/-- The harness's `waitpid` knows only its virtual children. -/
def waitpidV (st : St) (pid : Int) : WaitRes := if validPid pid then waitpid st pid else ⟨st, 0, 0⟩

/-- Body of the loop of `on_sigchld` for one process watch: `waitpid(pid, &wstatus, WNOHANG)`, and the
    watch is invoked when the child has exited. -/
def procStep (st : St) (a : Nat) : St :=
  if (waitpidV st (st.getW a).pid).ret ≤ 0 then (waitpidV st (st.getW a).pid).st
  else invokeWatch (waitpidV st (st.getW a).pid).st a EV_FIRE (.proc (st.getW a).pid (waitpidV st (st.getW a).pid).wstatus)

/-- `on_sigchld` (lines 639–653): `next` is read before the callback runs. -/
def onSigchld (fuel : Nat) (st : St) (this : Option Nat) : St :=
  match fuel with
  | 0 => if st.isOk then { st with status := .outOfFuel } else st
  | fuel + 1 =>
    if !st.isOk then st else
    match this with
    | none => st
    | some a =>
      if !st.live a then st.fail .procLoopThis
      else onSigchld fuel (procStep st a) (succOf a st.procs)

/-- The repaired `on_sigchld`: a snapshot of `t->processes` is walked; an entry is used only if
    `watch_is_linked` still finds it (pointer comparisons; the walk reads `->next` of the nodes before it). -/
def procSnapLoop (st : St) : List Nat → St
  | [] => st
  | a :: rest =>
    if !st.isOk then st
    else if !st.allLive (st.procs.takeWhile (· ≠ a)) then st.fail .procLoopThis
    else if !st.procs.contains a then procSnapLoop st rest
    else if !st.live a then st.fail .procLoopThis
    else procSnapLoop (procStep st a) rest

/-- `on_sigchld` in the variant the source has. -/
def onSigchldAny (fuel : Nat) (st : St) : St :=
  if st.cfg.procSnapshot then
    (if !st.allLive st.procs then st.fail .procLoopThis else procSnapLoop st st.procs)
  else onSigchld fuel st st.procs.head?

/-- Repaired `process_notify`: `watch->process.notify = NULL;` -/
def clearNotify (st : St) (a : Nat) : St :=
  if st.cfg.processLinked then setNotify st a none else st

/-- `process_notify` (lines 655–662), the callback of the internal `later` of a pre-exited child. -/
def processNotify (st : St) (later : Nat) : St :=
  if !st.live (st.getW later).puser then st.fail .invokeWatchType
  else invokeWatch (clearNotify st (st.getW later).puser) (st.getW later).puser EV_FIRE
         (.proc (st.getW (st.getW later).puser).pid (st.getW (st.getW later).puser).wstatus)

/-! ### tickit.c: tickit_evloop_next_timer_msec, tickit_evloop_invoke_timers -/

/-- C `/` on `long`: truncation toward zero. -/
def tdiv (a b : Int) : Int := Int.tdiv a b

/-- `timersub(&t->timers->timer.at, &now, &delay); msec = delay.tv_sec*1000 + delay.tv_usec/1000; if(msec < 0) msec = 0;` -/
def msecUntil (st : St) (a : Nat) : Int :=
  let delay := (st.getW a).due.sub (TV.ofUs st.clockUs)
  let msec := delay.sec * 1000 + tdiv delay.usec 1000
  if msec < 0 then 0 else msec

/-- `tickit_evloop_next_timer_msec`. -/
def nextTimerMsec (st : St) : St × Int :=
  if !st.laters.isEmpty then (st, 0)
  else match st.timers with
    | [] => (st, -1)
    | a :: _ =>
      if !st.live a then ((st.emit .g).fail .nextTimerHead, 0)
      else (st.emit .g, msecUntil st a)

/-- One timer callback performed by `tickit_evloop_invoke_timers`: which watch, and its deadline.
    The timer loops return the list of these next to the state; nothing in the model or the driver
    reads it — it is what the theorems of C17 talk about. -/
structure Fired where
  a : Nat
  slot : Int
  due : TV
deriving DecidableEq, Repr, Inhabited

/-- The `while(this)` loop of `tickit_evloop_invoke_timers` as shipped (lines 807–818): `t->timers`
    keeps pointing at the original head while callbacks run; `this->next` is read after the callback.
    Returns the state, the final `this`, and the timers invoked. -/
def timerLoopT (fuel : Nat) (st : St) (now : TV) (this : Option Nat) : St × Option Nat × List Fired :=
  match fuel with
  | 0 => (if st.isOk then { st with status := .outOfFuel } else st, this, [])
  | fuel + 1 =>
    if !st.isOk then (st, this, []) else
    match this with
    | none => (st, none, [])
    | some a =>
      if !st.live a then (st.fail .timerLoopThis, this, [])
      else if (st.getW a).due.gt now then (st, this, [])
      else
        let f : Fired := ⟨a, (st.getW a).slot, (st.getW a).due⟩
        let st1 := fireUser st (st.getW a).slot (EV_FIRE ||| EV_UNBIND) .none
        if !st1.isOk then (st1, this, [f])
        else if !st1.live a then (st1.fail .timerLoopThis, this, [f])
        else
          let r := timerLoopT fuel (st1.free a) now (succOf a st1.timers)
          (r.1, r.2.1, f :: r.2.2)

def timerLoop (fuel : Nat) (st : St) (now : TV) (this : Option Nat) : St × Option Nat :=
  ((timerLoopT fuel st now this).1, (timerLoopT fuel st now this).2.1)

/-- The repaired loop: unlink the head, then invoke it.  Returns the state and the timers invoked. -/
def timerLoopPopT (fuel : Nat) (st : St) (now : TV) : St × List Fired :=
  match fuel with
  | 0 => (if st.isOk then { st with status := .outOfFuel } else st, [])
  | fuel + 1 =>
    if !st.isOk then (st, []) else
    match st.timers with
    | [] => (st, [])
    | a :: rest =>
      if !st.live a then (st.fail .timerLoopThis, [])
      else if (st.getW a).due.gt now then (st, [])
      else
        let f : Fired := ⟨a, (st.getW a).slot, (st.getW a).due⟩
        let st1 := fireUser { st with timers := rest } (st.getW a).slot (EV_FIRE ||| EV_UNBIND) .none
        if !st1.isOk then (st1, [f])
        else if !st1.live a then (st1.fail .timerLoopThis, [f])
        else ((timerLoopPopT fuel (st1.free a) now).1, f :: (timerLoopPopT fuel (st1.free a) now).2)

def timerLoopPop (fuel : Nat) (st : St) (now : TV) : St := (timerLoopPopT fuel st now).1

/-- The `while(later)` loop over the detached queue (lines 823–829). -/
def laterCb (st : St) (a : Nat) : St :=
  if (st.getW a).slot ≥ 0 then fireUser st (st.getW a).slot (EV_FIRE ||| EV_UNBIND) .none
  else if (st.getW a).slot = -4 then processNotify st a
  else st

/-- The repaired loop, before it invokes an entry: `later->flags &= ~TICKIT_BIND_UNBIND;` (the invocation is the
    unbind notification: cancelling the entry from inside its own callback must not give it another one). -/
def laterPre (st : St) (a : Nat) : St :=
  if st.cfg.laterCancelMarks then st.setW a { st.getW a with flags := (st.getW a).flags - ((st.getW a).flags &&& BIND_UNBIND) }
  else st

/-- The `while(later)` loop over the detached queue (lines 823–829).  Returns the state and the deferred
    callbacks it invoked, in order (read only by the theorems of C17).  Repaired: an entry marked `WATCH_NONE`
    (cancelled by an earlier callback of this iteration) is freed without being invoked. -/
def laterLoopT (st : St) : List Nat → St × List Nat
  | [] => (st, [])
  | a :: rest =>
    if !st.isOk then (st, [])
    else if !st.live a then (st.fail .laterLoopThis, [])
    else if st.cfg.laterCancelMarks = true ∧ (st.getW a).type ≠ .later then laterLoopT (st.free a) rest
    else if !(laterCb (laterPre st a) a).isOk then (laterCb (laterPre st a) a, [a])
    else if !(laterCb (laterPre st a) a).live a then ((laterCb (laterPre st a) a).fail .laterLoopThis, [a])
    else ((laterLoopT ((laterCb (laterPre st a) a).free a) rest).1, a :: (laterLoopT ((laterCb (laterPre st a) a).free a) rest).2)

def laterLoop (st : St) (l : List Nat) : St := (laterLoopT st l).1

def timerPhaseShipped (fuel : Nat) (st : St) (now : TV) : St :=
  if (timerLoop fuel st now st.timers.head?).1.isOk then
    { (timerLoop fuel st now st.timers.head?).1 with
      timers := suffixFrom (timerLoop fuel st now st.timers.head?).2 (timerLoop fuel st now st.timers.head?).1.timers }
  else (timerLoop fuel st now st.timers.head?).1

/-- The `if(t->timers) { … }` block of `tickit_evloop_invoke_timers`. -/
def timerPhase (fuel : Nat) (st : St) : St :=
  if st.timers.isEmpty then st
  else if st.cfg.timersPop then timerLoopPop fuel (st.emit .g) (TV.ofUs st.clockUs)
  else timerPhaseShipped fuel (st.emit .g) (TV.ofUs st.clockUs)

def invokeTimers (fuel : Nat) (st : St) : St :=
  if !st.isOk then st
  else laterLoop (timerPhase fuel { st with laters := [] }) st.laters

/-! ### tickit.c: tickit_evloop_invoke_sigwatches;  evloop-default.c: dispatch_signals -/

/-- `if(this->signal.signum == signum) (*this->fn)(…)` for the three callbacks a signal watch can have. -/
def sigCb (fuel : Nat) (st : St) (a : Nat) (signum : Int) : St :=
  if (st.getW a).signum = signum then
    if (st.getW a).slot ≥ 0 then fireUser st (st.getW a).slot EV_FIRE .none
    else if (st.getW a).slot = -3 then onSigchldAny fuel st
    else if (st.getW a).slot = -5 then { st with stillRunning := false }    -- on_sigint: tickit_stop
    else st     -- on_sigwinch: the headless terminal has no output descriptor
  else st

/-- `tickit_evloop_invoke_sigwatches`: `this = this->next` is read after the callback.
    Returns the state and the watches the walk visited, in order (read only by the theorems of C18). -/
def sigwatchLoopT (fuel : Nat) (st : St) (signum : Int) (this : Option Nat) : St × List Nat :=
  match fuel with
  | 0 => (if st.isOk then { st with status := .outOfFuel } else st, [])
  | fuel + 1 =>
    if !st.isOk then (st, []) else
    match this with
    | none => (st, [])
    | some a =>
      if !st.live a then (st.fail .sigLoopThis, [])
      else if !(sigCb fuel st a signum).isOk then (sigCb fuel st a signum, [a])
      else if !(sigCb fuel st a signum).live a then ((sigCb fuel st a signum).fail .sigLoopThis, [a])
      else
        ((sigwatchLoopT fuel (sigCb fuel st a signum) signum (succOf a (sigCb fuel st a signum).signals)).1,
         a :: (sigwatchLoopT fuel (sigCb fuel st a signum) signum (succOf a (sigCb fuel st a signum).signals)).2)

def sigwatchLoop (fuel : Nat) (st : St) (signum : Int) (this : Option Nat) : St :=
  (sigwatchLoopT fuel st signum this).1

/-- The repaired `tickit_evloop_invoke_sigwatches`: a snapshot of `t->signals` is walked; an entry is used
    only if `watch_is_linked` still finds it.  Returns the state and the watches visited, in order. -/
def sigSnapLoopT (fuel : Nat) (st : St) (signum : Int) : List Nat → St × List Nat
  | [] => (st, [])
  | a :: rest =>
    if !st.isOk then (st, [])
    else if !st.allLive (st.signals.takeWhile (· ≠ a)) then (st.fail .sigLoopThis, [])
    else if !st.signals.contains a then sigSnapLoopT fuel st signum rest
    else if !st.live a then (st.fail .sigLoopThis, [])
    else ((sigSnapLoopT fuel (sigCb fuel st a signum) signum rest).1,
          a :: (sigSnapLoopT fuel (sigCb fuel st a signum) signum rest).2)

/-- The loop of the repaired walk with the body `if(this->signal.signum == signum) (*this->fn)(…)` abstracted as `cb`:
    `sigSnapLoopT fuel st signum l = sigSnapLoopG (fun st a => sigCb fuel st a signum) st l` (Proof/EvLoopSig.lean,
    `sigSnapLoopT_eq_G`).  Model/EvLoopFb.lean instantiates it with the callbacks of the self-pipe configuration, so
    that the theorems about the walk are proved once. -/
def sigSnapLoopG (cb : St → Nat → St) (st : St) : List Nat → St × List Nat
  | [] => (st, [])
  | a :: rest =>
    if !st.isOk then (st, [])
    else if !st.allLive (st.signals.takeWhile (· ≠ a)) then (st.fail .sigLoopThis, [])
    else if !st.signals.contains a then sigSnapLoopG cb st rest
    else if !st.live a then (st.fail .sigLoopThis, [])
    else ((sigSnapLoopG cb (cb st a) rest).1, a :: (sigSnapLoopG cb (cb st a) rest).2)

/-- `tickit_evloop_invoke_sigwatches` in the variant the source has. -/
def sigDispatch (fuel : Nat) (st : St) (signum : Int) : St :=
  if st.cfg.sigSnapshot then
    (if !st.allLive st.signals then st.fail .sigLoopThis else (sigSnapLoopT fuel st signum st.signals).1)
  else sigwatchLoop fuel st signum st.signals.head?

/-- The `for(signum = 1; signum < NSIG; signum++)` loop of `dispatch_signals`. -/
def dispatchLoop (fuel : Nat) (st : St) (pending : List Int) : List Int → St
  | [] => st
  | s :: rest =>
    dispatchLoop fuel
      (if st.isOk && pending.contains s && st.watched.contains s then sigDispatch fuel st s else st)
      pending rest

def signalRange : List Int := (List.range NSIG).tail.map Int.ofNat

/-- `dispatch_signals`. -/
def dispatchSignals (fuel : Nat) (st : St) : St :=
  dispatchLoop fuel { st with pendingSig := [] } st.pendingSig signalRange

/-! ### evloop-default.c: evloop_run, one iteration -/

def readyOf (st : St) (fd : Int) : Nat :=
  match st.ready.find? (·.1 = fd) with
  | some (_, b) => b
  | none => 0

/-- What the harness's `ppoll` writes into `revents` (the kernel reports only the requested events
    plus ERR, HUP and NVAL; a negative descriptor is ignored). -/
def pollRevents (st : St) (s : PollSlot) : Nat :=
  if FD0 ≤ s.fd && s.fd < FD0 + NFD then readyOf st s.fd &&& (s.events ||| POLLERR ||| POLLHUP ||| POLLNVAL) else 0

/-- Deliver every pending signal under the loop's (empty) mask: the handler records it in the loop
    `signal_observer` points at — which need not be the loop that waits. -/
def deliverPending (st : St) : St :=
  match st.observer with
  | .self => { st with pendingSig := st.kpending.foldl (fun acc s => setInsert s acc) st.pendingSig, kpending := [] }
  | .other => { st with otherPending := st.kpending.foldl (fun acc s => setInsert s acc) st.otherPending, kpending := [] }
  | .none => { st with kpending := [] }

/-- The kernel writes `revents` of every entry. -/
def pollScan (st : St) : St :=
  { st with pfd := st.pfd.map fun s => { s with revents := some (pollRevents st s) } }

/-- Number of entries with something to report. -/
def pollCount (st : St) : Nat := ((pollScan st).pfd.filter fun s => s.revents ≠ some 0).length

def pollSlots (st : St) : List (Int × Nat) := st.pfd.map fun s => (s.fd, s.events)

/-- Signals the harness raises from inside its `ppoll` (they are still blocked at that point). -/
def pollRaise (st : St) : St := st.inpoll.foldl raiseSig { st with inpoll := [] }

/-- A timeout elapses: the virtual clock advances. -/
def pollTimeout (st : St) (timeoutMs : Option Int) : St :=
  match timeoutMs with
  | some ms => { st with clockUs := st.clockUs + ms * 1000 }
  | none => st

/-- The harness's `ppoll` (hypothesis `OsPpoll`): ready descriptors are reported before signals are
    looked at; otherwise pending signals are delivered and the call fails with `EINTR`; otherwise it
    times out (advancing the virtual clock).  Returns `none` for -1/EINTR. -/
def ppoll (st : St) (timeoutMs : Option Int) : St × Option Nat :=
  if !(pollRaise (pollScan st)).isOk then (pollRaise (pollScan st), some 0)
  else if pollCount st > 0 then
    ((pollRaise (pollScan st)).emit (.poll timeoutMs (pollSlots st) (some (pollCount st))), some (pollCount st))
  else if !(pollRaise (pollScan st)).kpending.isEmpty then
    ({ deliverPending (pollRaise (pollScan st)) with errno := EINTR }.emit (.poll timeoutMs (pollSlots st) none), none)
  else
    ((pollTimeout (pollRaise (pollScan st)) timeoutMs).emit (.poll timeoutMs (pollSlots st) (some 0)), some 0)

/-- `revents` as the loop reads it: an entry that was never written is uninitialised memory. -/
def slotRevents (s : PollSlot) : Nat :=
  match s.revents with
  | some r => r
  | none => fillRevents

/-- `tickit_evloop_invoke_iowatch(evdata->pollwatches[idx], TICKIT_EV_FIRE, cond)`. -/
def ioCb (st : St) (s : PollSlot) : St :=
  match s.watch with
  | some a =>
    if !st.live a then st.fail .invokeWatchType
    else invokeWatch st a EV_FIRE (.io (st.getW a).fd (condOfRevents (slotRevents s)))
  | none => st

/-- The descriptor loop of `evloop_run` (lines 162–184); `nfds` is re-read on every iteration.  Returns the
    state and, for every `tickit_evloop_invoke_iowatch` it made, (index, watch, conditions) — read only by the
    theorems of C18. -/
def ioLoopT (fuel : Nat) (st : St) (idx : Nat) : St × List (Nat × Option Nat × Nat) :=
  match fuel with
  | 0 => (if st.isOk then { st with status := .outOfFuel } else st, [])
  | fuel + 1 =>
    if !st.isOk then (st, [])
    else if idx ≥ st.pfd.length then (st, [])
    else if (st.pfd.getD idx default).fd = -1 then ioLoopT fuel st (idx + 1)
    else if slotRevents (st.pfd.getD idx default) = 0 then ioLoopT fuel st (idx + 1)
    else
      ((ioLoopT fuel (ioCb st (st.pfd.getD idx default)) (idx + 1)).1,
       (idx, (st.pfd.getD idx default).watch, condOfRevents (slotRevents (st.pfd.getD idx default))) ::
         (ioLoopT fuel (ioCb st (st.pfd.getD idx default)) (idx + 1)).2)

def ioLoop (fuel : Nat) (st : St) (idx : Nat) : St := (ioLoopT fuel st idx).1

/-- `errno` as `evloop_run` looks at it when `ppoll` returned -1: `afterPoll` is the state right after
    the wait, `st` the state after `tickit_evloop_invoke_timers`. -/
def errnoSeen (afterPoll st : St) : Int := if afterPoll.cfg.errnoSaved then afterPoll.errno else st.errno

/-- `evloop_run` after the wait (lines 159–188): timers and deferred callbacks, then descriptors or signals. -/
def tickAfterPoll (fuel : Nat) (st : St) (ret : Option Nat) : St :=
  if !(invokeTimers fuel st).isOk then invokeTimers fuel st
  else match ret with
    | some n => if n > 0 then ioLoop fuel (invokeTimers fuel st) 0 else invokeTimers fuel st
    | none =>
      if errnoSeen st (invokeTimers fuel st) = EINTR then dispatchSignals fuel (invokeTimers fuel st)
      else invokeTimers fuel st

/-- The timeout `evloop_run` hands to `ppoll` (lines 142–154). -/
def tickTimeout (nohang : Bool) (msec : Int) : Option Int :=
  if (if nohang then 0 else msec) > -1 then some (if nohang then 0 else msec) else none

/-- One iteration of `evloop_run` under `tickit_tick`. -/
def tick (fuel : Nat) (st : St) (nohang : Bool) : St :=
  if !st.isOk then st
  else if !(nextTimerMsec st).1.isOk then (nextTimerMsec st).1
  else if !(ppoll (nextTimerMsec st).1 (tickTimeout nohang (nextTimerMsec st).2)).1.isOk then
    (ppoll (nextTimerMsec st).1 (tickTimeout nohang (nextTimerMsec st).2)).1
  else tickAfterPoll fuel (ppoll (nextTimerMsec st).1 (tickTimeout nohang (nextTimerMsec st).2)).1
         (ppoll (nextTimerMsec st).1 (tickTimeout nohang (nextTimerMsec st).2)).2

/-! ### tickit_run -/

/-- How many waits the harness lets one `tickit_run` make before it stops the loop itself. -/
def maxRunPolls : Nat := 50

/-- Inside `tickit_run` the harness's `ppoll` counts its calls and calls `tickit_stop` itself when the loop
    would block for ever (no timeout, nothing ready, no signal) or has made `maxRunPolls` waits. -/
def ppollRun (st : St) (timeoutMs : Option Int) : St × Option Nat :=
  if !(ppoll st timeoutMs).1.isOk then ppoll st timeoutMs
  else if (ppoll st timeoutMs).1.runPolls + 1 ≥ maxRunPolls || (timeoutMs = none && (ppoll st timeoutMs).2 = some 0) then
    (({ (ppoll st timeoutMs).1 with runPolls := (ppoll st timeoutMs).1.runPolls + 1, stillRunning := false }).emit .hstop,
     (ppoll st timeoutMs).2)
  else ({ (ppoll st timeoutMs).1 with runPolls := (ppoll st timeoutMs).1.runPolls + 1 }, (ppoll st timeoutMs).2)

/-- One iteration of the `while(evdata->still_running)` loop of `evloop_run` under `tickit_run`. -/
def runIter (fuel : Nat) (st : St) : St :=
  if !st.isOk then st
  else if !(nextTimerMsec st).1.isOk then (nextTimerMsec st).1
  else if !(ppollRun (nextTimerMsec st).1 (tickTimeout false (nextTimerMsec st).2)).1.isOk then
    (ppollRun (nextTimerMsec st).1 (tickTimeout false (nextTimerMsec st).2)).1
  else tickAfterPoll fuel (ppollRun (nextTimerMsec st).1 (tickTimeout false (nextTimerMsec st).2)).1
         (ppollRun (nextTimerMsec st).1 (tickTimeout false (nextTimerMsec st).2)).2

def runLoop (fuel : Nat) : Nat → St → St
  | 0, st => if st.isOk then { st with status := .outOfFuel } else st
  | n + 1, st =>
    if !st.isOk then st
    else if !st.stillRunning then st
    else runLoop fuel n (runIter fuel st)

/-- `tickit_run` (the terminal has been set up when the instance was built): watch SIGINT with
    `on_sigint` (= `tickit_stop`), loop until stopped, cancel that watch. -/
def run (fuel : Nat) (st : St) : St :=
  if !st.isOk then st
  else if !(runLoop fuel (maxRunPolls + 2)
        { (watchSignal st 2 0 (-5)).1 with stillRunning := true, inRun := true, runPolls := 0 }).isOk then
    runLoop fuel (maxRunPolls + 2) { (watchSignal st 2 0 (-5)).1 with stillRunning := true, inRun := true, runPolls := 0 }
  else
    watchCancel { (runLoop fuel (maxRunPolls + 2)
        { (watchSignal st 2 0 (-5)).1 with stillRunning := true, inRun := true, runPolls := 0 }) with inRun := false }
      (watchSignal st 2 0 (-5)).2

/-! ### tickit.c: construction and destruction -/

/-- `tickit_build` on a headless terminal with the default event loop: the terminal's input watch
    (descriptor -1!) and the SIGWINCH watch. -/
def build0 (cfg : Config) : St :=
  { cfg := cfg, alive := true,
    pendingSig := if cfg.pendingInit then [] else (signalRange.filter fillSigMember) }

def build (cfg : Config) : St :=
  { (watchSignal (watchIo (build0 cfg) (-1) IO_IN 0 (-1)).1 SIGWINCH 0 (-2)).1 with log := [] }

/-- `if(this->flags & (TICKIT_BIND_UNBIND|TICKIT_BIND_DESTROY)) (*this->fn)(this->t, TICKIT_EV_UNBIND|TICKIT_EV_DESTROY, NULL, this->user);` -/
def destroyNotify (st : St) (a : Nat) : St :=
  if (st.getW a).flags &&& (BIND_UNBIND ||| BIND_DESTROY) ≠ 0 then notify st a (EV_UNBIND ||| EV_DESTROY) else st

/-- `destroy_watchlist`. -/
def destroyList (st : St) (t : WType) : List Nat → St
  | [] => st
  | a :: rest =>
    if !st.isOk then st
    else if !st.live a then st.fail .destroyWalk
    else destroyList ((cancelHook (destroyNotify st a) t (st.getW a).evi).free a) t rest

/-- `if(t->LIST) destroy_watchlist(t, t->LIST, hook);` -/
def destroyOf (t : WType) (st : St) : St := destroyList st t (listOf st t)

/-- `if(t->sigchldwatch) tickit_watch_cancel(t, t->sigchldwatch);` -/
def cancelSigchld (st : St) : St :=
  match st.sigchldwatch with
  | some a => watchCancel st a
  | none => st

/-- `evloop_destroy` (lines 118–135): `if(signal_observer == evdata) signal_observer = NULL;` -/
def observerAfterDestroy : Observer → Observer
  | .self => .none
  | o => o

def destroyFinish (st : St) : St :=
  if st.isOk then { st with alive := false, iow := [], timers := [], laters := [], signals := [], procs := [],
                            observer := observerAfterDestroy st.observer } else st

/-- `tickit_destroy`. -/
def destroy (st : St) : St :=
  if !st.isOk then st
  else destroyFinish (destroyOf .process (destroyOf .signal (destroyOf .later (destroyOf .timer (destroyOf .io (cancelSigchld st))))))

/-- Blocks LeakSanitizer would report: allocated, not freed, and not reachable from the instance
    (its five lists, and the process watch an internal `later` carries as its `user`). -/
def leaked (st : St) : List Nat :=
  let roots := if st.alive then st.iow ++ st.timers ++ st.laters ++ st.signals ++ st.procs else []
  let carried := roots.filterMap fun a =>
    let w := st.getW a
    if w.type = .later && w.slot = -4 then some w.puser else none
  (List.range st.heap.length).filter fun a => st.live a && !roots.contains a && !carried.contains a

/-! ### operations of the harness -/

inductive Op
  | new (prop : Nat)          -- `new C17` / `new C18`: which property's clauses the specification evaluates (0 = all)
  | beh (b : Beh)
  | act (a : Act)
  | clock (us : Int)
  | ready (fd : Int) (bits : Nat)
  | inpoll (sig : Int)
  | tick
  | tickhang
  | run
  | destroy
  | finish
  | bad
deriving DecidableEq, Repr, Inhabited

/-- Fuel for the loops of one operation: every loop iteration either consumes a list element that
    existed before the operation or one registered by an action, and a history has fewer than this
    many of either. -/
def defaultFuel : Nat := 4096

def applyOp' (st : St) (op : Op) : St :=
  if !st.isOk then st else
  match op with
  | .new _ => st
  | .finish => st
  | .bad => st
  | _ =>
    if !st.alive then st else
    match op with
    | .beh b => { st with behs := st.behs ++ [b] }
    | .act a => runAct st a
    | .clock us => { st with clockUs := st.clockUs + us }
    | .ready fd bits => { st with ready := (fd, bits) :: st.ready.filter (·.1 ≠ fd) }
    | .inpoll s => { st with inpoll := st.inpoll ++ [s] }
    | .tick => tick defaultFuel { st with stillRunning := true } true
    | .tickhang => tick defaultFuel { st with stillRunning := true } false
    | .run => run defaultFuel st
    | .destroy => destroy st
    | _ => st

/-- One operation of the harness (`log` is reset first). -/
def applyOp (st : St) (op : Op) : St := applyOp' { st with log := [] } op

/-- A whole history. -/
def runOps (cfg : Config) (ops : List Op) : St := ops.foldl applyOp (build cfg)

end Tickit.EvLoop
