import Tickit.Gen.ModeLayout
import Tickit.Gen.XTermFacts
/-
  C12 — model of the terminal-mode life cycle.

  Part 1  the xterm driver's control interface (`src/termdriver-xterm.c`: `setctl_int`, `getctl_int`,
          `setctl_str`, `start`, `teardown` (= `stop` = `pause`), `resume`, `on_modereport`, `on_decrqss`,
          `chpen`), statement by statement, emitting bytes;
  Part 2  `src/term.c`: the UNSTARTED/STARTING/STARTED state machine, `tickit_term_teardown / pause /
          resume / destroy`, the cached pen of `tickit_term_setpen / chpen`;
  Part 3  `src/tickit.c`: `setupterm`, `tickit_tick`, `tickit_destroy`;
  Part 4  the specification side: a byte-level escape-sequence tokenizer and a VT *mode-state*
          interpreter (DESIGN.md Appendix C restricted to modes and SGR).

  C `int` is an unbounded `Int`; the driver's bit-fields are stored through `wrapU w` with the
  widths read from the struct definition (`Gen.ModeLayout`).  Bytes are `Nat`s.
  Core Lean only: this file is linked into the driver executable.
-/
namespace Tickit.Modes
open Tickit.Gen

abbrev Out := List Nat

/-! ### `%d` -/

/-- Decimal digits (ASCII) of `n`, most significant first; `fuel` bounds the number of digits. -/
def showNatAux : Nat → Nat → List Nat
  | 0, n => [48 + n % 10]
  | fuel + 1, n => if n < 10 then [48 + n] else showNatAux fuel (n / 10) ++ [48 + n % 10]

/-- Decimal digits of a natural number (`n` itself is fuel enough). -/
def showNat (n : Nat) : List Nat := showNatAux n n

/-- `printf("%d", i)`. -/
def showInt (i : Int) : List Nat :=
  if i < 0 then 45 :: showNat i.natAbs else showNat i.toNat

/-! ### which variant of the code is modelled -/

/-- The places where the working tree may or may not have been repaired; the extractor reads them
    from the source on every run (`Gen.ModeLayout`), the theorems are stated for every `Cfg`. -/
structure Cfg where
  /-- `setctl_int(KEYPAD_APP)` stores the value in `mode.keypad`. -/
  keypadRecorded : Bool
  /-- `tickit_term_resume` sends the cached pen again after the driver's resume. -/
  resumeResendsPen : Bool
  /-- `chpen` sends an underline style ≥ 2 as one parameter (21 for double, 4 otherwise) when the terminal
      does not understand `:` sub-parameters, instead of `4;<style>`. -/
  underStyleSafe : Bool
  /-- a value the program has set explicitly (cursor visibility, blink, shape) is no longer overwritten by
      a DECRPM / DECRQSS reply that arrives afterwards: `setctl_int` marks the field `initialised` and the
      reply handlers only fill in fields that are not. -/
  repliesGuarded : Bool
  /-- an RGB8 capability the program has forced through `xterm.cap_rgb8` is no longer overwritten by the
      terminal's SGR DECRQSS reply that arrives afterwards (`initialised.rgb8`). -/
  rgb8Guarded : Bool
deriving DecidableEq, Repr

/-- The variant the working tree has. -/
def Cfg.tree : Cfg :=
  { keypadRecorded := ModeLayout.keypadRecorded
    resumeResendsPen := ModeLayout.resumeResendsPen
    underStyleSafe := ModeLayout.underStyleSafe
    repliesGuarded := ModeLayout.repliesGuarded
    rgb8Guarded := ModeLayout.rgb8Guarded }

/-- The variant with all three repairs. -/
def Cfg.repaired : Cfg :=
  { keypadRecorded := true, resumeResendsPen := true, underStyleSafe := true, repliesGuarded := true, rgb8Guarded := true }

/-! ## Part 1 — the xterm driver -/

/-- Storing an `int` into an `unsigned : w` bit-field. -/
def wrapU (w : Nat) (v : Int) : Nat := (v % ((2 : Int) ^ w)).toNat

/-- `!!value`. -/
def bool01 (v : Int) : Int := if v = 0 then 0 else 1

/-- `XTermDriver.mode`. -/
structure Shadow where
  altscreen   : Nat := 0
  cursorvis   : Nat := 1
  cursorblink : Nat := 0
  cursorshape : Nat := 0
  mouse       : Nat := 0
  keypad      : Nat := 0
deriving DecidableEq, Repr

/-- `XTermDriver.cap`. -/
structure Caps where
  cursorshape : Nat := 0
  slrm        : Nat := 0
  csiSubColon : Nat := 0
  rgb8        : Nat := 0
deriving DecidableEq, Repr

/-- `XTermDriver.initialised`. -/
structure Inits where
  cursorvis   : Nat := 0
  cursorblink : Nat := 0
  cursorshape : Nat := 0
  slrm        : Nat := 0
  /-- only in a tree with the `rgb8Guarded` repair -/
  rgb8        : Nat := 0
deriving DecidableEq, Repr

/-- `struct XTermDriver` after `new()`. -/
structure XDrv where
  mode : Shadow := {}
  cap  : Caps := {}
  init : Inits := {}
deriving DecidableEq, Repr

/-- `xd->cap.rgb8` as a truth value. -/
def XDrv.rgbOn (d : XDrv) : Bool := decide (d.cap.rgb8 ≠ 0)

/-- The controls `setctl_int`/`getctl_int`/`setctl_str` distinguish; every other number is `none`. -/
inductive Ctl
  | altscreen | cursorvis | mouse | cursorblink | cursorshape | iconText | titleText | iconTitleText
  | keypadApp | colors | capCursorshape | capSlrm | capCsiSubColon | capRgb8
deriving DecidableEq, Repr

def Ctl.ofInt (n : Int) : Option Ctl :=
  if n = ModeLayout.ctl_altscreen then some .altscreen
  else if n = ModeLayout.ctl_cursorvis then some .cursorvis
  else if n = ModeLayout.ctl_mouse then some .mouse
  else if n = ModeLayout.ctl_cursorblink then some .cursorblink
  else if n = ModeLayout.ctl_cursorshape then some .cursorshape
  else if n = ModeLayout.ctl_icon_text then some .iconText
  else if n = ModeLayout.ctl_title_text then some .titleText
  else if n = ModeLayout.ctl_icontitle_text then some .iconTitleText
  else if n = ModeLayout.ctl_keypad_app then some .keypadApp
  else if n = ModeLayout.ctl_colors then some .colors
  else if n = ModeLayout.ctl_cap_cursorshape then some .capCursorshape
  else if n = ModeLayout.ctl_cap_slrm then some .capSlrm
  else if n = ModeLayout.ctl_cap_csi_sub_colon then some .capCsiSubColon
  else if n = ModeLayout.ctl_cap_rgb8 then some .capRgb8
  else none

/-- `mode_for_mouse`. -/
def modeForMouse (mode : Int) : Int :=
  if mode = 1 then 1000 else if mode = 2 then 1002 else if mode = 3 then 1003 else 0

/-! #### the byte strings (ESC = 27, `[` = 91, `?` = 63, `h` = 104, `l` = 108) -/

def altOn  : Out := [27, 91, 63, 49, 48, 52, 57, 104]   -- \e[?1049h
def altOff : Out := [27, 91, 63, 49, 48, 52, 57, 108]   -- \e[?1049l
def visOn  : Out := [27, 91, 63, 50, 53, 104]           -- \e[?25h
def visOff : Out := [27, 91, 63, 50, 53, 108]           -- \e[?25l
def blinkOn  : Out := [27, 91, 63, 49, 50, 104]         -- \e[?12h
def blinkOff : Out := [27, 91, 63, 49, 50, 108]         -- \e[?12l
def keypadOn  : Out := [27, 61]                         -- \e=
def keypadOff : Out := [27, 62]                         -- \e>
def sgrReset  : Out := [27, 91, 109]                    -- \e[m
def clearScreen : Out := [27, 91, 50, 74]               -- \e[2J
/-- `"\e[?%dh\e[?1006h"`. -/
def mouseOn (m : Int) : Out := [27, 91, 63] ++ showInt m ++ [104, 27, 91, 63, 49, 48, 48, 54, 104]
/-- `"\e[?%dl\e[?1006l"`. -/
def mouseOff (m : Int) : Out := [27, 91, 63] ++ showInt m ++ [108, 27, 91, 63, 49, 48, 48, 54, 108]
/-- `"\e[%d q"`. -/
def shapeSeq (n : Int) : Out := [27, 91] ++ showInt n ++ [32, 113]

/-- The bytes `start()` writes: `\e[?69h`, `\e[?69$p`, `\e[?25$p\e[?12$p\eP$q q\e\\`,
    `\e[38;5;255m\e[38:2:0:1:2m\eP$qm\e\\\e[m`, `\e[G\e[K`. -/
def startBytes : Out :=
  [27, 91, 63, 54, 57, 104] ++
  [27, 91, 63, 54, 57, 36, 112] ++
  [27, 91, 63, 50, 53, 36, 112, 27, 91, 63, 49, 50, 36, 112, 27, 80, 36, 113, 32, 113, 27, 92] ++
  [27, 91, 51, 56, 59, 53, 59, 50, 53, 53, 109, 27, 91, 51, 56, 58, 50, 58, 48, 58, 49, 58, 50, 109,
   27, 80, 36, 113, 109, 27, 92, 27, 91, 109] ++
  [27, 91, 71, 27, 91, 75]

/-- `setctl_int`: new driver state, bytes written, return value. -/
def setctlInt (cfg : Cfg) (d : XDrv) (ctl : Option Ctl) (value : Int) : XDrv × Out × Bool :=
  match ctl with
  | some .capRgb8 =>
    ({ d with cap := { d.cap with rgb8 := wrapU ModeLayout.w_cap_rgb8 (bool01 value) }
              init := { d.init with rgb8 := if cfg.rgb8Guarded then 1 else d.init.rgb8 } }, [], true)
  | some .altscreen =>
    if decide (d.mode.altscreen = 0) = decide (value = 0) then (d, [], true)
    else ({ d with mode := { d.mode with altscreen := wrapU ModeLayout.w_mode_altscreen (bool01 value) } },
          (if value ≠ 0 then altOn else altOff), true)
  | some .cursorvis =>
    if decide (d.mode.cursorvis = 0) = decide (value = 0) then (d, [], true)
    else ({ d with mode := { d.mode with cursorvis := wrapU ModeLayout.w_mode_cursorvis (bool01 value) }
                   init := { d.init with cursorvis := if cfg.repliesGuarded then wrapU ModeLayout.w_initialised_cursorvis 1 else d.init.cursorvis } },
          (if value ≠ 0 then visOn else visOff), true)
  | some .cursorblink =>
    if d.init.cursorblink ≠ 0 ∧ decide (d.mode.cursorblink = 0) = decide (value = 0) then (d, [], true)
    else ({ d with mode := { d.mode with cursorblink := wrapU ModeLayout.w_mode_cursorblink (bool01 value) }
                   init := { d.init with cursorblink := if cfg.repliesGuarded then wrapU ModeLayout.w_initialised_cursorblink 1 else d.init.cursorblink } },
          (if value ≠ 0 then blinkOn else blinkOff), true)
  | some .mouse =>
    if (d.mode.mouse : Int) = value then (d, [], true)
    else ({ d with mode := { d.mode with mouse := wrapU ModeLayout.w_mode_mouse value } },
          (if value = 0 then mouseOff (modeForMouse d.mode.mouse) else mouseOn (modeForMouse value)), true)
  | some .cursorshape =>
    if d.init.cursorshape ≠ 0 ∧ (d.mode.cursorshape : Int) = value then (d, [], true)
    else ({ d with mode := { d.mode with cursorshape := wrapU ModeLayout.w_mode_cursorshape value }
                   init := { d.init with cursorshape := if cfg.repliesGuarded then wrapU ModeLayout.w_initialised_cursorshape 1 else d.init.cursorshape } },
          (if d.cap.cursorshape ≠ 0 then shapeSeq (value * 2 + (if d.mode.cursorblink ≠ 0 then -1 else 0)) else []), true)
  | some .keypadApp =>
    if decide (d.mode.keypad = 0) = decide (value = 0) then (d, [], true)
    else ((if cfg.keypadRecorded then
             { d with mode := { d.mode with keypad := wrapU ModeLayout.w_mode_keypad (bool01 value) } } else d),
          (if value ≠ 0 then keypadOn else keypadOff), true)
  | _ => (d, [], false)

/-- `getctl_int`: `none` is the `false` return. -/
def getctlInt (d : XDrv) (ctl : Option Ctl) : Option Int :=
  match ctl with
  | some .capCursorshape => some d.cap.cursorshape
  | some .capSlrm => some d.cap.slrm
  | some .capCsiSubColon => some d.cap.csiSubColon
  | some .capRgb8 => some d.cap.rgb8
  | some .altscreen => some d.mode.altscreen
  | some .cursorvis => some d.mode.cursorvis
  | some .cursorblink => some d.mode.cursorblink
  | some .mouse => some d.mode.mouse
  | some .cursorshape => some d.mode.cursorshape
  | some .keypadApp => some d.mode.keypad
  | some .colors => some (if d.cap.rgb8 ≠ 0 then 16777216 else 256)
  | _ => none

/-- `setctl_str`: `"\e]1;%s\e\\"` (icon), `2` (title), `0` (both). -/
def setctlStr (ctl : Option Ctl) (value : List Nat) : Out × Bool :=
  match ctl with
  | some .iconText      => ([27, 93, 49, 59] ++ value ++ [27, 92], true)
  | some .titleText     => ([27, 93, 50, 59] ++ value ++ [27, 92], true)
  | some .iconTitleText => ([27, 93, 48, 59] ++ value ++ [27, 92], true)
  | _ => ([], false)

/-- `on_modereport` for `initial == '?'`. -/
def onModereport (cfg : Cfg) (d : XDrv) (mode value : Int) : XDrv :=
  if mode = 12 then
    let m := if value = 1 ∧ (!cfg.repliesGuarded || d.init.cursorblink = 0) then
               { d.mode with cursorblink := wrapU ModeLayout.w_mode_cursorblink 1 } else d.mode
    { d with mode := m, init := { d.init with cursorblink := wrapU ModeLayout.w_initialised_cursorblink 1 } }
  else if mode = 25 then
    let m := if value = 1 ∧ (!cfg.repliesGuarded || d.init.cursorvis = 0) then
               { d.mode with cursorvis := wrapU ModeLayout.w_mode_cursorvis 1 } else d.mode
    { d with mode := m, init := { d.init with cursorvis := wrapU ModeLayout.w_initialised_cursorvis 1 } }
  else if mode = 69 then
    let c := if (Gen.XTermFacts.slrmAccept.map Int.ofNat).contains value then { d.cap with slrm := wrapU ModeLayout.w_cap_slrm 1 } else d.cap
    { d with cap := c, init := { d.init with slrm := wrapU ModeLayout.w_initialised_slrm 1 } }
  else d

/-- `on_decrqss` for a DECSCUSR reply `<value> SP q`. -/
def onDecrqssShape (cfg : Cfg) (d : XDrv) (value : Int) : XDrv :=
  { d with mode := { d.mode with cursorshape :=
                       if cfg.repliesGuarded ∧ d.init.cursorshape ≠ 0 then d.mode.cursorshape
                       else wrapU ModeLayout.w_mode_cursorshape (Int.tdiv (value + 1) 2) }
           cap := { d.cap with cursorshape := wrapU ModeLayout.w_cap_cursorshape 1 }
           init := { d.init with cursorshape := wrapU ModeLayout.w_initialised_cursorshape 1 } }

/-- `on_decrqss` for an SGR reply, abstracted to what it concludes (sub-parameter separator, RGB). -/
def onDecrqssSgr (cfg : Cfg) (d : XDrv) (colon rgb : Bool) : XDrv :=
  { d with cap := { d.cap with
      csiSubColon := if colon then wrapU ModeLayout.w_cap_csi_sub_colon 1 else d.cap.csiSubColon
      rgb8 := if rgb ∧ (!cfg.rgb8Guarded || d.init.rgb8 = 0) then wrapU ModeLayout.w_cap_rgb8 1 else d.cap.rgb8 } }

/-- `teardown` (the vtable's `stop` and `pause`). -/
def drvTeardown (d : XDrv) : Out :=
  (if d.mode.mouse ≠ 0 then mouseOff (modeForMouse d.mode.mouse) else []) ++
  (if d.mode.cursorvis = 0 then visOn else []) ++
  (if d.mode.altscreen ≠ 0 then altOff else []) ++
  (if d.mode.keypad ≠ 0 then keypadOff else []) ++
  sgrReset

/-- `resume`. -/
def drvResume (d : XDrv) : Out :=
  (if d.mode.keypad ≠ 0 then keypadOn else []) ++
  (if d.mode.altscreen ≠ 0 then altOn else []) ++
  (if d.mode.cursorvis = 0 then visOff else []) ++
  (if d.mode.mouse ≠ 0 then mouseOn (modeForMouse d.mode.mouse) else [])

/-! #### pens -/

/-- `TickitPenAttr` in enum order (`Gen.ModeLayout.pen_*`, checked in `Props/C12`). -/
inductive Attr
  | fg | bg | bold | under | italic | reverse | strike | altfont | blink | sizepos
deriving DecidableEq, Repr

def Attr.all : List Attr := [.fg, .bg, .bold, .under, .italic, .reverse, .strike, .altfont, .blink, .sizepos]

inductive AttrKind | bool | int | colour
deriving DecidableEq, Repr

/-- `tickit_penattr_type`. -/
def Attr.kind : Attr → AttrKind
  | .fg | .bg => .colour
  | .under | .altfont | .sizepos => .int
  | _ => .bool

/-- A pen as a partial map.  A colour value is either a palette index `-1 … 255` (`-1` = default colour), or
    `rgbEnc index r g b`: the palette index together with its RGB8 refinement (`valid.fg_rgb8` set).  The
    encoding is injective, so `tickit_pen_equiv_attr` is equality of values. -/
abbrev PenMap := Attr → Option Int

/-- Palette index `idx` (`-1 … 255`) refined by the RGB8 triple `r g b`. -/
def rgbEnc (idx : Int) (r g b : Nat) : Int := 1000 + ((((idx + 1).toNat * 256 + r) * 256 + g) * 256 + b : Nat)

/-- `tickit_pen_has_colour_attr_rgb8`. -/
def hasRgb (v : Int) : Bool := decide (1000 ≤ v)

/-- `tickit_pen_get_colour_attr`. -/
def colIndex (v : Int) : Int := if v < 1000 then v else (v - 1000) / 16777216 - 1

/-- `tickit_pen_get_colour_attr_rgb8(...).r / .g / .b`. -/
def colR (v : Int) : Int := (v - 1000) / 65536 % 256
def colG (v : Int) : Int := (v - 1000) / 256 % 256
def colB (v : Int) : Int := (v - 1000) % 256

def PenMap.empty : PenMap := fun _ => none

/-- What the getters return for an absent attribute (`COLOUR_DEFAULT`, `0`, `false`). -/
def dflt (a : Attr) : Int := match a.kind with
  | .colour => -1
  | _ => 0

def PenMap.getD (p : PenMap) (a : Attr) : Int := (p a).getD (dflt a)

/-- `tickit_pen_nondefault_attr`. -/
def nondefaultAttr (p : PenMap) (a : Attr) : Bool :=
  match p a with
  | none => false
  | some v => match a.kind with
    | .bool => v ≠ 0
    | .int => v > 0
    | .colour => colIndex v ≠ -1

/-- `tickit_pen_is_nondefault`. -/
def isNondefault (p : PenMap) : Bool := Attr.all.any (nondefaultAttr p)

/-- One SGR parameter of `chpen`'s `params[]`: value and the `CSI_MORE_SUBPARAM` mark. -/
structure Param where
  val : Int
  sub : Bool
deriving DecidableEq, Repr

/-- The colour arm of `chpen` (`on` = 30/40, `off` = 39/49) for a palette index `val`. -/
def paletteParams (on off val : Int) : List Param :=
  if val < 0 then [⟨off, false⟩]
  else if val < 8 then [⟨on + val, false⟩]
  else if val < 16 then [⟨on + 60 + val - 8, false⟩]
  else [⟨on + 8, true⟩, ⟨5, true⟩, ⟨val, false⟩]

/-- The colour arm of `chpen`: `val < 0` first, then `xd->cap.rgb8 && tickit_pen_has_colour_attr_rgb8`, then
    the palette arms. -/
def colourParams (rgb8 : Bool) (on off v : Int) : List Param :=
  if colIndex v < 0 then [⟨off, false⟩]
  else if rgb8 && hasRgb v then [⟨on + 8, true⟩, ⟨2, true⟩, ⟨colR v, true⟩, ⟨colG v, true⟩, ⟨colB v, false⟩]
  else paletteParams on off (colIndex v)

/-- The `switch(attr)` of `chpen` for one attribute present in `delta` with value `v` (`rgb8` = `xd->cap.rgb8`). -/
def attrParams (rgb8 : Bool) (a : Attr) (v : Int) : List Param :=
  match a with
  | .fg => colourParams rgb8 30 39 v
  | .bg => colourParams rgb8 40 49 v
  | .bold => [⟨if v ≠ 0 then 1 else 22, false⟩]
  | .under => if v = 0 then [⟨24, false⟩] else if v = 1 then [⟨4, false⟩] else [⟨4, true⟩, ⟨v, false⟩]
  | .italic => [⟨if v ≠ 0 then 3 else 23, false⟩]
  | .reverse => [⟨if v ≠ 0 then 7 else 27, false⟩]
  | .strike => [⟨if v ≠ 0 then 9 else 29, false⟩]
  | .altfont => if v < 0 ∨ v ≥ 10 then [⟨10, false⟩] else [⟨10 + v, false⟩]
  | .blink => [⟨if v ≠ 0 then 5 else 25, false⟩]
  | .sizepos => if v = 0 then [⟨75, false⟩] else if v = 2 then [⟨73, false⟩] else if v = 3 then [⟨74, false⟩] else []

/-- The loop over `attr = 1 … TICKIT_N_PEN_ATTRS-1`. -/
def deltaParams (rgb8 : Bool) (delta : PenMap) : List Param :=
  Attr.all.flatMap fun a => match delta a with
    | none => []
    | some v => attrParams rgb8 a v

/-- The `TICKIT_PEN_UNDER` arm where it has been repaired (`single` = the repair is present and the
    terminal has no `:` sub-parameters): a style ≥ 2 becomes one parameter. -/
def attrParams' (single rgb8 : Bool) (a : Attr) (v : Int) : List Param :=
  if single ∧ a = .under ∧ v ≠ 0 ∧ v ≠ 1 then [⟨if v = 2 then 21 else 4, false⟩] else attrParams rgb8 a v

def deltaParams' (single rgb8 : Bool) (delta : PenMap) : List Param :=
  Attr.all.flatMap fun a => match delta a with
    | none => []
    | some v => attrParams' single rgb8 a v

/-- Rendering `params[]` between `ESC [` and `m`. -/
def renderParams (colon : Bool) : List Param → Out
  | [] => []
  | [p] => showInt p.val
  | p :: q :: rest => showInt p.val ++ [if p.sub && colon then 58 else 59] ++ renderParams colon (q :: rest)

/-- `chpen(delta, final)`. -/
def drvChpen (cfg : Cfg) (d : XDrv) (delta final : PenMap) : Out :=
  let ps := deltaParams' (cfg.underStyleSafe && decide (d.cap.csiSubColon = 0)) d.rgbOn delta
  if ps.isEmpty then []
  else [27, 91] ++ renderParams (d.cap.csiSubColon ≠ 0) (if isNondefault final then ps else []) ++ [109]

/-! ## Part 2 — `term.c` -/

inductive TState | unstarted | starting | started
deriving DecidableEq, Repr

/-- A reply of the terminal, as the driver's handlers see it. -/
inductive Reply
  | mode (mode value : Int)
  | shape (value : Int)
  | sgr (colon rgb : Bool)
deriving DecidableEq, Repr

/-- `on_modereport` / `on_decrqss`. -/
def applyReply (cfg : Cfg) (d : XDrv) : Reply → XDrv
  | .mode m v => onModereport cfg d m v
  | .shape v => onDecrqssShape cfg d v
  | .sgr c r => onDecrqssSgr cfg d c r

/-- The xterm driver's `started()`. -/
def drvStarted (d : XDrv) : Bool :=
  d.init.cursorvis ≠ 0 && d.init.cursorblink ≠ 0 && d.init.cursorshape ≠ 0 && d.init.slrm ≠ 0

/-- The fields of `struct TickitTerm` the property depends on.  `tk`: the libtermkey instance (`none`
    until something needs it; `some started`), `pending`: replies pushed while it was stopped - they stay
    in its buffer and are read at the next push after it has been started again. -/
structure Term where
  drv   : XDrv := {}
  state : TState := .unstarted
  pen   : PenMap := PenMap.empty
  tk    : Option Bool := none
  pending : List Reply := []

/-- `tickit_term_build` with an output function: the driver is started at once. -/
def Term.build : Term × Out := ({ state := .starting }, startBytes)

/-- `tickit_term_teardown`. -/
def Term.teardown (t : Term) : Term × Out :=
  if t.state ≠ .unstarted then ({ t with state := .unstarted, tk := t.tk.map fun _ => false }, drvTeardown t.drv)
  else ({ t with tk := t.tk.map fun _ => false }, [])

/-- `tickit_term_pause`. -/
def Term.pause (t : Term) : Term × Out := ({ t with tk := t.tk.map fun _ => false }, drvTeardown t.drv)

/-- Is `attr` skipped by the loop of `tickit_term_setpen` (`isSet`) / `tickit_term_chpen`? -/
def penSkips (isSet : Bool) (cur pen : PenMap) (a : Attr) : Bool :=
  (!isSet && (pen a).isNone) || ((cur a).isSome && cur.getD a == pen.getD a)

/-- The cached pen after the loop. -/
def penNext (isSet : Bool) (cur pen : PenMap) : PenMap :=
  fun a => if penSkips isSet cur pen a then cur a else some (pen.getD a)

/-- The `delta` pen after the loop. -/
def penDelta (isSet : Bool) (cur pen : PenMap) : PenMap :=
  fun a => if penSkips isSet cur pen a then none else some (pen.getD a)

/-- `tickit_term_setpen` (`isSet = true`) and `tickit_term_chpen`. -/
def Term.putpen (cfg : Cfg) (isSet : Bool) (t : Term) (pen : PenMap) : Term × Out :=
  let next := penNext isSet t.pen pen
  ({ t with pen := next }, drvChpen cfg t.drv (penDelta isSet t.pen pen) next)

/-- `tickit_term_resume`. -/
def Term.resume (cfg : Cfg) (t : Term) : Term × Out :=
  ({ t with tk := t.tk.map fun _ => true },
   drvResume t.drv ++ (if cfg.resumeResendsPen then drvChpen cfg t.drv t.pen t.pen else []))

/-- `tickit_term_input_push_bytes` with one reply: libtermkey is created (started) if need be; bytes
    pushed while it is stopped wait in its buffer. -/
def Term.reply (cfg : Cfg) (t : Term) (r : Reply) : Term :=
  if t.tk.getD true then
    { t with drv := (t.pending ++ [r]).foldl (applyReply cfg) t.drv, tk := some true, pending := [] }
  else { t with pending := t.pending ++ [r] }

/-- `tickit_term_await_started_msec(msec)`, `msec ≥ 0`, with a clock that advances by 1 ms every time it
    is looked at (the harness's): the state becomes STARTED; libtermkey is created on the way iff the loop
    reaches its wait, i.e. the driver has not seen all its replies and the budget is at least 1 ms. -/
def Term.await (t : Term) (msec : Int) : Term :=
  if t.state = .started then t
  else { t with state := .started,
                tk := if !drvStarted t.drv && decide (msec ≥ 1) then some (t.tk.getD true) else t.tk }

def Term.setctl (cfg : Cfg) (t : Term) (c : Option Ctl) (v : Int) : Term × Out × Bool :=
  let r := setctlInt cfg t.drv c v
  ({ t with drv := r.1 }, r.2.1, r.2.2)

/-! ## Part 3 — `tickit.c` -/

/-- `done_setup` and `use_altscreen` of `struct Tickit`. -/
structure Top where
  doneSetup : Bool := false
  useAlt    : Nat := 1
deriving DecidableEq, Repr

/-- `setupterm`: await (the state becomes STARTED whatever the replies), four controls, clear. -/
def setupterm (cfg : Cfg) (top : Top) (t : Term) : Top × Term × Out :=
  let t0 : Term := Term.await t ModeLayout.setup_await_msec
  let r1 := if top.useAlt ≠ 0 then Term.setctl cfg t0 (some .altscreen) 1 else (t0, [], true)
  let r2 := Term.setctl cfg r1.1 (some .cursorvis) 0
  let r3 := Term.setctl cfg r2.1 (some .mouse) 2
  let r4 := Term.setctl cfg r3.1 (some .keypadApp) 1
  ({ top with doneSetup := true }, r4.1, r1.2.1 ++ r2.2.1 ++ r3.2.1 ++ r4.2.1 ++ clearScreen)

/-! ## operations and histories -/

/-- One step of a history (what a program, or the terminal by replying, can do). -/
inductive Op
  | ctl (c : Option Ctl) (v : Int)
  | setstr (c : Option Ctl) (payload : List Nat)
  | setpen (p : PenMap)
  | chpen (p : PenMap)
  | print (bytes : List Nat)
  | clear
  | flush
  | replyMode (mode value : Int)
  | replyShape (value : Int)
  | replySgr (colon rgb : Bool)
  | await (msec : Int)
  | pause
  | resume
  | teardown
  | tick (nosetup : Bool)
  | usealt (v : Int)

/-- A terminal, possibly owned by a toplevel instance. -/
structure Sys where
  term : Term
  top  : Option Top

/-- Result of one operation. `ret = none`: the call returns nothing; `bad`: not applicable here. -/
structure StepRes where
  sys : Sys
  out : Out := []
  ret : Option Bool := none
  bad : Bool := false
  /-- the call ends with `tickit_term_flush` (after everything it writes) -/
  flush : Bool := false

def Sys.step (cfg : Cfg) (s : Sys) : Op → StepRes
  | .ctl c v =>
    let r := Term.setctl cfg s.term c v
    { sys := { s with term := r.1 }, out := r.2.1, ret := some r.2.2 }
  | .setstr c payload =>
    let r := setctlStr c payload
    { sys := s, out := r.1, ret := some r.2 }
  | .setpen p =>
    let r := Term.putpen cfg true s.term p
    { sys := { s with term := r.1 }, out := r.2 }
  | .chpen p =>
    let r := Term.putpen cfg false s.term p
    { sys := { s with term := r.1 }, out := r.2 }
  | .print bytes => { sys := s, out := bytes }
  | .clear => { sys := s, out := clearScreen }
  | .flush => { sys := s, flush := true }
  | .replyMode m v => { sys := { s with term := Term.reply cfg s.term (.mode m v) } }
  | .replyShape v => { sys := { s with term := Term.reply cfg s.term (.shape v) } }
  | .replySgr c r => { sys := { s with term := Term.reply cfg s.term (.sgr c r) } }
  | .await msec => { sys := { s with term := Term.await s.term msec } }
  | .pause =>
    let r := Term.pause s.term
    { sys := { s with term := r.1 }, out := r.2, flush := true }
  | .resume =>
    let r := Term.resume cfg s.term
    { sys := { s with term := r.1 }, out := r.2 }
  | .teardown =>
    let r := Term.teardown s.term
    { sys := { s with term := r.1 }, out := r.2, flush := true }
  | .tick nosetup =>
    match s.top with
    | none => { sys := s, bad := true }
    | some top =>
      if !top.doneSetup && !nosetup then
        let r := setupterm cfg top s.term
        { sys := { term := r.2.1, top := some r.1 }, out := r.2.2, flush := true }
      else { sys := s }
  | .usealt v =>
    match s.top with
    | none => { sys := s, bad := true }
    | some top =>
      { sys := { s with top := some { top with useAlt := wrapU ModeLayout.w_top_use_altscreen v } }, ret := some true }

/-- `tickit_term_unref` to zero / `tickit_unref` to zero: `tickit_destroy` tears the terminal down and
    drops it, `tickit_term_destroy` tears down again (a no-op for the driver by then). -/
def Sys.destroy (s : Sys) : Out :=
  let r := Term.teardown s.term
  r.2 ++ (Term.teardown r.1).2

/-- The owner drops its reference while `extra` other references to the terminal exist: `tickit_unref` of the
    toplevel instance (`tickit_destroy`: `tickit_term_teardown`, then `tickit_term_unref`), else
    `tickit_term_unref` of the terminal.  The terminal is destroyed only with its last reference.  Result: what
    is left (`none`: the terminal is gone) and the bytes written; every path that writes ends with a flush. -/
def Sys.dropOwner (s : Sys) (extra : Nat) : Option Sys × Out :=
  match s.top with
  | some _ =>
    let r := Term.teardown s.term
    if extra = 0 then (none, r.2 ++ (Term.teardown r.1).2) else (some { term := r.1, top := none }, r.2)
  | none => if extra = 0 then (none, s.destroy) else (some s, [])

/-! ### the terminal's output buffer (`write_str`, `tickit_term_flush`) -/

/-- `outbuffer_len` (`0`: no buffer, every write goes to the output function at once) and the bytes in
    `outbuffer[0 … outbuffer_cur)`. -/
structure OBuf where
  cap  : Nat := 0
  pend : Out := []
deriving DecidableEq, Repr

/-- `write_str` for all the bytes one call of the library writes: the buffer is handed to the output function
    every time it is full, so what goes out is the longest prefix that is a multiple of the buffer's length.
    Result: the buffer and the bytes delivered. -/
def OBuf.write (b : OBuf) (bytes : Out) : OBuf × Out :=
  if b.cap = 0 then ({ b with pend := [] }, b.pend ++ bytes)
  else
    let all := b.pend ++ bytes
    let k := all.length / b.cap * b.cap
    ({ b with pend := all.drop k }, all.take k)

/-- `tickit_term_flush`. -/
def OBuf.flush (b : OBuf) : OBuf × Out := ({ b with pend := [] }, b.pend)

/-- One call of the library on a buffered terminal: it writes `bytes` and, if `fl`, ends with a flush. -/
def OBuf.call (b : OBuf) (bytes : Out) (fl : Bool) : OBuf × Out :=
  let w := b.write bytes
  if fl then ((w.1.flush).1, w.2 ++ (w.1.flush).2) else w

def Sys.build (toplevel : Bool) : Sys × Out :=
  ({ term := Term.build.1, top := if toplevel then some {} else none }, Term.build.2)

/-- Run a history, concatenating the bytes. -/
def Sys.run (cfg : Cfg) : Sys → List Op → Sys × Out
  | s, [] => (s, [])
  | s, op :: rest =>
    let r := Sys.step cfg s op
    let q := Sys.run cfg r.sys rest
    (q.1, r.out ++ q.2)

/-! ## Part 4 — the VT as specification: tokenizer and mode-state interpreter -/

/-- One `;`-separated CSI parameter: its `:`-separated sub-parameters (`none` = empty). -/
abbrev PGroup := List (Option Nat)

def pv (o : Option Nat) : Nat := o.getD 0

def firstOf : PGroup → Nat
  | [] => 0
  | x :: _ => pv x

/-- The mode state of the terminal (DESIGN.md Appendix C). -/
structure VModes where
  altscreen     : Bool := false
  cursorVisible : Bool := true
  cursorBlink   : Bool := false
  cursorShape   : Nat := 0
  mouse         : Nat := 0       -- 0, 1000, 1002, 1003
  sgrMouse      : Bool := false
  keypadApp     : Bool := false
  declrmm       : Bool := false
deriving DecidableEq, Repr

/-- Rendering attributes, in the pen's value space: colours `-1` default, `0…255` palette index,
    `≥ 1000` an RGB triple; `under` the underline style; `altfont` the font number `0…9`;
    `sizepos` `0/2/3` normal/superscript/subscript; the others `0/1`. -/
abbrev Attrs := Attr → Int

def Attrs.default : Attrs := dflt

def Attrs.set (a : Attrs) (k : Attr) (v : Int) : Attrs := fun x => if x = k then v else a x

def rgbCode (r g b : Nat) : Int := 1000 + ((r * 256 + g) * 256 + b : Nat)

/-- A single (sub-parameter-free) SGR parameter. -/
def sgrSingle (n : Nat) (a : Attrs) : Attrs :=
  if n = 0 then Attrs.default
  else if n = 1 then a.set .bold 1
  else if n = 3 then a.set .italic 1
  else if n = 4 then a.set .under 1
  else if n = 5 then a.set .blink 1
  else if n = 7 then a.set .reverse 1
  else if n = 9 then a.set .strike 1
  else if 10 ≤ n ∧ n ≤ 19 then a.set .altfont (n - 10 : Nat)
  else if n = 21 then a.set .under 2
  else if n = 22 then a.set .bold 0
  else if n = 23 then a.set .italic 0
  else if n = 24 then a.set .under 0
  else if n = 25 then a.set .blink 0
  else if n = 27 then a.set .reverse 0
  else if n = 29 then a.set .strike 0
  else if 30 ≤ n ∧ n ≤ 37 then a.set .fg (n - 30 : Nat)
  else if n = 39 then a.set .fg (-1)
  else if 40 ≤ n ∧ n ≤ 47 then a.set .bg (n - 40 : Nat)
  else if n = 49 then a.set .bg (-1)
  else if n = 73 then a.set .sizepos 2
  else if n = 74 then a.set .sizepos 3
  else if n = 75 then a.set .sizepos 0
  else if 90 ≤ n ∧ n ≤ 97 then a.set .fg (n - 90 + 8 : Nat)
  else if 100 ≤ n ∧ n ≤ 107 then a.set .bg (n - 100 + 8 : Nat)
  else a

/-- The colour named by the sub-parameters after `38`/`48` (`5:n`, `2:r:g:b`, `2:cs:r:g:b`). -/
def colourOfSubs : List (Option Nat) → Option Int
  | [m, n] => if pv m = 5 then some (pv n : Nat) else none
  | [m, r, g, b] => if pv m = 2 then some (rgbCode (pv r) (pv g) (pv b)) else none
  | [m, _, r, g, b] => if pv m = 2 then some (rgbCode (pv r) (pv g) (pv b)) else none
  | _ => none

/-- SGR over a parameter list. `38`/`48` take their arguments either as sub-parameters (`:`) or from
    the following parameters (`;`); everything else is one parameter at a time. -/
def sgrRun : List PGroup → Attrs → Attrs
  | [], a => a
  | g :: rest, a =>
    match g with
    | [] => sgrRun rest a
    | [v] =>
      let n := pv v
      if n = 38 ∨ n = 48 then
        let tgt := if n = 38 then Attr.fg else Attr.bg
        match rest with
        | [m] :: [x] :: rest2 =>
          if pv m = 5 then sgrRun rest2 (a.set tgt (pv x : Nat))
          else if pv m = 2 then
            match rest2 with
            | [gg] :: [b] :: rest3 => sgrRun rest3 (a.set tgt (rgbCode (pv x) (pv gg) (pv b)))
            | _ => a
          else sgrRun rest2 a
        | _ => a
      else sgrRun rest (sgrSingle n a)
    | v :: subs =>
      let n := pv v
      if n = 38 ∨ n = 48 then
        match colourOfSubs subs with
        | some c => sgrRun rest (a.set (if n = 38 then Attr.fg else Attr.bg) c)
        | none => sgrRun rest a
      else if n = 4 then sgrRun rest (a.set .under (firstOf subs : Nat))
      else sgrRun rest a

/-- DECSET / DECRST of one private mode. -/
def decset (on : Bool) (n : Nat) (m : VModes) : VModes :=
  if n = 25 then { m with cursorVisible := on }
  else if n = 12 then { m with cursorBlink := on }
  else if n = 1049 then { m with altscreen := on }
  else if n = 1000 ∨ n = 1002 ∨ n = 1003 then { m with mouse := if on then n else 0 }
  else if n = 1006 then { m with sgrMouse := on }
  else if n = 69 then { m with declrmm := on }
  else m

/-- Parser state of the byte-level tokenizer (ECMA-48 / the DEC state machine, reduced). -/
inductive PState
  | ground
  | esc
  | escInterm
  /-- `priv`: the private marker (`?` = 63) or 0; finished groups; finished sub-parameters of the
      current group; the number being read; intermediates. -/
  | csi (priv : Nat) (groups : List PGroup) (grp : PGroup) (cur : Option Nat) (interm : List Nat)
  | csiIgnore
  | str
  | strEsc
deriving DecidableEq, Repr

structure VT where
  ps    : PState := .ground
  modes : VModes := {}
  attrs : Attrs := Attrs.default

/-- A complete control sequence. -/
def csiDispatch (vt : VT) (priv : Nat) (params : List PGroup) (interm : List Nat) (final : Nat) : VT :=
  if priv = 63 ∧ interm = [] ∧ (final = 104 ∨ final = 108) then
    { vt with ps := .ground, modes := params.foldl (fun m g => decset (final = 104) (firstOf g) m) vt.modes }
  else if priv = 0 ∧ interm = [] ∧ final = 109 then
    { vt with ps := .ground, attrs := sgrRun params vt.attrs }
  else if priv = 0 ∧ interm = [32] ∧ final = 113 then
    let n := match params with
      | g :: _ => firstOf g
      | [] => 0
    if n ≤ 6 then
      { vt with ps := .ground, modes := { vt.modes with cursorShape := n, cursorBlink := decide (n = 0 ∨ n % 2 = 1) } }
    else { vt with ps := .ground }
  else { vt with ps := .ground }

/-- The byte after `ESC`. -/
def escByte (vt : VT) (b : Nat) : VT :=
  if b = 91 then { vt with ps := .csi 0 [] [] none [] }
  else if b = 93 ∨ b = 80 ∨ b = 88 ∨ b = 94 ∨ b = 95 then { vt with ps := .str }
  else if b = 61 then { vt with ps := .ground, modes := { vt.modes with keypadApp := true } }
  else if b = 62 then { vt with ps := .ground, modes := { vt.modes with keypadApp := false } }
  else if b = 27 then { vt with ps := .esc }
  else if 32 ≤ b ∧ b ≤ 47 then { vt with ps := .escInterm }
  else { vt with ps := .ground }

def VT.step (vt : VT) (b : Nat) : VT :=
  match vt.ps with
  | .ground => if b = 27 then { vt with ps := .esc } else vt
  | .esc => escByte vt b
  | .escInterm =>
    if b = 27 then { vt with ps := .esc }
    else if 32 ≤ b ∧ b ≤ 47 then vt
    else { vt with ps := .ground }
  | .csi priv groups grp cur interm =>
    if 48 ≤ b ∧ b ≤ 57 then
      if interm = [] then { vt with ps := .csi priv groups grp (some (pv cur * 10 + (b - 48))) interm }
      else { vt with ps := .csiIgnore }
    else if b = 58 then
      if interm = [] then { vt with ps := .csi priv groups (grp ++ [cur]) none interm } else { vt with ps := .csiIgnore }
    else if b = 59 then
      if interm = [] then { vt with ps := .csi priv (groups ++ [grp ++ [cur]]) [] none interm } else { vt with ps := .csiIgnore }
    else if 60 ≤ b ∧ b ≤ 63 then
      if priv = 0 ∧ groups = [] ∧ grp = [] ∧ cur = none ∧ interm = [] then { vt with ps := .csi b [] [] none [] }
      else { vt with ps := .csiIgnore }
    else if 32 ≤ b ∧ b ≤ 47 then { vt with ps := .csi priv groups grp cur (interm ++ [b]) }
    else if 64 ≤ b ∧ b ≤ 126 then csiDispatch vt priv (groups ++ [grp ++ [cur]]) interm b
    else if b = 27 then { vt with ps := .esc }
    else if b = 24 ∨ b = 26 then { vt with ps := .ground }
    else vt
  | .csiIgnore =>
    if 64 ≤ b ∧ b ≤ 126 then { vt with ps := .ground }
    else if b = 27 then { vt with ps := .esc }
    else if b = 24 ∨ b = 26 then { vt with ps := .ground }
    else vt
  | .str =>
    if b = 27 then { vt with ps := .strEsc }
    else if b = 7 ∨ b = 24 ∨ b = 26 then { vt with ps := .ground }
    else vt
  | .strEsc => if b = 92 then { vt with ps := .ground } else escByte vt b

/-- The terminal interpreting a byte string. -/
def VT.feed (vt : VT) (bytes : List Nat) : VT := bytes.foldl VT.step vt

/-! ### the meaning of pen values on the terminal -/

/-- The terminal's value for pen attribute `a` holding `v`: the font number is `v` for `0…9` and the primary
    font otherwise; a colour is its palette index, or - on a terminal with 24-bit colours (`rgb8`) - its RGB8
    refinement when it has one; every other attribute is the identity. -/
def sem (rgb8 : Bool) (a : Attr) (v : Int) : Int :=
  match a with
  | .altfont => if v < 0 ∨ v ≥ 10 then 0 else v
  | .fg | .bg =>
    if colIndex v < 0 then -1
    else if rgb8 && hasRgb v then rgbCode (colR v).toNat (colG v).toNat (colB v).toNat
    else colIndex v
  | _ => v

/-- Values for which the xterm driver has an exact encoding (whether the encoding itself is right
    for every value is property C10, not C12): palette indexes with or without an RGB8 refinement, booleans,
    underline off/single, any font, size/position without the undocumented `SMALL`. -/
def inDomain (a : Attr) (v : Int) : Bool :=
  match a with
  | .fg | .bg => decide ((-1 ≤ v ∧ v ≤ 255) ∨ (1000 ≤ v ∧ v < 1000 + 257 * 16777216))
  | .under => decide (v = 0 ∨ v = 1)
  | .altfont => decide (-1 ≤ v ∧ v ≤ 10)
  | .sizepos => decide (v = 0 ∨ v = 2 ∨ v = 3)
  | _ => decide (v = 0 ∨ v = 1)

/-! ## Part 5 — the contract of the property and the ghost of what the program asked for -/

def textOnly (bs : List Nat) : Bool := bs.all fun b => decide (32 ≤ b ∧ b ≠ 127)

def penInDomain (p : PenMap) : Bool := Attr.all.all fun a => match p a with
  | some v => inDomain a v
  | none => true

/-- Arguments the documented API admits: mouse modes `0…3`, text without control bytes, pen values
    with an exact encoding. -/
def opOk : Op → Bool
  | .ctl (some .mouse) v => decide (0 ≤ v ∧ v ≤ 3)
  | .setstr _ p => textOnly p
  | .print p => textOnly p
  | .setpen p => penInDomain p
  | .chpen p => penInDomain p
  | _ => true

/-- The pen holds a colour whose rendering depends on the terminal's RGB8 capability (an RGB8 refinement
    of a non-default palette index). -/
def capSensitive (p : PenMap) : Bool :=
  [Attr.fg, Attr.bg].any fun a => match p a with
    | some v => hasRgb v && decide (0 ≤ colIndex v)
    | none => false

inductive Phase | running | paused | stopped
deriving DecidableEq, Repr

/-- The documented protocol: between pause and resume nothing but resume or teardown, after teardown
    nothing (but destruction). `none`: the history leaves the contract. -/
def phaseNext : Phase → Op → Option Phase
  | .running, .pause => some .paused
  | .running, .teardown => some .stopped
  | .running, .resume => none
  | .running, _ => some .running
  | .paused, .resume => some .running
  | .paused, .teardown => some .stopped
  | .paused, _ => none
  | .stopped, _ => none

/-- Phase after a history that stays inside the contract. -/
def validFrom : Phase → List Op → Option Phase
  | ph, [] => some ph
  | ph, op :: rest => if opOk op then (phaseNext ph op).bind (validFrom · rest) else none

/-- The protocol the property's quantifier spans ("control settings, pen changes, pause/resume cycles in any
    order"): operations may also come between pause and resume.  `pausedOps`: paused, and the program has
    called the library since (what it switched on then is on the terminal now; teardown or destruction
    has to switch it back, resume has to re-establish the logical modes and pen). -/
inductive PhaseW | running | paused | pausedOps | stopped
deriving DecidableEq, Repr

def PhaseW.ofPhase : Phase → PhaseW
  | .running => .running
  | .paused => .paused
  | .stopped => .stopped

/-- The wide protocol: between pause and resume anything but a second pause; after teardown nothing (but
    destruction); no resume without a pause. `none`: the history leaves the contract. -/
def phaseNextW : PhaseW → Op → Option PhaseW
  | .running, .pause => some .paused
  | .running, .teardown => some .stopped
  | .running, .resume => none
  | .running, _ => some .running
  | .stopped, _ => none
  | _, .resume => some .running
  | _, .teardown => some .stopped
  | _, .pause => none
  | _, _ => some .pausedOps

/-- Phase after a history that stays inside the wide contract. -/
def validFromW : PhaseW → List Op → Option PhaseW
  | ph, [] => some ph
  | ph, op :: rest => if opOk op then (phaseNextW ph op).bind (validFromW · rest) else none

/-- The pen the program has asked for: `setpen p` names every attribute, `chpen p` those present. -/
def logicalPen (isSet : Bool) (cur pen : PenMap) : PenMap :=
  fun a => if isSet then some (pen.getD a) else (match pen a with
    | some v => some v
    | none => cur a)

/-- What the program last set successfully (booleans as `0/1`), the pen it asked for. -/
structure Ghost where
  alt    : Int := 0
  vis    : Int := 1
  mouse  : Int := 0
  keypad : Int := 0
  blink  : Option Int := none
  shape  : Option Int := none
  rgb8   : Option Int := none
  pen    : PenMap := PenMap.empty
  doneSetup : Bool := false

def Ghost.set (g : Ghost) (c : Option Ctl) (v : Int) : Ghost :=
  match c with
  | some .altscreen => { g with alt := bool01 v }
  | some .cursorvis => { g with vis := bool01 v }
  | some .keypadApp => { g with keypad := bool01 v }
  | some .cursorblink => { g with blink := some (bool01 v) }
  | some .mouse => { g with mouse := v }
  | some .cursorshape => { g with shape := if 0 ≤ v ∧ v ≤ 3 then some v else none }
  | some .capRgb8 => { g with rgb8 := some (bool01 v) }
  | _ => g

/-- Ghost after one operation; `ret` is the call's return value, `ua` what the toplevel instance's
    `USE_ALTSCREEN` control read before the operation (`none`: there is no toplevel instance). -/
def Ghost.step (g : Ghost) (op : Op) (ret : Option Bool) (ua : Option Int) : Ghost :=
  match op with
  | .ctl c v => if ret = some true then g.set c v else g
  | .setpen p => { g with pen := logicalPen true g.pen p }
  | .chpen p => { g with pen := logicalPen false g.pen p }
  | .tick nosetup =>
    match ua with
    | none => g
    | some u =>
      if !g.doneSetup && !nosetup then
        { g with doneSetup := true, alt := if u ≠ 0 then 1 else g.alt, vis := 0, mouse := 2, keypad := 1 }
      else g
  | _ => g

/-- What the toplevel instance's `USE_ALTSCREEN` control reads. -/
def Sys.ua (s : Sys) : Option Int := s.top.map fun t => (t.useAlt : Int)

/-- The terminal shows the modes last set (while running). -/
def modesShown (m : VModes) (g : Ghost) : Bool :=
  m.altscreen == decide (g.alt ≠ 0) && m.cursorVisible == decide (g.vis ≠ 0) &&
  decide ((m.mouse : Int) = modeForMouse g.mouse) && m.sgrMouse == decide (g.mouse ≠ 0) &&
  m.keypadApp == decide (g.keypad ≠ 0)

/-- The terminal (with 24-bit colours iff `rgb8`) renders with the pen asked for (every attribute asked
    for, exact encodings). -/
def penShown (rgb8 : Bool) (a : Attrs) (pen : PenMap) : Bool :=
  Attr.all.all fun k => match pen k with
    | some v => !inDomain k v || a k == sem rgb8 k v
    | none => true

/-- Contract about the RGB8 capability: the operation does not change it (forcing it through the control, or a
    late SGR reply of the terminal) while the cached pen holds a colour that depends on it - such a colour keeps
    the form it was sent in until it is sent again. -/
def capKept (cfg : Cfg) (s : Sys) (op : Op) : Bool :=
  !capSensitive s.term.pen ||
    ((s.step cfg op).sys.term.drv.rgbOn == s.term.drv.rgbOn)

/-- The terminal is back in the mode state `m0` and in the default rendition. -/
def restoredOk (vt : VT) (m0 : VModes) : Bool :=
  vt.modes.altscreen == m0.altscreen && vt.modes.cursorVisible == m0.cursorVisible &&
  vt.modes.mouse == m0.mouse && vt.modes.sgrMouse == m0.sgrMouse && vt.modes.keypadApp == m0.keypadApp &&
  Attr.all.all fun k => vt.attrs k == dflt k

/-- Every control reads back what was last set. -/
def getctlOk (d : XDrv) (g : Ghost) : Bool :=
  getctlInt d (some .altscreen) == some g.alt && getctlInt d (some .cursorvis) == some g.vis &&
  getctlInt d (some .mouse) == some g.mouse && getctlInt d (some .keypadApp) == some g.keypad &&
  (g.blink.isNone || getctlInt d (some .cursorblink) == g.blink) &&
  (g.shape.isNone || getctlInt d (some .cursorshape) == g.shape) &&
  (g.rgb8.isNone || getctlInt d (some .capRgb8) == g.rgb8)

/-- The mode state a terminal is assumed to start in (the driver's own assumption): primary screen,
    cursor visible, no mouse reporting, numeric keypad; blink, shape and DECLRMM are free. -/
def VModes.standard (m : VModes) : Bool :=
  !m.altscreen && m.cursorVisible && m.mouse == 0 && !m.sgrMouse && !m.keypadApp

/-! ### the mode state at hand-over as a parameter of the history -/

/-- The mode state a terminal may be handed over in: primary screen, no mouse reporting, numeric keypad; the
    cursor may be visible or hidden (a program that hid it and then starts the library); blink, shape and
    DECLRMM are free. -/
def VModes.handover (m : VModes) : Bool :=
  !m.altscreen && m.mouse == 0 && !m.sgrMouse && !m.keypadApp

/-- Does the operation set cursor visibility through the control interface - directly, or through the toplevel
    instance's setup (a `tick` that may run `setupterm`)? -/
def touchesVis : Op → Bool
  | .ctl (some .cursorvis) _ => true
  | .tick nosetup => !nosetup
  | _ => false

/-- The replies the history feeds are those of a terminal handed over in mode state `m0`: the DECRPM reply to the
    start-up query `CSI ? 25 $ p` says "set" (1) for a visible cursor and "reset" (2) for a hidden one.  (The
    query is the first thing the library writes, so the reply describes the hand-over state whenever it is read.) -/
def replyConsistent (m0 : VModes) : Op → Bool
  | .replyMode m v => if m = 25 then (if m0.cursorVisible then decide (v = 1) else decide (v = 2)) else true
  | _ => true

/-- The contract about the hand-over state: consistent replies; and on a terminal handed over with its cursor
    hidden the program leaves cursor visibility alone (hidden is then not a mode "the library switched on": the
    driver's shadow records one bit per mode, assumed off at start, and has no record of what to go back to). -/
def handoverOk (m0 : VModes) (op : Op) : Bool :=
  replyConsistent m0 op && (m0.cursorVisible || !touchesVis op)

/-- The ghost at hand-over: the logical cursor visibility of a program that never sets it is the one the terminal
    was handed over with. -/
def Ghost.handover (m0 : VModes) : Ghost := { vis := if m0.cursorVisible then 1 else 0 }

end Tickit.Modes
