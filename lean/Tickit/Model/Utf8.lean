import Tickit.Model.Width
/-
  Model of /repo/src/utf8.c, statement by statement.

  Memory is `mem : Nat → UInt8`, addressed relative to the `str` argument.  `size_t len` is
  `Option Nat` with `none` = `(size_t)-1` ("NUL terminated").  `size_t` counters are `Nat`, `int`
  counters are unbounded `Int` (DESIGN.md §3).  Every function that reads memory also returns `hi`,
  one more than the largest index it read (0 = nothing read), so that "never reads past …" is a
  statement about the model.  Loops with data-dependent termination take fuel.
  Core Lean only: this file is linked into the driver executable.
-/
namespace Tickit
namespace Utf8

abbrev Mem := Nat → UInt8

/-- `TickitStringPos` used as a position. -/
structure Pos where
  bytes      : Nat
  codepoints : Int
  graphemes  : Int
  columns    : Int
deriving DecidableEq, Repr, Inhabited

/-- `TickitStringPos` used as a limit: `bytes = none` is `(size_t)-1`; `-1` in an `int` field is "no limit". -/
structure Limit where
  bytes      : Option Nat
  codepoints : Int
  graphemes  : Int
  columns    : Int
deriving DecidableEq, Repr, Inhabited

/-- `tickit_stringpos_zero`. -/
def Pos.zero : Pos := ⟨0, 0, 0, 0⟩

/-- `INIT_TICKIT_STRINGPOS_LIMIT_NONE`. -/
def Limit.none : Limit := ⟨Option.none, -1, -1, -1⟩

/-! ### next_utf8 -/

/-- `*cp <<= 6; *cp |= b0 & 0x3f;` -/
def contAcc (cp b : Nat) : Nat := (cp <<< 6) ||| (b &&& 0x3f)

/-- `nbytes` chosen by the lead-byte ladder (`0` = one of the `return -1` arms; ASCII handled before). -/
def leadLen (b0 : Nat) : Nat :=
  if b0 < 0xc0 then 0
  else if b0 < 0xe0 then 2
  else if b0 < 0xf0 then 3
  else if b0 < 0xf8 then 4
  else 0

/-- The initial `*cp = b0 & mask` of the same ladder. -/
def leadBits (b0 : Nat) : Nat :=
  if b0 < 0xe0 then b0 &&& 0x1f
  else if b0 < 0xf0 then b0 &&& 0x0f
  else b0 &&& 0x07

/-- `len < nbytes` in `size_t` arithmetic (`none` = SIZE_MAX is never smaller). -/
def lenLt (len : Option Nat) (n : Nat) : Bool :=
  match len with
  | none => false
  | some l => decide (l < n)

/-- `for(int i = 1; i < nbytes; i++)`: `k` iterations left, next byte to read at `q`.
    Any non-NUL byte is accepted as a continuation byte (the code does not test `(b0 & 0xc0) == 0x80`).
    Result: `(none, hi)` = `return -1`; `(some cp, hi)` = loop finished. -/
def contLoop (mem : Mem) : Nat → Nat → Nat → Option Nat × Nat
  | 0, q, cp => (some cp, q)
  | k + 1, q, cp =>
    if (mem q).toNat = 0 then (none, q + 1)
    else contLoop mem k (q + 1) (contAcc cp (mem q).toNat)

inductive Dec where
  | err (hi : Nat)
  | ok (nbytes cp hi : Nat)
deriving DecidableEq, Repr

/-- `next_utf8(str + p, len, &cp)`. -/
def nextUtf8 (mem : Mem) (p : Nat) (len : Option Nat) : Dec :=
  let b0 := (mem p).toNat                      -- `b0 = (str++)[0]` is read before `len` is looked at
  if len = some 0 then .err (p + 1)
  else if b0 = 0 then .err (p + 1)
  else if b0 < 0x80 then .ok 1 b0 (p + 1)
  else if leadLen b0 = 0 then .err (p + 1)     -- `< 0xc0`: C1 or continuation;  `>= 0xf8`
  else if lenLt len (leadLen b0) then .err (p + 1)
  else
    match contLoop mem (leadLen b0 - 1) (p + 1) (leadBits b0) with
    | (none, hi) => .err hi
    | (some cp, hi) => .ok (leadLen b0) cp hi

/-! ### tickit_utf8_seqlen, tickit_utf8_put -/

/-- `tickit_utf8_seqlen` (for a non-negative code point). -/
def seqlen (cp : Nat) : Nat :=
  if cp < 0x80 then 1
  else if cp < 0x800 then 2
  else if cp < 0x10000 then 3
  else if cp < 0x200000 then 4
  else if cp < 0x4000000 then 5
  else 6

/-- `while(b > 1) { b--; str[b] = 0x80 | (codepoint & 0x3f); codepoint >>= 6; }` —
    `k = b - 1` iterations left; returns the shifted code point and `str[1..nbytes)`. -/
def putTail : Nat → Nat → List Nat → Nat × List Nat
  | 0, cp, acc => (cp, acc)
  | k + 1, cp, acc => putTail k (cp >>> 6) ((0x80 ||| (cp &&& 0x3f)) :: acc)

/-- The `switch(nbytes)` that writes `str[0]`. -/
def putLead (nbytes cp : Nat) : Nat :=
  match nbytes with
  | 1 => cp &&& 0x7f
  | 2 => 0xc0 ||| (cp &&& 0x1f)
  | 3 => 0xe0 ||| (cp &&& 0x0f)
  | 4 => 0xf0 ||| (cp &&& 0x07)
  | 5 => 0xf8 ||| (cp &&& 0x03)
  | _ => 0xfc ||| (cp &&& 0x01)

/-- The bytes `tickit_utf8_put` stores for `cp` when the buffer is long enough. -/
def putBytes (cp : Nat) : List Nat :=
  putLead (seqlen cp) (putTail (seqlen cp - 1) cp []).1 :: (putTail (seqlen cp - 1) cp []).2

/-- `tickit_utf8_put(str, len, cp)`: return value (`-1` = `(size_t)-1`) and the bytes written.
    `strNull` = `str == NULL`. -/
def put (strNull : Bool) (len : Nat) (cp : Nat) : Int × List Nat :=
  if strNull then ((seqlen cp : Nat), [])
  else if len < seqlen cp then (-1, [])
  else ((seqlen cp : Nat), putBytes cp)

/-! ### tickit_utf8_ncountmore -/

/-- `here.bytes += bytes; here.codepoints += 1; here.graphemes += is_grapheme; here.columns += width`. -/
def Pos.adv (h : Pos) (n : Nat) (w : Int) : Pos :=
  ⟨h.bytes + n, h.codepoints + 1, h.graphemes + (if w > 0 then 1 else 0), h.columns + w⟩

/-- The four `if(limit && limit->X != -1 && here.X + dX > limit->X) break;` tests. -/
def exceeds (limit : Option Limit) (here : Pos) (n : Nat) (w : Int) : Bool :=
  match limit with
  | none => false
  | some l =>
    (match l.bytes with
     | none => false
     | some lb => decide (here.bytes + n > lb)) ||
    (decide (l.codepoints ≠ -1) && decide (here.codepoints + 1 > l.codepoints)) ||
    (decide (l.graphemes ≠ -1) && decide (here.graphemes + (if w > 0 then 1 else 0) > l.graphemes)) ||
    (decide (l.columns ≠ -1) && decide (here.columns + w > l.columns))

/-- What one trip round the `while` loop finds at offset `str`, before any limit is looked at:
    the loop guard, `next_utf8`, the C0/C1 test and the width lookup. -/
inductive Step where
  | stop (hi : Nat)                    -- `len != 0 && *str` is false
  | err (hi : Nat)                     -- one of the `return -1`
  | ch (n cp : Nat) (w : Int) (hi : Nat)
deriving DecidableEq, Repr

def stepAt (mem : Mem) (str : Nat) (len : Option Nat) : Step :=
  if len = some 0 then .stop 0                       -- `len != 0` fails: `*str` is not read
  else if (mem str).toNat = 0 then .stop (str + 1)
  else
    match nextUtf8 mem str len with
    | .err hi => .err hi
    | .ok n cp hi =>
      if cp < 0x20 ∨ (cp ≥ 0x80 ∧ cp < 0xa0) then .err hi
      else if Width.wcwidth cp = -1 then .err hi
      else .ch n cp (Width.wcwidth cp) hi

/-- `len -= bytes` (`(size_t)-1` is left alone). -/
def lenDec (len : Option Nat) (n : Nat) : Option Nat := len.map (· - n)

inductive Outcome where
  /-- returned `r` (`-1` = `(size_t)-1`) with `*pos = pos`; `hi` = one past the largest index read -/
  | ret (r : Int) (pos : Pos) (hi : Nat)
  | outOfFuel
deriving DecidableEq, Repr

/-- The `while` loop of `tickit_utf8_ncountmore` together with the final commit and `return`.
    `start = start_bytes`; `str`, `len`, `here`, `pos` are the C variables. -/
def loop (mem : Mem) (limit : Option Limit) (start : Nat) :
    Nat → Nat → Option Nat → Pos → Pos → Nat → Outcome
  | 0, _, _, _, _, _ => .outOfFuel
  | fuel + 1, str, len, here, pos, hi =>
    match stepAt mem str len with
    | .stop h =>
      -- loop guard false, so `len == 0 || *str == 0` holds: commit on the final grapheme
      .ret ((here.bytes : Int) - start) here (max hi h)
    | .err h => .ret (-1) pos (max hi h)
    | .ch n _ w h =>
      -- `if(is_grapheme) *pos = here;`
      let pos' := if w > 0 then here else pos
      if exceeds limit here n w then
        -- `break`; afterwards `len != 0` and `*str != 0`: no final commit
        .ret ((pos'.bytes : Int) - start) pos' (max hi h)
      else
        loop mem limit start fuel (str + n) (lenDec len n) (here.adv n w) pos' (max hi h)

def sizeMax : Nat := 2 ^ 64 - 1

/-- `if(len != (size_t)-1) len -= pos->bytes;` in `size_t` arithmetic: when `pos->bytes > len`
    (a violated precondition) the value wraps, and wraps onto the sentinel when the excess is 1. -/
def lenSub (len : Option Nat) (k : Nat) : Option Nat :=
  match len with
  | none => none
  | some l =>
    if k ≤ l then some (l - k)
    else if (2 ^ 64 + l - k) % 2 ^ 64 = sizeMax then none
    else some ((2 ^ 64 + l - k) % 2 ^ 64)

/-- `tickit_utf8_ncountmore(str, len, pos, limit)`. -/
def ncountmore (mem : Mem) (fuel : Nat) (len : Option Nat) (pos : Pos) (limit : Option Limit) : Outcome :=
  loop mem limit pos.bytes fuel pos.bytes (lenSub len pos.bytes) pos pos 0

/-- `tickit_utf8_ncount`. -/
def ncount (mem : Mem) (fuel : Nat) (len : Option Nat) (limit : Option Limit) : Outcome :=
  ncountmore mem fuel len Pos.zero limit

/-- `tickit_utf8_countmore`. -/
def countmore (mem : Mem) (fuel : Nat) (pos : Pos) (limit : Option Limit) : Outcome :=
  ncountmore mem fuel none pos limit

/-- `tickit_utf8_count`. -/
def count (mem : Mem) (fuel : Nat) (limit : Option Limit) : Outcome :=
  ncountmore mem fuel none Pos.zero limit

def Outcome.pos? : Outcome → Option Pos
  | .ret _ p _ => some p
  | .outOfFuel => none

/-- `tickit_utf8_mbswidth`: `pos.columns` whatever `tickit_utf8_count` returned. -/
def mbswidth (mem : Mem) (fuel : Nat) : Option Int :=
  (count mem fuel none).pos?.map (·.columns)

/-- `tickit_utf8_byte2col`. -/
def byte2col (mem : Mem) (fuel : Nat) (byte : Option Nat) : Option Int :=
  (count mem fuel (some ⟨byte, -1, -1, -1⟩)).pos?.map (·.columns)

/-- `tickit_utf8_col2byte`. -/
def col2byte (mem : Mem) (fuel : Nat) (col : Int) : Option Nat :=
  (count mem fuel (some ⟨none, -1, -1, col⟩)).pos?.map (·.bytes)


/-! ### Specification vocabulary

The property speaks about *characters* (encoded length, code point, width), *graphemes* (a spacing
character plus the zero-width characters that follow it; zero-width characters at the very start form a
group of their own) and *limits*.  `specRun` is the executable specification of counting: advance by
whole graphemes while the next one fits, report the error iff the scan gets as far as the error. -/

/-- A continuation byte `10xxxxxx`. -/
def isContByte (b : Nat) : Bool := decide (0x80 ≤ b) && decide (b < 0xc0)

/-- One decoded character: the bytes it occupies in the input, its code point, its column width. -/
structure Ch where
  n  : Nat
  cp : Nat
  w  : Int
deriving DecidableEq, Repr, Inhabited

/-- How the decodable prefix of the input ends: at the terminator / length, or at something that makes
    the counting functions return the error value. -/
inductive Tail where
  | eof
  | err
deriving DecidableEq, Repr, Inhabited

/-- Counters after counting the characters `cs` from `p`. -/
def sumPos (p : Pos) : List Ch → Pos
  | [] => p
  | c :: cs => sumPos (p.adv c.n c.w) cs

/-- `b ≤ limit` for a `size_t` limit in which `(size_t)-1` (`none`) means "no limit". -/
def leOpt (b : Nat) : Option Nat → Prop
  | none => True
  | some lb => b ≤ lb

instance (b : Nat) (o : Option Nat) : Decidable (leOpt b o) := by
  cases o <;> unfold leOpt <;> exact inferInstance

/-- No limited counter is above its limit. -/
def Within (limit : Option Limit) (p : Pos) : Prop :=
  match limit with
  | none => True
  | some l =>
    leOpt p.bytes l.bytes ∧
    (l.codepoints = -1 ∨ p.codepoints ≤ l.codepoints) ∧
    (l.graphemes = -1 ∨ p.graphemes ≤ l.graphemes) ∧
    (l.columns = -1 ∨ p.columns ≤ l.columns)

instance (limit : Option Limit) (p : Pos) : Decidable (Within limit p) := by
  cases limit <;> unfold Within <;> exact inferInstance

/-- Group characters into graphemes: a character starts a new group iff the character after the
    group being built is spacing (`w > 0`), i.e. every group is one character followed by zero-width ones. -/
def clusters : List Ch → List (List Ch)
  | [] => []
  | c :: cs =>
    match clusters cs with
    | [] => [[c]]
    | g :: gs =>
      match g with
      | [] => [c] :: gs
      | d :: _ => if d.w > 0 then [c] :: g :: gs else (c :: g) :: gs

/-- Result of counting: error flag and the position stored in `*pos`. -/
structure Res where
  err : Bool
  pos : Pos
deriving DecidableEq, Repr, Inhabited

/-- The value the C functions return for a result. -/
def Res.ret (r : Res) (start : Nat) : Int := if r.err then -1 else (r.pos.bytes : Int) - start

/-- Executable specification of counting over graphemes `gs` (followed by `t`) from `here`:
    take the next grapheme iff all counters stay within the limits after it; stop before the first one that
    does not fit; at the end of the graphemes stop (`eof`) or report the error (`err`, position = start of the
    last grapheme taken). -/
def specRun (limit : Option Limit) : List (List Ch) → Tail → Pos → Res
  | [], .eof, here => ⟨false, here⟩
  | [], .err, here => ⟨true, here⟩
  | g :: gs, t, here =>
    if Within limit (sumPos here g) then
      (if gs = [] ∧ t = .err then ⟨true, here⟩ else specRun limit gs t (sumPos here g))
    else ⟨false, here⟩

/-- How many graphemes `specRun` counts (the returned position is the sum over `gs.take` of this). -/
def specTaken (limit : Option Limit) : List (List Ch) → Tail → Pos → Nat
  | [], _, _ => 0
  | g :: gs, t, here =>
    if Within limit (sumPos here g) then
      (if gs = [] ∧ t = .err then 0 else 1 + specTaken limit gs t (sumPos here g))
    else 0

/-- Every grapheme fits: counting `gs` from `here` never crosses a limit ("the scan reaches the end"). -/
def AllFit (limit : Option Limit) : Pos → List (List Ch) → Prop
  | _, [] => True
  | here, g :: gs => Within limit (sumPos here g) ∧ AllFit limit (sumPos here g) gs

/-- `a` is at most `b` as a limit (`-1` / `(size_t)-1` = unlimited = top). -/
def LimitLe (a b : Option Limit) : Prop :=
  ∀ p : Pos, Within a p → Within b p

/-- The same loop as `loop`, over already-decoded characters (used to connect `loop` and `specRun`). -/
def runChars (limit : Option Limit) : List Ch → Tail → Pos → Pos → Res
  | [], .eof, here, _ => ⟨false, here⟩
  | [], .err, _, pos => ⟨true, pos⟩
  | c :: cs, t, here, pos =>
    if exceeds limit here c.n c.w then ⟨false, if c.w > 0 then here else pos⟩
    else runChars limit cs t (here.adv c.n c.w) (if c.w > 0 then here else pos)

/-- The characters the loop of `tickit_utf8_ncountmore` meets from offset `str` on when no limit stops
    it (`none` = out of fuel). -/
def scan (mem : Mem) : Nat → Nat → Option Nat → Option (List Ch × Tail)
  | 0, _, _ => none
  | fuel + 1, str, len =>
    match stepAt mem str len with
    | .stop _ => some ([], .eof)
    | .err _ => some ([], .err)
    | .ch n cp w _ =>
      match scan mem fuel (str + n) (lenDec len n) with
      | none => none
      | some (cs, t) => some (⟨n, cp, w⟩ :: cs, t)

/-- Total encoded length of some characters. -/
def bytesOf : List Ch → Nat
  | [] => 0
  | c :: cs => c.n + bytesOf cs

/-- C0 control, DEL or C1 control. -/
def IsControl (cp : Nat) : Prop := cp < 0x20 ∨ (0x7f ≤ cp ∧ cp < 0xa0)

instance (cp : Nat) : Decidable (IsControl cp) := by unfold IsControl; exact inferInstance

/-- The value a complete `n`-byte sequence at `p` encodes (arithmetic reading of the payload bits). -/
def seqValue (mem : Mem) (p n : Nat) : Nat :=
  match n with
  | 2 => (mem p).toNat % 32 * 64 + (mem (p + 1)).toNat % 64
  | 3 => ((mem p).toNat % 16 * 64 + (mem (p + 1)).toNat % 64) * 64 + (mem (p + 2)).toNat % 64
  | 4 => (((mem p).toNat % 8 * 64 + (mem (p + 1)).toNat % 64) * 64 + (mem (p + 2)).toNat % 64) * 64
           + (mem (p + 3)).toNat % 64
  | _ => (mem p).toNat

/-- What makes the counting functions return the error value at offset `p` (with `len` left), declaratively:
    `p` is inside the input (`len ≠ 0`, not the terminator) and there is
    * a C0 control or DEL byte, or
    * an invalid lead byte (`0x80…0xBF`: C1 or continuation; `0xF8…0xFF`), or
    * a sequence cut short by the length or by the terminator ("truncated"), or
    * a complete sequence that encodes a C0/C1 control or DEL. -/
def ErrAt (mem : Mem) (p : Nat) (len : Option Nat) : Prop :=
  len ≠ some 0 ∧ (mem p).toNat ≠ 0 ∧
  (((mem p).toNat < 0x80 ∧ IsControl (mem p).toNat) ∨
   (0x80 ≤ (mem p).toNat ∧ leadLen (mem p).toNat = 0) ∨
   (leadLen (mem p).toNat ≠ 0 ∧
     (lenLt len (leadLen (mem p).toNat) = true ∨
      ∃ i, 1 ≤ i ∧ i < leadLen (mem p).toNat ∧ (mem (p + i)).toNat = 0)) ∨
   (leadLen (mem p).toNat ≠ 0 ∧ lenLt len (leadLen (mem p).toNat) = false ∧
     (∀ i, 1 ≤ i → i < leadLen (mem p).toNat → (mem (p + i)).toNat ≠ 0) ∧
     IsControl (seqValue mem p (leadLen (mem p).toNat))))

/-- The trigger of the known finding: a complete-looking sequence at `p` one of whose continuation
    positions holds a byte that is neither NUL nor a continuation byte (`0x80…0xBF`). -/
def badCont (mem : Mem) (p : Nat) (len : Option Nat) : Bool :=
  decide (len ≠ some 0) && decide ((mem p).toNat ≠ 0) && decide (leadLen (mem p).toNat ≠ 0) &&
  !lenLt len (leadLen (mem p).toNat) &&
  (List.range (leadLen (mem p).toNat)).any fun i =>
    decide (1 ≤ i) && decide ((mem (p + i)).toNat ≠ 0) && !isContByte (mem (p + i)).toNat

/-- `stepAt` as the property wants it: a sequence with a bad continuation byte is a truncated sequence. -/
def stepStrict (mem : Mem) (str : Nat) (len : Option Nat) : Step :=
  if badCont mem str len then .err (str + 1) else stepAt mem str len

/-- `scan` with the strict reading of "truncated sequence". -/
def scanStrict (mem : Mem) : Nat → Nat → Option Nat → Option (List Ch × Tail)
  | 0, _, _ => none
  | fuel + 1, str, len =>
    match stepStrict mem str len with
    | .stop _ => some ([], .eof)
    | .err _ => some ([], .err)
    | .ch n cp w _ =>
      match scanStrict mem fuel (str + n) (lenDec len n) with
      | none => none
      | some (cs, t) => some (⟨n, cp, w⟩ :: cs, t)

/-- `nul` is the first NUL byte at or after offset `str`. -/
def FirstNul (mem : Mem) (str nul : Nat) : Prop :=
  str ≤ nul ∧ (mem nul).toNat = 0 ∧ ∀ i, str ≤ i → i < nul → (mem i).toNat ≠ 0

/-- Memory holding the given bytes at offsets `0 …` and NUL everywhere after them. -/
def memOfBytes (l : List Nat) : Mem := fun i => UInt8.ofNat (l.getD i 0)

/-! #### Reference decoder of the runtime oracle (strict about continuation bytes) -/

def isCont (b : Nat) : Bool := isContByte b

inductive RefStep where
  | eof
  | err (why : String)
  | ch (c : Ch)
deriving Repr

/-- Classification of a decoded code point: control characters are errors, anything else is a character. -/
def refClassify (width : Nat → Int) (n cp : Nat) : RefStep :=
  if cp < 0x20 then .err "C0 control"
  else if cp = 0x7f then .err "DEL"
  else if 0x80 ≤ cp ∧ cp < 0xa0 then .err "C1 control"
  else if width cp < 0 then .err "non-printable"
  else .ch ⟨n, cp, width cp⟩

/-- Decode one character from the *effective* input (already cut at the length and at the first NUL).
    Errors: C0 control, DEL, C1 control, invalid lead byte, truncated sequence (too few bytes left, or a
    byte that is not a continuation byte where one is required). -/
def refStep (width : Nat → Int) (bs : List Nat) : RefStep :=
  match bs with
  | [] => .eof
  | b0 :: rest =>
    if b0 < 0x80 then refClassify width 1 b0
    else if b0 < 0xc0 then .err "invalid lead byte (continuation or C1 byte)"
    else if b0 < 0xe0 then
      match rest with
      | b1 :: _ =>
        if isCont b1 then refClassify width 2 (b0 % 32 * 64 + b1 % 64) else .err "truncated sequence (bad continuation)"
      | _ => .err "truncated sequence"
    else if b0 < 0xf0 then
      match rest with
      | b1 :: b2 :: _ =>
        if isCont b1 && isCont b2 then refClassify width 3 ((b0 % 16 * 64 + b1 % 64) * 64 + b2 % 64)
        else .err "truncated sequence (bad continuation)"
      | _ => .err "truncated sequence"
    else if b0 < 0xf8 then
      match rest with
      | b1 :: b2 :: b3 :: _ =>
        if isCont b1 && isCont b2 && isCont b3 then
          refClassify width 4 (((b0 % 8 * 64 + b1 % 64) * 64 + b2 % 64) * 64 + b3 % 64)
        else .err "truncated sequence (bad continuation)"
      | _ => .err "truncated sequence"
    else .err "invalid lead byte (>= 0xf8)"

/-- `bs` is the part of the input a call at offset `str` with `len` left may look at: the bytes up to
    (excluding) the first NUL, or up to the length, whichever comes first. -/
def Effective (mem : Mem) (str : Nat) (len : Option Nat) (bs : List Nat) : Prop :=
  (∀ i, i < bs.length → bs.getD i 0 = (mem (str + i)).toNat ∧ (mem (str + i)).toNat ≠ 0) ∧
  (len = some bs.length ∨ ((mem (str + bs.length)).toNat = 0 ∧ ∀ l, len = some l → bs.length < l))

/-- Memory holding a buffer (NUL outside it). -/
def memOfArray (a : Array UInt8) : Mem := fun i => a.getD i 0

/-- The effective bytes of a call on buffer `a` from offset `start` (the runtime oracle's input):
    `none` when the call's precondition does not hold (start beyond the length, no terminator in the
    buffer, length beyond the buffer without a terminator before). -/
def effectiveOf (a : Array UInt8) (len : Option Nat) (start : Nat) : Option (List Nat) :=
  let bs := (a.toList.map (·.toNat)).drop start
  match len with
  | none =>
    if start ≤ a.size ∧ bs.any (· == 0) then some (bs.takeWhile (· != 0)) else none
  | some l =>
    if start > l then none
    else
      let win := bs.take (l - start)
      if win.any (· == 0) then some (win.takeWhile (· != 0))
      else if l ≤ a.size then some win else none

/-- Decode the whole effective input. -/
def refScan (width : Nat → Int) : Nat → List Nat → List Ch × Tail × String
  | 0, _ => ([], .err, "fuel")
  | fuel + 1, bs =>
    match refStep width bs with
    | .eof => ([], .eof, "")
    | .err why => ([], .err, why)
    | .ch c =>
      match refScan width fuel (bs.drop c.n) with
      | (cs, t, why) => (c :: cs, t, why)

end Utf8
end Tickit
