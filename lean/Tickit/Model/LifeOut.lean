import Tickit.Model.LifeTop
import Tickit.Model.TermBuf
import Tickit.Model.TermPen
import Tickit.Gen.ModeLayout
/-
  Property C08, fifth part of the model: the output side of the main terminal, driven through the REAL xterm driver.

  The lower layers (`Model/Life*.lean`) follow who owns what; this layer follows what the calls that *write* do to the
  memory the terminal owns for output:

  * the output buffer of `src/term.c` (`tickit_term_set_output_buffer`, `write_str`, `tickit_term_flush`): its length, the
    bytes pending in it; installed, grown, shrunk and removed with output pending.  The model is the one of engine
    `termbuf` (C11, `Model/TermBuf.lean`: `setOutputBuffer`, `writeStr` with its `while(len > 0)` loop, `flush`), reused,
    not copied; a fill level above the length is an explicit `ub` there.

  * `tickit_term_printn`, `tickit_term_goto` through the xterm driver (`print`, `goto_abs` of `Model/TermBuf.lean`).

  * `tickit_term_setpen` / `tickit_term_chpen` with pens that carry every attribute (both colours with RGB8 secondaries, a
    styled underline, all the single attributes) on a terminal whose `cap_rgb8` / `cap_csi_sub_colon` are on (the DECRQSS
    reply fed through `tickit_term_input_push_bytes`, or the driver's `xterm.cap_rgb8` control): the delta against the
    cached pen and the xterm driver's `chpen` with its array `int params[N]` are the model of engine `sgr` (C10,
    `Model/TermPen.lean`: `termDelta`, `termCache`, `xtermChpen`), `N` read from the source tree (`Gen.Sgr.paramsCap`);
    more parameters than `N` is an explicit `ub` (the stack array is overrun).  The pen is made for the call
    (`tickit_pen_new`, the setters, the call, `tickit_pen_unref`) and does not outlive it.

  What the other operations write is not followed (a window flush draws, `tickit_term_destroy` tears down): after an
  operation that may have reached the driver (`XOp.quiet = false`) the content of the buffer and the cached pen are
  unknown to this model and the operations of this layer answer `unsupported-output` (the generator keeps such
  operations out of the histories that use this layer; the precedent is `unsupported-screen` of `Model/LifeTop.lean`).
-/
namespace Tickit
namespace Life

/-- The output side of `struct TickitTerm` and of the xterm driver. -/
structure OutSt where
  /-- `outbuffer_len`, the pending bytes, the chunks delivered (of the current operation), the output function -/
  tb : TermBuf.State := { hasFunc := true, mode := { started := true } }
  /-- `tt->pen` -/
  cache : TermPen.Pen := {}
  /-- `xd->cap.rgb8`, `xd->cap.csi_sub_colon` -/
  caps : TermPen.Caps := ⟨false, false⟩
  /-- `xd->initialised.rgb8`: the program has set `xterm.cap_rgb8` itself (a later DECRQSS report leaves it alone when
      the source has that guard: `Gen.ModeLayout.rgb8Guarded`, read from `on_decrqss`) -/
  rgb8Forced : Bool := false
  /-- this model knows what is pending and what the cached pen is -/
  known : Bool := true
deriving Repr

/-! ## I/O watches of the toplevel instance (`tickit_watch_io`, the default event loop's slot tables)

  `src/evloop-default.c` keeps two parallel arrays `pollfds[]` / `pollwatches[]` of `alloc_fds` elements (4 at first) of
  which `nfds` are in use; slot 0 is the watch `tickit_build` puts on the terminal's input.  `evloop_io` takes the first
  slot whose `fd` is -1, or appends one, doubling both arrays with `realloc` when `nfds == alloc_fds`; the slot's `revents`
  is cleared.  `evloop_cancel_io` sets the slot's `fd` to -1.  After `poll`, `evloop_run` walks `idx = 0 .. nfds` — `nfds`,
  and `evdata->pollfds`, read afresh on every round, because the callbacks it invokes may register and cancel watches —
  and invokes the watch of every slot in use that has `revents`.

  Every read of a slot names the block it goes to (`IoSt.gen` counts the `realloc`s that moved `evdata->pollfds`): reading
  through a pointer to an earlier block, or beyond `alloc_fds`, is an explicit `ub` (`IoSt.rd`).

  The descriptors are pipes of the harness, readable for good (`ready`) or never.  A callback is a list of `IAct`. -/

/-- What the callback of an I/O watch does: register a further watch (without actions), cancel a watch, cancel itself. -/
inductive IAct where
  | reg (ready : Bool)
  | cancel (k : Nat)
  | cancelSelf
deriving Repr, Inhabited

structure IoRec where
  ready : Bool := false
  acts : List IAct := []
deriving Repr, Inhabited

inductive IoSlot where
  | free            -- fd == -1
  | term            -- the terminal's input (on_term_readable: `Model/LifeTop.lean`)
  | app (k : Nat)   -- the k-th watch of the application
deriving Repr, Inhabited, DecidableEq

structure IoSt where
  /-- behaviour records the harness has handed out -/
  recs : Array IoRec := #[]
  /-- `pollfds[0 .. nfds)` / `pollwatches[0 .. nfds)` -/
  slots : Array IoSlot := #[.term]
  /-- `pollfds[i].revents` -/
  revents : Array Bool := #[false]
  /-- `alloc_fds` -/
  alloc : Nat := 4
  /-- the block `evdata->pollfds` points to -/
  gen : Nat := 0
  /-- callbacks of the current operation, oldest first -/
  log : List String := []
deriving Repr, Inhabited

def ioCap : Nat := 64

/-- A read of `pollfds[idx]` through a pointer to block `blk`. -/
def IoSt.rd (io : IoSt) (blk idx : Nat) : Out Unit :=
  if blk ≠ io.gen then .ub .mem "evloop_run: pollfds[idx] read through a pointer to a block realloc() has freed"
  else if io.alloc ≤ idx then .ub .mem "evloop_run: pollfds[idx] read beyond alloc_fds"
  else pure ()

/-- `evloop_io` for the record `k`. -/
def IoSt.register (io : IoSt) (k : Nat) : IoSt :=
  match io.slots.toList.findIdx? (· = .free) with
  | some idx => { io with slots := io.slots.setIfInBounds idx (.app k), revents := io.revents.setIfInBounds idx false }
  | none =>
    let io := if io.slots.size = io.alloc then { io with alloc := io.alloc * 2, gen := io.gen + 1 } else io
    { io with slots := io.slots.push (.app k), revents := io.revents.push false }

/-- `tickit_watch_io` of a new behaviour record (the harness hands out at most `ioCap`). -/
def IoSt.watch (io : IoSt) (r : IoRec) : IoSt :=
  if io.recs.size ≥ ioCap then io
  else ({ io with recs := io.recs.push r }).register io.recs.size

def IoSt.pending (io : IoSt) (k : Nat) : Bool := io.slots.any (· = .app k)

/-- `tickit_watch_cancel` of the k-th watch if it is still registered: `evloop_cancel_io`. -/
def IoSt.cancel (io : IoSt) (k : Nat) : IoSt :=
  { io with slots := io.slots.map (fun s => if s = .app k then .free else s) }

def IoSt.act (io : IoSt) (self : Nat) : IAct → IoSt
  | .reg ready => io.watch { ready := ready }
  | .cancel k => io.cancel k
  | .cancelSelf => io.cancel self

/-- `poll`: every slot in use is told whether its descriptor is readable (the terminal's slot is followed below). -/
def IoSt.poll (io : IoSt) : IoSt :=
  { io with revents := io.slots.map (fun s => match s with
      | .app k => (io.recs[k]?.getD {}).ready
      | _ => false) }

/-- The dispatch loop of `evloop_run` from `idx` on. -/
def IoSt.dispatch : Nat → Nat → IoSt → Out IoSt
  | 0, _, _ => .fuel
  | fuel + 1, idx, io =>
    if io.slots.size ≤ idx then pure io                  -- idx < evdata->nfds
    else do
      io.rd io.gen idx                                   -- evdata->pollfds[idx].fd, .revents
      match io.slots[idx]?.getD .free with
      | .app k =>
        if io.revents[idx]?.getD false then
          let io := { io with log := io.log ++ [s!"I{k}"] }
          let io := (io.recs[k]?.getD {}).acts.foldl (fun io a => io.act k a) io
          IoSt.dispatch fuel (idx + 1) io
        else IoSt.dispatch fuel (idx + 1) io
      | _ => IoSt.dispatch fuel (idx + 1) io

def ioFuel : Nat := ioCap + 2

structure OTop where
  top : Top := {}
  o : OutSt := {}
  io : IoSt := {}

/-- Is there an instance whose watches exist? -/
def instAlive (top : Top) : Bool :=
  match top.inst with
  | some i => !i.freed
  | none => false

/-- The operations of the `life` engine: those of `XOp` and the ones of this layer. -/
inductive YOp where
  | x (op : XOp)
  | tbuf (n : Nat)                                   -- tickit_term_set_output_buffer
  | tprint (bytes : List UInt8)                      -- tickit_term_printn
  | tgoto (line col : Int)                           -- tickit_term_goto
  | tflush                                           -- tickit_term_flush
  | tcaps (rgb8 colon viaCtl : Bool)                 -- DECRQSS reply for SGR pushed as input; `viaCtl`: xterm.cap_rgb8 set by control
  | tsetpen (set : Bool) (pen : TermPen.Pen)         -- tickit_term_setpen / tickit_term_chpen of a pen made for the call
  | iio (ready : Bool) (acts : List IAct)            -- tickit_watch_io on a pipe that is readable for good / never
  | iiocancel (k : Nat)                              -- tickit_watch_cancel of the k-th I/O watch

def YOp.isNew : YOp → Bool
  | .x op => op.isNew
  | _ => false

/-- The operation the specification looks at: `end` is special, the rest is judged alike. -/
def YOp.specOp : YOp → Op
  | .x op => op.specOp
  | _ => .pen

/-- `tt->colors` of the xterm driver without `cap_rgb8` at construction time. -/
def xtermColors : Int := 256

/-- Operations that reach neither the driver nor the cached pen (`Op.leavesScreen` for those of the lower layers). -/
def XOp.quiet : XOp → Bool
  | .base (.newTerm ..) => false
  | .base op => op.leavesScreen
  | .tbind .. | .tunbind _ | .tick _ | .iref | .ilater _ | .itimer .. | .itimerat .. | .icancel _ => true
  | .xnew | .xref _ | .xunref _ | .xobs .. | .tobs _ | .winch => true
  | _ => false

/-- A history begins: the terminal has been built with an output function (the driver has started and written its
    probes straight to it: no buffer yet), its pen cache is empty, no capability has been reported. -/
def OutSt.fresh (known : Bool) : OutSt := { known := known }

def bytesOfNats (l : List Nat) : List UInt8 := l.map UInt8.ofNat

def hexDigit (n : Nat) : Char := if n < 10 then Char.ofNat (48 + n) else Char.ofNat (87 + n)
def hexByte (b : UInt8) : String := String.ofList [hexDigit (b.toNat / 16), hexDigit (b.toNat % 16)]

/-- The chunks the output function was handed during the operation: `out=<hex>,<hex>…` (`-` = none). -/
def outText (cs : List TermBuf.Chunk) : String :=
  let ds := cs.filterMap (fun c => match c with
    | .data _ b => some (String.join (b.map hexByte))
    | .fin => none)
  if ds.isEmpty then "out=-" else "out=" ++ ",".intercalate ds

/-- The terminal the operations of this layer work on: the application holds it, and it is the xterm driver's. -/
def outUsable (o : OTop) : Bool := heldT o.top.st && !o.top.mock

def withTb (o : OTop) (r : TermBuf.Outcome) (tail : String := "") : Out (OTop × String) :=
  match r with
  | .ok tb => pure ({ o with o := { o.o with tb := { tb with out := [] } } }, "ok " ++ outText tb.out ++ tail)
  | .ub w => .ub .mem w
  | .outOfFuel => .fuel

/-- `chpen` of the xterm driver on top of `write_str`: the bytes of one SGR sequence, or the array overrun. -/
def drvChpen (tb : TermBuf.State) (caps : TermPen.Caps) (delta final : TermPen.Pen) : TermBuf.Outcome :=
  match TermPen.xtermChpen caps Gen.Sgr.paramsCap delta final with
  | .overflow _ => .ub "chpen: params[pindex++] written past the end of int params[N]"
  | .bytes bs => if bs.isEmpty then .ok tb else TermBuf.writeStr tb (bytesOfNats bs ++ [0]) bs.length

/-- The slot tables after an operation of the lower layers: the watches go with the instance (`tickit_destroy`:
    `destroy_watchlist`); a tick that ran polls and dispatches: the terminal's slot is the first (`xstep` has followed it,
    last of all it does), the application's come after it. -/
def ioAfter (top : Top) (op : XOp) (r : String) (io : IoSt) : Out IoSt :=
  let io : IoSt := if !instAlive top then {} else io
  match op with
  | .itick _ => if r = "ok" then IoSt.dispatch ioFuel 0 io.poll else pure io
  | _ => pure io

/-- An operation on the I/O watches alone. -/
def ystepIo (o : OTop) : Bool → IoSt → Out (OTop × String)
  | false, _ => pure (o, "skip")
  | true, io => pure ({ o with io := io }, "ok")

def ystep (tc : TCfg) (o : OTop) : YOp → Out (OTop × String)
  | .x op => do
    let (top, r) ← xstep tc o.top op
    let out : OutSt :=
      match op with
      | .base (.newTerm _ _ mock) => OutSt.fresh (!mock)
      | .newin .. => OutSt.fresh true
      | .newtop .. => OutSt.fresh false
      | _ => if op.quiet || r = "skip" then o.o else { o.o with known := false }
    let io ← ioAfter top op r o.io
    pure ({ top := top, o := out, io := io }, r)
  | .tbuf n =>
    if !outUsable o then pure (o, "skip")
    else if !o.o.known then pure (o, "unsupported-output")
    else withTb o (TermBuf.step o.o.tb (.setbuf n))
  | .tprint bytes =>
    if !outUsable o then pure (o, "skip")
    else if !o.o.known then pure (o, "unsupported-output")
    else withTb o (TermBuf.step o.o.tb (.printn bytes bytes.length))
  | .tgoto line col =>
    if !outUsable o then pure (o, "skip")
    else if !o.o.known then pure (o, "unsupported-output")
    else withTb o (TermBuf.step o.o.tb (.goto line col))
  | .tflush =>
    if !outUsable o then pure (o, "skip")
    else if !o.o.known then pure (o, "unsupported-output")
    else withTb o (TermBuf.step o.o.tb .flush)
  | .tcaps rgb8 colon viaCtl =>
    if !outUsable o then pure (o, "skip")
    else if o.top.pendingEsc || o.top.inputDead then pure (o, "unsupported-input")
    else do
      -- tickit_term_input_push_bytes of the reply: no key comes of it, the driver's on_decrqss sets what the reply shows
      let (top, _) ← xstep tc o.top (.tpush [])
      let caps : TermPen.Caps :=
        { colon := o.o.caps.colon || colon
          rgb8 := if viaCtl then rgb8
                  else if Gen.ModeLayout.rgb8Guarded && o.o.rgb8Forced then o.o.caps.rgb8
                  else (o.o.caps.rgb8 || rgb8) }
      pure ({ o with top := top, o := { o.o with caps := caps, rgb8Forced := o.o.rgb8Forced || viaCtl } },
        s!"ok rgb8={if caps.rgb8 then 1 else 0} colon={if caps.colon then 1 else 0}")
  | .tsetpen set pen =>
    if !outUsable o then pure (o, "skip")
    else if !o.o.known then pure (o, "unsupported-output")
    else
      let delta := TermPen.termDelta set xtermColors o.o.cache pen
      let cache := TermPen.termCache set xtermColors o.o.cache pen
      withTb { o with o := { o.o with cache := cache } } (drvChpen o.o.tb o.o.caps delta cache)
  | .iio ready acts =>
    ystepIo o (instHeld o.top && decide (o.io.recs.size < ioCap)) (o.io.watch { ready := ready, acts := acts })
  | .iiocancel k =>
    ystepIo o (instHeld o.top && o.io.pending k) (o.io.cancel k)

def yrunOps (tc : TCfg) : OTop → List YOp → Out OTop
  | o, [] => .ok o
  | o, op :: rest =>
    match ystep tc o op with
    | .ok (o', _) => yrunOps tc o' rest
    | .ub k w => .ub k w
    | .fuel => .fuel

end Life
end Tickit
