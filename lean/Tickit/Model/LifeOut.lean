import Tickit.Model.LifeTop
import Tickit.Model.TermBuf
import Tickit.Model.TermPen
import Tickit.Gen.ModeLayout
/-
  Property C08, fifth part of the model: the output side of the main terminal, driven through the REAL xterm driver.

  The lower layers (`Model/Life*.lean`) follow who owns what; this layer follows what the calls that *write* do to the
  memory the terminal owns for output:

  * the output buffer of `src/term.c` (`tickit_term_set_output_buffer`, `write_str`, `tickit_term_flush`): its length, the
    bytes pending in it; installed, grown, shrunk and removed with output pending.  The model is the one of engine
    `termbuf` (C11, `Model/TermBuf.lean`: `setOutputBuffer`, `writeStr` with its `while(len > 0)` loop, `flush`), reused,
    not copied; a fill level above the length is an explicit `ub` there.

  * `tickit_term_printn`, `tickit_term_goto` through the xterm driver (`print`, `goto_abs` of `Model/TermBuf.lean`).

  * `tickit_term_setpen` / `tickit_term_chpen` with pens that carry every attribute (both colours with RGB8 secondaries, a
    styled underline, all the single attributes) on a terminal whose `cap_rgb8` / `cap_csi_sub_colon` are on (the DECRQSS
    reply fed through `tickit_term_input_push_bytes`, or the driver's `xterm.cap_rgb8` control): the delta against the
    cached pen and the xterm driver's `chpen` with its array `int params[N]` are the model of engine `sgr` (C10,
    `Model/TermPen.lean`: `termDelta`, `termCache`, `xtermChpen`), `N` read from the source tree (`Gen.Sgr.paramsCap`);
    more parameters than `N` is an explicit `ub` (the stack array is overrun).  The pen is made for the call
    (`tickit_pen_new`, the setters, the call, `tickit_pen_unref`) and does not outlive it.

  What the other operations write is not followed (a window flush draws, `tickit_term_destroy` tears down): after an
  operation that may have reached the driver (`XOp.quiet = false`) the content of the buffer and the cached pen are
  unknown to this model and the operations of this layer answer `unsupported-output` (the generator keeps such
  operations out of the histories that use this layer; the precedent is `unsupported-screen` of `Model/LifeTop.lean`).
-/
namespace Tickit
namespace Life

/-- The output side of `struct TickitTerm` and of the xterm driver. -/
structure OutSt where
  /-- `outbuffer_len`, the pending bytes, the chunks delivered (of the current operation), the output function -/
  tb : TermBuf.State := { hasFunc := true, mode := { started := true } }
  /-- `tt->pen` -/
  cache : TermPen.Pen := {}
  /-- `xd->cap.rgb8`, `xd->cap.csi_sub_colon` -/
  caps : TermPen.Caps := ⟨false, false⟩
  /-- `xd->initialised.rgb8`: the program has set `xterm.cap_rgb8` itself (a later DECRQSS report leaves it alone when
      the source has that guard: `Gen.ModeLayout.rgb8Guarded`, read from `on_decrqss`) -/
  rgb8Forced : Bool := false
  /-- this model knows what is pending and what the cached pen is -/
  known : Bool := true
deriving Repr

structure OTop where
  top : Top := {}
  o : OutSt := {}

/-- The operations of the `life` engine: those of `XOp` and the ones of this layer. -/
inductive YOp where
  | x (op : XOp)
  | tbuf (n : Nat)                                   -- tickit_term_set_output_buffer
  | tprint (bytes : List UInt8)                      -- tickit_term_printn
  | tgoto (line col : Int)                           -- tickit_term_goto
  | tflush                                           -- tickit_term_flush
  | tcaps (rgb8 colon viaCtl : Bool)                 -- DECRQSS reply for SGR pushed as input; `viaCtl`: xterm.cap_rgb8 set by control
  | tsetpen (set : Bool) (pen : TermPen.Pen)         -- tickit_term_setpen / tickit_term_chpen of a pen made for the call

def YOp.isNew : YOp → Bool
  | .x op => op.isNew
  | _ => false

/-- The operation the specification looks at: `end` is special, the rest is judged alike. -/
def YOp.specOp : YOp → Op
  | .x op => op.specOp
  | _ => .pen

/-- `tt->colors` of the xterm driver without `cap_rgb8` at construction time. -/
def xtermColors : Int := 256

/-- Operations that reach neither the driver nor the cached pen (`Op.leavesScreen` for those of the lower layers). -/
def XOp.quiet : XOp → Bool
  | .base (.newTerm ..) => false
  | .base op => op.leavesScreen
  | .tbind .. | .tunbind _ | .tick _ | .iref | .ilater _ | .itimer .. | .itimerat .. | .icancel _ => true
  | .xnew | .xref _ | .xunref _ | .xobs .. | .tobs _ | .winch => true
  | _ => false

/-- A history begins: the terminal has been built with an output function (the driver has started and written its
    probes straight to it: no buffer yet), its pen cache is empty, no capability has been reported. -/
def OutSt.fresh (known : Bool) : OutSt := { known := known }

def bytesOfNats (l : List Nat) : List UInt8 := l.map UInt8.ofNat

def hexDigit (n : Nat) : Char := if n < 10 then Char.ofNat (48 + n) else Char.ofNat (87 + n)
def hexByte (b : UInt8) : String := String.ofList [hexDigit (b.toNat / 16), hexDigit (b.toNat % 16)]

/-- The chunks the output function was handed during the operation: `out=<hex>,<hex>…` (`-` = none). -/
def outText (cs : List TermBuf.Chunk) : String :=
  let ds := cs.filterMap (fun c => match c with
    | .data _ b => some (String.join (b.map hexByte))
    | .fin => none)
  if ds.isEmpty then "out=-" else "out=" ++ ",".intercalate ds

/-- The terminal the operations of this layer work on: the application holds it, and it is the xterm driver's. -/
def outUsable (o : OTop) : Bool := heldT o.top.st && !o.top.mock

def withTb (o : OTop) (r : TermBuf.Outcome) (tail : String := "") : Out (OTop × String) :=
  match r with
  | .ok tb => pure ({ o with o := { o.o with tb := { tb with out := [] } } }, "ok " ++ outText tb.out ++ tail)
  | .ub w => .ub .mem w
  | .outOfFuel => .fuel

/-- `chpen` of the xterm driver on top of `write_str`: the bytes of one SGR sequence, or the array overrun. -/
def drvChpen (tb : TermBuf.State) (caps : TermPen.Caps) (delta final : TermPen.Pen) : TermBuf.Outcome :=
  match TermPen.xtermChpen caps Gen.Sgr.paramsCap delta final with
  | .overflow _ => .ub "chpen: params[pindex++] written past the end of int params[N]"
  | .bytes bs => if bs.isEmpty then .ok tb else TermBuf.writeStr tb (bytesOfNats bs ++ [0]) bs.length

def ystep (tc : TCfg) (o : OTop) : YOp → Out (OTop × String)
  | .x op => do
    let (top, r) ← xstep tc o.top op
    let out : OutSt :=
      match op with
      | .base (.newTerm _ _ mock) => OutSt.fresh (!mock)
      | .newin .. => OutSt.fresh true
      | .newtop .. => OutSt.fresh false
      | _ => if op.quiet || r = "skip" then o.o else { o.o with known := false }
    pure ({ top := top, o := out }, r)
  | .tbuf n =>
    if !outUsable o then pure (o, "skip")
    else if !o.o.known then pure (o, "unsupported-output")
    else withTb o (TermBuf.step o.o.tb (.setbuf n))
  | .tprint bytes =>
    if !outUsable o then pure (o, "skip")
    else if !o.o.known then pure (o, "unsupported-output")
    else withTb o (TermBuf.step o.o.tb (.printn bytes bytes.length))
  | .tgoto line col =>
    if !outUsable o then pure (o, "skip")
    else if !o.o.known then pure (o, "unsupported-output")
    else withTb o (TermBuf.step o.o.tb (.goto line col))
  | .tflush =>
    if !outUsable o then pure (o, "skip")
    else if !o.o.known then pure (o, "unsupported-output")
    else withTb o (TermBuf.step o.o.tb .flush)
  | .tcaps rgb8 colon viaCtl =>
    if !outUsable o then pure (o, "skip")
    else if o.top.pendingEsc || o.top.inputDead then pure (o, "unsupported-input")
    else do
      -- tickit_term_input_push_bytes of the reply: no key comes of it, the driver's on_decrqss sets what the reply shows
      let (top, _) ← xstep tc o.top (.tpush [])
      let caps : TermPen.Caps :=
        { colon := o.o.caps.colon || colon
          rgb8 := if viaCtl then rgb8
                  else if Gen.ModeLayout.rgb8Guarded && o.o.rgb8Forced then o.o.caps.rgb8
                  else (o.o.caps.rgb8 || rgb8) }
      pure ({ top := top, o := { o.o with caps := caps, rgb8Forced := o.o.rgb8Forced || viaCtl } },
        s!"ok rgb8={if caps.rgb8 then 1 else 0} colon={if caps.colon then 1 else 0}")
  | .tsetpen set pen =>
    if !outUsable o then pure (o, "skip")
    else if !o.o.known then pure (o, "unsupported-output")
    else
      let delta := TermPen.termDelta set xtermColors o.o.cache pen
      let cache := TermPen.termCache set xtermColors o.o.cache pen
      withTb { o with o := { o.o with cache := cache } } (drvChpen o.o.tb o.o.caps delta cache)

def yrunOps (tc : TCfg) : OTop → List YOp → Out OTop
  | o, [] => .ok o
  | o, op :: rest =>
    match ystep tc o op with
    | .ok (o', _) => yrunOps tc o' rest
    | .ub k w => .ub k w
    | .fuel => .fuel

end Life
end Tickit
