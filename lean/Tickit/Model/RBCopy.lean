import Tickit.Model.RB
import Tickit.Model.RectSet
/-
  Concrete model of `copyrect`, `tickit_renderbuffer_copyrect`, `tickit_renderbuffer_moverect` and
  `tickit_renderbuffer_blit` of /repo/src/renderbuffer.c, statement by statement, on top of the concrete
  render-buffer model `Model/RB.lean` (property C13).

  Three texts of the function are modelled, selected by a `Variant`:
  * `Variant.asFound`: the code as found (round 0).  In the loop body the `RBCell *cell` pointer aliases the
    destination when source and destination are the same buffer, and two things are read through it *after*
    the dispatch that may have overwritten the cell: `cell->state != SKIP` (decides whether `restore` is
    called) and `cell->cols` (the advance of `col`; after `cont_cell` the union member holds `startcol`).
    Also the length of the piece that is copied is the *whole* run's `cell->cols` even when the scan entered
    the run at `offset > 0` (rectangle edge inside the run).  A TEXT run is copied by cutting the bytes of the
    columns out of the string (`tickit_utf8_count`/`countmore`) and drawing them as a new text.
    (The as-found code also frees the string it is copying when the destination covers the run's start cell and
    the whole string is taken - reference counts are not modelled; the real run is under ASan.)
  * `Variant.captured`: with `fixes/C13_1_copyrect_run_state.patch`: `active = (cell->state != SKIP)` and
    `remaining = cell->cols - offset` are captured before the dispatch and used afterwards (and a reference to
    the string is held across the cheap whole-string copy).
  * `Variant.repaired`: additionally `fixes/C13_2_copyrect_text_by_reference.patch`: a TEXT run is copied as the
    same columns of the same string (`put_string_slice`), which is exact also when a rectangle edge falls inside
    a double-width character.
  All are executable; the driver runs the one that corresponds to the tree that is checked (the repaired one),
  the others carry the counterexample theorems of `Props/C13.lean`.

  Conventions as in `Model/RB.lean`: C `int` is `Int`; `abort()` is the sticky `aborted` flag; the column loop's
  trip count depends on data the loop itself rewrites, so it takes a fuel and running out is the sticky
  `fuelOut` flag.  No Mathlib: linked into the driver executable.
-/
namespace Tickit.RBCopy
open Tickit Tickit.RB

/-- Which text of `copyrect` (see above). -/
structure Variant where
  /-- `active` / `remaining` captured before the dispatch -/
  capture : Bool
  /-- TEXT runs copied by reference (`put_string_slice`) -/
  byRef : Bool
deriving DecidableEq, Repr

def Variant.asFound : Variant := ⟨false, false⟩
def Variant.captured : Variant := ⟨true, false⟩
def Variant.repaired : Variant := ⟨true, true⟩

/-- The `if(cell->state == CONT) { … }` block at the top of the loop body: where the run's start cell is, the
    (possibly moved) `col`, and `offset`. -/
structure Look where
  /-- column of `cell` (the start cell of the run) after the block -/
  hcol : Int
  /-- `col` after the block (moved only when iterating leftwards) -/
  col : Int
  offset : Int
deriving DecidableEq, Repr

def look (S : RB) (sr : Rect) (leftwards : Bool) (line col : Int) : Look :=
  let c := S.cell line col
  if c.state = .cont then
    let startcol := c.cols
    let col1 := if leftwards then (if startcol < sr.left then sr.left else startcol) else col
    { hcol := startcol, col := col1, offset := col1 - startcol }
  else { hcol := col, col := col, offset := 0 }

/-- `start`/`end` of the TEXT arm as found: the byte range of the columns `[offs + offset, offs + offset + cols)`. -/
def sliceStart (cell : Cell) (offset : Int) : Utf8.StrPos :=
  (Utf8.ncountmore cell.text none {} (some (Utf8.limitColumns (cell.offs + offset)))).pos

def sliceEnd (cell : Cell) (offset cols : Int) : Utf8.StrPos :=
  (Utf8.ncountmore cell.text none (sliceStart cell offset) (some (Utf8.limitColumns (cell.offs + offset + cols)))).pos

/-- The bytes handed to `put_text` / the whole string handed to `put_string` (as found). -/
def sliceBytes (cell : Cell) (offset cols : Int) : List UInt8 :=
  let start := sliceStart cell offset
  let end_ := sliceEnd cell offset cols
  if start.bytes > 0 ∨ end_.bytes < cell.text.length then
    (cell.text.drop start.bytes.toNat).take (end_.bytes - start.bytes).toNat
  else cell.text

/-- `put_string_slice(rb, line, col, s, offs, cols)` (repaired text): the columns `[offs, offs + cols)` of `s` at
    `(line, col)`.  `put_string` is `put_string_slice` with `offs = 0` and the columns of the whole string. -/
def putStringSlice (rb : RB) (line col : Int) (s : List UInt8) (offs cols : Int) : RB :=
  match xlateAndClip rb line col cols with
  | none => rb
  | some r => placeRuns (fillText rb.pen s) r.line (r.cols.toNat + 1) rb r.col r.cols (r.startcol + offs)

/-- The `switch(cell->state)` of the loop body, drawing into `d` at `(line, col)` (already offset). -/
def dispatch (byRef copySkip : Bool) (cell : Cell) (offset cols : Int) (d : RB) (line col : Int) : RB :=
  match cell.state with
  | .skip => if copySkip then skipRun d line col cols else d
  | .text =>
    if byRef then putStringSlice d line col cell.text (cell.offs + offset) cols
    else putString d line col (sliceBytes cell offset cols)
  | .erase => eraseRun d line col cols
  | .line => linecell d line col cell.lmask
  | .char => putChar d line col cell.cp
  | .cont => { d with aborted := true }

/-- Result of one execution of the loop body: the destination buffer and the new `col`. -/
structure BodyRes where
  rb : RB
  col : Int

/-- `if(cell->state != SKIP) { savepen; setpen(cell->pen); }` followed by the `switch`. -/
def drawPiece (byRef copySkip : Bool) (cell : Cell) (offset cols : Int) (dst : RB) (line col : Int) : RB :=
  dispatch byRef copySkip cell offset cols
    (if cell.state ≠ .skip then setpen (savepen dst) (some cell.pen) else dst) line col

/-- The repaired body's effect on the buffer: draw the piece and pop the pen iff one was saved. -/
def copyPiece (byRef copySkip : Bool) (cell : Cell) (offset cols : Int) (dst : RB) (line col : Int) : RB :=
  if cell.state ≠ .skip then restore (drawPiece byRef copySkip cell offset cols dst line col)
  else drawPiece byRef copySkip cell offset cols dst line col

/-- The length of the run from `col` on: `cell->cols` (as found) / `cell->cols - offset` (repaired). -/
def pieceRun (capture : Bool) (cell : Cell) (lk : Look) : Int :=
  if capture then cell.cols - lk.offset else cell.cols

/-- `cols`: the run length cut at the rectangle's right edge. -/
def pieceCols (sr : Rect) (lk : Look) (run : Int) : Int :=
  if lk.col + run > sr.right then sr.right - lk.col else run

/-- One execution of the body of the column loop.  `same`: `dst == src` (then `src` is ignored and every read
    of the source goes to the live destination). -/
def body (v : Variant) (same copySkip : Bool) (src : RB) (sr : Rect) (lineoffs coloffs : Int) (leftwards : Bool)
    (line : Int) (dst : RB) (col : Int) : BodyRes :=
  let S := if same then dst else src
  let lk := look S sr leftwards line col
  let cell := S.cell line lk.hcol
  let run := pieceRun v.capture cell lk
  let cols := pieceCols sr lk run
  if v.capture then
    -- repaired: `active` and `remaining` were captured before the dispatch
    { rb := copyPiece v.byRef copySkip cell lk.offset cols dst (line + lineoffs) (lk.col + coloffs)
      col := if leftwards then lk.col - 1 else lk.col + run }
  else
    let d2 := drawPiece v.byRef copySkip cell lk.offset cols dst (line + lineoffs) (lk.col + coloffs)
    -- as found: `if(cell->state != SKIP) restore` and `col += cell->cols` read the cell again
    let cellAfter := if same then d2.cell line lk.hcol else cell
    let d3 := if cellAfter.state ≠ .skip then restore d2 else d2
    let cellEnd := if same then d3.cell line lk.hcol else cell
    { rb := d3, col := if leftwards then lk.col - 1 else lk.col + cellEnd.cols }

/-- The condition of the column loop: `leftwards ? col >= srcrect->left : col < right`. -/
def more (leftwards : Bool) (sr : Rect) (col : Int) : Bool :=
  if leftwards then decide (col ≥ sr.left) else decide (col < sr.right)

/-- The column loop of one line. -/
def colLoop (v : Variant) (same copySkip : Bool) (src : RB) (sr : Rect) (lineoffs coloffs : Int) (leftwards : Bool)
    (line : Int) : Nat → RB → Int → RB
  | 0, dst, col => if more leftwards sr col then { dst with fuelOut := true } else dst
  | fuel + 1, dst, col =>
    if more leftwards sr col then
      colLoop v same copySkip src sr lineoffs coloffs leftwards line fuel
        (body v same copySkip src sr lineoffs coloffs leftwards line dst col).rb
        (body v same copySkip src sr lineoffs coloffs leftwards line dst col).col
    else dst

/-- Fuel of the column loop: with the repaired text every iteration advances by at least one column; the text
    as found can stall (an overwritten cell holds `startcol = 0`), hence the slack. -/
def colFuel (sr : Rect) : Nat := 4 * sr.cols.toNat + 16

/-- The line loop: `n` iterations from `line`, stepping by `step` (−1 when iterating upwards). -/
def lineLoop (f : RB → Int → RB) (step : Int) : Nat → RB → Int → RB
  | 0, rb, _ => rb
  | n + 1, rb, line => lineLoop f step n (f rb line) (line + step)

/-- `copyrect(dst, src, dstrect, srcrect, copy_skip)`; `same` is `dst == src`. -/
def copyrect (v : Variant) (same copySkip : Bool) (dst src : RB) (dr sr : Rect) : RB :=
  if sr.lines = 0 ∨ sr.cols = 0 then dst
  else
    let lineoffs := dr.top - sr.top
    let coloffs := dr.left - sr.left
    if same ∧ lineoffs = 0 ∧ coloffs = 0 then dst
    else
      let upwards : Bool := same && decide (lineoffs > 0)
      let leftwards : Bool := same && decide (lineoffs = 0) && decide (coloffs > 0)
      lineLoop
        (fun d line => colLoop v same copySkip src sr lineoffs coloffs leftwards line (colFuel sr) d
                         (if leftwards then sr.right - 1 else sr.left))
        (if upwards then -1 else 1) sr.lines.toNat dst (if upwards then sr.bottom - 1 else sr.top)

/-- `tickit_renderbuffer_copyrect(rb, dest, src)`. -/
def copy (v : Variant) (rb : RB) (dr sr : Rect) : RB := copyrect v true true rb rb dr sr

/-- `tickit_renderbuffer_blit(dst, src)`; `same` is `dst == src` (then nothing happens). -/
def blit (v : Variant) (same : Bool) (dst src : RB) : RB :=
  let S := if same then dst else src
  copyrect v same false dst src ⟨0, 0, S.lines, S.cols⟩ ⟨0, 0, S.lines, S.cols⟩

/-- Fuel for the two rectangle-set calls of `moverect` (a set of at most five rectangles). -/
def moveFuel : Nat := 64

/-- `cleararea` of `tickit_renderbuffer_moverect`: `{src} − {dest.top, dest.left, src.lines, src.cols}` as the
    rectangle set computes it; `none` = the rectangle-set model ran out of fuel. -/
def clearArea (dr sr : Rect) : Option (List Rect) :=
  match RectSet.add moveFuel [] sr with
  | none => none
  | some s => RectSet.subtract moveFuel s ⟨dr.top, dr.left, sr.lines, sr.cols⟩

/-- `tickit_renderbuffer_moverect(rb, dest, src)`. -/
def move (v : Variant) (rb : RB) (dr sr : Rect) : RB :=
  let rb1 := copy v rb dr sr
  match clearArea dr sr with
  | none => { rb1 with fuelOut := true }
  | some rects => rects.foldl skiprect rb1

end Tickit.RBCopy

/-! ## Specification vocabulary (C13): what a cell shows, and what copy / move / blit must leave behind

  Executable (the driver evaluates it on the implementation's dumps) and the right-hand side of the theorems of
  `Props/C13.lean`.  Nothing here knows about runs, CONT cells, iteration order or the saved-state stack. -/

namespace Tickit.RBCopy
open Tickit Tickit.RB

/-- What one cell shows.  `text pen s k`: column `k` of the string `s`. -/
inductive Content
  | skip
  | text (pen : Pen) (s : List UInt8) (k : Int)
  | erase (pen : Pen)
  | line (pen : Pen) (mask : Nat)
  | char (pen : Pen) (cp : Int)
deriving DecidableEq, Repr, Inhabited

/-- The content shown at `(L, C)` of a concrete buffer: look up the start of the run, as `get_span` does
    (without clip and translation).  Outside the buffer: `skip`. -/
def absContent (rb : RB) (L C : Int) : Content :=
  if 0 ≤ L ∧ L < rb.lines ∧ 0 ≤ C ∧ C < rb.cols then
    let c := rb.cell L C
    let start := if c.state = .cont then rb.cell L c.cols else c
    let off := if c.state = .cont then C - c.cols else 0
    match start.state with
    | .skip => .skip
    | .text => .text start.pen start.text (start.offs + off)
    | .erase => .erase start.pen
    | .line => .line start.pen start.lmask
    | .char => .char start.pen start.cp
    | .cont => .skip
  else .skip

/-- Is the buffer cell `(L, C)` under a mask? -/
def absMasked (rb : RB) (L C : Int) : Bool := decide ((rb.cell L C).maskdepth > -1)

/-- Is the buffer cell `(L, C)` inside the clipping region (`xlate_and_clip` for one column)? -/
def absClip (rb : RB) (L C : Int) : Bool := decide (rb.clip.lines ≠ 0) && rb.clip.memb L C

/-- May a drawing operation change the buffer cell `(L, C)`: inside the buffer and the clip, not masked. -/
def writable (rb : RB) (L C : Int) : Bool :=
  decide (0 ≤ L ∧ L < rb.lines ∧ 0 ≤ C ∧ C < rb.cols) && absClip rb L C && !absMasked rb L C

/-- What a text cell shows: the bytes of the grapheme that covers column `k` of `s` (the library's own
    counting, as `get_cell_text` does it) and which of its columns this is (0, or 1 for the right half of a
    double-width character).  Two text cells show the same thing iff pen and glyph agree; the string a cell
    refers to and the offset into it are representation (a copy stores a slice of the string). -/
structure Glyph where
  bytes : List UInt8
  half : Int
deriving DecidableEq, Repr

def glyphAt (s : List UInt8) (k : Int) : Glyph :=
  let start := (Utf8.ncountmore s none {} (some (Utf8.limitColumns k))).pos
  let end_ := (Utf8.ncountmore s none start (some (Utf8.limitGraphemes (start.graphemes + 1)))).pos
  { bytes := (s.drop start.bytes.toNat).take (end_.bytes - start.bytes).toNat, half := k - start.columns }

/-- Two contents show the same thing. -/
def Content.same : Content → Content → Bool
  | .text p s k, .text p' s' k' => decide (p = p') && decide (glyphAt s k = glyphAt s' k')
  | a, b => decide (a = b)

/-- Attribute-wise: the first pen's value, else the second's. -/
def orElse {α : Type} (a b : Option α) : Option α :=
  match a with
  | some v => some v
  | none => b

/-- The pen of a copied cell: the attributes the source cell's pen lacks are completed from the buffer's
    current pen. -/
def completePen (p cur : Pen) : Pen :=
  { fg := orElse p.fg cur.fg, bg := orElse p.bg cur.bg, bold := orElse p.bold cur.bold, under := orElse p.under cur.under,
    italic := orElse p.italic cur.italic, reverse := orElse p.reverse cur.reverse, strike := orElse p.strike cur.strike,
    altfont := orElse p.altfont cur.altfont, blink := orElse p.blink cur.blink, sizepos := orElse p.sizepos cur.sizepos }

/-- What a pen makes a cell look like: the value every getter of src/pen.c returns - colour index and RGB8 value (if
    the pen has one) of foreground and background, the flags and numbers with absent = default.  Two pens with the
    same look render alike; a pen *with* an RGB8 value on a colour never looks like one without, whatever the value. -/
structure PenLook where
  fg : Int
  fgRgb : Option RGB
  bg : Int
  bgRgb : Option RGB
  bold : Bool
  under : Int
  italic : Bool
  reverse : Bool
  strike : Bool
  altfont : Int
  blink : Bool
  sizepos : Int
deriving DecidableEq, Repr

def penLook (p : Pen) : PenLook :=
  { fg := Pen.getColour p.fg, fgRgb := Pen.getRgb p.fg, bg := Pen.getColour p.bg, bgRgb := Pen.getRgb p.bg
    bold := Pen.getBool p.bold, under := Pen.getInt p.under, italic := Pen.getBool p.italic
    reverse := Pen.getBool p.reverse, strike := Pen.getBool p.strike, altfont := Pen.getInt p.altfont
    blink := Pen.getBool p.blink, sizepos := Pen.getInt p.sizepos }

/-- Line segments merge into a line cell already there (the pen is replaced unless already equivalent). -/
def mergeLine (pen : Pen) (bits : Nat) (old : Content) : Content :=
  match old with
  | .line p m => .line (if Pen.equiv p pen then p else pen) (m ||| bits)
  | _ => .line pen bits

/-- What a destination cell that held `old` shows after receiving the (non-skip) source content `src` while the
    buffer's current pen is `cur`. -/
def transfer (cur : Pen) (src old : Content) : Content :=
  match src with
  | .skip => .skip
  | .text p s k => .text (completePen p cur) s k
  | .erase p => .erase (completePen p cur)
  | .line p m => mergeLine (completePen p cur) m old
  | .char p cp => .char (completePen p cur) cp

/-- The cell-wise specification of `copyrect(dst, src, dstrect, srcrect, copy_skip)`: the content of the
    destination buffer's cell `(L, C)` afterwards, from the two buffers *before* the call.  `lo`, `co` is the
    displacement `dstrect − srcrect` (plus the destination's translation, for `blit`). -/
def copyExpect (copySkip : Bool) (dst src : RB) (sr : Rect) (lo co : Int) (L C : Int) : Content :=
  if sr.memb (L - lo) (C - co) && writable dst L C then
    match absContent src (L - lo) (C - co) with
    | .skip => if copySkip then .skip else absContent dst L C
    | c => transfer dst.pen c (absContent dst L C)
  else absContent dst L C

/-- The cell-wise specification of `tickit_renderbuffer_copyrect` (within one buffer).  A copy onto itself
    (no displacement) is the identity: there is no "source before" and "destination after" to tell apart, and
    the library does nothing. -/
def selfCopyExpect (rb : RB) (dr sr : Rect) (L C : Int) : Content :=
  if dr.top = sr.top ∧ dr.left = sr.left then absContent rb L C
  else copyExpect true rb rb sr (dr.top - sr.top) (dr.left - sr.left) L C

/-- The cell-wise specification of `moverect`: as the copy, and the vacated cells are skipped. -/
def moveExpect (rb : RB) (dr sr : Rect) (L C : Int) : Content :=
  if sr.memb L C && !(Rect.memb ⟨dr.top, dr.left, sr.lines, sr.cols⟩ L C) && writable rb L C then .skip
  else selfCopyExpect rb dr sr L C

/-- The cell-wise specification of `blit`: exactly the source's non-skipped cells are overlaid (at the
    destination's translation). -/
def blitExpect (dst src : RB) (L C : Int) : Content :=
  copyExpect false dst src ⟨0, 0, src.lines, src.cols⟩ dst.xlLine dst.xlCol L C

end Tickit.RBCopy
