import Tickit.Model.RB
import Tickit.Model.RectSet
/-
  Concrete model of `copyrect`, `tickit_renderbuffer_copyrect`, `tickit_renderbuffer_moverect` and
  `tickit_renderbuffer_blit` of /repo/src/renderbuffer.c, statement by statement, on top of the concrete
  render-buffer model `Model/RB.lean` (property C13).

  Two texts of the function are modelled, selected by the flag `fx`:
  * `fx = false`: the code as found (round 0).  In the loop body the `RBCell *cell` pointer aliases the
    destination when source and destination are the same buffer, and two things are read through it *after*
    the dispatch that may have overwritten the cell: `cell->state != SKIP` (decides whether `restore` is
    called) and `cell->cols` (the advance of `col`; after `cont_cell` the union member holds `startcol`).
    Also the length of the piece that is copied is the *whole* run's `cell->cols` even when the scan entered
    the run at `offset > 0` (rectangle edge inside the run).
  * `fx = true`: the code with `fixes/C13_copyrect_run_state.patch` applied: `active = (cell->state != SKIP)`
    and `remaining = cell->cols - offset` are captured before the dispatch and used afterwards.
  Both are executable; the driver runs the one that corresponds to the tree that is checked (the repaired one),
  the other one carries the counterexample theorems of `Props/C13.lean`.

  Conventions as in `Model/RB.lean`: C `int` is `Int`; `abort()` is the sticky `aborted` flag; the column loop's
  trip count depends on data the loop itself rewrites, so it takes a fuel and running out is the sticky
  `fuelOut` flag.  No Mathlib: linked into the driver executable.
-/
namespace Tickit.RBCopy
open Tickit Tickit.RB

/-- The `if(cell->state == CONT) { … }` block at the top of the loop body: where the run's start cell is, the
    (possibly moved) `col`, and `offset`. -/
structure Look where
  /-- column of `cell` (the start cell of the run) after the block -/
  hcol : Int
  /-- `col` after the block (moved only when iterating leftwards) -/
  col : Int
  offset : Int
deriving DecidableEq, Repr

def look (S : RB) (sr : Rect) (leftwards : Bool) (line col : Int) : Look :=
  let c := S.cell line col
  if c.state = .cont then
    let startcol := c.cols
    let col1 := if leftwards then (if startcol < sr.left then sr.left else startcol) else col
    { hcol := startcol, col := col1, offset := col1 - startcol }
  else { hcol := col, col := col, offset := 0 }

/-- `start`/`end` of the TEXT arm: the byte range of the columns `[offs + offset, offs + offset + cols)`. -/
def sliceStart (cell : Cell) (offset : Int) : Utf8.StrPos :=
  (Utf8.ncountmore cell.text none {} (some (Utf8.limitColumns (cell.offs + offset)))).pos

def sliceEnd (cell : Cell) (offset cols : Int) : Utf8.StrPos :=
  (Utf8.ncountmore cell.text none (sliceStart cell offset) (some (Utf8.limitColumns (cell.offs + offset + cols)))).pos

/-- The bytes handed to `put_text` / the whole string handed to `put_string`. -/
def sliceBytes (cell : Cell) (offset cols : Int) : List UInt8 :=
  let start := sliceStart cell offset
  let end_ := sliceEnd cell offset cols
  if start.bytes > 0 ∨ end_.bytes < cell.text.length then
    (cell.text.drop start.bytes.toNat).take (end_.bytes - start.bytes).toNat
  else cell.text

/-- The `switch(cell->state)` of the loop body, drawing into `d` at `(line, col)` (already offset). -/
def dispatch (copySkip : Bool) (cell : Cell) (offset cols : Int) (d : RB) (line col : Int) : RB :=
  match cell.state with
  | .skip => if copySkip then skipRun d line col cols else d
  | .text => putString d line col (sliceBytes cell offset cols)
  | .erase => eraseRun d line col cols
  | .line => linecell d line col cell.lmask
  | .char => putChar d line col cell.cp
  | .cont => { d with aborted := true }

/-- Result of one execution of the loop body: the destination buffer and the new `col`. -/
structure BodyRes where
  rb : RB
  col : Int

/-- One execution of the body of the column loop.  `same`: `dst == src` (then `src` is ignored and every read
    of the source goes to the live destination). -/
def body (fx same copySkip : Bool) (src : RB) (sr : Rect) (lineoffs coloffs : Int) (leftwards : Bool)
    (line : Int) (dst : RB) (col : Int) : BodyRes :=
  let S := if same then dst else src
  let lk := look S sr leftwards line col
  let cell := S.cell line lk.hcol
  -- `int cols = cell->cols;` (as found) / `int cols = cell->cols - offset;` (repaired)
  let run := if fx then cell.cols - lk.offset else cell.cols
  let cols := if lk.col + run > sr.right then sr.right - lk.col else run
  let active : Bool := decide (cell.state ≠ .skip)
  let d1 := if active then setpen (savepen dst) (some cell.pen) else dst
  let d2 := dispatch copySkip cell lk.offset cols d1 (line + lineoffs) (lk.col + coloffs)
  -- `if(cell->state != SKIP) restore` reads the cell again (as found) / uses the captured value (repaired)
  let cellAfter := if same then d2.cell line lk.hcol else cell
  let pop : Bool := if fx then active else decide (cellAfter.state ≠ .skip)
  let d3 := if pop then restore d2 else d2
  -- `col += cell->cols` reads the cell again (as found) / `col += remaining` (repaired)
  let cellEnd := if same then d3.cell line lk.hcol else cell
  let next := if leftwards then lk.col - 1 else lk.col + (if fx then run else cellEnd.cols)
  { rb := d3, col := next }

/-- The column loop of one line. -/
def colLoop (fx same copySkip : Bool) (src : RB) (sr : Rect) (lineoffs coloffs : Int) (leftwards : Bool)
    (line : Int) : Nat → RB → Int → RB
  | 0, dst, col =>
    if (if leftwards then col ≥ sr.left else col < sr.right) then { dst with fuelOut := true } else dst
  | fuel + 1, dst, col =>
    if (if leftwards then col ≥ sr.left else col < sr.right) then
      let r := body fx same copySkip src sr lineoffs coloffs leftwards line dst col
      colLoop fx same copySkip src sr lineoffs coloffs leftwards line fuel r.rb r.col
    else dst

/-- Fuel of the column loop: with the repaired text every iteration advances by at least one column; the text
    as found can stall (an overwritten cell holds `startcol = 0`), hence the slack. -/
def colFuel (sr : Rect) : Nat := 4 * sr.cols.toNat + 16

/-- The line loop: `n` iterations from `line`, stepping by `step` (−1 when iterating upwards). -/
def lineLoop (f : RB → Int → RB) (step : Int) : Nat → RB → Int → RB
  | 0, rb, _ => rb
  | n + 1, rb, line => lineLoop f step n (f rb line) (line + step)

/-- `copyrect(dst, src, dstrect, srcrect, copy_skip)`; `same` is `dst == src`. -/
def copyrect (fx same copySkip : Bool) (dst src : RB) (dr sr : Rect) : RB :=
  if sr.lines = 0 ∨ sr.cols = 0 then dst
  else
    let lineoffs := dr.top - sr.top
    let coloffs := dr.left - sr.left
    if same ∧ lineoffs = 0 ∧ coloffs = 0 then dst
    else
      let upwards : Bool := same && decide (lineoffs > 0)
      let leftwards : Bool := same && decide (lineoffs = 0) && decide (coloffs > 0)
      lineLoop
        (fun d line => colLoop fx same copySkip src sr lineoffs coloffs leftwards line (colFuel sr) d
                         (if leftwards then sr.right - 1 else sr.left))
        (if upwards then -1 else 1) sr.lines.toNat dst (if upwards then sr.bottom - 1 else sr.top)

/-- `tickit_renderbuffer_copyrect(rb, dest, src)`. -/
def copy (fx : Bool) (rb : RB) (dr sr : Rect) : RB := copyrect fx true true rb rb dr sr

/-- `tickit_renderbuffer_blit(dst, src)`; `same` is `dst == src` (then nothing happens). -/
def blit (fx same : Bool) (dst src : RB) : RB :=
  let S := if same then dst else src
  copyrect fx same false dst src ⟨0, 0, S.lines, S.cols⟩ ⟨0, 0, S.lines, S.cols⟩

/-- Fuel for the two rectangle-set calls of `moverect` (a set of at most five rectangles). -/
def moveFuel : Nat := 64

/-- `cleararea` of `tickit_renderbuffer_moverect`: `{src} − {dest.top, dest.left, src.lines, src.cols}` as the
    rectangle set computes it; `none` = the rectangle-set model ran out of fuel. -/
def clearArea (dr sr : Rect) : Option (List Rect) :=
  match RectSet.add moveFuel [] sr with
  | none => none
  | some s => RectSet.subtract moveFuel s ⟨dr.top, dr.left, sr.lines, sr.cols⟩

/-- `tickit_renderbuffer_moverect(rb, dest, src)`. -/
def move (fx : Bool) (rb : RB) (dr sr : Rect) : RB :=
  let rb1 := copy fx rb dr sr
  match clearArea dr sr with
  | none => { rb1 with fuelOut := true }
  | some rects => rects.foldl skiprect rb1

end Tickit.RBCopy
