import Tickit.Model.TermPen
/-
  Model/TermSuspend.lean — C10 across `tickit_term_pause` / `tickit_term_resume`.

  `src/term.c`:
      tickit_term_pause :  (*vtable->pause)(driver)  [if the driver has one];  termkey_stop;  tickit_term_flush
      tickit_term_resume:  termkey_start;  (*vtable->resume)(driver)  [if the driver has one];
                           (*vtable->chpen)(driver, tt->pen, tt->pen)      -- "send the cached pen again"
  `src/termdriver-xterm.c`: the vtable's `pause` is `teardown`, which ends with `ESC [ m` ("Reset pen"); `resume` re-enables
  the modes the driver remembers.  This engine never touches a mode (keypad, alternate screen, cursor visibility, mouse all at
  their construction values), so `teardown` writes exactly `ESC [ m` and `resume` writes nothing (`Props/C10.lean` ties both to
  C12's mode model `Model/Modes.lean` evaluated at the construction state).

  Whether `tickit_term_resume` hands the cached pen to the driver's `chpen` is a parameter (`resend`), read from the source by
  the extractor (`Gen.TermBuf.term_resume_resends_pen`); the theorems say what follows from either value.
  Core Lean only: linked into the driver executable.
-/
namespace Tickit.TermPen
open Tickit.Sgr (Byte)

/-- What the xterm driver's `teardown` (= `pause`) writes when no mode has been changed: "Reset pen". -/
def xtermPauseBytes : List Byte := [27, 91, 109]

/-- What the xterm driver's `resume` writes when no mode has been changed. -/
def xtermResumeBytes : List Byte := []

/-- The `(delta, final)` pens `tickit_term_resume` hands to the driver's `chpen`: the cached pen, twice. -/
def resumeChpen (caps : Caps) (cap : Nat) (resend : Bool) (cache : Pen) : Out :=
  if resend then xtermChpen caps cap cache cache else .bytes []

/-- A request, or the program being stopped and continued (`tickit_term_pause` immediately followed by
    `tickit_term_resume`: the documented protocol allows nothing in between). -/
inductive Ev where
  | req (op : Op)
  | suspend
deriving DecidableEq, Repr, Inhabited

/-- `tickit_term_pause; tickit_term_resume` on the xterm driver: the cached pen is not touched; the terminal reads the bytes of
    `teardown`, of `resume`, and of the re-sent pen. -/
def suspendStep (cfg : Cfg) (resend : Bool) (st : TState) : Option TState :=
  match resumeChpen cfg.caps cfg.cap resend st.cache with
  | .overflow _ => none
  | .bytes bs =>
    some { st with vt := Tickit.Sgr.run bs (Tickit.Sgr.run xtermResumeBytes (Tickit.Sgr.run xtermPauseBytes st.vt)) }

def stepEv (cfg : Cfg) (resend : Bool) (st : TState) : Ev → Option TState
  | .req op => step cfg st op
  | .suspend => suspendStep cfg resend st

def runEvs (cfg : Cfg) (resend : Bool) : List Ev → TState → Option TState
  | [], st => some st
  | e :: es, st =>
    match stepEv cfg resend st e with
    | none => none
    | some st' => runEvs cfg resend es st'

/-- Stopping and continuing the program is not a pen request: the logical pen stays. -/
def logicalEvStep (l : Pen) : Ev → Pen
  | .req op => logicalStep l op
  | .suspend => l

def logicalEvs (es : List Ev) : Pen := es.foldl logicalEvStep {}

end Tickit.TermPen
