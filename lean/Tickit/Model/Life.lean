import Tickit.Model.WinTree
/-
  Ownership and lifetime model of libtickit (property C08), on top of the shared window store `WinTree`.

  What is modelled, statement by statement, is every place where the C code takes, drops, stores or follows a
  reference to an object with identity:

    * `src/window.c`: `tickit_window_ref/unref/destroy/close`, the queue of restacking requests
      (`_request_hierarchy_change`, `_purge_hierarchy_changes`, the request loop of `tickit_window_flush`),
      `_do_hierarchy_change` with its trailing `tickit_window_expose` walk up the parent chain, `_get_root`
      (which abort()s on an orphan), `tickit_window_new`, `show`, `hide`, `set_geometry`, `set_pen`,
      `take_focus`, and the input routing `_handle_key` / `_handle_mouse` / `on_term_mouse` with their
      reference protection, their sibling loops that hold `next` across handlers, and the uncounted
      `drag_source_window`;
    * `src/bindings.c`: the binding list of a window with tombstoning while iterating;
    * `src/pen.c`, `src/string.c`, `src/renderbuffer.c`, `src/term.c`: the reference counts;
    * the index arithmetic of the copy-out calls (`get_span_text`, `tickit_utf8_put`,
      `tickit_mockterm_get_display_text`).

  The rectangle set of damage is *not* carried here (it holds no references); `exposeWalk` is
  `tickit_window_expose` reduced to the windows it dereferences.

  `Cfg` says which of the repairs proposed in `fixes/C08_*.patch` the source tree contains (generated from the
  source by `bin/extract.d/40_life.py`), so the same model mirrors the code before and after them.

  Outcomes: `ok`, `ub` (the C code would touch freed memory / dereference NULL: a sanitizer abort; or call
  `abort()` itself), `fuel` (the model's recursion budget ran out: never confused with a result).
-/
namespace Tickit
namespace Life
open WinTree (Id Win Req Change Tree)

/-! ## outcomes -/

/-- How the C code dies. -/
inductive UB where
  | mem      -- use of freed memory / NULL dereference: AddressSanitizer / UBSan abort (`CRASH exit=1`)
  | abort    -- the library calls `abort()` itself (`CRASH signal=6`)
deriving DecidableEq, Repr, Inhabited

inductive Out (α : Type) where
  | ok (a : α)
  | ub (k : UB) (what : String)
  | fuel
deriving Repr

instance : Monad Out where
  pure := Out.ok
  bind x f := match x with
    | .ok a => f a
    | .ub k w => .ub k w
    | .fuel => .fuel

def ofRes {α : Type} : WinTree.Res α → Out α
  | .ok a => .ok a
  | .ub w => .ub .mem w

def Out.isOk {α : Type} : Out α → Bool
  | .ok _ => true
  | _ => false

/-! ## configuration: which repairs the source tree contains -/

structure Cfg where
  /-- `tickit_window_close` purges the queued requests of the closed subtree, `_purge_hierarchy_changes`
      tolerates a detached subtree, the root frees what is still queued (fixes/C08_close_purges_requests.patch) -/
  closePurges : Bool
  /-- the children loop of `tickit_window_destroy` closes the child before the unref
      (fixes/C08_destroy_closes_children.patch) -/
  destroyClosesChildren : Bool
  /-- `get_span_text` no longer stores `buffer[bytes] = 0` unconditionally (fixes/C08_span_text_exact_fit.patch) -/
  spanExactFit : Bool
  /-- `on_term_mouse` holds a reference on the root window across its dispatches
      (fixes/C08_mouse_dispatch_keeps_root.patch) -/
  mouseKeepsRoot : Bool
  /-- `tickit_window_new_root2` initialises `mouse_last_button/line/col` (fixes/C08_init_last_press.patch) -/
  lastPressInit : Bool
  /-- the purge of a closing subtree forgets the drag source in it (fixes/C08_drag_source_forgotten.patch, second part) -/
  dragForgottenOnClose : Bool
  /-- `_handle_key`/`_handle_mouse` walk a counted snapshot of the children, test `_is_shown`, and `_handle_mouse`
      returns a counted reference that `on_term_mouse` drops (the input engine's repairs 699581d, ce3ad0b, e6702a2) -/
  snapshotRouting : Bool
  /-- `tickit_pen_copy` holds a reference on `src` while it runs (fixes/C08_pen_copy_keeps_src.patch) -/
  penCopyKeepsSrc : Bool := false
deriving Repr, DecidableEq, Inhabited

def Cfg.orig : Cfg := ⟨false, false, false, false, false, false, false, false⟩
def Cfg.fixed : Cfg := ⟨true, true, true, true, true, true, true, true⟩

/-- What an `int` of freshly `malloc`ed memory reads as in the sanitizer build the harness runs
    (AddressSanitizer fills new allocations with `0xbe`): `(int)0xbebebebe`.  Only used to mirror the tree
    before fixes/C08_init_last_press.patch. -/
def uninitInt : Int := -1094795586

/-! ## objects -/

/-- A reference-counted object without further structure (pen, terminal). `appRefs` is the application's
    own tally (create +1, ref +1, unref -1): the harness keeps the same number. -/
structure Obj where
  refcount : Int := 1
  freed : Bool := false
  appRefs : Nat := 1
deriving Repr, Inhabited, DecidableEq

/-- One reference less; freed when that was the last one. -/
def Obj.dropped (p : Obj) : Obj := { p with refcount := p.refcount - 1, freed := decide (p.refcount - 1 = 0) }

/-- `win->pen`. -/
inductive PenRef where
  | null
  | own            -- the private pen allocated by `init_window` (nobody else can hold it)
  | app (k : Nat)  -- an application pen (index into `St.pens`)
deriving Repr, Inhabited, DecidableEq

inductive Ev where
  | key | mouse
deriving Repr, Inhabited, DecidableEq

/-- What a handler does when it runs (DESIGN §3 "Callbacks"): API calls on windows. -/
inductive Act where
  | unref (w : Id)
  | ref (w : Id)
  | close (w : Id)
  | restack (c : Change) (w : Id)
  | hide (w : Id)
  | «show» (w : Id)
  | flush
  | unbindSelf
deriving Repr, Inhabited, DecidableEq

/-- `struct TickitBinding`; `id = -1` is the tombstone (its `evindex` is then -1, i.e. `ev = none`). -/
structure Bind where
  id : Int
  ev : Option Ev
  ret : Bool
  acts : List Act
  used : Bool := true     -- the harness's `used` flag of the behaviour record (unbindSelf runs once)
deriving Repr, Inhabited

/-- Per-window state that `WinTree.Win` does not carry. -/
structure WinX where
  pen : PenRef := .own
  binds : List Bind := []
  iterating : Bool := false
  needsDelete : Bool := false
  /-- the references the application holds (the harness's tally: create +1, ref +1, unref -1, and -1 when a
      destroyed parent takes the creation reference of a child still linked to it) -/
  appRefs : Nat := 1
deriving Repr, Inhabited

/-- What an ON_CHANGE handler of a pen does: drop or take a reference to a pen. -/
inductive PAct where
  | unref (k : Nat)
  | ref (k : Nat)
deriving Repr, Inhabited, DecidableEq

/-- A binding of a pen (all are `TICKIT_PEN_ON_CHANGE`, flags 0). -/
structure PBind where
  id : Int
  acts : List PAct
deriving Repr, Inhabited

/-- The part of `struct TickitPen` the lifecycle depends on: the foreground colour (index and RGB8, which decide
    what `tickit_pen_copy` does), the freeze count, the pending-change flag and the bindings. -/
structure PenX where
  fg : Option Int := none                      -- valid.fgindex / fgindex
  rgb : Option (Nat × Nat × Nat) := none       -- valid.fg_rgb8 / fg_rgb8
  freeze : Nat := 0
  changed : Bool := false
  binds : List PBind := []
deriving Repr, Inhabited

/-- `struct TickitString`. -/
structure StrObj where
  refcount : Int := 1
  freed : Bool := false
  appRefs : Nat := 1
  bytes : List UInt8 := []
deriving Repr, Inhabited

/-- Render-buffer cell states (`enum TickitRenderBufferCellState`). -/
inductive CS where
  | skip | text | erase | cont | line | char
deriving Repr, Inhabited, DecidableEq

/-- `RBCell` without its pen (pens inside a buffer are private copies, never the application's). -/
structure Cell where
  state : CS := .cont
  cols : Int := 0            -- `cols`, or `startcol` for CONT
  text : List UInt8 := []    -- v.text.s
  offs : Int := 0            -- v.text.offs
  mask : Int := 0            -- v.line.mask
  cp : Int := 0              -- v.chr.codepoint
deriving Repr, Inhabited, DecidableEq

structure RBObj where
  refcount : Int := 1
  freed : Bool := false
  appRefs : Nat := 1
  lines : Int := 0
  cols : Int := 0
  cells : Array (Array Cell) := #[]
deriving Repr, Inhabited

structure St where
  tree : Tree := {}
  wx : Array WinX := #[]
  pens : Array Obj := #[]
  penx : Array PenX := #[]
  strs : Array StrObj := #[]
  rbs : Array RBObj := #[]
  term : Obj := {}
  /-- the terminal's binding list is being iterated (`tickit_term_emit_key/mouse` is running) -/
  termIter : Bool := false
  /-- the root window has seen a PRESS (otherwise `mouse_last_*` is whatever `tickit_window_new_root2` left there) -/
  pressSeen : Bool := false
  /-- handler invocations of the current operation, oldest first -/
  log : List String := []
deriving Repr, Inhabited

/-! ## basic access -/

def getW (st : St) (id : Id) : Out Win := ofRes (WinTree.get st.tree id)

def setW (st : St) (id : Id) (w : Win) : St := { st with tree := WinTree.set st.tree id w }

def getX (st : St) (id : Id) : WinX := st.wx[id]?.getD {}

def setX (st : St) (id : Id) (x : WinX) : St := { st with wx := st.wx.setIfInBounds id x }

/-- Budget for walks up the parent chain and for the destroy recursion: more than any chain can be long. -/
def chainFuel (t : Tree) : Nat := t.wins.size + 1

/-! ## walks over the tree -/

/-- `_get_root`: abort()s on an orphan. -/
def getRootA (t : Tree) : Nat → Id → Out Id
  | 0, _ => .fuel
  | fuel + 1, id => do
    let w ← ofRes (WinTree.get t id)
    if w.isRoot then pure id
    else match w.parent with
      | none => .ub .abort s!"_get_root: orphaned window {id}"
      | some p => getRootA t fuel p

/-- The walk at the head of the repaired `_purge_hierarchy_changes`:
    `while(top->parent) top = top->parent; if(!top->is_root) return;` -/
def findRoot (t : Tree) : Nat → Id → Out (Option Id)
  | 0, _ => .fuel
  | fuel + 1, id => do
    let w ← ofRes (WinTree.get t id)
    match w.parent with
    | some p => findRoot t fuel p
    | none => pure (if w.isRoot then some id else none)

/-- `for(w = req->win; w; w = w->parent) if(w == win) …` of the repaired purge. -/
def within (t : Tree) : Nat → Id → Id → Out Bool
  | 0, _, _ => .fuel
  | fuel + 1, w, top =>
    if w = top then pure true
    else do
      let ww ← ofRes (WinTree.get t w)
      match ww.parent with
      | none => pure false
      | some p => within t fuel p top

/-- `tickit_window_expose` reduced to the windows it reads (`none` = NULL rectangle). -/
def exposeWalk (t : Tree) : Nat → Id → Option Rect → Out Unit
  | 0, _, _ => .fuel
  | fuel + 1, id, exposed => do
    let w ← ofRes (WinTree.get t id)
    let selfrect : Rect := ⟨0, 0, w.rect.lines, w.rect.cols⟩
    let damaged? := match exposed with
      | some e => Rect.intersect selfrect e
      | none => some selfrect
    match damaged? with
    | none => pure ()
    | some damaged =>
      if !w.isVisible then pure ()
      else if w.isRoot then pure ()
      else match w.parent with
        | none => pure ()
        | some p => exposeWalk t fuel p (some (damaged.translate w.rect.top w.rect.left))

/-- `tickit_window_get_abs_geometry`. -/
def absGeom (t : Tree) (id : Id) : Out Rect := do
  let w ← ofRes (WinTree.get t id)
  let rec up : Nat → Option Id → Rect → Out Rect
    | 0, _, _ => .fuel
    | _, none, g => pure g
    | f + 1, some p, g => do
      let pw ← ofRes (WinTree.get t p)
      up f pw.parent (g.translate pw.rect.top pw.rect.left)
  up (chainFuel t) w.parent w.rect

/-- `child->next`: the successor of `c` in the sibling chain that contains it (`none` = NULL).  A window
    is in at most one chain; REMOVE clears `next`, which is the same as being in no chain.  The chain of a
    destroyed parent stays in its (freed) slot, exactly like the dangling `next` pointers in C. -/
def succIn : List Id → Id → Option (Option Id)
  | [], _ => none
  | x :: rest, c => if x = c then some rest.head? else succIn rest c

def nextOf (t : Tree) (c : Id) : Option Id :=
  (t.wins.toList.findSome? (fun w => succIn w.children c)).getD none

/-! ## sibling-list surgery and queued requests -/

/-- `_do_hierarchy_change` (the damage set left out). -/
def doHC (t : Tree) (change : Change) (parent win : Id) : Out Tree := do
  let p ← ofRes (WinTree.get t parent)
  let w ← ofRes (WinTree.get t win)
  let t ← match change with
    | .insertFirst => pure (WinTree.set t parent { p with children := win :: p.children })
    | .insertLast => pure (WinTree.set t parent { p with children := p.children ++ [win] })
    | .remove => do
      let cs ← ofRes (WinTree.listRemove p.children win)
      let fc := if p.focusedChild = some win then none else p.focusedChild
      let t := WinTree.set t parent { p with children := cs, focusedChild := fc }
      let w ← ofRes (WinTree.get t win)
      pure (WinTree.set t win { w with parent := none })
    | .raise => do
      let cs ← ofRes (WinTree.listRaise p.children win)
      pure (WinTree.set t parent { p with children := cs })
    | .raiseFront => do
      let cs ← ofRes (WinTree.listRemove p.children win)
      pure (WinTree.set t parent { p with children := win :: cs })
    | .lower => pure (WinTree.set t parent { p with children := WinTree.listLower p.children win })
    | .lowerBack => do
      let cs ← ofRes (WinTree.listRemove p.children win)
      pure (WinTree.set t parent { p with children := cs ++ [win] })
  if w.isVisible then do
    exposeWalk t (chainFuel t) parent (some w.rect)
    pure t
  else pure t

/-- The filter loop of `_purge_hierarchy_changes` after the repair. -/
def purgeFilter (t : Tree) (win : Id) : List Req → Out (List Req)
  | [] => pure []
  | r :: rest => do
    let inside ← within t (chainFuel t) r.win win
    let rest' ← purgeFilter t win rest
    pure (if inside then rest' else r :: rest')

/-- Replace the queue of requests. -/
def setChanges (t : Tree) (cs : List Req) : Tree := { t with root := { t.root with changes := cs } }

/-- `root->drag_source_window = NULL`. -/
def clearDrag (t : Tree) : Tree := { t with root := { t.root with dragSource := none } }

/-- `for(w = root->drag_source_window; w; w = w->parent) if(w == win) { root->drag_source_window = NULL; break; }` -/
def forgetDrag (t : Tree) (win : Id) : Out Tree :=
  match t.root.dragSource with
  | some src => do
    let inside ← within t (chainFuel t) src win
    pure (if inside then clearDrag t else t)
  | none => pure t

/-- `_purge_hierarchy_changes`. -/
def purge (cfg : Cfg) (t : Tree) (win : Id) : Out Tree :=
  if cfg.closePurges then do
    match (← findRoot t (chainFuel t) win) with
    | none => pure t
    | some _ => do
      let cs ← purgeFilter t win t.root.changes
      let t := setChanges t cs
      if cfg.dragForgottenOnClose then forgetDrag t win else pure t
  else do
    let _ ← getRootA t (chainFuel t) win
    pure (setChanges t (t.root.changes.filter (fun r => r.parent ≠ win ∧ r.win ≠ win)))

/-- The kinds of change `tickit_window_raise/raise_to_front/lower/lower_to_back` queue. -/
def isRestack : Change → Bool
  | .raise | .raiseFront | .lower | .lowerBack => true
  | _ => false

/-- `_request_hierarchy_change`. -/
def request (t : Tree) (change : Change) (win : Id) : Out Tree := do
  let w ← ofRes (WinTree.get t win)
  match w.parent with
  | none => pure t
  | some p => do
    let _ ← getRootA t (chainFuel t) win
    pure { t with root := { t.root with changes := t.root.changes ++ [⟨change, p, win⟩] } }

/-- `tickit_window_close`. -/
def closeT (cfg : Cfg) (t : Tree) (win : Id) : Out Tree := do
  let w ← ofRes (WinTree.get t win)
  let t ← match w.parent with
    | some p => do
      let t ← if cfg.closePurges then purge cfg t win else pure t
      doHC t .remove p win
    | none => pure t
  let w ← ofRes (WinTree.get t win)
  pure (WinTree.set t win { w with isClosed := true })

/-- The request loop of `tickit_window_flush`. -/
def runRequests (t : Tree) : List Req → Out Tree
  | [] => pure t
  | r :: rest => do
    let t ← doHC t r.change r.parent r.win
    runRequests t rest

/-- `tickit_window_flush(root)` as far as references go: the queued requests are executed and freed.
    (The exposes and the cursor restore that follow read live windows only: every window reachable through
    `first_child`/`next`/`focused_child` from a live window.) -/
def flushT (t : Tree) : Out Tree := do
  let _ ← ofRes (WinTree.get t 0)
  let reqs := t.root.changes
  let t := { t with root := { t.root with changes := [] } }
  runRequests t reqs

/-! ## reference counts: pens, terminal -/

/-- `tickit_pen_unref`. -/
def penUnref (st : St) (k : Nat) : Out St :=
  match st.pens[k]? with
  | none => .ub .mem s!"unknown pen {k}"
  | some p =>
    if p.freed then .ub .mem s!"use of freed pen {k}"
    else if p.refcount < 1 then .ub .abort s!"tickit_pen_unref: invalid refcount on pen {k}"
    else pure { st with pens := st.pens.setIfInBounds k p.dropped }

/-- `tickit_pen_ref`. -/
def penRef (st : St) (k : Nat) : Out St :=
  match st.pens[k]? with
  | none => .ub .mem s!"unknown pen {k}"
  | some p =>
    if p.freed then .ub .mem s!"use of freed pen {k}"
    else pure { st with pens := st.pens.setIfInBounds k { p with refcount := p.refcount + 1 } }

/-! ### pens: change events, freeze/thaw (`src/pen.c`) -/

def getPX (st : St) (k : Nat) : PenX := st.penx[k]?.getD {}
def setPX (st : St) (k : Nat) (x : PenX) : St := { st with penx := st.penx.setIfInBounds k x }

def heldP (st : St) (k : Nat) : Bool :=
  match st.pens[k]? with
  | none => false
  | some p => !p.freed && p.appRefs > 0

/-- One API call of an ON_CHANGE handler (`none`: the harness skips it). -/
def penAct (st : St) : PAct → Option (Out St)
  | .unref k => if heldP st k then
      let p := st.pens[k]?.getD {}
      some (penUnref { st with pens := st.pens.setIfInBounds k { p with appRefs := p.appRefs - 1 } } k) else none
  | .ref k => if heldP st k then
      let p := st.pens[k]?.getD {}
      some (penRef { st with pens := st.pens.setIfInBounds k { p with appRefs := p.appRefs + 1 } } k) else none

def runPenActs : St → List PAct → Out St
  | st, [] => pure st
  | st, a :: rest =>
    match penAct st a with
    | none => runPenActs st rest
    | some r => do
      let st ← r
      runPenActs st rest

/-- `run_events(pen, TICKIT_PEN_ON_CHANGE, NULL)`: every binding in list order (the caller holds a reference). -/
def runPenEvents (st : St) (k : Nat) : Out St := do
  let _ ← penRef st k >>= fun _ => (pure () : Out Unit)       -- `&pen->bindings`: the pen is read
  let rec go : St → List PBind → Out St
    | st, [] => pure st
    | st, b :: rest => do
      let st := { st with log := st.log ++ [s!"P{k}c"] }
      let st ← runPenActs st b.acts
      go st rest
  let st ← go st (getPX st k).binds
  let _ ← penRef st k >>= fun _ => (pure () : Out Unit)       -- `bindings->is_iterating = was_iterating`
  pure st

/-- `emit_change`: `tickit_pen_ref(pen); run_events(...); tickit_pen_unref(pen);` -/
def emitChange (st : St) (k : Nat) : Out St := do
  let st ← penRef st k
  let st ← runPenEvents st k
  penUnref st k

/-- `changed`. -/
def penChanged (st : St) (k : Nat) : Out St := do
  let _ ← penRef st k >>= fun _ => (pure () : Out Unit)
  if (getPX st k).freeze = 0 then emitChange st k
  else pure (setPX st k { getPX st k with changed := true })

/-- `freeze`. -/
def penFreeze (st : St) (k : Nat) : Out St := do
  let st ← penRef st k
  pure (setPX st k { getPX st k with freeze := (getPX st k).freeze + 1 })

/-- `thaw`. -/
def penThaw (st : St) (k : Nat) : Out St := do
  let _ ← penRef st k >>= fun _ => (pure () : Out Unit)
  let st := setPX st k { getPX st k with freeze := (getPX st k).freeze - 1 }
  let st ← if (getPX st k).freeze = 0 && (getPX st k).changed then
      runPenEvents (setPX st k { getPX st k with changed := false }) k
    else pure st
  penUnref st k

/-- `tickit_pen_set_colour_attr(pen, FG, val)`: emits even while frozen. -/
def penSetColour (st : St) (k : Nat) (val : Int) : Out St := do
  let _ ← penRef st k >>= fun _ => (pure () : Out Unit)
  emitChange (setPX st k { getPX st k with fg := some val, rgb := none }) k

/-- `tickit_pen_set_colour_attr_rgb8(pen, FG, rgb)`. -/
def penSetRgb (st : St) (k : Nat) (rgb : Nat × Nat × Nat) : Out St := do
  let _ ← penRef st k >>= fun _ => (pure () : Out Unit)
  if (getPX st k).fg.isNone then pure st
  else penChanged (setPX st k { getPX st k with rgb := some rgb }) k

/-- `tickit_pen_copy_attr(dst, src, FG)`. -/
def penCopyAttr (st : St) (dst src : Nat) : Out St := do
  let _ ← penRef st src >>= fun _ => (pure () : Out Unit)        -- src is read first
  let sx := getPX st src
  let st ← penFreeze st dst
  let st ← penSetColour st dst (sx.fg.getD (-1))
  let st ← match (if sx.fg.isSome then sx.rgb else none) with
    | some rgb => penSetRgb st dst rgb
    | none => pure st
  penThaw st dst

/-- `tickit_pen_equiv_attr(a, b, FG)` on the values. -/
def fgEquiv (a b : PenX) : Bool :=
  a.fg.getD (-1) == b.fg.getD (-1) &&
  (let ra := if a.fg.isSome then a.rgb else none
   let rb := if b.fg.isSome then b.rgb else none
   ra == rb)

/-- `tickit_pen_copy(dst, src, overwrite)`: only FG is ever set in this engine; the loop goes on reading `src` for
    the remaining attributes after the handlers of `dst` have run. -/
def penCopy (keepsSrc : Bool) (st : St) (dst src : Nat) (overwrite : Bool) : Out St := do
  let st ← if keepsSrc then penRef st src else pure st
  let st ← penFreeze st dst
  let _ ← penRef st src >>= fun _ => (pure () : Out Unit)        -- tickit_pen_has_attr(src, FG)
  let sx := getPX st src
  let dx := getPX st dst
  let st ← if sx.fg.isNone then pure st
    else if dx.fg.isSome && (!overwrite || fgEquiv sx dx) then pure st
    else penCopyAttr st dst src
  let _ ← penRef st src >>= fun _ => (pure () : Out Unit)        -- tickit_pen_has_attr(src, BG), …
  let st ← penThaw st dst
  if keepsSrc then penUnref st src else pure st

/-- `colournames[]`. -/
def colourNames : List (String × Int) :=
  [("black", 0), ("red", 1), ("green", 2), ("yellow", 3), ("blue", 4), ("magenta", 5), ("cyan", 6), ("white", 7),
   ("grey", 8), ("brown", 94), ("orange", 208), ("pink", 212), ("purple", 128)]

def isDigit (b : UInt8) : Bool := 0x30 ≤ b && b ≤ 0x39
def hexVal (b : UInt8) : Option Nat :=
  if 0x30 ≤ b && b ≤ 0x39 then some (b.toNat - 0x30)
  else if 0x61 ≤ b && b ≤ 0x66 then some (b.toNat - 0x61 + 10)
  else if 0x41 ≤ b && b ≤ 0x46 then some (b.toNat - 0x41 + 10)
  else none

/-- The parse of `tickit_pen_set_colour_attr_desc` for descriptions of the supported shape (no leading blank or
    sign; what follows `#` is hexadecimal digits only): `none` = unsupported, `some none` = rejected,
    `some (some (index, rgb))` = accepted. -/
def parseDesc (desc : List UInt8) : Option (Option (Int × Option (Nat × Nat × Nat))) :=
  let hiP := desc.take 3 == [0x68, 0x69, 0x2d]
  let d := if hiP then desc.drop 3 else desc
  let hi : Int := if hiP then 8 else 0
  let before := d.takeWhile (· ≠ 0x23)
  let hasHash := before.length < d.length
  let after := d.drop (before.length + 1)
  let hexes := after.mapM hexVal
  let trimmed := (before.reverse.dropWhile (· = 0x20)).reverse
  match d.head? with
  | some c => if c = 0x20 || c = 0x2b || c = 0x2d || c = 0x09 then none else
    match (if hasHash then hexes else some []) with
    | none => none
    | some hs =>
      let rgb : Option (Nat × Nat × Nat) :=
        match hs with
        | [a, b, c, e, f] => some (a * 16 + b, c * 16 + e, f)
        | a :: b :: c :: e :: f :: g :: _ => some (a * 16 + b, c * 16 + e, f * 16 + g)
        | _ => none
      if isDigit c then
        let digits := d.takeWhile isDigit
        let val : Int := digits.foldl (fun v x => v * 10 + ((x.toNat - 0x30 : Nat) : Int)) 0
        if hiP && val > 7 then some none else some (some (val + hi, rgb))
      else
        match colourNames.find? (fun nc => trimmed.length ≤ nc.1.length ∧ nc.1.toUTF8.toList.take trimmed.length = trimmed) with
        | some nc => some (some ((if nc.2 < 8 && hiP then nc.2 + hi else nc.2), rgb))
        | none => some none
  | none =>
    -- empty description: len = 0 matches the first name
    some (some ((if hiP then 8 else 0), none))

/-- `tickit_pen_set_colour_attr_desc(pen, FG, desc)`: returns whether the description was accepted. -/
def penSetDesc (st : St) (k : Nat) (desc : List UInt8) : Option (Out (St × Bool)) :=
  match parseDesc desc with
  | none => none
  | some none => some (pure (st, false))
  | some (some (val, rgb)) => some (do
      let st ← penFreeze st k
      let st ← penSetColour st k val
      let st ← match rgb with
        | some c => penSetRgb st k c
        | none => pure st
      let st ← penThaw st k
      pure (st, true))

/-- `tickit_term_unref` (→ `tickit_term_destroy`). -/
def termUnref (st : St) : Out St :=
  if st.term.freed then .ub .mem "use of freed terminal"
  else if st.term.refcount < 1 then .ub .abort "tickit_term_unref: invalid refcount"
  else pure { st with term := st.term.dropped }

/-! ## window reference counting and destruction

  `tickit_window_destroy` interleaves surgery on the tree (close the children, drop their references, purge,
  unlink, free) with the release of what the window owns itself (its bindings, its pen, for the root the
  terminal reference).  The two parts read and write disjoint state, so the model runs the tree part first
  (`destroyT`, which returns the windows it freed, in the order they were freed) and releases their belongings
  afterwards (`releaseWin`). -/

/-- What a cascade reports: the tree, the windows freed (in order), and the children whose creation reference a
    dying parent has dropped (whether or not they survived). -/
abbrev Casc3 := Tree × List Id × List Id

/-- One turn of the children loop of `tickit_window_destroy`
    (`for(child = first_child; child; child = next) { next = child->next; … }`). -/
def destroyStep (cfg : Cfg) (unrefChild : Tree → Id → Out Casc3) (acc : Casc3) (c : Id) : Out Casc3 := do
  let _ ← ofRes (WinTree.get acc.1 c)                      -- next = child->next
  if cfg.destroyClosesChildren then
    let t ← closeT cfg acc.1 c
    let r ← unrefChild t c
    pure (r.1, acc.2.1 ++ r.2.1, acc.2.2 ++ (c :: r.2.2))
  else
    let r ← unrefChild acc.1 c
    match r.1.wins[c]? with
    | none => .ub .mem s!"unknown window {c}"
    | some cw =>
      if cw.freed then .ub .mem s!"tickit_window_destroy: child->parent = NULL written into freed child {c}"
      else pure (WinTree.set r.1 c { cw with parent := none }, acc.2.1 ++ r.2.1, acc.2.2 ++ (c :: r.2.2))

/-- The end of `tickit_window_destroy` for the root: after the repair the requests still queued are freed; the
    drag context goes with the struct. -/
def rootCleanup (cfg : Cfg) (t : Tree) : Tree :=
  clearDrag (if cfg.closePurges then setChanges t [] else t)

/-- `if(win->parent) _purge_hierarchy_changes(win);` -/
def purgeIfLinked (cfg : Cfg) (t : Tree) (win : Id) (w : Win) : Out Tree :=
  if w.parent.isSome then purge cfg t win else pure t

/-- `if(!win->is_closed) tickit_window_close(win);` -/
def closeIfOpen (cfg : Cfg) (t : Tree) (win : Id) (w : Win) : Out Tree :=
  if !w.isClosed then closeT cfg t win else pure t

/-- `if(win->is_root) { … }` -/
def rootCleanupIf (cfg : Cfg) (t : Tree) (w : Win) : Tree :=
  if w.isRoot then rootCleanup cfg t else t

/-- `tickit_window_destroy` on the tree, given the function that drops one reference of a child.
    Returns the tree and the windows freed (in order). -/
def destroyTWith (cfg : Cfg) (unrefChild : Tree → Id → Out Casc3) (t : Tree) (win : Id) : Out Casc3 := do
  let w ← ofRes (WinTree.get t win)
  let r ← w.children.foldlM (destroyStep cfg unrefChild) (t, [], [])
  let t := r.1
  let w ← ofRes (WinTree.get t win)
  let t ← purgeIfLinked cfg t win w
  let w ← ofRes (WinTree.get t win)
  let t ← closeIfOpen cfg t win w
  let w ← ofRes (WinTree.get t win)
  pure (WinTree.set (rootCleanupIf cfg t w) win { w with freed := true }, r.2.1 ++ [win], r.2.2)

/-- `tickit_window_unref` on the tree, given `tickit_window_destroy`. -/
def unrefTWith (destroy : Tree → Id → Out Casc3) (t : Tree) (win : Id) : Out Casc3 := do
  let w ← ofRes (WinTree.get t win)
  if w.refcount < 1 then .ub .abort s!"tickit_window_unref: invalid refcount on window {win}"
  else
    let t := WinTree.set t win { w with refcount := w.refcount - 1 }
    if w.refcount - 1 = 0 then destroy t win else pure (t, [], [])

/-- `tickit_window_destroy` with the recursion budget `fuel` (depth of the subtree). -/
def destroyT (cfg : Cfg) : Nat → Tree → Id → Out Casc3
  | 0, _, _ => .fuel
  | fuel + 1, t, win => destroyTWith cfg (unrefTWith (destroyT cfg fuel)) t win

/-- `tickit_window_unref` on the tree. -/
def unrefT (cfg : Cfg) (t : Tree) (win : Id) : Out Casc3 :=
  unrefTWith (destroyT cfg (chainFuel t)) t win

/-- Drop the pen a window holds (`if(win->pen) tickit_pen_unref(win->pen)`). -/
def dropWinPen (st : St) (win : Id) : Out St :=
  match (getX st win).pen with
  | .null => pure st
  | .own => pure st
  | .app k => penUnref st k

/-- What `tickit_window_destroy` releases besides the tree surgery: the bindings
    (`tickit_bindings_unbind_and_destroy`; the bindings of this engine have no UNBIND/DESTROY flag), the pen,
    and for the root window its three bindings on the terminal and its terminal reference. -/
def releaseWin (st : St) (win : Id) : Out St := do
  let st := setX st win { getX st win with binds := [] }
  let st ← dropWinPen st win
  let st := setX st win { getX st win with pen := .null }
  if win = 0 then
    -- tickit_term_unbind_event_id ×3, tickit_term_unref
    if st.term.freed then .ub .mem "root window destroy: use of freed terminal"
    else termUnref st
  else pure st

/-- The application's bookkeeping after a cascade (the harness's `sync_consumed`): for every child whose creation
    reference a dying parent has dropped, the application gives up one of its references. -/
def consume (st : St) (dropped : List Id) : St :=
  dropped.foldl (fun st i => setX st i { getX st i with appRefs := (getX st i).appRefs - 1 }) st

/-- `tickit_window_unref`. -/
def unrefW (cfg : Cfg) (st : St) (win : Id) : Out St := do
  let r ← unrefT cfg st.tree win
  r.2.1.foldlM releaseWin (consume { st with tree := r.1 } r.2.2)

/-- `tickit_window_ref`. -/
def refW (st : St) (win : Id) : Out St := do
  let w ← getW st win
  pure (setW st win { w with refcount := w.refcount + 1 })

/-! ## window construction and the small mutators -/

/-- `while(parent->parent) { rect.top += parent->rect.top; rect.left += parent->rect.left; parent = parent->parent; }`
    of `TICKIT_WINDOW_ROOT_PARENT`. -/
def climbParents (st : St) : Nat → Id → Rect → Out (Id × Rect)
  | 0, _, _ => .fuel
  | f + 1, p, r => do
    let pw ← getW st p
    match pw.parent with
    | none => pure (p, r)
    | some pp => climbParents st f pp { r with top := r.top + pw.rect.top, left := r.left + pw.rect.left }

/-- The parent and rectangle `tickit_window_new` actually uses. -/
def resolveParent (st : St) (parent : Id) (rect : Rect) (rootParent : Bool) : Out (Id × Rect) :=
  if rootParent then climbParents st (chainFuel st.tree) parent rect else pure (parent, rect)

/-- `tickit_window_new`: returns the new id. -/
def newWin (st : St) (parent : Id) (rect : Rect) (hidden lowest rootParent steal : Bool) : Out (St × Id) := do
  let pr ← resolveParent st parent rect rootParent
  let id := st.tree.wins.size
  let w : Win := { parent := some pr.1, rect := pr.2, isVisible := !hidden, stealInput := steal }
  let t : Tree := { st.tree with wins := st.tree.wins.push w }
  let wx := (st.wx ++ Array.replicate (id - st.wx.size) ({} : WinX)).push {}
  let t ← doHC t (if lowest then .insertLast else .insertFirst) pr.1 id
  pure ({ st with tree := t, wx := wx }, id)

/-- `tickit_window_show` (without the damage). -/
def showT (t : Tree) (win : Id) : Out Tree := do
  let w ← ofRes (WinTree.get t win)
  let t := WinTree.set t win { w with isVisible := true }
  let w ← ofRes (WinTree.get t win)
  let t ← match w.parent with
    | some p => do
      let pw ← ofRes (WinTree.get t p)
      if pw.focusedChild.isNone && (w.focusedChild.isSome || w.isFocused) then
        pure (WinTree.set t p { pw with focusedChild := some win })
      else pure t
    | none => pure t
  exposeWalk t (chainFuel t) win none
  pure t

/-- `tickit_window_hide`. -/
def hideT (t : Tree) (win : Id) : Out Tree := do
  let w ← ofRes (WinTree.get t win)
  let t := WinTree.set t win { w with isVisible := false }
  match w.parent with
  | some p => do
    let pw ← ofRes (WinTree.get t p)
    let t := if pw.focusedChild = some win then WinTree.set t p { pw with focusedChild := none } else t
    exposeWalk t (chainFuel t) p (some w.rect)
    pure t
  | none => pure t

/-- `tickit_window_set_geometry` (no GEOMCHANGE handlers are bound in this engine). -/
def setGeomT (t : Tree) (win : Id) (g : Rect) : Out Tree := do
  let w ← ofRes (WinTree.get t win)
  pure (WinTree.set t win { w with rect := g })

/-- `win->pen = tickit_pen_ref(pen)` for a window that holds no pen. -/
def assignPen (st : St) (win : Id) (k : Nat) : Out St := do
  let st ← penRef st k
  pure (setX st win { getX st win with pen := .app k })

/-- `tickit_window_set_pen`: `if(win->pen) tickit_pen_unref(win->pen); win->pen = pen ? tickit_pen_ref(pen) : NULL`. -/
def setPen (st : St) (win : Id) (pen : Option Nat) : Out St := do
  let _ ← getW st win
  let st ← dropWinPen st win
  let st := setX st win { getX st win with pen := .null }
  match pen with
  | some k => assignPen st win k
  | none => pure st

/-! ### focus (`tickit_window_take_focus`; no FOCUS handlers are bound in this engine) -/

/-- `_focus_lost`. -/
def focusLost (t : Tree) : Nat → Id → Out Tree
  | 0, _ => .fuel
  | fuel + 1, win => do
    let w ← ofRes (WinTree.get t win)
    let t ← match w.focusedChild with
      | some fc => focusLost t fuel fc
      | none => pure t
    let w ← ofRes (WinTree.get t win)
    if w.isFocused then pure (WinTree.set t win { w with isFocused := false }) else pure t

/-- `_focus_gained(win, child)` (after the focus repairs 7a99ce0: the branch that held the focus is told also when
    `win` itself takes it, and `win` loses its own focus flag when a descendant takes it). -/
def focusGained (t : Tree) : Nat → Id → Option Id → Out Tree
  | 0, _, _ => .fuel
  | fuel + 1, win, child => do
    let w ← ofRes (WinTree.get t win)
    let t ← match w.focusedChild with
      | some fc => if some fc ≠ child then focusLost t (chainFuel t) fc else pure t
      | none => pure t
    let w ← ofRes (WinTree.get t win)
    let t := if child.isSome && w.isFocused then WinTree.set t win { w with isFocused := false } else t
    let w ← ofRes (WinTree.get t win)
    let t ← match w.parent with
      | some p => if w.isVisible then focusGained t fuel p (some win) else pure t
      | none => do
        let _ ← getRootA t (chainFuel t) win      -- _request_restore(_get_root(win))
        pure t
    let w ← ofRes (WinTree.get t win)
    let w := if child.isNone then { w with isFocused := true } else w
    pure (WinTree.set t win { w with focusedChild := child })

def takeFocusT (t : Tree) (win : Id) : Out Tree := focusGained t (chainFuel t) win none

/-! ## bindings (`src/bindings.c`) -/

/-- `tickit_bindings_bind_event` (flags 0: appended; id = 1 + the largest id in the list). -/
def bindEvent (st : St) (win : Id) (ev : Ev) (ret : Bool) (acts : List Act) : Out (St × Int) := do
  let _ ← getW st win
  let x := getX st win
  let maxId := x.binds.foldl (fun m b => if b.id > m then b.id else m) (0 : Int)
  let id := maxId + 1
  pure (setX st win { x with binds := x.binds ++ [{ id := id, ev := some ev, ret := ret, acts := acts }] }, id)

/-- `tickit_bindings_unbind_event_id`. -/
def unbindEvent (st : St) (win : Id) (id : Int) : Out St := do
  let _ ← getW st win
  let x := getX st win
  if x.iterating then
    let hit := x.binds.any (fun b => b.id = id)
    let binds := x.binds.map (fun b => if b.id = id then { b with id := -1, ev := none } else b)
    pure (setX st win { x with binds := binds, needsDelete := x.needsDelete || hit })
  else
    pure (setX st win { x with binds := x.binds.filter (fun b => b.id ≠ id) })

/-! ## the operations a handler may perform, and the application's bookkeeping -/

/-- The application holds a reference to a live window (the harness's `heldw`). -/
def heldW (st : St) (i : Id) : Bool :=
  match st.tree.wins[i]? with
  | none => false
  | some w => !w.freed && (getX st i).appRefs > 0

def heldT (st : St) : Bool := !st.term.freed && st.term.appRefs > 0

/-- The window still belongs to the tree: its parent chain reaches the (live) root. -/
def attached (st : St) : Nat → Id → Bool
  | 0, _ => false
  | fuel + 1, w =>
    match st.tree.wins[w]? with
    | none => false
    | some x =>
      if x.freed then false
      else if x.isRoot then true
      else match x.parent with
        | none => false
        | some p => attached st fuel p

def attachedW (st : St) (w : Id) : Bool := attached st (chainFuel st.tree) w

/-- The application may use the window for more than ref/unref/close (the harness's `usable`):
    `tickit_window_close(3)`: after a close "the only operation that is defined any more is
    tickit_window_unref"; the same goes for the windows below a closed one. -/
def usableW (st : St) (i : Id) : Bool :=
  match st.tree.wins[i]? with
  | none => false
  | some w => !w.freed && (st.wx[i]?.getD {}).appRefs > 0 && attachedW st i

def liftT (st : St) (r : Out Tree) : Out St := do
  let t ← r
  pure { st with tree := t }

/-- One API call of the application on a window (also from inside a handler).  `none` = the harness skips
    the call (handle not held or object gone). -/
def simpleOp (cfg : Cfg) (st : St) (a : Act) (self : Option (Id × Int)) : Option (Out St) :=
  match a with
  | .unref w => if heldW st w then
      some (unrefW cfg (setX st w { getX st w with appRefs := (getX st w).appRefs - 1 }) w) else none
  | .ref w => if heldW st w then
      some (refW (setX st w { getX st w with appRefs := (getX st w).appRefs + 1 }) w) else none
  | .close w => if heldW st w then
      some (liftT st (closeT cfg st.tree w)) else none
  | .restack c w => if usableW st w && isRestack c then some (liftT st (request st.tree c w)) else none
  | .hide w => if usableW st w then some (liftT st (hideT st.tree w)) else none
  | .«show» w => if usableW st w then some (liftT st (showT st.tree w)) else none
  | .flush => if heldW st 0 then some (liftT st (flushT st.tree)) else none
  | .unbindSelf =>
    match self with
    | none => none
    | some (w, id) =>
      let x := getX st w
      -- the behaviour record is marked unused by the harness the first time
      if usableW st w && x.binds.any (fun b => b.id = id && b.used) then
        some (unbindEvent (setX st w { x with binds := x.binds.map (fun b => if b.id = id then { b with used := false } else b) }) w id)
      else none

/-- Run the actions of one handler invocation. -/
def runActs (cfg : Cfg) (self : Id × Int) : St → List Act → Out St
  | st, [] => pure st
  | st, a :: rest =>
    match simpleOp cfg st a (some self) with
    | none => runActs cfg self st rest
    | some r => do
      let st ← r
      runActs cfg self st rest

/-- Information carried by a mouse event. -/
structure Mouse where
  type : Int
  button : Int
  line : Int
  col : Int
deriving Repr, Inhabited

def hexNat (n : Nat) : String := String.ofList (Nat.toDigits 16 n)

def logKey (w : Id) : String := s!"H{w}k"
def logMouse (w : Id) (m : Mouse) : String := s!"H{w}m{hexNat m.type.toNat}@{m.line},{m.col}"

/-- `run_events_whilefalse(win, ev, info)`: the bindings are walked in list order; handlers may tombstone
    entries (never remove: `is_iterating`), so walking the list as it was on entry visits the same nodes. -/
def runBinds (cfg : Cfg) (st : St) (win : Id) (ev : Ev) (tag : String) : Out (St × Bool) := do
  let _ ← getW st win
  let x := getX st win
  let was := x.iterating
  let st := setX st win { x with iterating := true }
  let rec go : St → List Bind → Out (St × Bool)
    | st, [] => pure (st, false)
    | st, b :: rest =>
      -- the node is re-read: it may have been tombstoned by an earlier handler of this walk
      let cur := ((getX st win).binds.find? (fun c => c.id = b.id ∧ b.id ≠ -1))
      match cur with
      | none => go st rest
      | some c =>
        if c.ev = some ev then do
          let st := { st with log := st.log ++ [tag] }
          let st ← runActs cfg (win, c.id) st c.acts
          if c.ret then pure (st, true) else go st rest
        else go st rest
  let (st, r) ← go st x.binds
  let _ ← getW st win                 -- bindings->is_iterating = was_iterating
  let x := getX st win
  let x := { x with iterating := was }
  let x := if !was && x.needsDelete then { x with binds := x.binds.filter (fun b => b.id ≠ -1), needsDelete := false } else x
  pure (setX st win x, r)

/-! ## input routing (`_handle_key`, `_handle_mouse`, `on_term_mouse`) -/

/-- `_handle_key` before the routing repairs (sibling loop holding `next` across handlers). -/
def handleKeyOld (cfg : Cfg) : Nat → St → Id → Out (St × Bool)
  | 0, _, _ => .fuel
  | fuel + 1, st, win => do
    let w ← getW st win
    if !w.isVisible then pure (st, false)
    else do
      let st ← refW st win
      -- if(win->first_child && win->first_child->steal_input) if(_handle_key(win->first_child, info)) goto done;
      let w ← getW st win
      let (st, done) ← match w.children.head? with
        | some fc => do
          let fcw ← getW st fc
          if fcw.stealInput then handleKeyOld cfg fuel st fc else pure (st, false)
        | none => pure (st, false)
      -- if(win->focused_child) if(_handle_key(win->focused_child, info)) goto done;
      let (st, done) ← if done then pure (st, true) else do
        let w ← getW st win
        match w.focusedChild with
        | some fc => handleKeyOld cfg fuel st fc
        | none => pure (st, false)
      -- if(run_events_whilefalse(win, TICKIT_WINDOW_ON_KEY, info)) goto done;
      let (st, done) ← if done then pure (st, true) else runBinds cfg st win .key (logKey win)
      -- last-ditch loop
      let rec loop : Nat → St → Option Id → Out (St × Bool)
        | 0, _, _ => .fuel
        | _, st, none => pure (st, false)
        | n + 1, st, some child => do
          let _ ← getW st child                       -- next = child->next
          let next := nextOf st.tree child
          let w ← getW st win
          if w.focusedChild = some child then loop n st next
          else do
            let (st, r) ← handleKeyOld cfg fuel st child
            if r then pure (st, true) else loop n st next
      let (st, done) ← if done then pure (st, true) else do
        let w ← getW st win
        loop (4 * st.tree.wins.size + 8) st w.children.head?
      let st ← unrefW cfg st win
      pure (st, done)

/-- `_handle_mouse` before the routing repairs: returns the window that handled the event (a raw pointer in C:
    it may already be freed). -/
def handleMouseOld (cfg : Cfg) : Nat → St → Id → Mouse → Out (St × Option Id)
  | 0, _, _, _ => .fuel
  | fuel + 1, st, win, info => do
    let w ← getW st win
    if !w.isVisible then pure (st, none)
    else do
      let st ← refW st win
      let rec loop : Nat → St → Option Id → Out (St × Option Id)
        | 0, _, _ => .fuel
        | _, st, none => pure (st, none)
        | n + 1, st, some child => do
          let cw ← getW st child                      -- next = child->next; child->rect
          let next := nextOf st.tree child
          let cl := info.line - cw.rect.top
          let cc := info.col - cw.rect.left
          if !cw.stealInput && (cl < 0 || cl ≥ cw.rect.lines || cc < 0 || cc ≥ cw.rect.cols) then loop n st next
          else do
            let (st, r) ← handleMouseOld cfg fuel st child { info with line := cl, col := cc }
            if r.isSome then pure (st, r) else loop n st next
      let w ← getW st win
      let (st, r) ← loop (4 * st.tree.wins.size + 8) st w.children.head?
      let (st, r) ← if r.isSome then pure (st, r) else do
        let (st, h) ← runBinds cfg st win .mouse (logMouse win info)
        pure (st, if h then some win else none)
      let st ← unrefW cfg st win
      pure (st, r)

def routeFuel (st : St) : Nat := st.tree.wins.size + 2

/-- `on_term_key` through `tickit_term_emit_key` (before the routing repairs). -/
def emitKeyOld (cfg : Cfg) (st : St) : Out St := do
  if st.term.freed then .ub .mem "emit on freed terminal" else
  match st.tree.wins[0]? with
  | none => pure st
  | some r =>
    if r.freed then pure st     -- the root's bindings on the terminal are gone
    else do
      let st := { st with termIter := true }
      let (st, _) ← handleKeyOld cfg (routeFuel st) st 0
      -- bindings->is_iterating = was_iterating: a write into the terminal
      if st.term.freed then .ub .mem "terminal freed while its bindings are being run"
      else pure { st with termIter := false }

def mPRESS : Int := 1
def mDRAG : Int := 2
def mRELEASE : Int := 3
def mDRAG_START : Int := 0x101
def mDRAG_OUTSIDE : Int := 0x102
def mDRAG_DROP : Int := 0x103
def mDRAG_STOP : Int := 0x104

/-- `on_term_mouse` through `tickit_term_emit_mouse` (before the routing repairs). -/
def emitMouseOld (cfg : Cfg) (st : St) (info : Mouse) : Out St := do
  if st.term.freed then .ub .mem "emit on freed terminal" else
  match st.tree.wins[0]? with
  | none => pure st
  | some r =>
    if r.freed then pure st
    else do
      let st := { st with termIter := true }
      let fuel := routeFuel st
      let st ← if cfg.mouseKeepsRoot then refW st 0 else pure st
      let root (st : St) := st.tree.root
      let setRoot (st : St) (f : WinTree.Root → WinTree.Root) : St := { st with tree := { st.tree with root := f st.tree.root } }
      -- every access to `root->…` reads the root window's memory
      let st ← if info.type = mPRESS then
          pure { (setRoot st (fun r => { r with mouseLastButton := info.button, mouseLastLine := info.line, mouseLastCol := info.col })) with pressSeen := true }
        else if info.type = mDRAG && !(root st).mouseDragging then do
          let d : Mouse := if st.pressSeen || cfg.lastPressInit
            then ⟨mDRAG_START, (root st).mouseLastButton, (root st).mouseLastLine, (root st).mouseLastCol⟩
            else ⟨mDRAG_START, uninitInt, uninitInt, uninitInt⟩
          let (st, src) ← handleMouseOld cfg fuel st 0 d
          let _ ← getW st 0
          pure (setRoot st (fun r => { r with dragSource := src, mouseDragging := true }))
        else if info.type = mRELEASE && (root st).mouseDragging then do
          let (st, _) ← handleMouseOld cfg fuel st 0 { info with type := mDRAG_DROP }
          let _ ← getW st 0
          let st ← match (root st).dragSource with
            | some src => do
              let g ← absGeom st.tree src
              let (st, _) ← handleMouseOld cfg fuel st src ⟨mDRAG_STOP, info.button, info.line - g.top, info.col - g.left⟩
              pure st
            | none => pure st
          let _ ← getW st 0
          pure (setRoot st (fun r => { r with mouseDragging := false }))
        else pure st
      let (st, handled) ← handleMouseOld cfg fuel st 0 info
      let st ← if info.type = mDRAG then do
          let _ ← getW st 0
          match (root st).dragSource with
          | some src =>
            if handled ≠ some src then do
              let g ← absGeom st.tree src
              let (st, _) ← handleMouseOld cfg fuel st src ⟨mDRAG_OUTSIDE, info.button, info.line - g.top, info.col - g.left⟩
              pure st
            else pure st
          | none => pure st
        else pure st
      let st ← if cfg.mouseKeepsRoot then unrefW cfg st 0 else pure st
      if st.term.freed then .ub .mem "terminal freed while its bindings are being run"
      else pure { st with termIter := false }

/-! ## input routing after the routing repairs (counted snapshot of the children, `_is_shown`, counted return) -/

/-- `_is_shown`: the window and all its ancestors are visible. -/
def isShown (t : Tree) : Nat → Id → Out Bool
  | 0, _ => .fuel
  | fuel + 1, id => do
    let w ← ofRes (WinTree.get t id)
    if !w.isVisible then pure false
    else match w.parent with
      | none => pure true
      | some p => isShown t fuel p

def isShownW (st : St) (w : Id) : Out Bool := isShown st.tree (chainFuel st.tree) w

/-- `_ref_children`: the snapshot, every member referenced. -/
def refChildren (st : St) (win : Id) : Out (St × List Id) := do
  let w ← getW st win
  let st ← w.children.foldlM refW st
  pure (st, w.children)

/-- `_unref_children`. -/
def unrefChildren (cfg : Cfg) (st : St) (cs : List Id) : Out St := cs.foldlM (unrefW cfg) st

/-- The snapshot loop of `_handle_key`, given `_handle_key` itself for the recursive calls. -/
def keyLoop (recK : St → Id → Out (St × Bool)) (win : Id) : St → List Id → Out (St × Bool)
  | st, [] => pure (st, false)
  | st, child :: rest => do
    let cw ← getW st child
    if cw.parent ≠ some win then keyLoop recK win st rest        -- closed by a handler in the meantime
    else do
      let w ← getW st win
      if w.focusedChild = some child then keyLoop recK win st rest
      else do
        let r ← recK st child
        if r.2 then pure (r.1, true) else keyLoop recK win r.1 rest

/-- The body of `_handle_key`, given `_handle_key` itself for the recursive calls. -/
def handleKeyBody (cfg : Cfg) (recK : St → Id → Out (St × Bool)) (st : St) (win : Id) : Out (St × Bool) := do
  let shown ← isShownW st win
  if !shown then pure (st, false)
  else do
    let st ← refW st win
    let w ← getW st win
    let r1 ← match w.children.head? with
      | some fc => do
        let fcw ← getW st fc
        if fcw.stealInput then recK st fc else pure (st, false)
      | none => pure (st, false)
    let r2 ← if r1.2 then pure (r1.1, true) else do
      let w ← getW r1.1 win
      match w.focusedChild with
      | some fc => recK r1.1 fc
      | none => pure (r1.1, false)
    let r3 ← if r2.2 then pure (r2.1, true) else do
      let shown ← isShownW r2.1 win
      if shown then runBinds cfg r2.1 win .key (logKey win) else pure (r2.1, false)
    let r4 ← if r3.2 then pure (r3.1, true) else do
      let sn ← refChildren r3.1 win
      let h ← keyLoop recK win sn.1 sn.2
      let st ← unrefChildren cfg h.1 sn.2
      pure (st, h.2)
    let st ← unrefW cfg r4.1 win
    pure (st, r4.2)

/-- `_handle_key`. -/
def handleKey (cfg : Cfg) : Nat → St → Id → Out (St × Bool)
  | 0, _, _ => .fuel
  | fuel + 1, st, win => handleKeyBody cfg (handleKey cfg fuel) st win

/-- The snapshot loop of `_handle_mouse`. -/
def mouseLoop (recM : St → Id → Mouse → Out (St × Option Id)) (win : Id) (info : Mouse) :
    St → List Id → Out (St × Option Id)
  | st, [] => pure (st, none)
  | st, child :: rest => do
    let cw ← getW st child
    if cw.parent ≠ some win then mouseLoop recM win info st rest
    else
      let cl := info.line - cw.rect.top
      let cc := info.col - cw.rect.left
      if !cw.stealInput && (cl < 0 || cl ≥ cw.rect.lines || cc < 0 || cc ≥ cw.rect.cols) then mouseLoop recM win info st rest
      else do
        let r ← recM st child { info with line := cl, col := cc }
        if r.2.isSome then pure r else mouseLoop recM win info r.1 rest

/-- The body of `_handle_mouse`: returns a counted reference to the window that took the event. -/
def handleMouseBody (cfg : Cfg) (recM : St → Id → Mouse → Out (St × Option Id)) (st : St) (win : Id) (info : Mouse) :
    Out (St × Option Id) := do
  let shown ← isShownW st win
  if !shown then pure (st, none)
  else do
    let st ← refW st win
    let sn ← refChildren st win
    let r ← mouseLoop recM win info sn.1 sn.2
    let st ← unrefChildren cfg r.1 sn.2
    let r2 ← if r.2.isSome then pure (st, r.2) else do
      let shown ← isShownW st win
      if shown then do
        let h ← runBinds cfg st win .mouse (logMouse win info)
        if h.2 then do
          let st ← refW h.1 win                 -- ret = tickit_window_ref(win)
          pure (st, some win)
        else pure (h.1, none)
      else pure (st, none)
    let st ← unrefW cfg r2.1 win
    pure (st, r2.2)

/-- `_handle_mouse`. -/
def handleMouse (cfg : Cfg) : Nat → St → Id → Mouse → Out (St × Option Id)
  | 0, _, _, _ => .fuel
  | fuel + 1, st, win, info => handleMouseBody cfg (handleMouse cfg fuel) st win info

/-- `if(x) tickit_window_unref(x)`. -/
def unrefOpt (cfg : Cfg) (st : St) : Option Id → Out St
  | none => pure st
  | some w => unrefW cfg st w

/-- `for(w = source; w; w = w->parent) if(w == win) …` of `on_term_mouse`: walks to the top of the chain. -/
def reachesTop (t : Tree) : Nat → Id → Id → Bool → Out Bool
  | 0, _, _, _ => .fuel
  | fuel + 1, w, top, acc => do
    let ww ← ofRes (WinTree.get t w)
    let acc := acc || w = top
    match ww.parent with
    | none => pure acc
    | some p => reachesTop t fuel p top acc

/-- `on_term_key` through `tickit_term_emit_key`. -/
def emitKeyNew (cfg : Cfg) (st : St) : Out St := do
  if st.term.freed then .ub .mem "emit on freed terminal" else
  match st.tree.wins[0]? with
  | none => pure st
  | some r =>
    if r.freed then pure st
    else do
      let st := { st with termIter := true }
      let (st, _) ← handleKey cfg (routeFuel st) st 0
      if st.term.freed then .ub .mem "terminal freed while its bindings are being run"
      else pure { st with termIter := false }

/-- A change of the root window's own fields (`root->mouse_*`, `root->drag_source_window`). -/
def setRoot (st : St) (f : WinTree.Root → WinTree.Root) : St := { st with tree := { st.tree with root := f st.tree.root } }

/-- `on_term_mouse`, DRAG while dragging: the drag source is told when the event went elsewhere (`DRAG_OUTSIDE`). -/
def dragOutside (cfg : Cfg) (fuel : Nat) (st : St) (info : Mouse) (handled : Option Id) : Out St :=
  if info.type = mDRAG then do
    let _ ← getW st 0
    match st.tree.root.dragSource with
    | some src =>
      if handled ≠ some src then do
        let g ← absGeom st.tree src
        let r ← handleMouse cfg fuel st src ⟨mDRAG_OUTSIDE, info.button, info.line - g.top, info.col - g.left⟩
        unrefOpt cfg r.1 r.2
      else pure st
    | none => pure st
  else pure st

/-- The reference `on_term_mouse` holds on the root window across its dispatches is given back. -/
def dropRoot (cfg : Cfg) (st : St) : Out St := if cfg.mouseKeepsRoot then unrefW cfg st 0 else pure st

/-- The end of `on_term_mouse`: the event itself goes down the tree, then `DRAG_OUTSIDE`, then the references go. -/
def mouseDeliver (cfg : Cfg) (fuel : Nat) (st : St) (info : Mouse) : Out (St × Bool) := do
  let r ← handleMouse cfg fuel st 0 info
  let st ← dragOutside cfg fuel r.1 info r.2
  let st ← unrefOpt cfg st r.2
  let st ← dropRoot cfg st
  pure (st, r.2.isSome)

/-- The window that took `DRAG_START` becomes the drag source if it is still in the tree; its counted reference goes. -/
def dragSourceSet (cfg : Cfg) (st : St) : Option Id → Out St
  | some src => do
    let inTree ← reachesTop st.tree (chainFuel st.tree) src 0 false
    let st := if inTree then setRoot st (fun r => { r with dragSource := some src }) else st
    unrefW cfg st src
  | none => pure st

/-- `on_term_mouse`, first DRAG: `DRAG_START` at the position of the last press. -/
def mouseDragStart (cfg : Cfg) (fuel : Nat) (st : St) : Out St := do
  let d : Mouse := if st.pressSeen || cfg.lastPressInit
    then ⟨mDRAG_START, st.tree.root.mouseLastButton, st.tree.root.mouseLastLine, st.tree.root.mouseLastCol⟩
    else ⟨mDRAG_START, uninitInt, uninitInt, uninitInt⟩
  let r ← handleMouse cfg fuel st 0 d
  let _ ← getW r.1 0
  let st ← dragSourceSet cfg (setRoot r.1 (fun r => { r with dragSource := none })) r.2
  let _ ← getW st 0
  pure (setRoot st (fun r => { r with mouseDragging := true }))

/-- `DRAG_STOP` to the drag source. -/
def dragStop (cfg : Cfg) (fuel : Nat) (st : St) (info : Mouse) : Out St :=
  match st.tree.root.dragSource with
  | some src => do
    let g ← absGeom st.tree src
    let r ← handleMouse cfg fuel st src ⟨mDRAG_STOP, info.button, info.line - g.top, info.col - g.left⟩
    unrefOpt cfg r.1 r.2
  | none => pure st

/-- `on_term_mouse`, RELEASE while dragging: `DRAG_DROP` down the tree, `DRAG_STOP` to the source. -/
def mouseRelease (cfg : Cfg) (fuel : Nat) (st : St) (info : Mouse) : Out St := do
  let r ← handleMouse cfg fuel st 0 { info with type := mDRAG_DROP }
  let st ← unrefOpt cfg r.1 r.2
  let _ ← getW st 0
  let st ← dragStop cfg fuel st info
  let _ ← getW st 0
  pure (setRoot st (fun r => { r with mouseDragging := false }))

/-- What `on_term_mouse` does before the event itself goes down the tree. -/
def mousePrepare (cfg : Cfg) (fuel : Nat) (st : St) (info : Mouse) : Out St :=
  if info.type = mPRESS then
    pure { (setRoot st (fun r => { r with mouseLastButton := info.button, mouseLastLine := info.line, mouseLastCol := info.col })) with pressSeen := true }
  else if info.type = mDRAG && !st.tree.root.mouseDragging then mouseDragStart cfg fuel st
  else if info.type = mRELEASE && st.tree.root.mouseDragging then mouseRelease cfg fuel st info
  else pure st

/-- The reference `on_term_mouse` takes on the root window. -/
def keepRoot (cfg : Cfg) (st : St) : Out St := if cfg.mouseKeepsRoot then refW st 0 else pure st

/-- The body of `on_term_mouse` (the root window is alive): the state after it and its result `!!handled`. -/
def onTermMouse (cfg : Cfg) (st : St) (info : Mouse) : Out (St × Bool) := do
  let fuel := routeFuel st
  let st ← keepRoot cfg st
  let st ← mousePrepare cfg fuel st info
  mouseDeliver cfg fuel st info

/-- `on_term_mouse` through `tickit_term_emit_mouse`. -/
def emitMouseNew (cfg : Cfg) (st : St) (info : Mouse) : Out St := do
  if st.term.freed then .ub .mem "emit on freed terminal" else
  match st.tree.wins[0]? with
  | none => pure st
  | some r =>
    if r.freed then pure st
    else do
      let st := { st with termIter := true }
      let (st, _) ← onTermMouse cfg st info
      if st.term.freed then .ub .mem "terminal freed while its bindings are being run"
      else pure { st with termIter := false }

def emitKey (cfg : Cfg) (st : St) : Out St := if cfg.snapshotRouting then emitKeyNew cfg st else emitKeyOld cfg st

def emitMouse (cfg : Cfg) (st : St) (info : Mouse) : Out St :=
  if cfg.snapshotRouting then emitMouseNew cfg st info else emitMouseOld cfg st info

end Life
end Tickit
