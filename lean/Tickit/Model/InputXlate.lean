/-
  Model of the input side of /repo/src/term.c, statement by statement:
    got_key (mouse translation, 1→0-based positions, wheel mapping, held-button mask, the X10
    "release of all held" loop), get_keys (drain loop + timeout arming), tickit_term_input_push_bytes,
    get_timeout / timedout / tickit_term_input_check_timeout_msec,
  over an abstract tokenizer (`Tokenizer`: libtermkey is *modelled, not verified* — C20 trusts it).
  Next to the model: the specification the property states (`Spec`): a set of held buttons instead of
  a bit mask, events defined declaratively.

  C `int` is unbounded `Int`; `tt->mouse_buttons_held` is a `Nat` (the bits of a non-negative int).
  A shift `1 << n` with `n < 0` or `n ≥ 31` is undefined behaviour of the C program: outcome `ub`.
  No Mathlib import: this file is linked into the driver executable.
-/
namespace Tickit.InputXlate

/-- Result of a modelled C function that may run into undefined behaviour or out of fuel. -/
inductive Outcome (α : Type) where
  | ok (a : α)
  | ub (what : String)
  | outOfFuel
deriving DecidableEq, Repr

namespace Outcome
def bind {α β : Type} (o : Outcome α) (f : α → Outcome β) : Outcome β :=
  match o with
  | ok a => f a
  | ub w => ub w
  | outOfFuel => outOfFuel

def map {α β : Type} (f : α → β) : Outcome α → Outcome β
  | ok a => ok (f a)
  | ub w => ub w
  | outOfFuel => outOfFuel

def isOk {α : Type} : Outcome α → Bool
  | ok _ => true
  | _ => false
end Outcome

/-! ### constants (tickit.h, termkey.h; tied to the source by `Gen.InputXlate`, see Props/C20) -/

def TERMKEY_MOUSE_UNKNOWN : Int := 0
def TERMKEY_MOUSE_PRESS : Int := 1
def TERMKEY_MOUSE_DRAG : Int := 2
def TERMKEY_MOUSE_RELEASE : Int := 3

def MOUSEEV_PRESS : Int := 1
def MOUSEEV_DRAG : Int := 2
def MOUSEEV_RELEASE : Int := 3
def MOUSEEV_WHEEL : Int := 4
def MOUSEWHEEL_UP : Int := 1
def KEYEV_KEY : Int := 1
def KEYEV_TEXT : Int := 2
/-- the literal in `info.button >= 4` and `info.button -= (4 - TICKIT_MOUSEWHEEL_UP)` -/
def WHEEL_FIRST_BUTTON : Int := 4
/-- `for(info.button = 1; …` -/
def RELEASE_LOOP_START : Nat := 1
/-- bits of `int` usable as shift count without undefined behaviour: `1 << n`, `0 ≤ n < 31` -/
def INT_SHIFT_LIMIT : Nat := 31
def MSEC : Int := 1000
def SECOND : Int := 1000000

/-! ### what the tokenizer hands to `got_key` -/

/-- A `TermKeyKey` as `got_key` looks at it: the type, the modifiers and what the `termkey_interpret_*`
    / `termkey_strfkey` calls return for it. -/
inductive Key where
  /-- `TERMKEY_TYPE_MOUSE`; `ev button line col` are the outputs of `termkey_interpret_mouse`. -/
  | mouse (ev button line col mods : Int)
  /-- `TERMKEY_TYPE_UNICODE`; `utf8` is `key->utf8`, `name` is `termkey_strfkey(…ALTISMETA)`. -/
  | unicode (mods : Int) (utf8 name : List UInt8)
  | function (mods : Int) (name : List UInt8)
  | keysym (mods : Int) (name : List UInt8)
  /-- `TERMKEY_TYPE_MODEREPORT` with the outputs of `termkey_interpret_modereport`. -/
  | modereport (initial mode value : Int)
  /-- `TERMKEY_TYPE_DCS`; `none` when `termkey_interpret_string` does not return `TERMKEY_RES_KEY`. -/
  | dcs (str : Option (List UInt8))
  /-- `TERMKEY_TYPE_POSITION`, `_OSC`, `_UNKNOWN_CSI`: no branch of `got_key` matches. -/
  | other (type : Int)
deriving DecidableEq, Repr

/-- What the terminal emits: `TICKIT_TERM_ON_KEY`, `TICKIT_TERM_ON_MOUSE`, and the two driver callbacks. -/
inductive Event where
  | key (type mods : Int) (str : List UInt8)
  | mouse (type button line col mods : Int)
  | modereport (initial mode value : Int)
  | decrqss (args : List UInt8)
deriving DecidableEq, Repr

/-- What the model is parametrised by: the optional members of the driver vtable that `got_key` tests,
    and two facts about the source text that the extractor reads on every run (`Gen.InputXlate`), so
    that the same model follows the tree with or without the two proposed repairs:
    * `pushLoops`: `tickit_term_input_push_bytes` hands over what `termkey_push_bytes` did not accept
      (fixes/C20_push_bytes_short_count.patch); unchanged code: `false`, the return value is ignored;
    * `dropUnknownMouse`: the `default:` arm of `switch(ev)` in `got_key` returns
      (fixes/C20_unknown_mouse_event.patch); unchanged code: `false`, an event of type −1 is emitted. -/
structure Cfg where
  onModereport : Bool := true
  onDecrqss : Bool := true
  pushLoops : Bool := false
  dropUnknownMouse : Bool := false
deriving DecidableEq, Repr

/-! ### the held-button mask -/

/-- `1 << n` for a shift count that is defined. -/
def bit (n : Nat) : Nat := 1 <<< n

/-- `held |= (1 << n)` -/
def setBit (held n : Nat) : Nat := held ||| bit n

/-- `held &= ~(1 << n)`: on the bits of a non-negative `int`, and-ing with the complement of a single bit
    removes exactly that bit — written without a complement so that it stays inside `Nat`. -/
def clearBit (held n : Nat) : Nat := held ^^^ (held &&& bit n)

/-- `held & (1 << n)` as a truth value -/
def hasBit (held n : Nat) : Bool := held &&& bit n != 0

/-- Is `n` usable as `1 << n` on an `int`? -/
def shiftOk (n : Int) : Bool := decide (0 ≤ n) && decide (n < (INT_SHIFT_LIMIT : Int))

/-- The X10 loop of `got_key`
    ```
    for(info.button = 1; tt->mouse_buttons_held; info.button++)
      if(tt->mouse_buttons_held & (1 << info.button)) {
        run_events_whilefalse(tt, TICKIT_TERM_ON_MOUSE, &info);
        tt->mouse_buttons_held &= ~(1 << info.button);
      }
    ```
    entered with `button`; returns the mask and the events.  Termination is data dependent → fuel. -/
def releaseLoop (line col mods : Int) : (fuel button held : Nat) → Outcome (Nat × List Event)
  | 0, _, held => if held = 0 then .ok (held, []) else .outOfFuel
  | fuel + 1, button, held =>
    if held = 0 then .ok (held, [])
    else if INT_SHIFT_LIMIT ≤ button then .ub "1 << info.button with info.button >= 31 in the X10 release loop"
    else if hasBit held button then
      match releaseLoop line col mods fuel (button + 1) (clearBit held button) with
      | .ok r => .ok (r.1, Event.mouse MOUSEEV_RELEASE button line col mods :: r.2)
      | .ub w => .ub w
      | .outOfFuel => .outOfFuel
    else releaseLoop line col mods fuel (button + 1) held

/-- `switch(ev)` of `got_key` -/
def mouseType (ev : Int) : Int :=
  if ev = TERMKEY_MOUSE_PRESS then MOUSEEV_PRESS
  else if ev = TERMKEY_MOUSE_DRAG then MOUSEEV_DRAG
  else if ev = TERMKEY_MOUSE_RELEASE then MOUSEEV_RELEASE
  else -1

/-- `strneq(dcs, "1$r", 3)` -/
def isDecrqssOk (s : List UInt8) : Bool := s.take 3 == [0x31, 0x24, 0x72]

/-- `got_key`: new held mask and the events emitted, in order.  `fuel` bounds the X10 loop only. -/
def gotKey (cfg : Cfg) (fuel : Nat) (held : Nat) : Key → Outcome (Nat × List Event)
  | .mouse ev button line0 col0 mods =>
    -- TermKey is 1-based, Tickit is 0-based for position
    let line := line0 - 1
    let col := col0 - 1
    let type0 := mouseType ev
    if cfg.dropUnknownMouse ∧ type0 = -1 then .ok (held, []) else
    -- Translate PRESS of buttons >= 4 into wheel events
    let wheel : Bool := decide (ev = TERMKEY_MOUSE_PRESS) && decide (button ≥ WHEEL_FIRST_BUTTON)
    let type := if wheel then MOUSEEV_WHEEL else type0
    let button := if wheel then button - (WHEEL_FIRST_BUTTON - MOUSEWHEEL_UP) else button
    if type = MOUSEEV_PRESS ∨ type = MOUSEEV_DRAG then
      if shiftOk button then .ok (setBit held button.toNat, [Event.mouse type button line col mods])
      else .ub "1 << info.button out of range (press/drag)"
    else if type = MOUSEEV_RELEASE ∧ button ≠ 0 then
      if shiftOk button then .ok (clearBit held button.toNat, [Event.mouse type button line col mods])
      else .ub "1 << info.button out of range (release)"
    else if type = MOUSEEV_RELEASE then
      -- X10 cannot report which button was released. Just report that they all were
      releaseLoop line col mods fuel RELEASE_LOOP_START held
    else .ok (held, [Event.mouse type button line col mods])
  | .unicode mods utf8 name =>
    if mods = 0 then .ok (held, [Event.key KEYEV_TEXT mods utf8])
    else .ok (held, [Event.key KEYEV_KEY mods name])
  | .function mods name => .ok (held, [Event.key KEYEV_KEY mods name])
  | .keysym mods name => .ok (held, [Event.key KEYEV_KEY mods name])
  | .modereport initial mode value =>
    if cfg.onModereport then .ok (held, [Event.modereport initial mode value]) else .ok (held, [])
  | .dcs none => .ok (held, [])
  | .dcs (some s) =>
    if isDecrqssOk s then
      if cfg.onDecrqss then .ok (held, [Event.decrqss (s.drop 3)]) else .ok (held, [])
    else .ok (held, [])
  | .other _ => .ok (held, [])

/-- `got_key` on each key of a list in turn (what the body of `get_keys`' loop does to the terminal). -/
def runKeys (cfg : Cfg) (fuel : Nat) : (held : Nat) → List Key → Outcome (Nat × List Event)
  | held, [] => .ok (held, [])
  | held, k :: ks =>
    match gotKey cfg fuel held k with
    | .ok r =>
      match runKeys cfg fuel r.1 ks with
      | .ok r' => .ok (r'.1, r.2 ++ r'.2)
      | .ub w => .ub w
      | .outOfFuel => .outOfFuel
    | .ub w => .ub w
    | .outOfFuel => .outOfFuel

/-! ### the timeout deadline -/

/-- `struct timeval` -/
structure TimeVal where
  sec : Int
  usec : Int
deriving DecidableEq, Repr

/-- `TermKeyResult` -/
inductive Res where
  | none
  | key (k : Key)
  | eof
  | again
  | error
deriving DecidableEq, Repr

def Res.isKey : Res → Bool
  | .key _ => true
  | _ => false

/-- The tail of `get_keys`: arm the deadline after `TERMKEY_RES_AGAIN`, clear it otherwise
    (`tt->input_timeout_at.tv_sec = -1` leaves `tv_usec` as it was). -/
def armTimeout (timeoutAt now : TimeVal) (waittime : Int) (res : Res) : TimeVal :=
  if res = Res.again then
    let newUsec := now.usec + waittime * MSEC
    if newUsec ≥ SECOND then { sec := now.sec + 1, usec := newUsec - SECOND }
    else { sec := now.sec, usec := newUsec }
  else { timeoutAt with sec := -1 }

/-- `get_timeout` -/
def getTimeout (timeoutAt now : TimeVal) : Int :=
  if timeoutAt.sec = -1 then -1
  else
    let newUsec := timeoutAt.usec - now.usec
    let sec0 := timeoutAt.sec - now.sec
    let sec := if newUsec < 0 then sec0 - 1 else sec0
    let usec := if newUsec < 0 then newUsec + SECOND else newUsec
    if sec > 0 ∨ (sec = 0 ∧ usec > 0) then sec * 1000 + Int.tdiv (usec + MSEC - 1) MSEC
    else 0

/-! ### the abstract tokenizer -/

/-- What term.c uses of a `TermKey` instance.  `pending` is a size (the buffer fill) that every
    delivered key strictly decreases, which is what makes the drain loop of `get_keys` terminate. -/
structure Tokenizer where
  σ : Type
  /-- `termkey_push_bytes`: new state and the number of bytes accepted (the return value that
      `tickit_term_input_push_bytes` ignores). -/
  push : σ → List UInt8 → σ × Nat
  /-- `termkey_getkey` -/
  getkey : σ → Res × σ
  /-- `termkey_getkey_force` -/
  getkeyForce : σ → Res × σ
  /-- `termkey_get_waittime` -/
  waittime : σ → Int
  pending : σ → Nat
  getkey_consumes : ∀ s k s', getkey s = (Res.key k, s') → pending s' < pending s

/-- The terminal as far as input is concerned. -/
structure Term (T : Tokenizer) where
  tk : T.σ
  held : Nat
  timeoutAt : TimeVal

/-- Keys delivered by `while((res = termkey_getkey(tk, &key)) == TERMKEY_RES_KEY)`, the final result
    and the tokenizer state; `none` = out of fuel. -/
def Tokenizer.drainFuel (T : Tokenizer) : Nat → T.σ → Option (List Key × Res × T.σ)
  | 0, _ => none
  | n + 1, s =>
    match T.getkey s with
    | (Res.key k, s') =>
      match T.drainFuel n s' with
      | some r => some (k :: r.1, r.2.1, r.2.2)
      | none => none
    | (r, s') => some ([], r, s')

/-- The drain loop with the fuel the `pending` measure guarantees to be enough. -/
def Tokenizer.drain (T : Tokenizer) (s : T.σ) : List Key × Res × T.σ :=
  match T.drainFuel (T.pending s + 1) s with
  | some r => r
  | none => ([], Res.error, s)   -- unreachable: `drainFuel_pending`

/-- `termkey_push_bytes` took every byte it was given. -/
def Tokenizer.Accepts (T : Tokenizer) (s : T.σ) (bytes : List UInt8) : Prop :=
  (T.push s bytes).2 = bytes.length

instance (T : Tokenizer) (s : T.σ) (bytes : List UInt8) : Decidable (T.Accepts s bytes) :=
  inferInstanceAs (Decidable ((T.push s bytes).2 = bytes.length))

/-- Push, then drain: keys, final result, state. -/
def Tokenizer.feed (T : Tokenizer) (s : T.σ) (bytes : List UInt8) : List Key × Res × T.σ :=
  T.drain (T.push s bytes).1

/-- The law C20 trusts the tokenizer to obey: whenever a push is accepted in full, pushing `a ++ b` and
    draining yields the same keys, the same final result and the same state as pushing `a`, draining,
    pushing `b`, draining (no forced timeout in between) — and both of those pushes are accepted too.
    Pushing does not change the wait time. -/
structure Tokenizer.Incremental (T : Tokenizer) : Prop where
  split : ∀ (s : T.σ) (a b : List UInt8), T.Accepts s (a ++ b) →
    T.Accepts s a ∧ T.Accepts (T.feed s a).2.2 b ∧
    T.feed s (a ++ b) =
      ((T.feed s a).1 ++ (T.feed (T.feed s a).2.2 b).1, (T.feed (T.feed s a).2.2 b).2.1,
       (T.feed (T.feed s a).2.2 b).2.2)

/-- What the repaired `tickit_term_input_push_bytes` additionally relies on: `termkey_push_bytes` takes a
    prefix of what it is given — pushing just that prefix has the same effect and is accepted in full. -/
structure Tokenizer.PartialPush (T : Tokenizer) : Prop where
  le : ∀ (s : T.σ) (b : List UInt8), (T.push s b).2 ≤ b.length
  take : ∀ (s : T.σ) (b : List UInt8), T.push s (b.take (T.push s b).2) = T.push s b

/-- `get_keys`, literally: fetch a key, hand it to `got_key`, repeat; then arm or clear the deadline.
    `dfuel` bounds the drain loop, `fuel` the X10 loop. -/
def getKeysLoop (T : Tokenizer) (cfg : Cfg) (fuel : Nat) :
    (dfuel : Nat) → T.σ → Nat → Outcome (T.σ × Nat × List Event × Res)
  | 0, _, _ => .outOfFuel
  | n + 1, s, held =>
    match T.getkey s with
    | (Res.key k, s') =>
      match gotKey cfg fuel held k with
      | .ok r =>
        match getKeysLoop T cfg fuel n s' r.1 with
        | .ok r' => .ok (r'.1, r'.2.1, r.2 ++ r'.2.2.1, r'.2.2.2)
        | .ub w => .ub w
        | .outOfFuel => .outOfFuel
      | .ub w => .ub w
      | .outOfFuel => .outOfFuel
    | (r, s') => .ok (s', held, [], r)

def getKeys (T : Tokenizer) (cfg : Cfg) (fuel : Nat) (now : TimeVal) (tt : Term T) :
    Outcome (Term T × List Event) :=
  match getKeysLoop T cfg fuel (T.pending tt.tk + 1) tt.tk tt.held with
  | .ok r => .ok ({ tk := r.1, held := r.2.1,
                    timeoutAt := armTimeout tt.timeoutAt now (T.waittime r.1) r.2.2.2 }, r.2.2.1)
  | .ub w => .ub w
  | .outOfFuel => .outOfFuel

/-- `tickit_term_input_push_bytes` of the unchanged tree: the return value of `termkey_push_bytes`
    is not looked at. -/
def inputPushBytesOnce (T : Tokenizer) (cfg : Cfg) (fuel : Nat) (now : TimeVal) (tt : Term T)
    (bytes : List UInt8) : Outcome (Term T × List Event) :=
  getKeys T cfg fuel now { tt with tk := (T.push tt.tk bytes).1 }

/-- `tickit_term_input_push_bytes` with fixes/C20_push_bytes_short_count.patch:
    ```
    while(true) {
      size_t pushed = termkey_push_bytes(tk, bytes, len);
      if(pushed == (size_t)-1) pushed = 0;
      get_keys(tt, tk);
      bytes += pushed; len -= pushed;
      if(!len || !pushed) break;
    }
    ```
    (`Tokenizer.push` already reports the error return as 0 accepted.)  Every further round hands over
    at least one byte fewer: `lfuel` = `len + 1` is enough. -/
def inputPushBytesLoop (T : Tokenizer) (cfg : Cfg) (fuel : Nat) (now : TimeVal) :
    (lfuel : Nat) → Term T → List UInt8 → Outcome (Term T × List Event)
  | 0, _, _ => .outOfFuel
  | n + 1, tt, bytes =>
    let p := T.push tt.tk bytes
    let pushed := min p.2 bytes.length
    match getKeys T cfg fuel now { tt with tk := p.1 } with
    | .ok r =>
      if bytes.length - pushed = 0 ∨ pushed = 0 then .ok r
      else
        match inputPushBytesLoop T cfg fuel now n r.1 (bytes.drop pushed) with
        | .ok r' => .ok (r'.1, r.2 ++ r'.2)
        | .ub w => .ub w
        | .outOfFuel => .outOfFuel
    | .ub w => .ub w
    | .outOfFuel => .outOfFuel

/-- `tickit_term_input_push_bytes` as the working tree has it. -/
def inputPushBytes (T : Tokenizer) (cfg : Cfg) (fuel : Nat) (now : TimeVal) (tt : Term T)
    (bytes : List UInt8) : Outcome (Term T × List Event) :=
  if cfg.pushLoops then inputPushBytesLoop T cfg fuel now (bytes.length + 1) tt bytes
  else inputPushBytesOnce T cfg fuel now tt bytes

/-- `timedout` -/
def timedout (T : Tokenizer) (cfg : Cfg) (fuel : Nat) (tt : Term T) : Outcome (Term T × List Event) :=
  match T.getkeyForce tt.tk with
  | (Res.key k, s') =>
    match gotKey cfg fuel tt.held k with
    | .ok r => .ok ({ tk := s', held := r.1, timeoutAt := { tt.timeoutAt with sec := -1 } }, r.2)
    | .ub w => .ub w
    | .outOfFuel => .outOfFuel
  | (_, s') => .ok ({ tt with tk := s', timeoutAt := { tt.timeoutAt with sec := -1 } }, [])

/-- `tickit_term_input_check_timeout_msec`: the return value comes third. -/
def inputCheckTimeoutMsec (T : Tokenizer) (cfg : Cfg) (fuel : Nat) (now : TimeVal) (tt : Term T) :
    Outcome (Term T × List Event × Int) :=
  let msec := getTimeout tt.timeoutAt now
  if msec ≠ 0 then .ok (tt, [], msec)
  else
    match timedout T cfg fuel tt with
    | .ok r => .ok (r.1, r.2, -1)
    | .ub w => .ub w
    | .outOfFuel => .outOfFuel

/-- Pushing a stream piece by piece (no timeout in between): events of all pieces, in order. -/
def pushPieces (T : Tokenizer) (cfg : Cfg) (fuel : Nat) (now : TimeVal) :
    Term T → List (List UInt8) → Outcome (Term T × List Event)
  | tt, [] => .ok (tt, [])
  | tt, p :: ps =>
    match inputPushBytes T cfg fuel now tt p with
    | .ok r =>
      match pushPieces T cfg fuel now r.1 ps with
      | .ok r' => .ok (r'.1, r.2 ++ r'.2)
      | .ub w => .ub w
      | .outOfFuel => .outOfFuel
    | .ub w => .ub w
    | .outOfFuel => .outOfFuel

/-- What of a push can be observed from outside and does not depend on the clock: the tokenizer state,
    the held mask, whether the inter-byte timeout is armed, and the events emitted. -/
def pushObs {T : Tokenizer} (r : Term T × List Event) : T.σ × Nat × Bool × List Event :=
  (r.1.tk, r.1.held, decide (r.1.timeoutAt.sec ≠ -1), r.2)

/-! ### the specification C20 states (no bit mask, no loop) -/

namespace Spec

/-- Sorted insertion without duplicates: the held buttons as an ascending list. -/
def insert (b : Nat) : List Nat → List Nat
  | [] => [b]
  | x :: xs => if b < x then b :: x :: xs else if b = x then x :: xs else x :: insert b xs

def erase (b : Nat) (l : List Nat) : List Nat := l.filter (· ≠ b)

/-- What one tokenized key must produce, given the set of buttons held; `none`: the specification
    has no event kind for it (a mouse report that is neither press, drag, release nor wheel), so
    nothing may be emitted. -/
def keyEvents (held : List Nat) : Key → List Nat × List Event
  | .mouse ev button line col mods =>
    if ev = TERMKEY_MOUSE_PRESS ∧ button ≥ 4 then
      (held, [Event.mouse MOUSEEV_WHEEL (button - 3) (line - 1) (col - 1) mods])
    else if ev = TERMKEY_MOUSE_PRESS then
      (insert button.toNat held, [Event.mouse MOUSEEV_PRESS button (line - 1) (col - 1) mods])
    else if ev = TERMKEY_MOUSE_DRAG then
      (insert button.toNat held, [Event.mouse MOUSEEV_DRAG button (line - 1) (col - 1) mods])
    else if ev = TERMKEY_MOUSE_RELEASE ∧ button ≠ 0 then
      (erase button.toNat held, [Event.mouse MOUSEEV_RELEASE button (line - 1) (col - 1) mods])
    else if ev = TERMKEY_MOUSE_RELEASE then
      ([], held.map fun (b : Nat) => Event.mouse MOUSEEV_RELEASE (Int.ofNat b) (line - 1) (col - 1) mods)
    else (held, [])
  | .unicode mods utf8 name =>
    if mods = 0 then (held, [Event.key KEYEV_TEXT 0 utf8]) else (held, [Event.key KEYEV_KEY mods name])
  | .function mods name => (held, [Event.key KEYEV_KEY mods name])
  | .keysym mods name => (held, [Event.key KEYEV_KEY mods name])
  | .modereport initial mode value => (held, [Event.modereport initial mode value])
  | .dcs none => (held, [])
  | .dcs (some s) => if isDecrqssOk s then (held, [Event.decrqss (s.drop 3)]) else (held, [])
  | .other _ => (held, [])

def run : List Nat → List Key → List Nat × List Event
  | held, [] => (held, [])
  | held, k :: ks =>
    let r := keyEvents held k
    let r' := run r.1 ks
    (r'.1, r.2 ++ r'.2)

end Spec

/-- What the property trusts of the tokenizer (libtermkey's `termkey_interpret_mouse`): buttons are small,
    and a press or drag always names a button. -/
def Key.WF : Key → Prop
  | .mouse ev button _ _ _ =>
    0 ≤ button ∧ button < 31 ∧ ((ev = TERMKEY_MOUSE_PRESS ∨ ev = TERMKEY_MOUSE_DRAG) → 1 ≤ button)
  | _ => True

instance (k : Key) : Decidable k.WF := by
  cases k <;> unfold Key.WF <;> infer_instance

end Tickit.InputXlate
