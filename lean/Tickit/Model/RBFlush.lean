import Tickit.Model.RB
import Tickit.Gen.LineChars
/-
  Model of `tickit_renderbuffer_flush_to_term` (src/renderbuffer.c), statement by statement, on top of the
  concrete render-buffer model `Tickit.RB` (Model/RB.lean, engine `rb`), together with

  * the abstract terminal requests the flush issues (`Req`: `tickit_term_goto / setpen / printn / erasech`),
  * `tickit_term_setpen` of src/term.c (the cached pen `tt->pen`, the delta and the final pen handed to the
    driver's `chpen`),
  * `GridTerm`, the grid terminal the requests are interpreted on.  It is the specification device of C04 and is
    implemented a second time, in C, as the harness-owned terminal driver of harness/rbflush.c.  Where the
    cursor is after `erasech(…, TICKIT_MAYBE)` is an oracle (`Nat → Bool`, indexed by the number of such
    requests seen so far); with `viaWriteStr` the print request goes through `write_str` of src/term.c as the
    xterm driver's does (`len == 0` means "use strlen").

  Conventions as in Model/RB.lean (C `int` = `Int`; the grid is a total function, the terminal a plane `cols` columns
  wide with the VT behaviour at the right edge, unbounded downwards, of which the harness shows the window
  `[0,lines) × [0,cols)`; `stepL`/`runL` interpret the requests on a screen of `L` lines).
  No Mathlib: this file is linked into the driver executable.
-/
namespace Tickit.RBFlush
open Tickit.RB

/-! ## Requests -/

/-- `TickitMaybeBool` (values tied to the header by `Gen.LineChars.maybe*`). -/
inductive MaybeBool | no | yes | maybe
deriving DecidableEq, Repr, Inhabited

def MaybeBool.toInt : MaybeBool → Int
  | .no => Tickit.Gen.LineChars.maybeNo
  | .yes => Tickit.Gen.LineChars.maybeYes
  | .maybe => Tickit.Gen.LineChars.maybeMaybe

/-- One call of the terminal API made by the flush. -/
inductive Req
  /-- `tickit_term_goto(tt, line, col)` -/
  | goto (line col : Int)
  /-- `tickit_term_setpen(tt, pen)` -/
  | setpen (pen : Pen)
  /-- `tickit_term_printn(tt, s + start, len)`; `s` is the whole NUL-terminated string (or the staging buffer `rb->tmp`). -/
  | print (s : List UInt8) (start len : Nat)
  /-- `tickit_term_erasech(tt, count, moveend)` -/
  | erasech (count : Int) (moveend : MaybeBool)
deriving DecidableEq, Repr, Inhabited

/-- How a flush ends: normally, in `abort()` (a CONT cell at a run start), or not at all (a run of length ≤ 0). -/
inductive Outcome | ok | aborted | fuelOut
deriving DecidableEq, Repr, Inhabited

/-! ## `tickit_renderbuffer_flush_to_term` -/

/-- The bytes `tmp_cat_utf8(rb, linemask_to_char[mask])` appends. -/
def glyphBytes (mask : Nat) : List UInt8 :=
  Utf8.put (Tickit.Gen.LineChars.linemaskToChar.getD mask 0)

/-- The cells the `do … while` of the LINE case takes *after* the first one: `n` bounds the iterations
    (`n = cols − col` suffices: the loop condition starts with `col < rb->cols`). -/
def lineMore (rb : RB) (line : Int) (pen : Pen) : Nat → Int → List Cell
  | 0, _ => []
  | n + 1, col =>
    let cell := rb.cell line col
    if col < rb.cols ∧ cell.state = .line ∧ Pen.equiv cell.pen pen = true then
      cell :: lineMore rb line pen n (col + 1)
    else []

/-- All cells of one LINE batch starting at `col` (the first one unconditionally). -/
def lineBatch (rb : RB) (line col : Int) : List Cell :=
  let cell := rb.cell line col
  cell :: lineMore rb line cell.pen (rb.cols - (col + 1)).toNat (col + 1)

/-- Σ `cell->cols` over a batch: what `phycol` advances by. -/
def batchCols : List Cell → Int
  | [] => 0
  | c :: cs => c.cols + batchCols cs

/-- The bytes accumulated in `rb->tmp` by a batch. -/
def batchBytes (cs : List Cell) : List UInt8 := cs.flatMap fun c => glyphBytes c.lmask

/-! ### The TEXT case

  Two versions: `textReqsOld` is the code before the repair `fixes/C04_flush_wide_cut.patch` (kept for the
  counterexample theorems), `textReqs` the code with it.  They differ only when a run boundary falls inside a
  double-width character or the slice is empty. -/

/-- `tickit_utf8_count(text, &start, &limit)` with `limit.columns = offs`. -/
def textStart0 (cell : Cell) : Utf8.StrPos :=
  (Utf8.ncountmore cell.text none {} (some (Utf8.limitColumns cell.offs))).pos

/-- Before the repair: `tickit_utf8_countmore(text, &end, &limit)` from `start` with `limit.columns = offs + cols`. -/
def textEndOld (cell : Cell) : Utf8.StrPos :=
  (Utf8.ncountmore cell.text none (textStart0 cell) (some (Utf8.limitColumns (cell.offs + cell.cols)))).pos

/-- Before the repair: `setpen`, then one print request whatever its length. -/
def textReqsOld (cell : Cell) : List Req :=
  [.setpen cell.pen,
   .print cell.text (textStart0 cell).bytes.toNat ((textEndOld cell).bytes - (textStart0 cell).bytes).toNat]

/-- `start` after `if(start.columns < startcol) { limit graphemes = start.graphemes + 1; countmore }`:
    a run that begins inside a double-width character steps over it. -/
def textStart (cell : Cell) : Utf8.StrPos :=
  let s0 := textStart0 cell
  if s0.columns < cell.offs then
    (Utf8.ncountmore cell.text none s0 (some (Utf8.limitGraphemes (s0.graphemes + 1)))).pos
  else s0

/-- `end`: counted from `start` up to column `offs + cols` when `start` lies before it. -/
def textEnd (cell : Cell) : Utf8.StrPos :=
  let s := textStart cell
  if s.columns < cell.offs + cell.cols then
    (Utf8.ncountmore cell.text none s (some (Utf8.limitColumns (cell.offs + cell.cols)))).pos
  else s

/-- `lead = start.columns - startcol`: columns at the start of the run that hold the right half of a wide character. -/
def textLead (cell : Cell) : Int := (textStart cell).columns - cell.offs

/-- `trail = endcol - end.columns`: columns at the end of the run that hold the left half of a wide character. -/
def textTrail (cell : Cell) : Int := cell.offs + cell.cols - (textEnd cell).columns

/-- The requests of the TEXT case: `setpen`, blanks for a leading half, the slice when it is not empty, blanks for a
    trailing half. -/
def textReqs (cell : Cell) : List Req :=
  [.setpen cell.pen] ++
  (if textLead cell > 0 then [.erasech (textLead cell) .yes] else []) ++
  (if (textEnd cell).bytes > (textStart cell).bytes then
     [.print cell.text (textStart cell).bytes.toNat ((textEnd cell).bytes - (textStart cell).bytes).toNat] else []) ++
  (if textTrail cell > 0 then [.erasech (textTrail cell) .yes] else [])

/-- `moveend` of the ERASE case. -/
def eraseMoveend (rb : RB) (line col : Int) (cell : Cell) : Bool :=
  decide (col + cell.cols < rb.cols) && decide ((rb.cell line (col + cell.cols)).state ≠ .skip)

/-- Prefix a list of requests to the result of the rest of the loop. -/
def andThen (pre : List Req) (r : List Req × Outcome) : List Req × Outcome := (pre ++ r.1, r.2)

/-- `if(phycol < col) tickit_term_goto(tt, line, col);` -/
def gotoIf (phycol line col : Int) : List Req := if phycol < col then [.goto line col] else []

/-- The `for(int col = 0; col < rb->cols; )` loop of one line, from `col` with the tracker at `phycol`;
    `txt` is the TEXT case (`textReqs`, or `textReqsOld` for the code before the repair). -/
def flushCols (txt : Cell → List Req) (rb : RB) (line : Int) : Nat → Int → Int → List Req × Outcome
  | 0, col, _ => if col < rb.cols then ([], .fuelOut) else ([], .ok)
  | fuel + 1, col, phycol =>
    if ¬ col < rb.cols then ([], .ok)
    else
      let cell := rb.cell line col
      match cell.state with
      | .skip => flushCols txt rb line fuel (col + cell.cols) phycol
      | .text =>
        andThen (gotoIf phycol line col ++ txt cell)
          (flushCols txt rb line fuel (col + cell.cols) (col + cell.cols))
      | .erase =>
        let moveend := eraseMoveend rb line col cell
        andThen (gotoIf phycol line col ++ [.setpen cell.pen, .erasech cell.cols (if moveend then .yes else .maybe)])
          (flushCols txt rb line fuel (col + cell.cols) (if moveend then col + cell.cols else -1))
      | .line =>
        let batch := lineBatch rb line col
        andThen (gotoIf phycol line col ++ [.setpen cell.pen, .print (batchBytes batch) 0 (batchBytes batch).length])
          (flushCols txt rb line fuel (col + batch.length) (col + batchCols batch))
      | .char =>
        let bs := Utf8.put cell.cp.toNat
        andThen (gotoIf phycol line col ++ [.setpen cell.pen, .print bs 0 bs.length])
          (flushCols txt rb line fuel (col + cell.cols) (col + cell.cols))
      | .cont => (gotoIf phycol line col, .aborted)

/-- The `for(int line = 0; line < rb->lines; line++)` loop: `n` lines from `line`. -/
def flushLines (txt : Cell → List Req) (rb : RB) : Nat → Int → List Req × Outcome
  | 0, _ => ([], .ok)
  | n + 1, line =>
    let r := flushCols txt rb line (rb.cols.toNat + 1) 0 (-1)
    match r.2 with
    | .ok => andThen r.1 (flushLines txt rb n (line + 1))
    | _ => r

/-- What a flush does: the requests in order, how it ended, and the buffer afterwards. -/
structure FlushRes where
  reqs : List Req
  out : Outcome
  rb : RB

/-- The flush with a given TEXT case. -/
def flushWith (txt : Cell → List Req) (rb : RB) : FlushRes :=
  let r := flushLines txt rb rb.lines.toNat 0
  { reqs := r.1, out := r.2, rb := if r.2 = .ok then reset rb else rb }

/-- `tickit_renderbuffer_flush_to_term(rb, tt)`. -/
def flushToTerm (rb : RB) : FlushRes := flushWith textReqs rb

/-- `tickit_renderbuffer_flush_to_term(rb, tt)` before the repair of the TEXT case. -/
def flushToTermOld (rb : RB) : FlushRes := flushWith textReqsOld rb

/-! ## `tickit_term_setpen` (src/term.c) -/

/-- One attribute of the loop of `tickit_term_setpen`: `(tt->pen's attribute afterwards, delta's attribute)`.
    `val` is `tickit_pen_copy_attr`'s reading of the argument (the default when it lacks the attribute). -/
def setAttr {α : Type} (eqv : Option α → Option α → Bool) (val : Option α → α) (t p : Option α) : Option α × Option α :=
  if t.isSome && eqv t p then (t, none) else (some (val p), some (val p))

/-- `tickit_pen_copy_attr` for a colour: the index (−1 when absent) and the RGB8 refinement when present. -/
def colourVal (p : Option Colour) : Colour := ⟨Pen.getColour p, Pen.getRgb p⟩

/-- `tickit_term_setpen(tt, pen)`: `tt->pen` afterwards.  (Colour indices are below `tt->colors`: no palette conversion.) -/
def termSetpen (t p : Pen) : Pen :=
  { fg      := (setAttr Pen.equivColour colourVal t.fg p.fg).1
    bg      := (setAttr Pen.equivColour colourVal t.bg p.bg).1
    bold    := (setAttr Pen.equivBool Pen.getBool t.bold p.bold).1
    under   := (setAttr Pen.equivInt Pen.getInt t.under p.under).1
    italic  := (setAttr Pen.equivBool Pen.getBool t.italic p.italic).1
    reverse := (setAttr Pen.equivBool Pen.getBool t.reverse p.reverse).1
    strike  := (setAttr Pen.equivBool Pen.getBool t.strike p.strike).1
    altfont := (setAttr Pen.equivInt Pen.getInt t.altfont p.altfont).1
    blink   := (setAttr Pen.equivBool Pen.getBool t.blink p.blink).1
    sizepos := (setAttr Pen.equivInt Pen.getInt t.sizepos p.sizepos).1 }

/-- The `delta` pen handed to the driver's `chpen`. -/
def termSetpenDelta (t p : Pen) : Pen :=
  { fg      := (setAttr Pen.equivColour colourVal t.fg p.fg).2
    bg      := (setAttr Pen.equivColour colourVal t.bg p.bg).2
    bold    := (setAttr Pen.equivBool Pen.getBool t.bold p.bold).2
    under   := (setAttr Pen.equivInt Pen.getInt t.under p.under).2
    italic  := (setAttr Pen.equivBool Pen.getBool t.italic p.italic).2
    reverse := (setAttr Pen.equivBool Pen.getBool t.reverse p.reverse).2
    strike  := (setAttr Pen.equivBool Pen.getBool t.strike p.strike).2
    altfont := (setAttr Pen.equivInt Pen.getInt t.altfont p.altfont).2
    blink   := (setAttr Pen.equivBool Pen.getBool t.blink p.blink).2
    sizepos := (setAttr Pen.equivInt Pen.getInt t.sizepos p.sizepos).2 }

/-! ## The grid terminal -/

/-- One decoded character: its bytes, code point and column width. -/
structure Ch where
  bytes : List UInt8
  cp : Nat
  width : Int
deriving DecidableEq, Repr

/-- What a terminal cell shows. -/
inductive Glyph
  /-- erased -/
  | blank
  /-- a character of width ≥ 1 followed by the zero-width characters attached to it -/
  | chars (bs : List UInt8)
  /-- the second column of a double-width character -/
  | wcont
deriving DecidableEq, Repr, Inhabited

/-- A terminal cell: glyph, the rendition it was written with (the `final` pen of the last `chpen`), and how
    often it has been written since the grid was set up ("exactly once"). -/
structure TCell where
  glyph : Glyph := .blank
  pen : Pen := {}
  writes : Nat := 0
deriving DecidableEq, Repr, Inhabited

/-- The grid terminal. -/
structure GridTerm where
  cells : Int → Int → TCell
  line : Int
  /-- the cursor column; `col = cols` is the pending-wrap state of a VT (the cursor sits on the last column and the next
      character goes to the next line) -/
  col : Int
  /-- the width of the terminal -/
  cols : Int
  /-- the cell holding the last character of width ≥ 1 printed since the last cursor movement -/
  last : Option (Int × Int) := none
  /-- `tt->pen`, which is also the `final` pen the driver has been handed last -/
  pen : Pen := {}
  /-- does the cursor move to the end of the `k`-th `erasech(…, TICKIT_MAYBE)`? -/
  oracle : Nat → Bool := fun _ => false
  nmaybe : Nat := 0
  /-- `print` goes through `write_str` (as in the xterm driver): a length of 0 means `strlen` -/
  viaWriteStr : Bool := false

namespace GridTerm

/-- A character of width `w ≥ 1` written at the cursor, no questions asked. -/
def putGlyphRaw (t : GridTerm) (bs : List UInt8) (w : Int) : GridTerm :=
  { t with
    cells := fun l c =>
      if l = t.line ∧ t.col ≤ c ∧ c < t.col + w then
        { glyph := if c = t.col then .chars bs else .wcont, pen := t.pen, writes := (t.cells l c).writes + 1 }
      else t.cells l c
    col := t.col + w
    last := some (t.line, t.col) }

/-- The deferred wrap of a VT: to column 0 of the next line (no scrolling: the plane is unbounded downwards). -/
def wrap (t : GridTerm) : GridTerm := { t with line := t.line + 1, col := 0 }

/-- A character of width `w ≥ 1` arrives: if it does not fit on the line — in particular in the pending-wrap state
    `col = cols` — the cursor wraps first (DEC autowrap); printing into the last column leaves `col = cols`. -/
def putGlyph (t : GridTerm) (bs : List UInt8) (w : Int) : GridTerm :=
  (if t.col + w > t.cols then t.wrap else t).putGlyphRaw bs w

/-- A zero-width character: attached to the last character printed, dropped when there is none. -/
def addZeroWidth (t : GridTerm) (bs : List UInt8) : GridTerm :=
  match t.last with
  | none => t
  | some p =>
    { t with cells := fun l c =>
        if l = p.1 ∧ c = p.2 then
          match (t.cells l c).glyph with
          | .chars g => { t.cells l c with glyph := .chars (g ++ bs) }
          | _ => t.cells l c
        else t.cells l c }

/-- The terminal's reading of `bs` from byte `i`: UTF-8 as the library decodes it (`next_utf8`), widths from the
    library's tables; a byte that starts no sequence, a control character and a non-character take one column. -/
def termDecode (bs : List UInt8) : Nat → Nat → List Ch
  | 0, _ => []
  | fuel + 1, i =>
    if i ≥ bs.length then []
    else
      match Utf8.nextUtf8 bs i (some (bs.length - i)) with
      | none => ⟨(bs.drop i).take 1, Utf8.byteAt bs i, 1⟩ :: termDecode bs fuel (i + 1)
      | some d =>
        ⟨(bs.drop i).take d.n, d.cp, if Utf8.wcwidth d.cp < 0 then 1 else Utf8.wcwidth d.cp⟩ :: termDecode bs fuel (i + d.n)

/-- One character arrives: width 0 joins the previous character, otherwise it is put at the cursor. -/
def putCh (t : GridTerm) (c : Ch) : GridTerm :=
  if c.width = 0 then t.addZeroWidth c.bytes else t.putGlyph c.bytes c.width

def putChs (t : GridTerm) (cs : List Ch) : GridTerm := cs.foldl putCh t

/-- The driver's `print(str, len)` once the bytes are known. -/
def printBytes (t : GridTerm) (bs : List UInt8) : GridTerm := t.putChs (termDecode bs (bs.length + 1) 0)

/-- The bytes a print request delivers: `len` bytes from `start`; through `write_str`, `len = 0` means up to the NUL. -/
def reqBytes (viaWriteStr : Bool) (s : List UInt8) (start len : Nat) : List UInt8 :=
  if len = 0 && viaWriteStr then (s.drop start).takeWhile (· ≠ 0)
  else (s.drop start).take len

/-- The driver's `goto_abs`: the column is clamped to the screen; every cursor movement ends the pending-wrap state. -/
def goto (t : GridTerm) (line col : Int) : GridTerm :=
  { t with line := line, col := max 0 (min col (t.cols - 1)), last := none }

/-- `tickit_term_setpen` followed by the driver's `chpen(delta, final)`. -/
def setpen (t : GridTerm) (p : Pen) : GridTerm := { t with pen := termSetpen t.pen p }

/-- The driver's `erasech(count, moveend)`, as ECH (+ CUF): blanks from the cursor — which in the pending-wrap state is
    on the last column — to at most the right edge; the cursor stays, or moves right (clamped, ending pending wrap). -/
def erasech (t : GridTerm) (n : Int) (m : MaybeBool) : GridTerm :=
  if n < 1 then t
  else
    let start := min t.col (t.cols - 1)
    let t' : GridTerm :=
      { t with
        cells := fun l c =>
          if l = t.line ∧ start ≤ c ∧ c < start + n ∧ c < t.cols then
            { glyph := .blank, pen := t.pen, writes := (t.cells l c).writes + 1 }
          else t.cells l c
        last := none }
    match m with
    | .yes => { t' with col := min (start + n) (t.cols - 1) }
    | .no => t'
    | .maybe =>
      { t' with col := if t.oracle t.nmaybe then min (start + n) (t.cols - 1) else t.col, nmaybe := t.nmaybe + 1 }

/-- One request. -/
def step (t : GridTerm) : Req → GridTerm
  | .goto l c => t.goto l c
  | .setpen p => t.setpen p
  | .print s start len => t.printBytes (reqBytes t.viaWriteStr s start len)
  | .erasech n m => t.erasech n m

/-- A sequence of requests. -/
def run (t : GridTerm) : List Req → GridTerm
  | [] => t
  | r :: rs => run (t.step r) rs

/-! ### A screen of `L` lines

  `GridTerm` is a plane unbounded downwards.  A real screen has `L` lines: a cursor movement below the last line is
  clamped to it, and the deferred wrap on the last line scrolls the screen up by one line.  `stepL`/`runL` interpret the
  requests on such a screen (rows `0 … L-1` of the grid); `flush_on_screen` (Props/C04.lean) shows that the flush of a
  buffer whose content lies within the screen never triggers either — `runL` and `run` agree on its requests. -/

/-- The deferred wrap on a screen of `L` lines: on the last line the screen scrolls (the top line is lost, the
    lines move up, the new bottom line is blank in the current rendition) and the cursor stays on the last line. -/
def wrapL (L : Int) (t : GridTerm) : GridTerm :=
  if t.line = L - 1 then
    { t with
      cells := fun l c =>
        if l = L - 1 then { glyph := .blank, pen := t.pen, writes := (t.cells l c).writes + 1 }
        else if 0 ≤ l ∧ l < L - 1 then t.cells (l + 1) c
        else t.cells l c
      col := 0
      last := t.last.map fun p => (p.1 - 1, p.2) }
  else t.wrap

def putGlyphL (L : Int) (t : GridTerm) (bs : List UInt8) (w : Int) : GridTerm :=
  (if t.col + w > t.cols then t.wrapL L else t).putGlyphRaw bs w

def putChL (L : Int) (t : GridTerm) (c : Ch) : GridTerm :=
  if c.width = 0 then t.addZeroWidth c.bytes else t.putGlyphL L c.bytes c.width

def putChsL (L : Int) (t : GridTerm) (cs : List Ch) : GridTerm := cs.foldl (putChL L) t

def printBytesL (L : Int) (t : GridTerm) (bs : List UInt8) : GridTerm := t.putChsL L (termDecode bs (bs.length + 1) 0)

/-- `goto` on a screen of `L` lines: the line is clamped to the screen, too. -/
def gotoL (L : Int) (t : GridTerm) (line col : Int) : GridTerm := t.goto (max 0 (min line (L - 1))) col

/-- One request on a screen of `L` lines. -/
def stepL (L : Int) (t : GridTerm) : Req → GridTerm
  | .goto l c => t.gotoL L l c
  | .setpen p => t.setpen p
  | .print s start len => t.printBytesL L (reqBytes t.viaWriteStr s start len)
  | .erasech n m => t.erasech n m

def runL (L : Int) (t : GridTerm) : List Req → GridTerm
  | [] => t
  | r :: rs => runL L (t.stepL L r) rs

/-- Re-tabulate the window `[0,lines) × [0,cols)` (execution speed only); cells outside keep their closure. -/
def compact (t : GridTerm) (lines cols : Nat) : GridTerm :=
  let tab : Array (Array TCell) := Array.ofFn (n := lines) fun l => Array.ofFn (n := cols) fun c => t.cells l.val c.val
  let old := t.cells
  { t with cells := fun l c =>
      if 0 ≤ l ∧ 0 ≤ c then
        match tab[l.toNat]? with
        | some row =>
          match row[c.toNat]? with
          | some x => x
          | none => old l c
        | none => old l c
      else old l c }

end GridTerm

/-! ## The specification: `overlay (content of the buffer) (old grid)` -/

/-- The characters of `s` from byte `i`, as the width counter (`tickit_utf8_ncountmore` without limit) reads them up
    to the NUL; `none` when the counter rejects the text (or the fuel, one more than the number of characters, runs out). -/
def decodeFrom (s : List UInt8) : Nat → Nat → Option (List Ch)
  | 0, _ => none
  | fuel + 1, i =>
    if Utf8.byteAt s i = 0 then some []
    else match Utf8.nextUtf8 s i none with
      | none => none
      | some d =>
        if d.cp < 0x20 || (d.cp ≥ 0x80 && d.cp < 0xa0) then none
        else if Utf8.wcwidth d.cp = -1 then none
        else (decodeFrom s fuel (i + d.n)).map (⟨(s.drop i).take d.n, d.cp, Utf8.wcwidth d.cp⟩ :: ·)

def decode (s : List UInt8) : Option (List Ch) := decodeFrom s (s.length + 1) 0

/-- Σ width. -/
def chCols : List Ch → Int
  | [] => 0
  | c :: cs => c.width + chCols cs

/-- A grapheme as the terminal shows it: the bytes of a character of width ≥ 1 and of the zero-width characters
    that follow it, and its width.  Zero-width characters before the first such character belong to no column. -/
structure Grapheme where
  bytes : List UInt8
  width : Int
deriving DecidableEq, Repr

/-- Attach zero-width characters to the grapheme under construction (`cur`). -/
def graphemesAux : List Ch → Option Grapheme → List Grapheme
  | [], none => []
  | [], some g => [g]
  | c :: cs, cur =>
    if c.width = 0 then
      match cur with
      | none => graphemesAux cs none
      | some g => graphemesAux cs (some { g with bytes := g.bytes ++ c.bytes })
    else
      match cur with
      | none => graphemesAux cs (some ⟨c.bytes, c.width⟩)
      | some g => g :: graphemesAux cs (some ⟨c.bytes, c.width⟩)

def graphemes (s : List UInt8) : Option (List Grapheme) := (decode s).map fun cs => graphemesAux cs none

/-- What column `k` of a laid-out text shows: `(glyph, first column of its grapheme, width)`. -/
def colGlyph : List Grapheme → Int → Int → Option (Glyph × Int × Int)
  | [], _, _ => none
  | g :: gs, c0, k =>
    if k < c0 then none
    else if k = c0 then some (.chars g.bytes, c0, g.width)
    else if k < c0 + g.width then some (.wcont, c0, g.width)
    else colGlyph gs (c0 + g.width) k

/-- What the flush owes one terminal cell. -/
inductive Want
  /-- leave the cell alone -/
  | keep
  /-- show this glyph with this pen -/
  | glyph (g : Glyph) (pen : Pen)
  /-- a line cell: any box-drawing glyph with the arms of `mask` (the exact one where Unicode has one) -/
  | line (mask : Nat) (pen : Pen)
  /-- the buffer is ill-formed here (a CONT cell pointing at a CONT, text shorter than its run): nothing is claimed -/
  | unspecified
deriving DecidableEq, Repr

/-- The start column of the run covering `(line, col)`. -/
def runStart (rb : RB) (line col : Int) : Int :=
  let cell := rb.cell line col
  if cell.state = .cont then cell.cols else col

/-- What the run with start cell `sc` owes the terminal cell `j` columns into it. -/
def wantOf (sc : Cell) (j : Int) : Want :=
  match sc.state with
  | .skip => .keep
  | .erase => .glyph .blank sc.pen
  | .char => .glyph (.chars (Utf8.put sc.cp.toNat)) sc.pen
  | .line => .line sc.lmask sc.pen
  | .cont => .unspecified
  | .text =>
    match (graphemes sc.text).bind fun gs => colGlyph gs 0 (sc.offs + j) with
    | none => .unspecified
    | some (g, c0, w) =>
      -- a double-width character cut by a boundary of the run cannot be shown: its visible half is blank
      if sc.offs ≤ c0 ∧ c0 + w ≤ sc.offs + sc.cols then .glyph g sc.pen else .glyph .blank sc.pen

/-- The content of the buffer at `(line, col)`, as an obligation on the terminal cell. -/
def want (rb : RB) (line col : Int) : Want :=
  if ¬ rb.inGrid line col then .keep
  else wantOf (rb.cell line (runStart rb line col)) (col - runStart rb line col)

/-- Rendition equality: `tickit_pen_equiv` (an absent attribute is its default). -/
def penSame (a b : Pen) : Bool := Pen.equiv a b

/-! ## Box-drawing characters: the arms of U+2500 … U+257F (part of the specification)

  `(north, east, south, west)`, each `0` = no arm, `1` = light ("single"), `2` = double, `3` = heavy ("thick") — the
  two-bit styles of `TickitLineStyle`.  Written from the Unicode character names (e.g. U+251E "BOX DRAWINGS UP HEAVY
  AND RIGHT DOWN LIGHT" = `(3, 1, 1, 0)`); dashed lines, arcs and diagonals are not arm glyphs (`none`). -/

abbrev Arms := Nat × Nat × Nat × Nat

def boxArms : Array (Option Arms) := #[
  some (0, 1, 0, 1), some (0, 3, 0, 3), some (1, 0, 1, 0), some (3, 0, 3, 0),   -- U+2500 ─━│┃
  none, none, none, none,   -- U+2504 ┄┅┆┇
  none, none, none, none,   -- U+2508 ┈┉┊┋
  some (0, 1, 1, 0), some (0, 3, 1, 0), some (0, 1, 3, 0), some (0, 3, 3, 0),   -- U+250C ┌┍┎┏
  some (0, 0, 1, 1), some (0, 0, 1, 3), some (0, 0, 3, 1), some (0, 0, 3, 3),   -- U+2510 ┐┑┒┓
  some (1, 1, 0, 0), some (1, 3, 0, 0), some (3, 1, 0, 0), some (3, 3, 0, 0),   -- U+2514 └┕┖┗
  some (1, 0, 0, 1), some (1, 0, 0, 3), some (3, 0, 0, 1), some (3, 0, 0, 3),   -- U+2518 ┘┙┚┛
  some (1, 1, 1, 0), some (1, 3, 1, 0), some (3, 1, 1, 0), some (1, 1, 3, 0),   -- U+251C ├┝┞┟
  some (3, 1, 3, 0), some (3, 3, 1, 0), some (1, 3, 3, 0), some (3, 3, 3, 0),   -- U+2520 ┠┡┢┣
  some (1, 0, 1, 1), some (1, 0, 1, 3), some (3, 0, 1, 1), some (1, 0, 3, 1),   -- U+2524 ┤┥┦┧
  some (3, 0, 3, 1), some (3, 0, 1, 3), some (1, 0, 3, 3), some (3, 0, 3, 3),   -- U+2528 ┨┩┪┫
  some (0, 1, 1, 1), some (0, 1, 1, 3), some (0, 3, 1, 1), some (0, 3, 1, 3),   -- U+252C ┬┭┮┯
  some (0, 1, 3, 1), some (0, 1, 3, 3), some (0, 3, 3, 1), some (0, 3, 3, 3),   -- U+2530 ┰┱┲┳
  some (1, 1, 0, 1), some (1, 1, 0, 3), some (1, 3, 0, 1), some (1, 3, 0, 3),   -- U+2534 ┴┵┶┷
  some (3, 1, 0, 1), some (3, 1, 0, 3), some (3, 3, 0, 1), some (3, 3, 0, 3),   -- U+2538 ┸┹┺┻
  some (1, 1, 1, 1), some (1, 1, 1, 3), some (1, 3, 1, 1), some (1, 3, 1, 3),   -- U+253C ┼┽┾┿
  some (3, 1, 1, 1), some (1, 1, 3, 1), some (3, 1, 3, 1), some (3, 1, 1, 3),   -- U+2540 ╀╁╂╃
  some (3, 3, 1, 1), some (1, 1, 3, 3), some (1, 3, 3, 1), some (3, 3, 1, 3),   -- U+2544 ╄╅╆╇
  some (1, 3, 3, 3), some (3, 1, 3, 3), some (3, 3, 3, 1), some (3, 3, 3, 3),   -- U+2548 ╈╉╊╋
  none, none, none, none,   -- U+254C ╌╍╎╏
  some (0, 2, 0, 2), some (2, 0, 2, 0), some (0, 2, 1, 0), some (0, 1, 2, 0),   -- U+2550 ═║╒╓
  some (0, 2, 2, 0), some (0, 0, 1, 2), some (0, 0, 2, 1), some (0, 0, 2, 2),   -- U+2554 ╔╕╖╗
  some (1, 2, 0, 0), some (2, 1, 0, 0), some (2, 2, 0, 0), some (1, 0, 0, 2),   -- U+2558 ╘╙╚╛
  some (2, 0, 0, 1), some (2, 0, 0, 2), some (1, 2, 1, 0), some (2, 1, 2, 0),   -- U+255C ╜╝╞╟
  some (2, 2, 2, 0), some (1, 0, 1, 2), some (2, 0, 2, 1), some (2, 0, 2, 2),   -- U+2560 ╠╡╢╣
  some (0, 2, 1, 2), some (0, 1, 2, 1), some (0, 2, 2, 2), some (1, 2, 0, 2),   -- U+2564 ╤╥╦╧
  some (2, 1, 0, 1), some (2, 2, 0, 2), some (1, 2, 1, 2), some (2, 1, 2, 1),   -- U+2568 ╨╩╪╫
  some (2, 2, 2, 2), none, none, none,   -- U+256C ╬╭╮╯
  none, none, none, none,   -- U+2570 ╰╱╲╳
  some (0, 0, 0, 1), some (1, 0, 0, 0), some (0, 1, 0, 0), some (0, 0, 1, 0),   -- U+2574 ╴╵╶╷
  some (0, 0, 0, 3), some (3, 0, 0, 0), some (0, 3, 0, 0), some (0, 0, 3, 0),   -- U+2578 ╸╹╺╻
  some (0, 3, 0, 1), some (1, 0, 3, 0), some (0, 1, 0, 3), some (3, 0, 1, 0)    -- U+257C ╼╽╾╿
]

/-- The arms of a code point: `none` outside the block and for the non-arm glyphs. -/
def armsOf (cp : Nat) : Option Arms :=
  if 0x2500 ≤ cp ∧ cp < 0x2580 then (boxArms.getD (cp - 0x2500) none) else none

/-- The four two-bit styles of a line mask, `(north, east, south, west)`; shifts from the source. -/
def maskArms (mask : Nat) : Arms :=
  open Tickit.Gen.LineChars in
  ((mask >>> shiftNorth) % 4, (mask >>> shiftEast) % 4, (mask >>> shiftSouth) % 4, (mask >>> shiftWest) % 4)

/-- Same set of directions with an arm. -/
def sameDirs (a b : Arms) : Bool :=
  (a.1 != 0) == (b.1 != 0) && (a.2.1 != 0) == (b.2.1 != 0) && (a.2.2.1 != 0) == (b.2.2.1 != 0) && (a.2.2.2 != 0) == (b.2.2.2 != 0)

/-- Unicode has a glyph with exactly these arms. -/
def hasExact (a : Arms) : Bool := (List.range 128).any fun i => boxArms.getD i none == some a

/-- `cp` is an acceptable picture of line mask `mask`: a box-drawing character with an arm in exactly the
    directions the mask has one, and *the* character with exactly the mask's arms where Unicode has one. -/
def glyphOK (mask cp : Nat) : Bool :=
  match armsOf cp with
  | none => false
  | some a => sameDirs a (maskArms mask) && (!hasExact (maskArms mask) || a == maskArms mask)

/-- Is `bs` the UTF-8 form of one code point acceptable for line mask `mask`? -/
def lineGlyphOK (mask : Nat) (bs : List UInt8) : Bool :=
  match Utf8.nextUtf8 bs 0 (some bs.length) with
  | none => false
  | some d => d.n == bs.length && glyphOK mask d.cp

/-- The obligation `w` holds of a terminal cell that was `old` before the flush and is `new` after it: the glyph, the
    rendition (`tickit_pen_equiv` with the cell's pen) and "written exactly once". -/
def cellOK (w : Want) (old new : TCell) : Bool :=
  match w with
  | .keep => new == old
  | .unspecified => true
  | .glyph g p => new.glyph == g && penSame new.pen p && new.writes == old.writes + 1
  | .line m p =>
    (match new.glyph with
     | .chars bs => lineGlyphOK m bs
     | _ => false) && penSame new.pen p && new.writes == old.writes + 1

/-! ## The library's mock terminal (src/mockterm.c), second configuration of the correspondence check

  `MockTerm` mirrors `mtd_goto_abs`, `mtd_print`, `mtd_erasech` and `mtd_chpen` statement by statement: goto is clamped to
  the screen, `erasech` moves the cursor unless `moveend == TICKIT_NO`, a cell holds the bytes of one grapheme (`" "`
  after an erase, NULL for the second column of a double-width character) and a clone of the driver's pen.  The loop of
  `mtd_print` that empties the further columns of a double-width character is bounded by the line width (a wide
  character printed in the last column shows in that column only; before the repair `mockterm_wide_at_edge` it wrote
  `linecells[cols]`), while the cursor column still advances by the character's width.  No theorem is about this model;
  the specification `want`/`cellOK` is evaluated on what the real mock terminal displays. -/

/-- `MockTermCell`: `str` (`none` = NULL) and pen. -/
structure MCell where
  str : Option (List UInt8) := some [0x20]
  pen : Pen := {}
deriving DecidableEq, Repr, Inhabited

structure MockTerm where
  lines : Int
  cols : Int
  cells : Int → Int → MCell
  line : Int := -1
  col : Int := -1
  /-- `tt->pen` (src/term.c); the driver's `mtd->pen` is a copy of the `final` pen, i.e. the same attributes -/
  pen : Pen := {}
  /-- `mtd_print` does not terminate (a byte string the width counter rejects) -/
  hung : Bool := false

namespace MockTerm

/-- `BOUND(var, min, max)`. -/
def bound (v lo hi : Int) : Int :=
  let v := if v < lo then lo else v
  if v > hi then hi else v

/-- `mtd_goto_abs`. -/
def goto (t : MockTerm) (line col : Int) : MockTerm :=
  { t with line := bound line 0 (t.lines - 1), col := bound col 0 (t.cols - 1) }

/-- `tickit_term_setpen` + `mtd_chpen`. -/
def setpen (t : MockTerm) (p : Pen) : MockTerm := { t with pen := termSetpen t.pen p }

/-- `mtd_erasech`. -/
def erasech (t : MockTerm) (count : Int) (m : MaybeBool) : MockTerm :=
  let right := bound (t.col + count) 0 t.cols
  let t' : MockTerm :=
    { t with cells := fun l c =>
        if l = t.line ∧ t.col ≤ c ∧ c < right then { str := some [0x20], pen := t.pen } else t.cells l c }
  match m with
  | .no => t'
  | _ => { t' with col := right }

/-- The `while(pos.bytes < len)` loop of `mtd_print`; `lim` is `limit.columns`. -/
def printLoop (bs : List UInt8) : Nat → MockTerm → Utf8.StrPos → Int → MockTerm
  | 0, t, _, _ => { t with hung := true }
  | fuel + 1, t, pos, lim =>
    if ¬ pos.bytes < bs.length then { t with col := pos.columns }
    else
      let lim := lim + 1
      let pos' := (Utf8.ncountmore bs (some bs.length) pos (some ⟨bs.length, -1, -1, lim⟩)).pos
      if pos'.columns = pos.columns then printLoop bs fuel t pos' lim
      else
        -- "Wrap but don't scroll"
        let wrapped := decide (pos.columns ≥ t.cols)
        let line := if wrapped ∧ t.line < t.lines - 1 then t.line + 1 else t.line
        let sc := if wrapped then 0 else pos.columns
        let slice := (bs.drop pos.bytes.toNat).take (pos'.bytes - pos.bytes).toNat
        let t' : MockTerm :=
          { t with
            line := line
            cells := fun l c =>
              if l = line ∧ c = sc then { str := some slice, pen := t.pen }
              else if l = line ∧ sc < c ∧ c < pos'.columns ∧ c < t.cols then { str := none, pen := t.pen }
              -- "Empty out the other cells for doublewidth":
              -- `for(start.columns++; start.columns < pos.columns && start.columns < mtd->cols; start.columns++)`
              else t.cells l c }
        printLoop bs fuel t' pos' lim

/-- `mtd_print(str, len)`. -/
def print (t : MockTerm) (bs : List UInt8) : MockTerm :=
  printLoop bs (2 * bs.length + 2) t { columns := t.col } t.col

/-- One request. -/
def step (t : MockTerm) : Req → MockTerm
  | .goto l c => t.goto l c
  | .setpen p => t.setpen p
  | .print s start len => t.print ((s.drop start).take len)
  | .erasech n m => t.erasech n m

def run (t : MockTerm) : List Req → MockTerm
  | [] => t
  | r :: rs => run (t.step r) rs

/-- `tickit_mockterm_new(lines, cols)`. -/
def new (lines cols : Int) : MockTerm := { lines := lines, cols := cols, cells := fun _ _ => {} }

/-- Re-tabulate (execution speed only). -/
def compact (t : MockTerm) : MockTerm :=
  let tab : Array (Array MCell) :=
    Array.ofFn (n := t.lines.toNat) fun l => Array.ofFn (n := t.cols.toNat) fun c => t.cells l.val c.val
  let old := t.cells
  { t with cells := fun l c =>
      if 0 ≤ l ∧ 0 ≤ c then
        match tab[l.toNat]? with
        | some row =>
          match row[c.toNat]? with
          | some x => x
          | none => old l c
        | none => old l c
      else old l c }

end MockTerm

/-- What the mock terminal shows for a glyph. -/
def mockStr : Glyph → Option (List UInt8)
  | .blank => some [0x20]
  | .chars bs => some bs
  | .wcont => none

/-- `cellOK` for the mock terminal, which does not count writes: glyph and rendition. -/
def mcellOK (w : Want) (old new : MCell) : Bool :=
  match w with
  | .keep => new == old
  | .unspecified => true
  | .glyph g p => new.str == mockStr g && penSame new.pen p
  | .line m p =>
    (match new.str with
     | some bs => lineGlyphOK m bs
     | none => false) && penSame new.pen p

/-! ## Well-formedness of a buffer as far as the flush looks at it (decidable form)

  The Prop form (`FlushWFP`, Proof/RBFlushSpec.lean) is the hypothesis of `flush_spec`; this Bool form is proved to imply
  it, is used for the non-vacuity examples, and is evaluated by the driver on every buffer that is flushed. -/

def charOKb (cp : Int) : Bool :=
  decide (Utf8.nextUtf8 (Utf8.put cp.toNat) 0 (some (Utf8.put cp.toNat).length) =
    some ⟨(Utf8.put cp.toNat).length, cp.toNat⟩) && decide (Utf8.wcwidth cp.toNat = 1)

def textOKb (cell : Cell) : Bool :=
  match decode cell.text with
  | some cs => decide (0 ≤ cell.offs) && decide (cell.offs + cell.cols ≤ chCols cs)
  | none => false

def runAtB (okb : Int → Bool) (rb : RB) (line col : Int) : Bool :=
  let cell := rb.cell line col
  decide (cell.state ≠ .cont) && decide (1 ≤ cell.cols) && decide (col + cell.cols ≤ rb.cols) &&
  ((List.range (cell.cols - 1).toNat).all fun j =>
    decide ((rb.cell line (col + 1 + j)).state = .cont) && decide ((rb.cell line (col + 1 + j)).cols = col)) &&
  (!(decide (cell.state = .line) || decide (cell.state = .char)) || decide (cell.cols = 1)) &&
  (!decide (cell.state = .line) || (decide (1 ≤ cell.lmask) && decide (cell.lmask < 256))) &&
  (!decide (cell.state = .char) || okb cell.cp) &&
  (!decide (cell.state = .text) || textOKb cell)

def tiledB (okb : Int → Bool) (rb : RB) (line : Int) : Nat → Int → Bool
  | 0, col => decide (col = rb.cols)
  | n + 1, col =>
    decide (col = rb.cols) ||
    (decide (col < rb.cols) && runAtB okb rb line col && tiledB okb rb line n (col + (rb.cell line col).cols))

def flushWFPb (okb : Int → Bool) (rb : RB) : Bool :=
  (List.range rb.lines.toNat).all fun l => tiledB okb rb (l : Int) rb.cols.toNat 0

def flushWFb (rb : RB) : Bool := flushWFPb charOKb rb

/-- The hypothesis of `flush_spec_screen` in decidable form (evaluated by the driver on every flush): no cell of the
    buffer outside a screen of `W` columns and `L` lines is owed anything. -/
def contentWithinB (rb : RB) (W L : Int) : Bool :=
  (List.range rb.lines.toNat).all fun l => (List.range rb.cols.toNat).all fun c =>
    (decide ((l : Int) < L) && decide ((c : Int) < W)) || want rb (l : Int) (c : Int) == .keep

end Tickit.RBFlush
