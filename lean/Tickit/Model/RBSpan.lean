import Tickit.Model.RB
import Tickit.Model.RBAbs
import Tickit.Gen.RBSpan
/-
  The remaining entry points of src/renderbuffer.c that `Model/RB.lean` leaves out (engine `rb`, C03):

  * `put_vtextf` — the formatted text functions (`textf`, `textf_at`, `vtextf`, `vtextf_at`): the 64-byte stack
    buffer, `tmp_alloc` (the scratch area `rb->tmp` doubles until it holds the request) and the second
    `vsnprintf` into the scratch area.  libc's formatting itself is not modelled: the *formatted result* (a byte
    string without NUL) is the input.  The size of the scratch area is a state of its own (`tmpsize`): nothing
    else in the model reads it (`flush_to_term`, which also uses the area, is C04's).
  * `get_span_text` in full (the `one_grapheme = 0` arm and the NULL buffer) and the public query
    `tickit_renderbuffer_get_span`.

  The constants and the two places where the text of the working tree may be either the one found or the
  repaired one (fixes/C03_get_span.patch) are regenerated from the source into `Gen/RBSpan.lean`.
  No Mathlib: linked into the driver executable.
-/
namespace Tickit.RB

/-! ## `tmp_alloc`, `put_vtextf` -/

/-- The `while(rb->tmpsize < len) rb->tmpsize *= 2;` loop of `tmp_alloc` (fuel-bounded; `need + 1` rounds are
    enough from any positive size, `tmpGrow_ge`). -/
def tmpGrow : Nat → Nat → Nat → Nat
  | 0, size, _ => size
  | fuel + 1, size, need => if size < need then tmpGrow fuel (size * 2) need else size

/-- `tmp_alloc(rb, need)`: the new `rb->tmpsize`. -/
def tmpAlloc (tmpsize need : Nat) : Nat := tmpGrow (need + 1) tmpsize need

/-- Configuration read from the source: `char buffer[stackBuf]`, `tmp_alloc(rb, len + slack)`. -/
structure VtextfCfg where
  stackBuf : Nat
  slack : Nat
deriving DecidableEq, Repr

/-- `put_vtextf` up to its call of `put_text`: for the formatted result `s` (no NUL byte) and the current size of
    the scratch area, the byte string handed to `put_text` and the new size; `none` when `put_text` would read
    `len` bytes from a scratch area that is shorter (undefined behaviour).
    `vsnprintf(rb->tmp, rb->tmpsize, …)` stores the first `tmpsize − 1` bytes of the result and a NUL. -/
def vtextfWith (cfg : VtextfCfg) (tmpsize : Nat) (s : List UInt8) : Option (List UInt8 × Nat) :=
  if s.length < cfg.stackBuf then some (s, tmpsize)
  else
    let size := tmpAlloc tmpsize (s.length + cfg.slack)
    if size < s.length then none
    else some (((s.take (size - 1)) ++ [0]).take s.length, size)

/-- `put_vtextf` of the working tree. -/
def vtextf (tmpsize : Nat) (s : List UInt8) : Option (List UInt8 × Nat) :=
  vtextfWith ⟨Gen.RBSpan.c_VTEXTF_STACKBUF, Gen.RBSpan.c_VTEXTF_SLACK⟩ tmpsize s

/-! ## `get_span_text`, `tickit_renderbuffer_get_span` -/

/-- The two statements of the span query whose text differs between the tree as found and the repaired one. -/
structure SpanCfg where
  /-- `tickit_renderbuffer_get_span` ends in `return retlen;` (as found: `return len;`, the size of the buffer) -/
  returnsTextLen : Bool
  /-- the column limit of a text run is `span->v.text.offs + span->cols` (as found: `span->cols`) -/
  limitFromOffs : Bool
deriving DecidableEq, Repr

/-- What a text query leaves behind: the return value (−1 for `(size_t)-1`), the bytes stored at the start of the
    buffer, and whether the terminating NUL was stored after them. -/
structure TextOut where
  ret : Int
  bytes : List UInt8
  term : Bool
deriving DecidableEq, Repr

/-- The tail of `get_span_text`: `if(buffer && len > bytes) buffer[bytes] = 0; return bytes;`. -/
def textFin (buf : Option Nat) (bytes : Int) (written : List UInt8) : TextOut :=
  match buf with
  | some len => ⟨bytes, written, decide ((len : Int) > bytes)⟩
  | none => ⟨bytes, [], false⟩

/-- `tickit_utf8_put(buffer, len, cp)` as used by `get_span_text`, followed by its tail. -/
def putOut (buf : Option Nat) (cp : Nat) : TextOut :=
  let bs := Utf8.put cp
  match buf with
  | none => textFin none bs.length []
  | some len => if len < bs.length then ⟨-1, [], false⟩ else textFin buf bs.length bs

/-- `get_span_text(rb, span, offset, one_grapheme, buffer, len)`; `buf = none` is a NULL buffer. -/
def getSpanText (cfg : SpanCfg) (sp : SpanRef) (oneGrapheme : Bool) (buf : Option Nat) : TextOut :=
  match sp.cell.state with
  | .cont => ⟨-1, [], false⟩
  | .skip | .erase => textFin buf 0 []
  | .text =>
    let start := (Utf8.ncountmore sp.cell.text none {} (some (Utf8.limitColumns (sp.cell.offs + sp.offset)))).pos
    let limit :=
      if oneGrapheme then Utf8.limitGraphemes (start.graphemes + 1)
      else Utf8.limitColumns (if cfg.limitFromOffs then sp.cell.offs + sp.cell.cols else sp.cell.cols)
    let end_ := (Utf8.ncountmore sp.cell.text none start (some limit)).pos
    let bytes := end_.bytes - start.bytes
    match buf with
    | some len =>
      if (len : Int) < bytes then ⟨-1, [], false⟩
      else textFin buf bytes ((sp.cell.text.drop start.bytes.toNat).take bytes.toNat)
    | none => textFin none bytes []
  | .line => putOut buf (Tickit.Gen.RBWidth.linemaskToChar.getD sp.cell.lmask 0)
  | .char => putOut buf sp.cell.cp.toNat

/-- What `tickit_renderbuffer_get_span` stores through `info` (`none`: the field is left alone) and `text`. -/
structure SpanOut where
  ret : Int
  nColumns : Option Int := none
  isActive : Option Bool := none
  /-- `info->pen` after `tickit_pen_clear` + `tickit_pen_copy(…, span->pen, 1)` -/
  pen : Option Pen := none
  /-- `info->len` -/
  len : Option Int := none
  /-- `info->text = text` was executed -/
  textSet : Bool := false
  bytes : List UInt8 := []
  term : Bool := false
deriving DecidableEq, Repr

/-- `tickit_renderbuffer_get_span(rb, line, startcol, info, text, len)`.  `info`/`infoPen`: the pointers `info` and
    `info->pen` are not NULL; `buf`: the text buffer is not NULL; `len` is passed on even with a NULL buffer. -/
def getSpanQ (cfg : SpanCfg) (rb : RB) (line col : Int) (info infoPen : Bool) (buf : Bool) (len : Nat) : SpanOut :=
  match getSpan rb line col with
  | none => { ret := -1 }
  | some sp =>
    if sp.cell.state = .cont then { ret := -1 }
    else
      let ncols : Option Int := if info then some (sp.cell.cols - sp.offset) else none
      if sp.cell.state = .skip then
        { ret := 0, nColumns := ncols, isActive := if info then some false else none }
      else
        let t := getSpanText cfg sp false (if buf then some len else none)
        { ret := if cfg.returnsTextLen then t.ret else len
          nColumns := ncols
          isActive := if info then some true else none
          pen := if info && infoPen then some (Pen.copy Pen.empty sp.cell.pen true) else none
          len := if info then some t.ret else none
          textSet := info
          bytes := t.bytes, term := t.term }

/-- The span query of the working tree. -/
def spanCfg : SpanCfg := ⟨Gen.RBSpan.spanReturnsTextLen, Gen.RBSpan.spanLimitFromOffs⟩

/-- `tickit_renderbuffer_get_cell_text` with an optional buffer (`get_span_text` with `one_grapheme = 1`; the
    configuration does not matter on that arm). -/
def getCellTextQ (rb : RB) (line col : Int) (buf : Option Nat) : TextOut :=
  match getSpan rb line col with
  | none => ⟨-1, [], false⟩
  | some sp => if sp.cell.state = .cont then ⟨-1, [], false⟩ else getSpanText spanCfg sp true buf

/-! ## The span query, by the abstract content (the specification; `Props/C03.lean`: `get_span_spec`) -/

open Tickit.RBAbs

/-- The content `i` columns further right in the same run: the next columns of the same string; anything else
    repeats. -/
def shiftContent (ct : Content) (i : Int) : Content :=
  match ct with
  | .text p s k => .text p s (k + i)
  | c => c

/-- `n` columns starting at `(L, C)` are one homogeneous piece: inside the buffer, each cell shows the
    continuation of the first one's content; a line or character cell is a piece of its own. -/
def homogeneous (a : AState) (L C n : Int) : Bool :=
  decide (1 ≤ n) && decide (0 ≤ C) && decide (C + n ≤ a.cols) &&
  (match a.content L C with
   | .line _ _ | .char _ _ => decide (n = 1)
   | _ => true) &&
  (List.range n.toNat).all fun (i : Nat) => a.content L (C + i) == shiftContent (a.content L C) i

/-- The text of `n` columns of content `ct`: for text the bytes of the string between the positions where counting
    whole characters stops under the limits "`k` columns" and "`k + n` columns" (a double-width character
    straddling the left end is included, one straddling the right end is not); the glyph for a line cell, the
    character for a character cell, nothing for skipped and erased cells. -/
def specSpanBytes (ct : Content) (n : Int) : List UInt8 :=
  match ct with
  | .skip | .erase _ => []
  | .text _ s k =>
    let st := (Utf8.ncountmore s none {} (some (Utf8.limitColumns k))).pos
    let en := (Utf8.ncountmore s none st (some (Utf8.limitColumns (k + n)))).pos
    (s.drop st.bytes.toNat).take (en.bytes - st.bytes).toNat
  | .line _ m => Utf8.put (Tickit.Gen.RBWidth.linemaskToChar.getD m 0)
  | .char _ cp => Utf8.put cp.toNat

/-- The length of that text in bytes (for text: the distance between the two counting positions). -/
def specSpanLen (ct : Content) (n : Int) : Int :=
  match ct with
  | .skip | .erase _ => 0
  | .text _ s k =>
    let st := (Utf8.ncountmore s none {} (some (Utf8.limitColumns k))).pos
    let en := (Utf8.ncountmore s none st (some (Utf8.limitColumns (k + n)))).pos
    en.bytes - st.bytes
  | .line _ m => (Utf8.put (Tickit.Gen.RBWidth.linemaskToChar.getD m 0)).length
  | .char _ cp => (Utf8.put cp.toNat).length

/-- The pen a content is drawn with. -/
def contentPen : Content → Option Pen
  | .skip => none
  | .text p _ _ | .erase p | .line p _ | .char p _ => some p

/-- **What `tickit_renderbuffer_get_span` must answer** for a piece of `n` columns whose first cell shows `ct`:
    a skipped piece is inactive and has no text (return value 0; nothing else is stored); otherwise the piece is
    active, `info->pen` receives the pen, the text is `specSpanBytes`, NUL-terminated if the buffer has room, its
    length goes to `info->len` and is returned — `-1` for both (and nothing stored) if a buffer is given and the text
    does not fit.  Without a buffer only the length is reported. -/
def specSpanOut (ct : Content) (n : Int) (info infoPen buf : Bool) (len : Nat) : SpanOut :=
  let ncols : Option Int := if info then some n else none
  match contentPen ct with
  | none => { ret := 0, nColumns := ncols, isActive := if info then some false else none }
  | some p =>
    let fits := !buf || decide (specSpanLen ct n ≤ (len : Int))
    let tlen : Int := if fits then specSpanLen ct n else -1
    { ret := tlen
      nColumns := ncols
      isActive := if info then some true else none
      pen := if info && infoPen then some p else none
      len := if info then some tlen else none
      textSet := info
      bytes := if buf && fits then specSpanBytes ct n else []
      term := buf && decide ((len : Int) > specSpanLen ct n) }

end Tickit.RB
