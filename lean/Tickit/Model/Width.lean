import Tickit.Gen.Width
/-
  Model of /repo/src/unicode.h: `bisearch`, `mk_wcwidth`, `tickit_utf8_wcwidth`, statement by statement.
  `uint32_t ucs` is a `Nat` (every caller passes a decoded code point < 2^21); C `int` indices are `Int`
  because `max = mid - 1` reaches -1.  The two interval tables come from `Gen.Width` (regenerated from the
  C source on every run).  Core Lean only.
-/
namespace Tickit
namespace Width

abbrev Table := Array (Nat × Nat)

/-- `table[i]` for an `int` index (out of range never happens for `0 ≤ min ≤ mid ≤ max < size`). -/
@[inline] def Table.at (t : Table) (i : Int) : Nat × Nat := t.getD i.toNat (0, 0)

/-- The `while (max >= min)` loop of `bisearch`.  Every iteration shrinks `max - min`, so
    `fuel = size + 1` always suffices (`bisearchLoop_fuel`); `none` = out of fuel. -/
def bisearchLoop (t : Table) (ucs : Nat) : Nat → Int → Int → Option Bool
  | 0, _, _ => none
  | fuel + 1, min, max =>
    if max ≥ min then
      let mid := (min + max) / 2
      if ucs > (t.at mid).2 then bisearchLoop t ucs fuel (mid + 1) max
      else if ucs < (t.at mid).1 then bisearchLoop t ucs fuel min (mid - 1)
      else some true
    else some false

/-- `bisearch(ucs, table, sizeof(table)/sizeof(table[0]) - 1)`.
    An empty table would make the C code read `table[-1]`; both tables are non-empty
    (`Props.C07.tables_nonempty`) and the model answers `false` there. -/
def bisearch (t : Table) (ucs : Nat) : Bool :=
  if t.size = 0 then false
  else
    let max : Int := (t.size : Int) - 1
    if ucs < (t.at 0).1 ∨ ucs > (t.at max).2 then false
    else (bisearchLoop t ucs (t.size + 1) 0 max).getD false

/-- The final `return 1 + (ucs >= 0x1100 && (...))` of `mk_wcwidth`. -/
def isWideRange (ucs : Nat) : Bool :=
  decide (ucs ≥ 0x1100) &&
   (decide (ucs ≤ 0x115f) ||
    decide (ucs = 0x2329) || decide (ucs = 0x232a) ||
    (decide (ucs ≥ 0x2e80) && decide (ucs ≤ 0xa4cf) && decide (ucs ≠ 0x303f)) ||
    (decide (ucs ≥ 0xac00) && decide (ucs ≤ 0xd7a3)) ||
    (decide (ucs ≥ 0xf900) && decide (ucs ≤ 0xfaff)) ||
    (decide (ucs ≥ 0xfe10) && decide (ucs ≤ 0xfe19)) ||
    (decide (ucs ≥ 0xfe30) && decide (ucs ≤ 0xfe6f)) ||
    (decide (ucs ≥ 0xff00) && decide (ucs ≤ 0xff60)) ||
    (decide (ucs ≥ 0xffe0) && decide (ucs ≤ 0xffe6)) ||
    (decide (ucs ≥ 0x20000) && decide (ucs ≤ 0x2fffd)) ||
    (decide (ucs ≥ 0x30000) && decide (ucs ≤ 0x3fffd)))

/-- `mk_wcwidth`. -/
def mkWcwidth (ucs : Nat) : Int :=
  if ucs = 0 then 0
  else if ucs < 32 ∨ (ucs ≥ 0x7f ∧ ucs < 0xa0) then -1
  else if bisearch Gen.Width.combining ucs then 0
  else 1 + (if isWideRange ucs then 1 else 0)

/-- `tickit_utf8_wcwidth`: the `fullwidth` table is consulted first (so a code point listed in both
    tables, e.g. U+302A or U+3099, is 2 columns wide). -/
def wcwidth (codepoint : Nat) : Int :=
  if bisearch Gen.Width.fullwidth codepoint then 2
  else mkWcwidth codepoint

/-! ### Specification vocabulary -/

/-- `c` lies in one of the intervals of the table (the meaning of a table, search-free). -/
def InTable (t : Table) (c : Nat) : Prop := ∃ e ∈ t.toList, e.1 ≤ c ∧ c ≤ e.2

/-- Executable linear membership (runtime oracle; independent of `bisearch`). -/
def inTableLin (t : Table) (c : Nat) : Bool := t.toList.any (fun e => decide (e.1 ≤ c) && decide (c ≤ e.2))

/-- Sorted and non-overlapping: every interval is well formed and ends before the next one starts. -/
def chainOk : List (Nat × Nat) → Bool
  | [] => true
  | [e] => decide (e.1 ≤ e.2)
  | e :: f :: rest => decide (e.1 ≤ e.2) && decide (e.2 < f.1) && chainOk (f :: rest)

/-- Width by the search-free reading of the tables (runtime oracle). -/
def wcwidthSpec (c : Nat) : Int :=
  if inTableLin Gen.Width.fullwidth c then 2
  else if c = 0 then 0
  else if c < 32 ∨ (0x7f ≤ c ∧ c < 0xa0) then -1
  else if inTableLin Gen.Width.combining c then 0
  else if isWideRange c then 2 else 1

end Width
end Tickit
