import Tickit.Model.Bindings
/-
  The root window of `src/window.c` as a *client* of its terminal's bindings (C16).

  `tickit_window_new_root2` takes a reference on the terminal and binds three handlers on it (`on_term_resize`,
  `on_term_key`, `on_term_mouse`, each with flags 0), keeping the identifiers `tickit_term_bind_event` returned in
  `root->event_ids[3]`; `tickit_window_destroy` hands these three identifiers to `tickit_term_unbind_event_id` and drops the
  reference.  `tickit_window_close` of a root window only sets `is_closed`.  Nothing else in window.c touches the terminal's
  bindings.  So the life of a root window is a sequence of operations on the terminal's binding list — the list of
  `Model/Bindings.lean` — interleaved with whatever the application does with that list, and the clauses of C16 about the
  application's handlers (run exactly once per occurrence while bound, exactly one unbind notification and only when asked)
  depend on the identifiers the library kept still denoting the library's own bindings when it unbinds them.

  The three library handlers are handlers `LIB_H + i` of the behaviour table (the harness never defines them: they take no
  action on the terminal's bindings and decline the event — with nothing bound on the window tree `_handle_key` /
  `_handle_mouse` return 0); the keys of their bindings are recorded in `WSt.libKeys`, so that the observable call log —
  the application's handlers — can be told from the library's.  The harness's memory `slotIds` learns no identifier for the
  three slots these bindings take (`0`, which no binding ever has).

  Core Lean only.
-/
namespace Tickit.Bindings

/-- handler indices of `on_term_resize`, `on_term_key`, `on_term_mouse` (beyond the harness's handler table) -/
def LIB_H : Nat := 100

/-- flags 0 -/
def noFlags : BFlags := ⟨false, false, false⟩

/-- what the model keeps of `struct TickitRootWindow` -/
structure Root where
  /-- `root->event_ids[0..2]` -/
  ids : List Int
  /-- ghost: the keys (allocation numbers) of the three bindings made by `tickit_window_new_root2` -/
  keys : List Nat
  /-- `win->refcount` -/
  refs : Nat
  /-- `win->is_closed` -/
  closed : Bool
  deriving DecidableEq, Repr

/-- a terminal and the root window on it (if any) -/
structure WSt where
  st : St
  root : Option Root := none
  /-- ghost: keys of every binding window.c has made on this terminal -/
  libKeys : List Nat := []

def WSt.init : WSt := { st := St.init }

/-- the identifier the next `bind_event` returns -/
def nextId (st : St) : Int := maxId st.list + 1

/-- `tickit_term_bind_event(term, ev, 0, &on_term_…, root)` from window.c; the harness's slot learns no identifier -/
def libBind (st : St) (ev : Int) (i : Nat) : St :=
  { bindEvent st ev false noFlags (LIB_H + i) with slotIds := st.slotIds ++ [0] }

/-- the events `tickit_window_new_root2` binds, in order: `TICKIT_TERM_ON_RESIZE`, `…_KEY`, `…_MOUSE` -/
def rootEvents : List Int := [1, 2, 3]

/-- `tickit_window_new_root2(t, term)` as far as the terminal's bindings and reference count go -/
def rootNew (w : WSt) : WSt :=
  match w.root with
  | some _ => w      -- the harness keeps one root window at a time
  | none =>
    -- root->term = tickit_term_ref(term);
    let st0 : St := { w.st with refs := w.st.refs + 1 }
    -- root->event_ids[0] = tickit_term_bind_event(term, TICKIT_TERM_ON_RESIZE, 0, &on_term_resize, root);
    let st1 := libBind st0 1 0
    -- root->event_ids[1] = tickit_term_bind_event(term, TICKIT_TERM_ON_KEY, 0, &on_term_key, root);
    let st2 := libBind st1 2 1
    -- root->event_ids[2] = tickit_term_bind_event(term, TICKIT_TERM_ON_MOUSE, 0, &on_term_mouse, root);
    let st3 := libBind st2 3 2
    let ks := [st0.slotIds.length, st1.slotIds.length, st2.slotIds.length]
    { st := st3,
      root := some { ids := [nextId st0, nextId st1, nextId st2], keys := ks, refs := 1, closed := false },
      libKeys := w.libKeys ++ ks }

/-- `tickit_window_ref(root)` -/
def rootRef (w : WSt) : WSt :=
  match w.root with
  | none => w
  | some r => { w with root := some { r with refs := r.refs + 1 } }

/-- `tickit_window_close(root)`: a root window has no parent, so only `win->is_closed = true` -/
def rootClose (w : WSt) : WSt :=
  match w.root with
  | none => w
  | some r => { w with root := some { r with closed := true } }

section
variable (cfg : Cfg) (own : Owner) (beh : Behaviour)

/-- `tickit_term_unbind_event_id(root->term, root->event_ids[i])` for `i = 0, 1, 2` -/
def unbindAll (fuel : Nat) : List Int → St → Res St
  | [], st => .ok st
  | id :: rest, st =>
    match exec cfg own beh fuel (.unbindId id) st with
    | .ok (st1, _) => unbindAll fuel rest st1
    | .ub w => .ub w
    | .outOfFuel => .outOfFuel

/-- `tickit_window_unref(root)`; at zero `tickit_window_destroy`: the window's own bindings (none of the harness's in this
    configuration), `if(!win->is_closed) tickit_window_close(win)` (nothing for a root), the three unbinds by identifier,
    `tickit_term_unref(root->term)` -/
def rootUnref (fuel : Nat) (w : WSt) : Res WSt :=
  match w.root with
  | none => .ok w
  | some r =>
    if r.refs > 1 then .ok { w with root := some { r with refs := r.refs - 1 } }
    else
      match unbindAll cfg own beh fuel r.ids w.st with
      | .ok st1 =>
        match exec cfg own beh fuel .unref st1 with
        | .ok (st2, _) => .ok { w with st := st2, root := none }
        | .ub x => .ub x
        | .outOfFuel => .outOfFuel
      | .ub x => .ub x
      | .outOfFuel => .outOfFuel

/-- every reference the harness holds on the root window is dropped -/
def rootRelease (fuel : Nat) : Nat → WSt → Res WSt
  | 0, w => .ok w
  | n + 1, w =>
    match rootUnref cfg own beh fuel w with
    | .ok w1 => rootRelease fuel n w1
    | e => e

inductive WOp
  | base (op : Op)
  | rootNew
  | rootRef
  | rootUnref
  | rootClose
  deriving DecidableEq, Repr

def execW (fuel : Nat) (op : WOp) (w : WSt) : Res WSt :=
  match op with
  | .rootNew => .ok (rootNew w)
  | .rootRef => .ok (rootRef w)
  | .rootClose => .ok (rootClose w)
  | .rootUnref => rootUnref cfg own beh fuel w
  | .base op =>
    if op = .destroy then
      -- the harness releases the root window, then drops the terminal's last reference
      match rootRelease cfg own beh fuel (match w.root with | some r => r.refs | none => 0) w with
      | .ok w1 =>
        if w1.st.dead then .ok w1 else
        match execOp cfg own beh fuel .destroy w1.st with
        | .ok st' => .ok { w1 with st := st' }
        | .ub x => .ub x
        | .outOfFuel => .outOfFuel
      | e => e
    else
      match execOp cfg own beh fuel op w.st with
      | .ok st' => .ok { w with st := st' }
      | .ub x => .ub x
      | .outOfFuel => .outOfFuel

def execWOps (fuel : Nat) : List WOp → WSt → Res WSt
  | [], w => .ok w
  | op :: rest, w =>
    match execW cfg own beh fuel op w with
    | .ok w' => if op = .base .destroy || w'.st.dead then .ok w' else execWOps fuel rest w'
    | e => e

end

end Tickit.Bindings
