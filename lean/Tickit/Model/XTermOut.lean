import Tickit.Model.XTermDrv
import Tickit.Model.TermBuf
/-
  The xterm driver *behind the output layer of term.c*: what the OUTPUT FUNCTION receives, and when.

  `Model/XTermDrv.lean` gives the bytes every drawing request makes the driver write (through
  `tickit_termdrv_write_str` / `_write_strf`); `Model/TermBuf.lean` (engine C11, reused, not copied) is the
  statement-by-statement model of `write_str`, `tickit_term_flush`, `tickit_term_set_output_buffer`,
  `tickit_term_vprintf`, `tickit_term_pause`, `tickit_term_resume`, `tickit_term_teardown`,
  `tickit_term_set_output_func`.  Here the two are composed: a drawing request hands its bytes to `write_str`, which
  copies them into the output buffer (if one is configured) and flushes whenever it is full; the terminal sees only
  what is flushed, in that order.

  The several `write_str` calls of one driver request are taken together (`send`): `write_str` is a monoid action on
  (delivered ++ pending) — `Proof/XTermOut.lean: send_ext` — and flushes happen exactly when the buffer is full, so
  the split into calls is not observable in the bytes delivered per request.
  Core Lean only: this file is linked into the driver executable.
-/
namespace Tickit.XTermOut
open Tickit Tickit.XTermDrv

abbrev Bytes := List UInt8
abbrev OutState := TermBuf.State
abbrev Outcome := TermBuf.Outcome

/-- The driver writes `bytes` (one or more `write_str` calls with a non-zero length; nothing at all for `[]`). -/
def send (o : OutState) (bytes : Bytes) : Outcome :=
  if bytes.length = 0 then .ok o else TermBuf.writeStr o bytes bytes.length

/-- The output layer of a terminal built with an output function and (optionally) a buffer of `n` bytes, after
    start-up (`start()` ends with a flush): nothing delivered yet (the ghost log starts here), nothing pending. -/
def fresh (n : Nat) : OutState :=
  { hasFunc := true, outfd := -1, bufLen := n, buf := [], out := [], tmpLen := 0,
    mode := { started := true, altscreen := false, cursorvis := true } }

/-- Everything delivered to the output function / descriptor so far, concatenated. -/
def delivered (o : OutState) : Bytes :=
  o.out.flatMap fun c => match c with | .data _ b => b | .fin => []

/-- Number of `(NULL, 0)` calls of the output function. -/
def closes (o : OutState) : Nat := (o.out.filter (· == .fin)).length

/-- `tickit_term_printf(tt, "%s", text)` / `(tt, "%s%d", text, d)`: the complete formatted result. -/
def formatted (text : Bytes) (d : Option Int) : Bytes :=
  TermBuf.cstr (text ++ [0]) ++ (match d with | some v => showInt v | none => [])

/-- `tickit_term_vprintf` with formatted result `s`: sized with `vsnprintf(NULL, 0, …)`, formatted into the
    tmpbuffer, handed to the driver's `print` with the exact length (`TermBuf.termVprintf`). -/
def printf (o : OutState) (s : Bytes) : Outcome := TermBuf.termVprintf o s

/-- `tickit_term_pause`: the driver's teardown bytes, then (since 41ef6f9) a flush. -/
def pause (o : OutState) : Outcome := TermBuf.termPause o

/-- `tickit_term_resume`: the driver's resume bytes (none for the modes this engine leaves alone), then the cached
    pen once more (`XTermDrv.resumeBytes`); no flush. -/
def resume (fx : Fixes) (caps : Caps) (cache : PenCache) (o : OutState) : Outcome :=
  (TermBuf.termResume o).bind fun o => send o (resumeBytes fx caps cache)

/-- `tickit_term_teardown` (stop: teardown bytes, flush) followed by `tickit_term_set_output_func` with a function:
    the old function is told `(NULL, 0)`, the driver starts again (start-up string, flush). -/
def restart (o : OutState) : Outcome :=
  (TermBuf.termTeardown o).bind fun o => TermBuf.setOutputFunc o

/-! ### Histories through the output layer -/

/-- Operations of a terminal with an output buffer. -/
inductive TOp
  /-- a drawing request, pen change, resize or pause+resume of `XTermDrv.Op` -/
  | op (x : Op)
  /-- `tickit_term_printf` whose formatted result is `s` -/
  | printf (s : Bytes)
  /-- `tickit_term_flush` -/
  | flush
deriving Repr

/-- Driver-side state and output layer. -/
structure TS where
  d : Drv
  o : OutState

/-- One operation; `none` = the model of term.c reports undefined behaviour or ran out of fuel (never happens from a
    well-formed state: `Proof/XTermOut.lean: stepT_total`). -/
def stepT (fx : Fixes) (s : TS) : TOp → Option TS
  | .op (.req q) =>
    match send s.o (request fx s.d q).2 with | .ok o => some { s with o := o } | _ => none
  | .op (.setpen p) =>
    match send s.o (setpen s.d.caps s.d.pen p).2 with
    | .ok o => some { d := { s.d with pen := (setpen s.d.caps s.d.pen p).1 }, o := o } | _ => none
  | .op (.chpen p) =>
    match send s.o (chpen s.d.caps s.d.pen p).2 with
    | .ok o => some { d := { s.d with pen := (chpen s.d.caps s.d.pen p).1 }, o := o } | _ => none
  | .op (.resize l c) => some { s with d := { s.d with lines := l, cols := c } }
  | .op .suspend =>
    match (pause s.o).bind (resume fx s.d.caps s.d.pen) with | .ok o => some { s with o := o } | _ => none
  | .printf t =>
    match printf s.o t with | .ok o => some { s with o := o } | _ => none
  | .flush => some { s with o := TermBuf.flush s.o }

def runT (fx : Fixes) : TS → List TOp → Option TS
  | s, [] => some s
  | s, t :: ts => match stepT fx s t with | some s' => runT fx s' ts | none => none

/-- The same history as the unbuffered driver model sees it: `printf` is a `print` of the formatted result, a flush
    is nothing. -/
def plain : TOp → List Op
  | .op x => [x]
  | .printf s => [.req (.print s s.length)]
  | .flush => []

def IsResize : TOp → Prop
  | .op (.resize _ _) => True
  | _ => False

end Tickit.XTermOut
