import Tickit.Model.LifeOut
/-
  Property C08, the process watches of the toplevel instance with the default event loop (`src/tickit.c`):

    tickit_watch_process(t, pid, 0, fn, user):
        watch = malloc; watch->process.notify = NULL;
        (default loop: no `process` hook) if(waitpid(pid, &wstatus, WNOHANG) > 0)       -- the child has exited already
            watch->process.notify = tickit_watch_later(t, 0, process_notify, watch);     -- a deferred call whose data is the watch
        insert_watch(&t->processes, flags, watch);
    tickit_watch_cancel(t, watch) (case WATCH_PROCESS): unlink; if(hook) …; if(watch->process.notify)
        tickit_watch_cancel(t, watch->process.notify); free(watch);
    process_notify(t, flags, info, data): watch = data; watch->process.notify = NULL;   -- a store into the watch
        tickit_evloop_invoke_processwatch(watch, …)  -- reads fn/user, calls it, unlinks and frees the watch (one-shot)
    tickit_destroy: every list of watches is released.

  A watch on a child that is still running stays linked until it is cancelled (this engine never lets such a child exit
  while its watch exists).  The callbacks do nothing but report (`C<k>`).
-/
namespace Tickit
namespace Life

/-- A process watch. -/
structure ProcRec where
  linked : Bool := true          -- on `t->processes`
  freed : Bool := false
  notify : Option Nat := none    -- `watch->process.notify`: the deferred call, by its index in `notes`
deriving Repr

/-- The deferred call made for a child that had exited already; `target` is its `data`. -/
structure NoteRec where
  target : Nat
  pending : Bool := true         -- on `t->laters`
deriving Repr

structure ProcSt where
  recs : Array ProcRec := #[]
  notes : Array NoteRec := #[]
  log : List String := []
deriving Repr

def procCap : Nat := 16

/-- `tickit_watch_process`; `exited`: `waitpid(pid, …, WNOHANG) > 0`. -/
def ProcSt.watch (p : ProcSt) (exited : Bool) : ProcSt :=
  if exited then
    { p with recs := p.recs.push { notify := some p.notes.size }, notes := p.notes.push { target := p.recs.size } }
  else { p with recs := p.recs.push {} }

/-- The application's handle is good: the watch has neither fired nor been cancelled. -/
def ProcSt.pending (p : ProcSt) (k : Nat) : Bool :=
  match p.recs[k]? with
  | some r => r.linked && !r.freed
  | none => false

/-- `tickit_watch_cancel` of a deferred call. -/
def ProcSt.cancelNote (p : ProcSt) (l : Nat) : ProcSt :=
  match p.notes[l]? with
  | some n => { p with notes := p.notes.set! l { n with pending := false } }
  | none => p

/-- `tickit_watch_cancel` of the `k`-th process watch (`cancelsNote`: the source tree's
    `if(this->process.notify) tickit_watch_cancel(t, this->process.notify)` is reached with the default loop). -/
def ProcSt.cancel (cancelsNote : Bool) (p : ProcSt) (k : Nat) : ProcSt :=
  match p.recs[k]? with
  | none => p
  | some r =>
    let p := match r.notify with
      | some l => if cancelsNote then p.cancelNote l else p
      | none => p
    { p with recs := p.recs.set! k { r with linked := false, freed := true } }

/-- `process_notify` run for the deferred call `l`. -/
def ProcSt.notify (p : ProcSt) (l : Nat) : Out ProcSt :=
  match p.notes[l]? with
  | none => .ok p
  | some n =>
    if !n.pending then .ok p else
    let p := { p with notes := p.notes.set! l { n with pending := false } }
    match p.recs[n.target]? with
    | none => .ub .mem s!"process_notify: no watch {n.target}"
    | some r =>
      if r.freed then .ub .mem s!"process_notify: watch->process.notify = NULL stored into freed process watch {n.target}"
      else .ok { p with recs := p.recs.set! n.target { r with notify := none, linked := false, freed := true },
                        log := p.log ++ [s!"C{n.target}"] }

/-- The deferred calls of one loop turn, oldest first. -/
def ProcSt.runNotes (p : ProcSt) : List Nat → Out ProcSt
  | [] => .ok p
  | l :: rest =>
    match p.notify l with
    | .ok p => p.runNotes rest
    | .ub k w => .ub k w
    | .fuel => .fuel

def ProcSt.tick (p : ProcSt) : Out ProcSt := p.runNotes (List.range p.notes.size)

/-- After an operation of the lower layers: the watches go with the instance; a tick that ran runs the deferred calls. -/
def procAfter (top : Top) (ticked : Bool) (p : ProcSt) : Out ProcSt :=
  if !instAlive top then .ok {} else if ticked then p.tick else .ok p

end Life
end Tickit
