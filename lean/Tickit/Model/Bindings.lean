/-
  Model of `src/bindings.c` (C16): the singly linked list of event bindings with tombstones, the
  iteration guard and the deferred sweep, transcribed statement by statement.

  * The linked list is a `List Node`; every node carries the serial number of its allocation
    (`key`), which plays the role of its address.  A pointer is a key; following a pointer to a
    key that is no longer in the list is a dereference of freed memory: outcome `ub`.
  * Application handlers are data (`Behaviour`): handler `h`, at its `n`-th invocation, performs
    a list of actions (bind, unbind by slot, unbind itself, emit again, destroy the owner) and
    returns a value.  The C harness interprets the same tables.
  * Everything that can recurse (event emission from inside handlers, unbind notifications) goes
    through the single function `exec`, by recursion on `fuel`; running out of fuel is the explicit
    outcome `outOfFuel`.
  * `Cfg` selects between the code as it is in the unchanged tree (`Cfg.original`) and the code
    with the repairs of `fixes/C16_*.patch` applied (`Cfg.repaired`).  Which one the working tree
    is, is read from the source by the extractor (`Gen/Bindings.lean`).
  * The trace (`St.log`, newest first) records the observable call log (what the harness prints)
    and ghost events (which node an unbind request hit, where an occurrence starts and ends), so
    that the property's clauses are statements about traces.

  Core Lean only.
-/
namespace Tickit.Bindings

/-- `BINDING_ID_TOMBSTONE` -/
def TOMBSTONE : Int := -1

/-- `TickitEventFlags` bits as the handler sees them. -/
def EV_FIRE : Nat := 1
def EV_UNBIND : Nat := 2
def EV_DESTROY : Nat := 4

/-- Which of the repairs are present in the code being modelled. -/
structure Cfg where
  /-- the two walkers test `bind->id != BINDING_ID_TOMBSTONE` -/
  skipTomb : Bool
  /-- `run_event_whilefalse` honours `TICKIT_BIND_ONESHOT` -/
  wfOneshot : Bool
  /-- `unbind_event_id` removes (or tombstones) the binding first, calls the unbind notification last
      with nothing of the list held across the call, and stops at the first match -/
  notifyLast : Bool
  deriving DecidableEq, Repr

def Cfg.original : Cfg := ⟨false, false, false⟩
def Cfg.repaired : Cfg := ⟨true, true, true⟩

/-- The flags kept by `bind_event`: `flags & (UNBIND|DESTROY|ONESHOT)`. -/
structure BFlags where
  unbind : Bool
  destroy : Bool
  oneshot : Bool
  deriving DecidableEq, Repr

/-- `struct TickitBinding` (`next` is the list structure, `data` is the slot = `key`). -/
structure Node where
  key : Nat
  id : Int
  ev : Int
  flags : BFlags
  /-- handler index; `none` is the NULL function pointer -/
  fn : Option Nat
  deriving DecidableEq, Repr

/-! ### the pen as an emitter: attributes that matter, freeze/thaw, the `changed` flag (`src/pen.c`) -/

/-- a template pen handed to `tickit_pen_copy` / `tickit_pen_copy_attr` (only BOLD and FG matter here) -/
structure Tmpl where
  bold : Option Bool
  fg : Option Int
  /-- RGB8 secondary of the foreground, as `0xRRGGBB` -/
  rgb : Option Nat
  deriving DecidableEq, Repr

/-- what the model keeps of `struct TickitPen` besides bindings and reference count -/
structure PenSt where
  bold : Option Bool := none
  fg : Option Int := none
  rgb : Option Nat := none
  /-- `freezecount` -/
  freeze : Nat := 0
  /-- a change arrived while frozen -/
  changed : Bool := false
  deriving DecidableEq, Repr

/-- the statements a pen operation consists of, as far as emission goes (freeze..thaw regions are tasks of their own) -/
inductive PenStep
  /-- `tickit_pen_set_bool_attr(pen, TICKIT_PEN_BOLD, v)`: set, then `changed(pen)` -/
  | setBool (v : Bool)
  /-- `tickit_pen_set_colour_attr(pen, TICKIT_PEN_FG, n)`: set, drop the RGB8, emit at once (even when frozen) -/
  | setCol (n : Int)
  /-- `tickit_pen_set_colour_attr_rgb8(pen, TICKIT_PEN_FG, r)`: only if FG is set; then `changed(pen)` -/
  | setRgb (r : Nat)
  /-- `tickit_pen_copy_attr(pen, t, TICKIT_PEN_FG)`: a freeze..thaw region of its own -/
  | copyAttrFg (t : Tmpl)
  /-- the FG / BOLD iterations of the loop of `tickit_pen_copy(pen, t, overwrite)` -/
  | loopFg (t : Tmpl) (ow : Bool)
  | loopBold (t : Tmpl) (ow : Bool)
  deriving DecidableEq, Repr

/-- the pen operations the harness offers -/
inductive PenOp
  | setBool (v : Bool)
  | setCol (n : Int)
  /-- `tickit_pen_copy(pen, t, overwrite)` -/
  | copy (t : Tmpl) (ow : Bool)
  /-- `tickit_pen_copy_attr(pen, t, TICKIT_PEN_FG)` -/
  | copyAttr (t : Tmpl)
  /-- `tickit_pen_set_colour_attr_desc(pen, TICKIT_PEN_FG, "n")` or `"n#rrggbb"` -/
  | desc (n : Int) (rgb : Option Nat)
  /-- a colour description `tickit_pen_set_colour_attr_desc` rejects (`"hi-<n>"` with `n > 7`, an unknown name): it returns
      false before anything is frozen or set -/
  | rejected
  deriving DecidableEq, Repr

/-- is the whole operation one freeze..thaw region? -/
def PenOp.isRegion : PenOp → Bool
  | .copy _ _ => true
  | .desc _ _ => true
  | _ => false

/-- the statements of the operation (inside its region, if it is one) -/
def PenOp.body : PenOp → List PenStep
  | .setBool v => [.setBool v]
  | .setCol n => [.setCol n]
  | .copy t ow => [.loopFg t ow, .loopBold t ow]
  | .copyAttr t => [.copyAttrFg t]
  | .desc n rgb => [.setCol n] ++ (match rgb with | some r => [.setRgb r] | none => [])
  | .rejected => []

/-- inside the region of `tickit_pen_copy_attr` for the colour (the source is read first): set the index, then the
    RGB8 if the source has one -/
def attrFgBody (t : Tmpl) : List PenStep :=
  [.setCol (t.fg.getD (-1))] ++ (match t.fg, t.rgb with | some _, some r => [.setRgb r] | _, _ => [])

/-- `tickit_pen_equiv_attr(src, dst, TICKIT_PEN_FG)` when both have the attribute -/
def fgEquiv (p : PenSt) (t : Tmpl) : Bool := p.fg == t.fg && p.rgb == t.rgb

/-- does the loop of `tickit_pen_copy` copy the foreground? -/
def loopCopiesFg (p : PenSt) (t : Tmpl) (ow : Bool) : Bool :=
  t.fg.isSome && !(p.fg.isSome && (!ow || fgEquiv p t))

/-- …the bold attribute?  (`tickit_pen_get_bool_attr` of both being equal) -/
def loopCopiesBold (p : PenSt) (t : Tmpl) (ow : Bool) : Bool :=
  t.bold.isSome && !(p.bold.isSome && (!ow || p.bold == t.bold))

inductive Action
  | bind (ev : Int) (first : Bool) (flags : BFlags) (h : Nat)
  | unbind (slot : Nat)
  | unbindSelf
  | emit (ev : Int)
  | destroy
  /-- run a pen operation on the owner (a pen) -/
  | pen (op : PenOp)
  deriving DecidableEq, Repr

structure Beh where
  acts : List Action
  ret : Int
  deriving DecidableEq, Repr

/-- handler index → invocation number → what it does -/
abbrev Behaviour := Nat → Nat → Beh

/-- Which events of the owner can be emitted through its public API, and by which walker. -/
structure Owner where
  /-- the event is delivered by `run_event_whilefalse` (key and mouse events) -/
  wf : Int → Bool
  canEmit : Int → Bool
  /-- the owner's emitters hold a reference on it while they run its handlers
      (`tickit_pen_ref(pen); run_events(…); tickit_pen_unref(pen)`: fixes/C16_emitter_ref.patch) -/
  holdsRef : Bool := false
  /-- the owner is a pen: its change event is emitted by `tickit_pen_set_colour_attr(pen, TICKIT_PEN_FG, n)` -/
  penEmitFg : Option Int := none

/-- Trace events.  Observable: `enter`, `leave`, `actBegin`, `actEnd`, `bound` (the id).
    Ghost: `unbindReq`, `fire`, `occBegin`, `occEnd` and the `key`/`occ` fields. -/
inductive Ev
  /-- handler `h` entered for binding `key`, its `n`-th invocation, with event flags `flags`;
      `occ` is the occurrence delivering it (`0` for notifications) -/
  | enter (key h n flags occ : Nat)
  /-- the handler called for binding `key` on behalf of occurrence `occ` (`0`: a notification) returned `ret` -/
  | leave (key occ : Nat) (ret : Int)
  | actBegin (i : Nat)
  | actEnd
  | bound (key : Nat) (id : Int) (ev : Int) (first : Bool) (flags : BFlags)
  | unbindReq (key : Nat)
  /-- ghost: the walker of occurrence `occ` decided to deliver to binding `key` (recorded together with the
      one-shot tombstoning, just before the call) -/
  | fire (key : Nat) (occ : Nat)
  | occBegin (occ : Nat) (ev : Int) (wf : Bool)
  | occEnd (occ : Nat)
  deriving DecidableEq, Repr

structure St where
  /-- the chain from `bindings->first` -/
  list : List Node
  isIter : Bool
  needsDelete : Bool
  /-- harness memory: slot → id returned by the bind that created it (slot = key) -/
  slotIds : List Int
  /-- invocation counters of the handlers -/
  inv : Nat → Nat
  nextOcc : Nat
  /-- newest first -/
  log : List Ev
  /-- the owner's reference count -/
  refs : Nat := 1
  /-- the owner has been destroyed and freed -/
  dead : Bool := false
  /-- harness memory: the handlers' own reference (the one `tickit_pen_new` / `tickit_term_build` returned) is still held -/
  userRef : Bool := true
  /-- the pen's attributes, freeze count and `changed` flag -/
  pen : PenSt := {}
  /-- references held by open freeze regions (`freeze()` takes one when the emitters hold references) -/
  frozenRefs : Nat := 0

def St.init : St := ⟨[], false, false, [], fun _ => 0, 1, [], 1, false, true, {}, 0⟩

inductive Res (α : Type) where
  | ok (a : α)
  | ub (what : String)
  | outOfFuel
  deriving Repr

/-- forget the `int` result -/
def Res.dropRet : Res (St × Int) → Res St
  | .ok (s, _) => .ok s
  | .ub w => .ub w
  | .outOfFuel => .outOfFuel

/-! ### list surgery -/

def findKey : List Node → Nat → Option Node
  | [], _ => none
  | b :: rest, k => if b.key = k then some b else findKey rest k

/-- `bind->next` for the node with key `k`: `none` if the node is not in the chain (freed),
    `some none` if it is the last one. -/
def nextOf : List Node → Nat → Option (Option Nat)
  | [], _ => none
  | b :: rest, k => if b.key = k then some (rest.head?.map (·.key)) else nextOf rest k

def firstOf (l : List Node) : Option Nat := l.head?.map (·.key)

def modifyKey (l : List Node) (k : Nat) (f : Node → Node) : List Node :=
  l.map fun b => if b.key = k then f b else b

/-- the nodes after the one with key `k` -/
def afterKey : List Node → Nat → List Node
  | [], _ => []
  | b :: rest, k => if b.key = k then rest else afterKey rest k

/-- the nodes up to and including the one with key `k` -/
def throughKey : List Node → Nat → List Node
  | [], _ => []
  | b :: rest, k => if b.key = k then [b] else b :: throughKey rest k

/-- the first node whose `id` is `id` -/
def findId : List Node → Int → Option Node
  | [], _ => none
  | b :: rest, id => if b.id = id then some b else findId rest id

/-- unlink the node with key `k` -/
def eraseKey (l : List Node) (k : Nat) : List Node := l.filter fun b => b.key ≠ k

/-- `max_id` of `bind_event`. -/
def maxId : List Node → Int
  | [] => 0
  | b :: rest => let m := maxId rest; if b.id > m then b.id else m

/-- `cleanup`: unlink and free every tombstone. -/
def sweep (l : List Node) : List Node := l.filter fun b => b.id ≠ TOMBSTONE

def St.push (st : St) (e : Ev) : St := { st with log := e :: st.log }

/-- `tickit_bindings_bind_event` (no callbacks). -/
def bindEvent (st : St) (ev : Int) (first : Bool) (flags : BFlags) (h : Nat) : St :=
  let id := maxId st.list + 1
  let key := st.slotIds.length
  let node : Node := ⟨key, id, ev, flags, some h⟩
  { st with
    list := if first then node :: st.list else st.list ++ [node]
    slotIds := st.slotIds ++ [id]
    log := Ev.bound key id ev first flags :: st.log }

/-- Where `bindp` of the unchanged `unbind_event_id` points. -/
inductive Loc
  | head
  | next (key : Nat)
  deriving DecidableEq, Repr

/-- `*bindp`: `none` when the location lives in a freed node. -/
def readLoc (l : List Node) : Loc → Option (Option Nat)
  | .head => some (firstOf l)
  | .next p => nextOf l p

/-- `*bindp = bind->next; free(bind)` for `bind` = node `k`: `none` when `bindp` points into a freed node. -/
def spliceAt (l : List Node) (loc : Loc) (k : Nat) : Option (List Node) :=
  match loc with
  | .head => some (afterKey l k)
  | .next p => match findKey l p with
    | none => none
    | some _ => some (throughKey l p ++ afterKey l k)

inductive Task
  /-- the owner's emitter around `run_events` (takes and drops a reference if `Owner.holdsRef`) -/
  | emitter (wf : Bool) (ev : Int)
  /-- `tickit_pen_unref` / `tickit_term_unref`: destroys the owner when the count reaches zero -/
  | unref
  /-- the rest of a pen operation -/
  | pen (steps : List PenStep)
  /-- `freeze(pen); <body>; thaw(pen);` -/
  | penRegion (body : List PenStep)
  /-- `tickit_bindings_run_event` (`wf = false`) / `tickit_bindings_run_event_whilefalse` -/
  | runEvent (wf : Bool) (ev : Int)
  /-- the `for(bind = …; bind; bind = bind->next)` loop of a walker, standing at `cur` -/
  | walk (wf : Bool) (ev : Int) (occ : Nat) (cur : Option Nat)
  /-- `tickit_bindings_unbind_event_id` -/
  | unbindId (id : Int)
  /-- its loop in the unchanged code, `bindp` at `loc` -/
  | unbindLoopOrig (id : Int) (loc : Loc)
  /-- `(*fn)(owner, flags, info, data)` for the binding `key` -/
  | call (key : Nat) (fn : Option Nat) (flags : Nat) (occ : Nat)
  /-- the rest of the running handler's action list, next index `i` -/
  | acts (self : Nat) (i : Nat) (as : List Action)
  /-- the second loop of `tickit_bindings_unbind_and_destroy` over the reversed chain -/
  | destroyLoop (rev : List Node)
  deriving Repr

section
variable (cfg : Cfg) (own : Owner) (beh : Behaviour)

/-- One function for everything that can re-enter.  Result: new state and the `int` the C function returns
    (`0` where it returns `void`). -/
def exec : Nat → Task → St → Res (St × Int)
  | 0, _, _ => .outOfFuel
  | fuel + 1, task, st =>
    match task with
    | .emitter wf ev =>
      let st1 := if own.holdsRef then { st with refs := st.refs + 1 } else st
      match exec fuel (.runEvent wf ev) st1 with
      | .ok (st2, r) =>
        if own.holdsRef then
          match exec fuel .unref st2 with
          | .ok (st3, _) => .ok (st3, r)
          | e => e
        else .ok (st2, r)
      | e => e
    | .pen steps =>
      match steps with
      | [] => .ok (st, 0)
      | step :: rest =>
        if st.dead then .ok (st, 0) else
        -- `changed(pen)`: emit now, or remember it when frozen
        let changed (st : St) : Res (St × Int) :=
          if st.pen.freeze = 0 then exec fuel (.emitter false 1) st
          else .ok ({ st with pen := { st.pen with changed := true } }, 0)
        let r : Res (St × Int) := match step with
          | .setBool v => changed { st with pen := { st.pen with bold := some v } }
          | .setCol n => exec fuel (.emitter false 1) { st with pen := { st.pen with fg := some n, rgb := none } }
          | .setRgb r => if st.pen.fg.isSome then changed { st with pen := { st.pen with rgb := some r } } else .ok (st, 0)
          | .copyAttrFg t => exec fuel (.penRegion (attrFgBody t)) st
          | .loopFg t ow => if loopCopiesFg st.pen t ow then exec fuel (.penRegion (attrFgBody t)) st else .ok (st, 0)
          | .loopBold t ow =>
            if loopCopiesBold st.pen t ow then changed { st with pen := { st.pen with bold := some (t.bold.getD false) } }
            else .ok (st, 0)
        match r with
        | .ok (st2, _) => exec fuel (.pen rest) st2
        | e => e
    | .penRegion body =>
      if st.dead then .ok (st, 0) else
      -- freeze(pen): a reference (when the emitters hold references), freezecount++
      let st1 : St := { st with
        pen := { st.pen with freeze := st.pen.freeze + 1 },
        refs := if own.holdsRef then st.refs + 1 else st.refs,
        frozenRefs := if own.holdsRef then st.frozenRefs + 1 else st.frozenRefs }
      match exec fuel (.pen body) st1 with
      | .ok (st2, _) =>
        if st2.dead then .ok (st2, 0) else
        -- thaw(pen): freezecount--; if(!freezecount && changed) { changed = false; run_events(…); }  unref
        let emits := st2.pen.freeze = 1 && st2.pen.changed
        let st3 : St := { st2 with
          pen := { st2.pen with freeze := st2.pen.freeze - 1, changed := if emits then false else st2.pen.changed },
          frozenRefs := if own.holdsRef then st2.frozenRefs - 1 else st2.frozenRefs }
        let r3 : Res (St × Int) := if emits then exec fuel (.runEvent false 1) st3 else .ok (st3, 0)
        match r3 with
        | .ok (st4, _) => if own.holdsRef then exec fuel .unref st4 else .ok (st4, 0)
        | e => e
      | e => e
    | .unref =>
      if st.dead || st.refs == 0 then .ub "unref of an owner that is already destroyed"
      else if st.refs == 1 then
        -- destroy(): tickit_bindings_unbind_and_destroy, then free
        match exec fuel (.destroyLoop st.list.reverse) st with
        | .ok (st1, _) => .ok ({ st1 with refs := 0, dead := true }, 0)
        | e => e
      else .ok ({ st with refs := st.refs - 1 }, 0)
    | .runEvent wf ev =>
      -- int was_iterating = bindings->is_iterating; bindings->is_iterating = true;
      let was := st.isIter
      let occ := st.nextOcc
      let st1 := { st with isIter := true, nextOcc := occ + 1, log := Ev.occBegin occ ev wf :: st.log }
      match exec fuel (.walk wf ev occ (firstOf st1.list)) st1 with
      | .ok (st2, r) =>
        -- bindings->is_iterating = was_iterating; if(!was_iterating && bindings->needs_delete) cleanup(bindings);
        -- (`bindings` lives inside the owner)
        if st2.dead then .ub "walker: the owner was freed during the iteration" else
        let st3 := { st2 with isIter := was, log := Ev.occEnd occ :: st2.log }
        if !was && st3.needsDelete then
          .ok ({ st3 with list := sweep st3.list, needsDelete := false }, r)
        else .ok (st3, r)
      | e => e
    | .walk wf ev occ cur =>
      match cur with
      | none => .ok (st, 0)
      | some k =>
        match findKey st.list k with
        | none => .ub "walker: binding was freed under the iteration"
        | some b =>
          if b.ev = ev ∧ (cfg.skipTomb = true → b.id ≠ TOMBSTONE) then
            -- TICKIT_BIND_ONESHOT: flags |= TICKIT_EV_UNBIND; bind->id = TOMBSTONE; needs_delete = true
            let one := b.flags.oneshot && (!wf || cfg.wfOneshot)
            let st1 : St := { st with
              list := if one then modifyKey st.list k (fun b => { b with id := TOMBSTONE }) else st.list,
              needsDelete := one || st.needsDelete,
              log := Ev.fire k occ :: st.log }
            let fl := if one then EV_FIRE + EV_UNBIND else EV_FIRE
            match exec fuel (.call k b.fn fl occ) st1 with
            | .ok (st2, r) =>
              if wf && r != 0 then .ok (st2, r)      -- if(ret) goto exit;
              else match nextOf st2.list k with       -- bind = bind->next
                | none => .ub "walker: binding was freed during its handler"
                | some nx => exec fuel (.walk wf ev occ nx) st2
            | e => e
          else match nextOf st.list k with
            | none => .ub "walker: unreachable"
            | some nx => exec fuel (.walk wf ev occ nx) st
    | .call key fn fl occ =>
      match fn with
      | none => .ub "call through a NULL function pointer"
      | some h =>
        let n := st.inv h
        let st1 := { st with inv := fun x => if x = h then n + 1 else st.inv x, log := Ev.enter key h n fl occ :: st.log }
        let b := beh h n
        -- handlers take no action on an owner that is being destroyed
        let as := if fl / EV_DESTROY % 2 = 1 then [] else b.acts
        match exec fuel (.acts key 0 as) st1 with
        | .ok (st2, _) => .ok (st2.push (Ev.leave key occ b.ret), b.ret)
        | e => e
    | .acts self i as =>
      match as with
      | [] => .ok (st, 0)
      | a :: rest =>
        -- the handler interpreter does not touch an owner that is gone
        if st.dead then .ok (st, 0) else
        let st1 := st.push (Ev.actBegin i)
        let r : Res (St × Int) := match a with
          | .bind ev first flags h => .ok (bindEvent st1 ev first flags h, 0)
          | .unbind slot => match st1.slotIds[slot]? with
            | none => .ok (st1, 0)
            | some id => exec fuel (.unbindId id) st1
          | .unbindSelf => match st1.slotIds[self]? with
            | none => .ok (st1, 0)
            | some id => exec fuel (.unbindId id) st1
          | .emit ev =>
            if own.canEmit ev then
              match own.penEmitFg with
              | some n => exec fuel (.pen [.setCol n]) st1
              | none => exec fuel (.emitter (own.wf ev) ev) st1
            else .ok (st1, 0)
          | .pen op => if op.isRegion then exec fuel (.penRegion op.body) st1 else exec fuel (.pen op.body) st1
          -- the handlers own one reference and drop it once
          | .destroy => if st1.userRef then exec fuel .unref { st1 with userRef := false } else .ok (st1, 0)
        match r with
        | .ok (st2, _) => exec fuel (.acts self (i + 1) rest) (st2.push Ev.actEnd)
        | e => e
    | .unbindId id =>
      if cfg.notifyLast then
        match findId st.list id with
        | none => .ok (st, 0)
        | some b =>
          -- TickitEventFn *fn = (bind->flags & TICKIT_EV_UNBIND) ? bind->fn : NULL;
          let fn := if b.flags.unbind then b.fn else none
          -- unlink and free now, or tombstone when a walker is running
          let l1 := if !st.isIter then eraseKey st.list b.key
                    else modifyKey st.list b.key (fun b => { b with id := TOMBSTONE, ev := -1, fn := none })
          let st1 := { st with list := l1, needsDelete := st.isIter || st.needsDelete, log := Ev.unbindReq b.key :: st.log }
          -- if(fn) (*fn)(owner, TICKIT_EV_UNBIND, NULL, data); return;
          match fn with
          | none => .ok (st1, 0)
          | some h => match exec fuel (.call b.key (some h) EV_UNBIND 0) st1 with
            | .ok (st2, _) => .ok (st2, 0)
            | e => e
      else exec fuel (.unbindLoopOrig id .head) st
    | .unbindLoopOrig id loc =>
      match readLoc st.list loc with
      | none => .ub "unbind: bindp points into a freed binding"
      | some none => .ok (st, 0)
      | some (some k) =>
        match findKey st.list k with
        | none => .ub "unbind: unreachable"
        | some b =>
          if b.id ≠ id then exec fuel (.unbindLoopOrig id (.next k)) st
          else
            let st0 := st.push (Ev.unbindReq k)
            -- if(bind->flags & TICKIT_EV_UNBIND) (*bind->fn)(owner, TICKIT_EV_UNBIND, NULL, bind->data);
            let r : Res (St × Int) := if b.flags.unbind then exec fuel (.call k b.fn EV_UNBIND 0) st0 else .ok (st0, 0)
            match r with
            | .ok (st1, _) =>
              -- bind->evindex = -1; bind->fn = NULL;
              match findKey st1.list k with
              | none => .ub "unbind: binding was freed during its own unbind notification"
              | some _ =>
                let l2 := modifyKey st1.list k (fun b => { b with ev := -1, fn := none })
                if !st1.isIter then
                  -- *bindp = bind->next; free(bind);
                  match spliceAt l2 loc k with
                  | none => .ub "unbind: write through bindp into a freed binding"
                  | some l3 => exec fuel (.unbindLoopOrig id loc) { st1 with list := l3 }
                else
                  -- needs_delete = true; bind->id = TOMBSTONE; bindp = &bind->next
                  exec fuel (.unbindLoopOrig id (.next k))
                    { st1 with list := modifyKey l2 k (fun b => { b with id := TOMBSTONE }), needsDelete := true }
            | e => e
    | .destroyLoop rev =>
      match rev with
      | [] => .ok ({ st with list := [] }, 0)
      | b :: rest =>
        if b.ev = 0 ∨ b.flags.unbind = true ∨ b.flags.destroy = true then
          match exec fuel (.call b.key b.fn (EV_UNBIND + EV_DESTROY) 0) st with
          | .ok (st1, _) => exec fuel (.destroyLoop rest) st1
          | e => e
        else exec fuel (.destroyLoop rest) st

/-- Top-level operations of a history. -/
inductive Op
  | bind (ev : Int) (first : Bool) (flags : BFlags) (h : Nat)
  | unbind (slot : Nat)
  | unbindId (id : Int)
  | emit (ev : Int)
  | destroy
  | pen (op : PenOp)
  deriving DecidableEq, Repr

def execOp (fuel : Nat) (op : Op) (st : St) : Res St :=
  match op with
  | .bind ev first flags h => .ok (bindEvent st ev first flags h)
  | .unbind slot => match st.slotIds[slot]? with
    | none => .ok st
    | some id => (exec cfg own beh fuel (.unbindId id) st).dropRet
  | .unbindId id => (exec cfg own beh fuel (.unbindId id) st).dropRet
  | .emit ev =>
    if own.canEmit ev then
      match own.penEmitFg with
      | some n => (exec cfg own beh fuel (.pen [.setCol n]) st).dropRet
      | none => (exec cfg own beh fuel (.emitter (own.wf ev) ev) st).dropRet
    else .ok st
  | .pen op => (if op.isRegion then exec cfg own beh fuel (.penRegion op.body) st else exec cfg own beh fuel (.pen op.body) st).dropRet
  | .destroy =>
    -- tickit_bindings_unbind_and_destroy: reverse the chain, notify, free
    (exec cfg own beh fuel (.destroyLoop st.list.reverse) st).dropRet

/-- A history: operations in sequence; stops at the first non-`ok` outcome. `destroy` ends it. -/
def execOps (fuel : Nat) : List Op → St → Res St
  | [], st => .ok st
  | op :: rest, st =>
    match execOp cfg own beh fuel op st with
    | .ok st' => if op = .destroy || st'.dead then .ok st' else execOps fuel rest st'
    | e => e

end

/-- Owners used by the harness. -/
def Owner.pen : Owner := ⟨fun _ => false, fun ev => ev = 1, false, some 7⟩
def Owner.term : Owner := ⟨fun ev => decide (ev ≥ 2), fun ev => decide (1 ≤ ev ∧ ev ≤ 3), false, none⟩
/-- a window (`DEFINE_BINDINGS_FUNCS(window,…)` in `src/window.c`): GEOMCHANGE (1), EXPOSE (2) and FOCUS (3) are delivered by
    `run_events`, KEY (4) and MOUSE (5) by `run_events_whilefalse` (`_handle_key` / `_handle_mouse`, which hold a reference of
    their own on the window around the walk) -/
def Owner.win : Owner := ⟨fun ev => decide (ev ≥ 4), fun ev => decide (1 ≤ ev ∧ ev ≤ 5), false, none⟩

end Tickit.Bindings
