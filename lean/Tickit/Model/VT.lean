import Tickit.Model.Width
/-
  The VT reference interpreter (DESIGN.md Appendix C): our reading of DEC STD 070 / xterm ctlseqs for the
  sequences the xterm driver of libtickit emits.  It is the *specification* of "VT-conformant" in C09.

  A byte-at-a-time tokenizer (ground / ESC / CSI parameters / strings / UTF-8 continuation) feeding an executor
  over a screen `grid : Int → Int → Cell`, a cursor with the pending-wrap flag, DECSTBM / DECSLRM margins,
  DECLRMM, and the part of SGR that matters for erasing: background colour (BCE) and reverse video.

  Degenerate-case choices (all listed in DESIGN.md §6 / Appendix C and in engines.d/C09.json):
   * DECSTBM `CSI t ; b r` is honoured only if `1 ≤ t < b ≤ lines`, otherwise ignored; no parameters = full screen.
   * DECSLRM `CSI l ; r s` needs DECLRMM and `1 ≤ l < r ≤ cols`, otherwise ignored; no parameters = full width;
     without DECLRMM `CSI s` is save-cursor (no visible effect).  Resetting DECLRMM resets the left/right margins.
   * DECSTBM and DECSLRM home the cursor (origin mode is never set).
   * IL/DL/ICH/DCH/DECIC/DECDC act only when the cursor is inside all four margins; they leave the cursor alone.
   * A printable character at the last column sets `pendingWrap` instead of advancing; every cursor movement
     clears it; erase operations do not.  CUB/CUF/CUU/CUD/CUP/HPA/VPA clamp to the screen.
   * Every erase / insert / delete fills with `Cell.blank bg`: a blank carrying the current background and *no*
     reverse attribute (which is why the driver prints spaces instead of ECH under reverse video).
   * A printed space and an erased blank are the same glyph (32).
  Core Lean only: this file is linked into the driver executable.
-/
namespace Tickit.VT

/-- A screen cell: glyph (code point; 32 = blank; 0 = right half of a wide glyph), background colour
    (`-1` default, `0..255` palette, `256 + 0xRRGGBB` direct colour) and reverse video. -/
structure Cell where
  glyph : Nat
  bg : Int
  rv : Bool
deriving DecidableEq, Repr, Inhabited

/-- What every erase / insert / delete fills with (BCE). -/
def Cell.blank (bg : Int) : Cell := ⟨32, bg, false⟩

/-- Accumulator of a control sequence `CSI P…P I…I F`. -/
structure CsiAcc where
  priv : UInt8                       -- one of `< = > ?` as first parameter byte, else 0
  done : List (List (Option Nat))    -- completed `;`-separated parameters, each a list of `:`-separated parts
  sub : List (Option Nat)            -- completed sub-parameters of the current parameter
  cur : Option Nat                   -- number being read
  inter : List UInt8                 -- intermediate bytes 0x20–0x2f
deriving DecidableEq, Repr, Inhabited

def CsiAcc.empty : CsiAcc := ⟨0, [], [], none, []⟩

/-- Tokenizer state. -/
inductive PState
  | ground
  | esc                          -- after ESC
  | escInter                     -- ESC followed by intermediates (charset designation etc.): next final is dropped
  | csi (a : CsiAcc)
  | csiIgnore                    -- malformed control sequence: skip to the final byte
  | str                          -- inside OSC / DCS / APC / PM / SOS
  | strEsc                       -- ESC seen inside a string
  | utf8 (need : Nat) (acc : Nat)
deriving DecidableEq, Repr, Inhabited

@[ext] structure VTState where
  lines : Int
  cols : Int
  grid : Int → Int → Cell
  row : Int
  col : Int
  pendingWrap : Bool
  top : Int          -- margins, 0-based, inclusive
  bottom : Int
  left : Int
  right : Int
  declrmm : Bool
  bg : Int           -- SGR background
  rv : Bool          -- SGR reverse video
  ps : PState

/-- A fresh screen with full-screen margins showing `g`. -/
def VTState.init (lines cols : Int) (g : Int → Int → Cell) : VTState :=
  { lines := lines, cols := cols, grid := g, row := 0, col := 0, pendingWrap := false,
    top := 0, bottom := lines - 1, left := 0, right := cols - 1, declrmm := false,
    bg := -1, rv := false, ps := .ground }

namespace VTState

def inScreen (vt : VTState) (l c : Int) : Prop := 0 ≤ l ∧ l < vt.lines ∧ 0 ≤ c ∧ c < vt.cols
instance (vt : VTState) (l c : Int) : Decidable (vt.inScreen l c) := by unfold inScreen; exact inferInstance

def clampRow (vt : VTState) (r : Int) : Int := max 0 (min r (vt.lines - 1))
def clampCol (vt : VTState) (c : Int) : Int := max 0 (min c (vt.cols - 1))

/-- Every cursor movement goes through here: clamped to the screen, clears the pending wrap. -/
def moveTo (vt : VTState) (r c : Int) : VTState :=
  { vt with row := vt.clampRow r, col := vt.clampCol c, pendingWrap := false }

def inMargins (vt : VTState) : Prop :=
  vt.top ≤ vt.row ∧ vt.row ≤ vt.bottom ∧ vt.left ≤ vt.col ∧ vt.col ≤ vt.right
instance (vt : VTState) : Decidable vt.inMargins := by unfold inMargins; exact inferInstance

def blank (vt : VTState) : Cell := Cell.blank vt.bg

/-- ECH: blank `min n (cols − col)` cells from the cursor; cursor unchanged. -/
def ech (vt : VTState) (n : Int) : VTState :=
  { vt with grid := fun l c =>
      if l = vt.row ∧ vt.col ≤ c ∧ c < vt.col + n ∧ c < vt.cols then vt.blank else vt.grid l c }

/-- ED: 0 = cursor to end of screen, 1 = start to cursor, 2 (and 3) = whole screen.  Cursor unchanged. -/
def ed (vt : VTState) (mode : Nat) : VTState :=
  { vt with grid := fun l c =>
      if vt.inScreen l c ∧
         (mode = 2 ∨ mode = 3 ∨
          (mode = 0 ∧ (l > vt.row ∨ (l = vt.row ∧ c ≥ vt.col))) ∨
          (mode = 1 ∧ (l < vt.row ∨ (l = vt.row ∧ c ≤ vt.col))))
      then vt.blank else vt.grid l c }

/-- EL: 0 = cursor to end of line, 1 = start to cursor, 2 = whole line. -/
def el (vt : VTState) (mode : Nat) : VTState :=
  { vt with grid := fun l c =>
      if l = vt.row ∧ 0 ≤ c ∧ c < vt.cols ∧
         (mode = 2 ∨ (mode = 0 ∧ c ≥ vt.col) ∨ (mode = 1 ∧ c ≤ vt.col))
      then vt.blank else vt.grid l c }

/-- IL: insert `n` blank lines at the cursor row within rows `[row, bottom]`, columns `[left, right]`. -/
def il (vt : VTState) (n : Int) : VTState :=
  if vt.inMargins then
    { vt with grid := fun l c =>
        if vt.row ≤ l ∧ l ≤ vt.bottom ∧ vt.left ≤ c ∧ c ≤ vt.right then
          (if l - n ≥ vt.row then vt.grid (l - n) c else vt.blank)
        else vt.grid l c }
  else vt

/-- DL: delete `n` lines at the cursor row within rows `[row, bottom]`, columns `[left, right]`. -/
def dl (vt : VTState) (n : Int) : VTState :=
  if vt.inMargins then
    { vt with grid := fun l c =>
        if vt.row ≤ l ∧ l ≤ vt.bottom ∧ vt.left ≤ c ∧ c ≤ vt.right then
          (if l + n ≤ vt.bottom then vt.grid (l + n) c else vt.blank)
        else vt.grid l c }
  else vt

/-- ICH: insert `n` blank cells at the cursor within columns `[col, right]` of the cursor row. -/
def ich (vt : VTState) (n : Int) : VTState :=
  if vt.inMargins then
    { vt with grid := fun l c =>
        if l = vt.row ∧ vt.col ≤ c ∧ c ≤ vt.right then
          (if c - n ≥ vt.col then vt.grid l (c - n) else vt.blank)
        else vt.grid l c }
  else vt

/-- DCH: delete `n` cells at the cursor within columns `[col, right]` of the cursor row. -/
def dch (vt : VTState) (n : Int) : VTState :=
  if vt.inMargins then
    { vt with grid := fun l c =>
        if l = vt.row ∧ vt.col ≤ c ∧ c ≤ vt.right then
          (if c + n ≤ vt.right then vt.grid l (c + n) else vt.blank)
        else vt.grid l c }
  else vt

/-- DECIC: insert `n` blank columns at the cursor column within rows `[top, bottom]`, columns `[col, right]`. -/
def decic (vt : VTState) (n : Int) : VTState :=
  if vt.inMargins then
    { vt with grid := fun l c =>
        if vt.top ≤ l ∧ l ≤ vt.bottom ∧ vt.col ≤ c ∧ c ≤ vt.right then
          (if c - n ≥ vt.col then vt.grid l (c - n) else vt.blank)
        else vt.grid l c }
  else vt

/-- DECDC: delete `n` columns at the cursor column within rows `[top, bottom]`, columns `[col, right]`. -/
def decdc (vt : VTState) (n : Int) : VTState :=
  if vt.inMargins then
    { vt with grid := fun l c =>
        if vt.top ≤ l ∧ l ≤ vt.bottom ∧ vt.col ≤ c ∧ c ≤ vt.right then
          (if c + n ≤ vt.right then vt.grid l (c + n) else vt.blank)
        else vt.grid l c }
  else vt

/-- DECSTBM with 1-based optional parameters. -/
def decstbm (vt : VTState) (t b : Option Nat) : VTState :=
  if t = none ∧ b = none then
    { vt with top := 0, bottom := vt.lines - 1, row := 0, col := 0, pendingWrap := false }
  else
    let t' : Int := ((t.getD 1 : Nat) : Int)
    let b' : Int := match b with | none => vt.lines | some k => ((k : Nat) : Int)
    if 1 ≤ t' ∧ t' < b' ∧ b' ≤ vt.lines then
      { vt with top := t' - 1, bottom := b' - 1, row := 0, col := 0, pendingWrap := false }
    else vt

/-- DECSLRM with 1-based optional parameters (only reached with DECLRMM set). -/
def decslrm (vt : VTState) (l r : Option Nat) : VTState :=
  if l = none ∧ r = none then
    { vt with left := 0, right := vt.cols - 1, row := 0, col := 0, pendingWrap := false }
  else
    let l' : Int := ((l.getD 1 : Nat) : Int)
    let r' : Int := match r with | none => vt.cols | some k => ((k : Nat) : Int)
    if 1 ≤ l' ∧ l' < r' ∧ r' ≤ vt.cols then
      { vt with left := l' - 1, right := r' - 1, row := 0, col := 0, pendingWrap := false }
    else vt

/-- Scroll the margin region up by one line (used by a wrap or LF at the bottom margin). -/
def scrollUp (vt : VTState) : VTState :=
  { vt with grid := fun l c =>
      if vt.top ≤ l ∧ l ≤ vt.bottom ∧ vt.left ≤ c ∧ c ≤ vt.right then
        (if l + 1 ≤ vt.bottom then vt.grid (l + 1) c else vt.blank)
      else vt.grid l c }

/-- Line feed: down one row, scrolling at the bottom margin. -/
def lineFeed (vt : VTState) : VTState :=
  if vt.row = vt.bottom then vt.scrollUp
  else if vt.row < vt.lines - 1 then { vt with row := vt.row + 1 }
  else vt

/-- Deferred wrap: to column `left` of the next row. -/
def wrap (vt : VTState) : VTState :=
  let vt1 := vt.lineFeed
  { vt1 with col := vt.left, pendingWrap := false }

end VTState

/-- Column width of a code point as the terminal sees it: the library's own `tickit_utf8_wcwidth`
    (Model/Width.lean, tables regenerated from the source) — the property assumes that the terminal and the library
    agree on widths.  Controls (`-1`) take no column. -/
def width (cp : Nat) : Nat := (Width.wcwidth cp).toNat

namespace VTState

/-- Write one width-1 glyph at the cursor (after a deferred wrap, if one is pending). -/
def put1 (vt : VTState) (cp : Nat) : VTState :=
  let vt1 := if vt.pendingWrap then vt.wrap else vt
  let g : Int → Int → Cell := fun l c =>
    if l = vt1.row ∧ c = vt1.col then ⟨cp, vt1.bg, vt1.rv⟩ else vt1.grid l c
  if vt1.col + 1 ≥ vt1.cols then { vt1 with grid := g, pendingWrap := true }
  else { vt1 with grid := g, col := vt1.col + 1 }

/-- Write one width-2 glyph (wraps first if it does not fit). -/
def put2 (vt : VTState) (cp : Nat) : VTState :=
  let vt1 := if vt.pendingWrap ∨ vt.col + 2 > vt.cols then vt.wrap else vt
  let g : Int → Int → Cell := fun l c =>
    if l = vt1.row ∧ c = vt1.col then ⟨cp, vt1.bg, vt1.rv⟩
    else if l = vt1.row ∧ c = vt1.col + 1 ∧ c < vt1.cols then ⟨0, vt1.bg, vt1.rv⟩
    else vt1.grid l c
  if vt1.col + 2 ≥ vt1.cols then { vt1 with grid := g, col := vt1.cols - 1, pendingWrap := true }
  else { vt1 with grid := g, col := vt1.col + 2 }

def putGlyph (vt : VTState) (cp : Nat) : VTState :=
  match width cp with
  | 0 => vt          -- combining: joins the previous cell, which keeps its base glyph in this abstraction
  | 1 => vt.put1 cp
  | _ => vt.put2 cp

end VTState

/-! ### SGR (only background and reverse video are tracked) -/

def rgbColour (r g b : Nat) : Int := 256 + ((r % 256) * 65536 + (g % 256) * 256 + b % 256 : Nat)

/-- Background selected by the colon forms `48:5:n`, `48:2:r:g:b`, `48:2:cs:r:g:b` (parts after the 48). -/
def sgrExtBgColon : List (Option Nat) → Option Int
  | [some 5, n] => some ((n.getD 0 : Nat) : Int)
  | [some 2, r, g, b] => some (rgbColour (r.getD 0) (g.getD 0) (b.getD 0))
  | [some 2, _, r, g, b] => some (rgbColour (r.getD 0) (g.getD 0) (b.getD 0))
  | _ => none

/-- What a `38` / `48` / `58` spelled with semicolons is still waiting for (`isBg` = it was a 48). -/
inductive SgrPend
  | none
  | kind (isBg : Bool)
  | idx (isBg : Bool)
  | r (isBg : Bool)
  | g (isBg : Bool) (r : Nat)
  | b (isBg : Bool) (r g : Nat)
deriving DecidableEq, Repr, Inhabited

/-- The part of the rendering state the screen model tracks, while an SGR sequence is interpreted. -/
structure SgrAcc where
  bg : Int
  rv : Bool
  pend : SgrPend
deriving DecidableEq, Repr, Inhabited

/-- One `;`-separated SGR parameter (`p` = its `:`-separated parts). -/
def sgrStep (s : SgrAcc) (p : List (Option Nat)) : SgrAcc :=
  match p with
  | [] => ⟨-1, false, .none⟩
  | main :: subs =>
    let n := main.getD 0
    if subs ≠ [] then
      -- colon form: self-contained
      if n = 48 then ⟨(sgrExtBgColon subs).getD s.bg, s.rv, .none⟩ else ⟨s.bg, s.rv, .none⟩
    else
      match s.pend with
      | .none =>
        if n = 0 then ⟨-1, false, .none⟩
        else if n = 7 then ⟨s.bg, true, .none⟩
        else if n = 27 then ⟨s.bg, false, .none⟩
        else if 40 ≤ n ∧ n ≤ 47 then ⟨((n - 40 : Nat) : Int), s.rv, .none⟩
        else if 100 ≤ n ∧ n ≤ 107 then ⟨((n - 100 + 8 : Nat) : Int), s.rv, .none⟩
        else if n = 49 then ⟨-1, s.rv, .none⟩
        else if n = 48 then ⟨s.bg, s.rv, .kind true⟩
        else if n = 38 ∨ n = 58 then ⟨s.bg, s.rv, .kind false⟩
        else s
      | .kind isBg =>
        if n = 5 then ⟨s.bg, s.rv, .idx isBg⟩
        else if n = 2 then ⟨s.bg, s.rv, .r isBg⟩
        else ⟨s.bg, s.rv, .none⟩
      | .idx isBg => ⟨if isBg then ((n : Nat) : Int) else s.bg, s.rv, .none⟩
      | .r isBg => ⟨s.bg, s.rv, .g isBg n⟩
      | .g isBg r => ⟨s.bg, s.rv, .b isBg r n⟩
      | .b isBg r g => ⟨if isBg then rgbColour r g n else s.bg, s.rv, .none⟩

def VTState.sgr (vt : VTState) (ps : List (List (Option Nat))) : VTState :=
  let r := ps.foldl sgrStep ⟨vt.bg, vt.rv, .none⟩
  { vt with bg := r.bg, rv := r.rv }

/-! ### Dispatch -/

/-- Numeric value of the first part of parameter `i`. -/
def param (ps : List (List (Option Nat))) (i : Nat) : Option Nat :=
  match ps[i]? with
  | some (v :: _) => v
  | _ => none

/-- A count parameter: absent or 0 means 1. -/
def cnt (ps : List (List (Option Nat))) (i : Nat) : Int :=
  match param ps i with
  | none => 1
  | some k => if k = 0 then 1 else ((k : Nat) : Int)

def VTState.decset (vt : VTState) (modes : List (List (Option Nat))) (on : Bool) : VTState :=
  if modes.any (fun p => p.head? = some (some 69)) then
    if on then { vt with declrmm := true }
    else { vt with declrmm := false, left := 0, right := vt.cols - 1 }
  else vt

/-- Is this control sequence one the reference terminal knows (used by the runtime oracle only)? -/
def csiKnown (priv : UInt8) (inter : List UInt8) (final : UInt8) : Bool :=
  if priv = 0 ∧ inter = [] then
    final ∈ [0x48, 0x66, 0x64, 0x47, 0x60, 0x41, 0x42, 0x43, 0x44, 0x58, 0x4a, 0x4b, 0x72, 0x73, 0x4c, 0x4d, 0x40, 0x50, 0x6d, 0x75].map UInt8.ofNat
  else if priv = 0 ∧ inter = [0x27] then final = 0x7d ∨ final = 0x7e
  else if priv = 0 ∧ inter = [0x20] then final = 0x71
  else if priv = 0x3f ∧ inter = [] then final = 0x68 ∨ final = 0x6c
  else if priv = 0x3f ∧ inter = [0x24] then final = 0x70
  else false

/-- Execute one complete control sequence. -/
def VTState.dispatch (vt : VTState) (priv : UInt8) (ps : List (List (Option Nat))) (inter : List UInt8) (final : UInt8) : VTState :=
  if priv = 0 ∧ inter = [] then
    if final = 0x48 ∨ final = 0x66 then vt.moveTo (cnt ps 0 - 1) (cnt ps 1 - 1)        -- CUP / HVP
    else if final = 0x64 then vt.moveTo (cnt ps 0 - 1) vt.col                           -- VPA
    else if final = 0x47 ∨ final = 0x60 then vt.moveTo vt.row (cnt ps 0 - 1)            -- CHA / HPA
    else if final = 0x41 then vt.moveTo (vt.row - cnt ps 0) vt.col                      -- CUU
    else if final = 0x42 then vt.moveTo (vt.row + cnt ps 0) vt.col                      -- CUD
    else if final = 0x43 then vt.moveTo vt.row (vt.col + cnt ps 0)                      -- CUF
    else if final = 0x44 then vt.moveTo vt.row (vt.col - cnt ps 0)                      -- CUB
    else if final = 0x58 then vt.ech (cnt ps 0)                                         -- ECH
    else if final = 0x4a then vt.ed ((param ps 0).getD 0)                               -- ED
    else if final = 0x4b then vt.el ((param ps 0).getD 0)                               -- EL
    else if final = 0x72 then vt.decstbm (param ps 0) (param ps 1)                      -- DECSTBM
    else if final = 0x73 then (if vt.declrmm then vt.decslrm (param ps 0) (param ps 1) else vt)  -- DECSLRM / SCOSC
    else if final = 0x4c then vt.il (cnt ps 0)                                          -- IL
    else if final = 0x4d then vt.dl (cnt ps 0)                                          -- DL
    else if final = 0x40 then vt.ich (cnt ps 0)                                         -- ICH
    else if final = 0x50 then vt.dch (cnt ps 0)                                         -- DCH
    else if final = 0x6d then vt.sgr ps                                                 -- SGR
    else vt
  else if priv = 0 ∧ inter = [0x27] then
    if final = 0x7d then vt.decic (cnt ps 0)                                            -- DECIC
    else if final = 0x7e then vt.decdc (cnt ps 0)                                       -- DECDC
    else vt
  else if priv = 0x3f ∧ inter = [] then
    if final = 0x68 then vt.decset ps true
    else if final = 0x6c then vt.decset ps false
    else vt
  else vt                                                                               -- queries, DECSCUSR, unknown: no screen effect

/-! ### Tokenizer -/

def CsiAcc.params (a : CsiAcc) : List (List (Option Nat)) := a.done ++ [a.sub ++ [a.cur]]

def isDigit (b : UInt8) : Bool := 0x30 ≤ b ∧ b ≤ 0x39

/-- Value of a digit string read left to right, starting from `acc`. -/
def digitsValue (ds : List UInt8) (acc : Nat) : Nat := ds.foldl (fun a b => a * 10 + (b.toNat - 48)) acc

/-- Reading a decimal number: digits only, at least one. -/
def readNat (bs : List UInt8) : Option Nat :=
  if bs ≠ [] ∧ bs.all isDigit then some (digitsValue bs 0) else none

/-- Classes of bytes inside a control sequence (ECMA-48 §5.4). -/
inductive BClass | digit | semi | colon | priv | inter | final | esc | cancel | other
deriving DecidableEq, Repr

def classify (b : UInt8) : BClass :=
  if isDigit b then .digit
  else if b = 0x3b then .semi
  else if b = 0x3a then .colon
  else if 0x3c ≤ b ∧ b ≤ 0x3f then .priv
  else if 0x20 ≤ b ∧ b ≤ 0x2f then .inter
  else if 0x40 ≤ b ∧ b ≤ 0x7e then .final
  else if b = 0x1b then .esc
  else if b = 0x18 ∨ b = 0x1a then .cancel
  else .other

/-- One byte inside a control sequence. -/
def VTState.csiByte (vt : VTState) (a : CsiAcc) (b : UInt8) : VTState :=
  match classify b with
  | .digit =>
    if a.inter = [] then { vt with ps := .csi { a with cur := some (a.cur.getD 0 * 10 + (b.toNat - 48)) } }
    else { vt with ps := .csiIgnore }
  | .semi =>
    if a.inter = [] then { vt with ps := .csi { a with done := a.done ++ [a.sub ++ [a.cur]], sub := [], cur := none } }
    else { vt with ps := .csiIgnore }
  | .colon =>
    if a.inter = [] then { vt with ps := .csi { a with sub := a.sub ++ [a.cur], cur := none } }
    else { vt with ps := .csiIgnore }
  | .priv =>
    if a = CsiAcc.empty then { vt with ps := .csi { a with priv := b } }
    else { vt with ps := .csiIgnore }
  | .inter => { vt with ps := .csi { a with inter := a.inter ++ [b] } }
  | .final => ({ vt with ps := .ground } : VTState).dispatch a.priv a.params a.inter b
  | .esc => { vt with ps := .esc }
  | .cancel => { vt with ps := .ground }
  | .other => vt                            -- other C0 controls inside a sequence: not emitted by the driver; ignored

/-- One byte in the ground state. -/
def VTState.groundByte (vt : VTState) (b : UInt8) : VTState :=
  let n := b.toNat
  if n = 0x1b then { vt with ps := .esc }
  else if n = 0x0d then { vt with col := vt.left, pendingWrap := false }
  else if n = 0x0a ∨ n = 0x0b ∨ n = 0x0c then vt.lineFeed
  else if n = 0x08 then vt.moveTo vt.row (vt.col - 1)
  else if n < 0x20 ∨ n = 0x7f then vt
  else if n < 0x80 then vt.putGlyph n
  else if 0xc2 ≤ n ∧ n ≤ 0xdf then { vt with ps := .utf8 1 (n - 0xc0) }
  else if 0xe0 ≤ n ∧ n ≤ 0xef then { vt with ps := .utf8 2 (n - 0xe0) }
  else if 0xf0 ≤ n ∧ n ≤ 0xf4 then { vt with ps := .utf8 3 (n - 0xf0) }
  else vt.putGlyph 0xfffd

/-- The tokenizer / executor: one byte. -/
def step (vt : VTState) (b : UInt8) : VTState :=
  match vt.ps with
  | .ground => vt.groundByte b
  | .esc =>
    if b = 0x5b then { vt with ps := .csi CsiAcc.empty }
    else if b = 0x5d ∨ b = 0x50 ∨ b = 0x58 ∨ b = 0x5e ∨ b = 0x5f then { vt with ps := .str }
    else if 0x20 ≤ b ∧ b ≤ 0x2f then { vt with ps := .escInter }
    else if b = 0x1b then vt
    else { vt with ps := .ground }          -- ESC = / ESC > / ESC 7 / ESC 8 …: no screen effect here
  | .escInter =>
    if 0x20 ≤ b ∧ b ≤ 0x2f then vt
    else if b = 0x1b then { vt with ps := .esc }
    else { vt with ps := .ground }
  | .csi a => vt.csiByte a b
  | .csiIgnore =>
    if 0x40 ≤ b ∧ b ≤ 0x7e then { vt with ps := .ground }
    else if b = 0x1b then { vt with ps := .esc }
    else vt
  | .str =>
    if b = 0x1b then { vt with ps := .strEsc }
    else if b = 0x07 ∨ b = 0x9c then { vt with ps := .ground }
    else vt
  | .strEsc =>
    if b = 0x5c then { vt with ps := .ground }
    else if b = 0x1b then vt
    else if b = 0x5b then { vt with ps := .csi CsiAcc.empty }
    else { vt with ps := .ground }
  | .utf8 need acc =>
    if 0x80 ≤ b.toNat ∧ b.toNat ≤ 0xbf then
      let acc' := acc * 64 + (b.toNat - 0x80)
      if need ≤ 1 then ({ vt with ps := .ground } : VTState).putGlyph acc'
      else { vt with ps := .utf8 (need - 1) acc' }
    else
      (({ vt with ps := .ground } : VTState).putGlyph 0xfffd).groundByte b

/-- Interpret a byte string. -/
def run (bytes : List UInt8) (vt : VTState) : VTState := bytes.foldl step vt

/-! ### Window resize

  The reference terminal's choice (DEC STD 070 does not define a resize; xterm does much the same): no reflow; rows
  and columns are anchored at the top left; a cell inside both the old and the new screen keeps its content, every
  other cell of the new screen shows `fresh` (whatever the emulator paints there — the correspondence driver uses
  distinct glyphs so that a misplaced cell is visible); the cursor is clamped into the new screen and a pending wrap
  is dropped; the scrolling margins are reset to the whole new screen; DECLRMM, the rendering attributes and the
  tokenizer state are untouched. -/

def VTState.resize (vt : VTState) (lines cols : Int) (fresh : Int → Int → Cell) : VTState :=
  { vt with lines := lines, cols := cols,
            grid := fun l c => if l < vt.lines ∧ c < vt.cols then vt.grid l c else fresh l c,
            row := max 0 (min vt.row (lines - 1)), col := max 0 (min vt.col (cols - 1)), pendingWrap := false,
            top := 0, bottom := lines - 1, left := 0, right := cols - 1 }

/-! ### DECRPM: what the reply `CSI ? 69 ; v $ y` says about DECLRMM (DEC STD 070: 0 = mode not recognised,
    1 = set, 2 = reset, 3 = permanently set, 4 = permanently reset) -/

/-- DECLRMM is set in a terminal that reports `v` for mode 69. -/
def declrmmOfReply (v : Nat) : Bool := v = 1 ∨ v = 3

/-- The terminal will not change the mode on `CSI ? 69 h / l` (not recognised, or permanent). -/
def modeLockedOfReply (v : Nat) : Bool := ¬ (v = 1 ∨ v = 2)

/-! ### Tabulation (execution speed only): re-tabulate the grid function into an array -/

def VTState.compact (vt : VTState) : VTState :=
  let nl := vt.lines.toNat
  let nc := vt.cols.toNat
  let arr : Array Cell := Array.ofFn (n := nl * nc) fun i => vt.grid ((i.val / nc : Nat) : Int) ((i.val % nc : Nat) : Int)
  let dflt := vt.grid (-1) (-1)
  { vt with grid := fun l c =>
      if 0 ≤ l ∧ l < vt.lines ∧ 0 ≤ c ∧ c < vt.cols then arr.getD (l.toNat * nc + c.toNat) dflt else dflt }

end Tickit.VT
