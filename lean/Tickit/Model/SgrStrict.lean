import Tickit.Model.Sgr
/-
  Model/SgrStrict.lean — the other half of "the rendering state is determined by the SGR bytes emitted for setpen/chpen":
  a pen request may send SGR sequences and nothing else.  `Model/Sgr.lean`'s automaton ignores every byte that is not part of a
  control sequence, because such a byte does not change a rendering attribute — but a terminal does not ignore it: a byte that
  arrives while no sequence is open is printed at the cursor (or executed as a C0 control), i.e. the pen request drew something.

    `strays bytes vt`    the bytes that arrive while the terminal `vt` is in ground state and do not open a sequence (not ESC)
    `foreign bytes vt`   the number of bytes that make an open sequence something other than an unmarked `CSI <digits ; :> m`
                         (ESC followed by anything but `[`; inside CSI a private marker, an intermediate, a C0 byte, ESC, or a
                         final byte other than `m`)

  Core Lean only.
-/
namespace Tickit.Sgr

/-- The byte arrives while no sequence is open and does not open one. -/
def isStray (vt : VT) (b : Byte) : Bool :=
  match vt.st with
  | .ground => b != 27
  | _ => false

/-- The byte turns the open sequence into something that is not an SGR. -/
def isForeign (vt : VT) (b : Byte) : Bool :=
  match vt.st with
  | .ground => false
  | .esc => b != 91
  | .csi priv _ _ _ inter => !((48 ≤ b && b ≤ 59) || (b == 109 && !priv && !inter))
  | .str _ => false

def strays : List Byte → VT → List Byte
  | [], _ => []
  | b :: bs, vt => (if isStray vt b then [b] else []) ++ strays bs (feed vt b)

def foreign : List Byte → VT → Nat
  | [], _ => 0
  | b :: bs, vt => (if isForeign vt b then 1 else 0) + foreign bs (feed vt b)

theorem strays_append (xs ys : List Byte) (vt : VT) : strays (xs ++ ys) vt = strays xs vt ++ strays ys (run xs vt) := by
  induction xs generalizing vt with
  | nil => rfl
  | cons b bs ih => simp [strays, ih, run, List.append_assoc]

theorem foreign_append (xs ys : List Byte) (vt : VT) : foreign (xs ++ ys) vt = foreign xs vt + foreign ys (run xs vt) := by
  induction xs generalizing vt with
  | nil => simp [foreign, run]
  | cons b bs ih => simp [foreign, ih, run, Nat.add_assoc]

/-- Nothing but SGR sequences: no byte outside a sequence, no sequence that is not an SGR, and the last sequence is complete. -/
def SgrOnly (bytes : List Byte) (vt : VT) : Prop :=
  strays bytes vt = [] ∧ foreign bytes vt = 0 ∧ (run bytes vt).st = .ground

instance (bytes : List Byte) (vt : VT) : Decidable (SgrOnly bytes vt) := by unfold SgrOnly; exact inferInstance

theorem sgrOnly_nil (vt : VT) (h : vt.st = .ground) : SgrOnly [] vt := ⟨rfl, rfl, h⟩

theorem sgrOnly_append (xs ys : List Byte) (vt : VT) (hx : SgrOnly xs vt) (hy : SgrOnly ys (run xs vt)) :
    SgrOnly (xs ++ ys) vt := by
  refine ⟨?_, ?_, ?_⟩
  · rw [strays_append, hx.1, hy.1]; rfl
  · rw [foreign_append, hx.2.1, hy.2.1]
  · rw [run_append]; exact hy.2.2

end Tickit.Sgr
