import Tickit.Model.Life
/-
  Property C08, second part of the model: strings, render-buffer reference counts, and the copy-out calls
  with a caller's buffer (`tickit_renderbuffer_get_cell_text`, `tickit_renderbuffer_get_span`,
  `tickit_utf8_put`, `tickit_mockterm_get_display_text`).

  The buffer's *content* is modelled as far as the copy-out calls need it: cells in their span structure
  (`make_span` transcribed), for a buffer whose translation and clip are never changed and that has no mask
  (the `life` engine never issues those calls; C03 owns the full model).  Text is restricted to characters of
  one column each (ASCII and U+00A1..U+00FF), for which `tickit_utf8_count` is "k characters = k columns".
  Pens inside a buffer are private copies (`tickit_renderbuffer_setpen` never stores the caller's pen), so a
  buffer holds no reference the application can see; that its private pens and strings are released with it is
  observed (LeakSanitizer), not modelled.

  A copy-out call is described by the list of stores `(index, byte)` it performs into the caller's buffer, in
  program order.  "Never writes beyond the length given" is: every index is `< len`.
-/
namespace Tickit
namespace Life

/-! ## strings (`src/string.c`) -/

def strNew (st : St) (bytes : List UInt8) : St := { st with strs := st.strs.push { bytes := bytes } }

def strRef (st : St) (k : Nat) : Out St :=
  match st.strs[k]? with
  | none => .ub .mem s!"unknown string {k}"
  | some s =>
    if s.freed then .ub .mem s!"use of freed string {k}"
    else pure { st with strs := st.strs.setIfInBounds k { s with refcount := s.refcount + 1 } }

/-- `tickit_string_unref`: `if(refcount > 1) { refcount--; return; } refcount = 0; free`. -/
def strUnref (st : St) (k : Nat) : Out St :=
  match st.strs[k]? with
  | none => .ub .mem s!"unknown string {k}"
  | some s =>
    if s.freed then .ub .mem s!"use of freed string {k}"
    else if s.refcount > 1 then pure { st with strs := st.strs.setIfInBounds k { s with refcount := s.refcount - 1 } }
    else pure { st with strs := st.strs.setIfInBounds k { s with refcount := 0, freed := true } }

def heldS (st : St) (k : Nat) : Bool :=
  match st.strs[k]? with
  | none => false
  | some s => !s.freed && s.appRefs > 0

def heldB (st : St) (k : Nat) : Bool :=
  match st.rbs[k]? with
  | none => false
  | some b => !b.freed && b.appRefs > 0

/-! ## UTF-8 as far as needed -/

/-- `tickit_utf8_seqlen`. -/
def seqlen (cp : Nat) : Nat :=
  if cp < 0x80 then 1 else if cp < 0x800 then 2 else if cp < 0x10000 then 3
  else if cp < 0x200000 then 4 else if cp < 0x4000000 then 5 else 6

/-- The bytes `tickit_utf8_put` stores, first byte first. -/
def utf8Bytes (cp : Nat) : List UInt8 :=
  let n := seqlen cp
  let cont (k : Nat) : UInt8 := UInt8.ofNat (0x80 ||| ((cp >>> (6 * k)) &&& 0x3f))
  let top := cp >>> (6 * (n - 1))
  let lead : UInt8 := match n with
    | 1 => UInt8.ofNat (top &&& 0x7f)
    | 2 => UInt8.ofNat (0xc0 ||| (top &&& 0x1f))
    | 3 => UInt8.ofNat (0xe0 ||| (top &&& 0x0f))
    | 4 => UInt8.ofNat (0xf0 ||| (top &&& 0x07))
    | 5 => UInt8.ofNat (0xf8 ||| (top &&& 0x03))
    | _ => UInt8.ofNat (0xfc ||| (top &&& 0x01))
  lead :: ((List.range (n - 1)).reverse.map cont)

/-- Split a byte string into characters; `none` if it leaves the supported repertoire
    (ASCII 0x20..0x7e and two-byte sequences for U+00A1..U+00FF: one column each). -/
def splitChars : List UInt8 → Option (List (List UInt8))
  | [] => some []
  | b :: rest =>
    if 0x20 ≤ b ∧ b < 0x7f then (splitChars rest).map (fun cs => [b] :: cs)
    else if b = 0xc2 ∨ b = 0xc3 then
      match rest with
      | c :: rest' =>
        if 0x80 ≤ c ∧ c < 0xc0 ∧ (b = 0xc3 ∨ 0xa1 ≤ c) then (splitChars rest').map (fun cs => [b, c] :: cs) else none
      | [] => none
    else none

/-- After a prefix of supported characters, does the text continue with something `tickit_utf8_ncount` certainly
    rejects (`put_string` then returns -1 and draws nothing)?  A C0 control or DEL, a byte `0x80..0xbf` or
    `0xf8..0xff` in lead position, a C1 control (`c2 80..9f`), or a multi-byte lead with fewer bytes left than the
    sequence needs (`len < nbytes` in `next_utf8`).  `false` = not recognised (no prediction). -/
def rejectedText : List UInt8 → Bool
  | [] => false
  | b :: rest =>
    if 0x20 ≤ b ∧ b < 0x7f then rejectedText rest
    else if b = 0 then false                                   -- a NUL ends the count: accepted, shorter
    else if b < 0x20 ∨ b = 0x7f then true                       -- C0 control, DEL (wcwidth -1)
    else if b < 0xc0 then true                                  -- C1 / continuation byte in lead position
    else if b ≥ 0xf8 then true                                  -- no such lead byte
    else if b < 0xe0 then
      match rest with
      | [] => true                                              -- truncated two-byte sequence
      | c :: rest' =>
        if b = 0xc2 ∧ 0x80 ≤ c ∧ c < 0xa0 then true             -- U+0080..U+009F
        else if (b = 0xc2 ∨ b = 0xc3) ∧ 0x80 ≤ c ∧ c < 0xc0 ∧ (b = 0xc3 ∨ 0xa1 ≤ c) then rejectedText rest'
        else false
    else if b < 0xf0 then decide (rest.length < 2)              -- truncated three-byte sequence
    else decide (rest.length < 3)                               -- truncated four-byte sequence

/-! ## the copy-out calls as lists of stores -/

structure CopyOut where
  ret : Int                       -- the `size_t` result, `-1` for `(size_t)-1`
  stores : List (Nat × UInt8) := []
deriving Repr, DecidableEq

def storesAt (start : Nat) (bs : List UInt8) : List (Nat × UInt8) :=
  (List.range bs.length).zip bs |>.map (fun (i, b) => (start + i, b))

/-- `tickit_utf8_put(buffer, len, cp)`: result and stores. -/
def utf8Put (hasBuf : Bool) (len : Nat) (cp : Nat) : CopyOut :=
  let n := seqlen cp
  if !hasBuf then ⟨n, []⟩
  else if len < n then ⟨-1, []⟩
  else
    -- "easier done backwards": continuation bytes from the last to the second, then the lead byte
    let bs := utf8Bytes cp
    ⟨n, (storesAt 0 bs).reverse.filter (fun p => p.1 ≠ 0) ++ (storesAt 0 bs).filter (fun p => p.1 = 0)⟩

/-- The common tail of `get_span_text`: `if(buffer && len > bytes) buffer[bytes] = 0; return bytes;`
    (`bytes = (size_t)-1` after a failed put never satisfies `len > bytes`). -/
def spanTail (hasBuf : Bool) (len : Nat) (c : CopyOut) : CopyOut :=
  if c.ret < 0 then c
  else if hasBuf && len > c.ret.toNat then { c with stores := c.stores ++ [(c.ret.toNat, 0)] } else c

/-- The TEXT branch of `get_span_text` for a selected text of `bs`: `none` = `return -1` before the tail. -/
def spanTextBranch (fixed : Bool) (hasBuf : Bool) (len : Nat) (bs : List UInt8) : Option CopyOut :=
  let bytes := bs.length
  if !hasBuf then some ⟨bytes, []⟩
  else if len < bytes then none
  else
    let cp := storesAt 0 bs                                  -- strncpy(buffer, text + start.bytes, bytes)
    some ⟨bytes, if fixed then cp else cp ++ [(bytes, 0)]⟩     -- buffer[bytes] = 0  (before the repair)

/-- The bytes the TEXT branch of `get_span_text` selects: from column `offs + offset` of the string, one
    grapheme or (the quirk of the code: an absolute limit) up to column `span->cols`. -/
def textSel (span : Cell) (offset : Int) (oneGrapheme : Bool) (chars : List (List UInt8)) : List UInt8 :=
  let n := chars.length
  let k := (span.offs + offset).toNat
  let start := min k n
  let stop := if oneGrapheme then min (start + 1) n
              else if (start : Int) ≥ span.cols then start else min span.cols.toNat n
  ((chars.drop start).take (stop - start)).flatten

/-- TEXT branch and tail. -/
def textResult (fixed hasBuf : Bool) (len : Nat) (sel : List UInt8) : CopyOut :=
  match spanTextBranch fixed hasBuf len sel with
  | none => ⟨-1, []⟩
  | some c => spanTail hasBuf len c

/-- `linemask_to_char[]` for the three masks `tickit_renderbuffer_hline_at(SINGLE, no caps)` produces. -/
def lineChar (mask : Int) : Nat :=
  if mask = 4 then 0x2576 else if mask = 64 then 0x2574 else if mask = 68 then 0x2500 else 0

/-- `get_span_text` on a span (`none`: text outside the supported repertoire, no prediction). -/
def getSpanText (fixed : Bool) (span : Cell) (offset : Int) (oneGrapheme : Bool) (hasBuf : Bool) (len : Nat) : Option CopyOut :=
  match span.state with
  | .cont => some ⟨-1, []⟩
  | .skip | .erase => some (spanTail hasBuf len ⟨0, []⟩)
  | .text => (splitChars span.text).map (fun chars => textResult fixed hasBuf len (textSel span offset oneGrapheme chars))
  | .line => some (spanTail hasBuf len (utf8Put hasBuf len (lineChar span.mask)))
  | .char => some (spanTail hasBuf len (utf8Put hasBuf len span.cp.toNat))

/-- `tickit_mockterm_get_display_text` over cells whose strings have the given lengths / bytes. -/
def displayText (hasBuf : Bool) (len : Nat) (cells : List (List UInt8)) : CopyOut :=
  let rec go : List (List UInt8) → Bool → Nat → Nat → Nat → List (Nat × UInt8) → CopyOut
    | [], _, _, _, ret, acc => ⟨ret, acc⟩
    | s :: rest, buf, pos, len, ret, acc =>
      let n := s.length
      if buf && n ≠ 0 && len ≥ n then
        -- strcpy(buffer, cell->str): the bytes and the terminator
        let acc := acc ++ storesAt pos (s ++ [0])
        let len := len - n
        go rest (len ≠ 0) (pos + n) len (ret + n) acc
      else go rest buf pos len (ret + n) acc
  go cells hasBuf 0 len 0 []

/-- Highest index stored plus one (0 if nothing is stored). -/
def CopyOut.extent (c : CopyOut) : Nat := c.stores.foldl (fun m p => max m (p.1 + 1)) 0

/-- The caller's buffer after the call (initially `fill`), if every store is inside it. -/
def applyStores (buf : List UInt8) (stores : List (Nat × UInt8)) : List UInt8 :=
  stores.foldl (fun b (i, v) => b.set i v) buf

/-! ## render buffers -/

def rbNewCells (lines cols : Int) : Array (Array Cell) :=
  Array.replicate lines.toNat
    ((Array.replicate cols.toNat ({ state := .cont, cols := 0 } : Cell)).setIfInBounds 0 { state := .skip, cols := cols })

def rbNew (st : St) (lines cols : Int) : St :=
  { st with rbs := st.rbs.push { lines := lines, cols := cols, cells := rbNewCells lines cols } }

def rbRef (st : St) (k : Nat) : Out St :=
  match st.rbs[k]? with
  | none => .ub .mem s!"unknown buffer {k}"
  | some b =>
    if b.freed then .ub .mem s!"use of freed buffer {k}"
    else pure { st with rbs := st.rbs.setIfInBounds k { b with refcount := b.refcount + 1 } }

def rbUnref (st : St) (k : Nat) : Out St :=
  match st.rbs[k]? with
  | none => .ub .mem s!"unknown buffer {k}"
  | some b =>
    if b.freed then .ub .mem s!"use of freed buffer {k}"
    else if b.refcount < 1 then .ub .abort s!"tickit_renderbuffer_unref: invalid refcount on buffer {k}"
    else
      let b := { b with refcount := b.refcount - 1 }
      let b := if b.refcount = 0 then { b with freed := true, cells := #[] } else b
      pure { st with rbs := st.rbs.setIfInBounds k b }

/-- `xlate_and_clip` with no translation and the full clip: `(col, cols, startcol)`. -/
def clipSpan (b : RBObj) (line col cols : Int) : Option (Int × Int × Int) :=
  if b.lines = 0 then none
  else if line < 0 ∨ line ≥ b.lines ∨ col ≥ b.cols then none
  else
    let startcol : Int := if col < 0 then -col else 0
    let cols := if col < 0 then cols + col else cols
    let col := if col < 0 then 0 else col
    if cols ≤ 0 then none
    else some (col, min cols (b.cols - col), startcol)

def getCell (row : Array Cell) (c : Int) : Cell := row[c.toNat]?.getD {}
def setCell (row : Array Cell) (c : Int) (x : Cell) : Array Cell := row.setIfInBounds c.toNat x

/-- `make_span(rb, line, col, cols)` on one row; the caller then fills in the state of `row[col]`.
    `none` = `abort()` (a LINE or CHAR cell followed by a CONT cell: cannot happen). -/
def makeSpan (rbCols : Int) (row : Array Cell) (col cols : Int) : Option (Array Cell) := do
  let «end» := col + cols
  -- If the following cell is a CONT, it needs to become a new start
  let row ← if «end» < rbCols ∧ (getCell row «end»).state = .cont then
      let spanstart := (getCell row «end»).cols
      let spancell := getCell row spanstart
      let spanend := spanstart + spancell.cols
      let afterlen := spanend - «end»
      let endcell? : Option Cell := match spancell.state with
        | .skip => some { (getCell row «end») with state := .skip, cols := afterlen }
        | .text => some { (getCell row «end») with state := .text, cols := afterlen, text := spancell.text,
                                                    offs := spancell.offs + «end» - spanstart }
        | .erase => some { (getCell row «end») with state := .erase, cols := afterlen }
        | _ => none
      match endcell? with
      | none => none
      | some ec =>
        let row := setCell row «end» ec
        some ((List.range (spanend - «end» - 1).toNat).foldl
          (fun r (i : Nat) => let c : Int := «end» + 1 + (i : Int); setCell r c { (getCell r c) with cols := «end» }) row)
    else some row
  -- If the initial cell is a CONT, shorten its start
  let row ← if (getCell row col).state = .cont then
      let beforestart := (getCell row col).cols
      let spancell := getCell row beforestart
      match spancell.state with
      | .skip | .text | .erase => some (setCell row beforestart { spancell with cols := col - beforestart })
      | _ => none
    else some row
  let row := (List.range cols.toNat).foldl
    (fun r (i : Nat) => let c : Int := col + (i : Int); setCell r c { state := .cont, cols := col }) row
  some (setCell row col { (getCell row col) with cols := cols })

/-- A span-creating call (`put_string`, `erase`, `skip`, `put_char`) without masks: one span. -/
def putSpan (b : RBObj) (line col cols : Int) (fill : Cell → Int → Cell) : Out RBObj :=
  match clipSpan b line col cols with
  | none => pure b
  | some (col, cols, startcol) =>
    let row := b.cells[line.toNat]?.getD #[]
    match makeSpan b.cols row col cols with
    | none => .ub .abort "make_span: abort()"
    | some row =>
      let row := setCell row col (fill (getCell row col) startcol)
      pure { b with cells := b.cells.setIfInBounds line.toNat row }

/-- `linecell`. -/
def lineCell (b : RBObj) (line col bits : Int) : Out RBObj :=
  match clipSpan b line col 1 with
  | none => pure b
  | some (col, _, _) =>
    let row := b.cells[line.toNat]?.getD #[]
    if (getCell row col).state ≠ .line then
      match makeSpan b.cols row col 1 with
      | none => .ub .abort "make_span: abort()"
      | some row =>
        let row := setCell row col { (getCell row col) with state := .line, cols := 1, mask := bits }
        pure { b with cells := b.cells.setIfInBounds line.toNat row }
    else
      let c := getCell row col
      let row := setCell row col { c with mask := Int.ofNat (c.mask.toNat ||| bits.toNat) }
      pure { b with cells := b.cells.setIfInBounds line.toNat row }

/-- `tickit_renderbuffer_reset` (also the end of `flush_to_term`). -/
def rbReset (b : RBObj) : RBObj := { b with cells := rbNewCells b.lines b.cols }

/-- `get_span`: the span cell and the offset into it. -/
def getSpanCell (b : RBObj) (line col : Int) : Option (Cell × Int) :=
  match clipSpan b line col 1 with
  | none => none
  | some (col, _, _) =>
    let row := b.cells[line.toNat]?.getD #[]
    let cell := getCell row col
    if cell.state = .cont then some (getCell row cell.cols, col - cell.cols) else some (cell, 0)

end Life
end Tickit
