import Tickit.Model.EvLoop
/-
  `tickit_term_observe_sigwinch` (src/term.c 477–514) next to a toplevel instance on the default event loop.

  term.c keeps a process-wide list of terminals that want to hear about SIGWINCH (`first_sigwinch_observer`,
  `->next_sigwinch_observer`).  Changing it is bracketed by `sigprocmask(SIG_BLOCK, {SIGWINCH}, &oldset)` …
  `sigprocmask(SIG_SETMASK, &oldset, NULL)`; the handler is installed by the first observer and removed with the
  last.  The default loop relies on the signals it watches staying blocked outside `ppoll`: the function must
  leave the mask as it found it.

  The observer list is a Lean list of terminal numbers.  Of the handler only the kernel's table is modelled
  (`St.handled`): who the handler is (the loop's `sighandler` or term.c's `sigwinch`) is not part of `St`, so the
  harness drives only histories in which `sigaction` is not reached: a first terminal observes before the instance
  is built and until the process ends (`new … tt`), a second one joins and leaves (`obs 1` / `obs 0`).

  Core Lean only.
-/
namespace Tickit.EvLoop

/-- `sigprocmask(SIG_SETMASK, &oldset, NULL)`: the mask becomes `old`; a pending signal that is not blocked any
    more is delivered at once (handler or default action, `raiseSig`). -/
def restoreMask (st : St) (old : List Int) : St :=
  (st.kpending.filter fun s => !old.contains s).foldl
    (fun st s => raiseSig { st with kpending := setErase s st.kpending } s) { st with blocked := old }

/-- `sigaction(SIGWINCH, &(struct sigaction){ .sa_handler = sigwinch }, NULL)` (the kernel's table only). -/
def termInstallHandler (st : St) : St := { st with handled := setInsert SIGWINCH st.handled }

/-- `sigaction(SIGWINCH, SIG_DFL)`: the default action of SIGWINCH is "ignore": a pending one is discarded. -/
def termRemoveHandler (st : St) : St :=
  { st with handled := setErase SIGWINCH st.handled, kpending := setErase SIGWINCH st.kpending }

/-- The body of `tickit_term_observe_sigwinch(tt, observe)` between the two `sigprocmask` calls. -/
def termObserveBody (obs : List Nat) (st : St) (tt : Nat) (observe : Bool) : List Nat × St :=
  if observe && !obs.contains tt then
    (obs ++ [tt], if obs.isEmpty then termInstallHandler st else st)
  else if !observe && obs.contains tt then
    (obs.erase tt, if (obs.erase tt).isEmpty then termRemoveHandler st else st)
  else (obs, st)

/-- `tickit_term_observe_sigwinch(tt, observe)`: `obs` is the observer list before, the result the list after and
    the process state. -/
def termObserve (obs : List Nat) (st : St) (tt : Nat) (observe : Bool) : List Nat × St :=
  ((termObserveBody obs { st with blocked := setInsert SIGWINCH st.blocked } tt observe).1,
   restoreMask (termObserveBody obs { st with blocked := setInsert SIGWINCH st.blocked } tt observe).2 st.blocked)

end Tickit.EvLoop
