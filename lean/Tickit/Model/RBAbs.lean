import Tickit.Model.RB
/-
  The specification of C03: an abstract render buffer — a grid of cell contents indexed by all of
  `Int × Int`, a set of masked cells, and the auxiliary state — with a one-line, cell-wise definition of
  every operation.  Nothing here knows about runs, CONT cells or mask depths:

  * a drawing operation changes exactly the cells it covers (in coordinates shifted by the translation in
    force) that are inside the clipping region and not masked, to its own content and the current pen
    (`paint`); line segments OR into a cell that already holds a line (`mergeLine`);
  * `save` records translation, clip, pen, masks *and the whole virtual cursor*; `restore` brings them back;
  * the clipping region only ever shrinks (`clip` intersects);
  * cursor-relative operations advance the cursor by the columns requested, drawn or not.

  `abs : RB → AState` reads a concrete buffer as an abstract one (what `get_span` does, without clip and
  translation).  The same definitions are the runtime oracle of the driver (`SPEC`) and the right-hand side
  of the refinement theorems.  No Mathlib.
-/
namespace Tickit.RBAbs
open Tickit Tickit.RB

/-- What one cell shows. `text pen s k`: column `k` of the string `s`. -/
inductive Content
  | skip
  | text (pen : Pen) (s : List UInt8) (k : Int)
  | erase (pen : Pen)
  | line (pen : Pen) (mask : Nat)
  | char (pen : Pen) (cp : Int)
deriving DecidableEq, Repr, Inhabited

/-- A saved state. A `penOnly` frame (from `savepen`) restores only pen and masks. -/
structure AFrame where
  penOnly : Bool
  vc : Option (Int × Int)
  xlLine : Int
  xlCol : Int
  clip : Int → Int → Bool
  pen : Pen
  masked : Int → Int → Bool

structure AState where
  lines : Int
  cols : Int
  content : Int → Int → Content
  masked : Int → Int → Bool
  /-- the virtual cursor, if set -/
  vc : Option (Int × Int)
  xlLine : Int
  xlCol : Int
  /-- the clipping region (buffer coordinates) -/
  clip : Int → Int → Bool
  pen : Pen
  stack : List AFrame

def inBuf (lines cols L C : Int) : Bool := decide (0 ≤ L) && decide (L < lines) && decide (0 ≤ C) && decide (C < cols)

/-- A fresh buffer: everything skipped, nothing masked, clip = the whole buffer. -/
def AState.new (lines cols : Int) : AState :=
  { lines := lines, cols := cols
    content := fun _ _ => .skip
    masked := fun _ _ => false
    vc := none, xlLine := 0, xlCol := 0
    clip := inBuf lines cols
    pen := Pen.empty, stack := [] }

/-- May a drawing operation change cell `(L, C)` (buffer coordinates)? -/
def AState.writable (a : AState) (L C : Int) : Bool := a.clip L C && !a.masked L C

/-- The generic drawing operation: every writable cell whose *user* coordinates `(L − xlLine, C − xlCol)`
    satisfy `covers` gets `what` (also given the user coordinates); all other cells keep their content. -/
def paint (a : AState) (covers : Int → Int → Bool) (what : Int → Int → Content → Content) : AState :=
  { a with content := fun L C =>
      if covers (L - a.xlLine) (C - a.xlCol) && a.writable L C
      then what (L - a.xlLine) (C - a.xlCol) (a.content L C) else a.content L C }

/-- `cols` columns starting at `(line, col)`. -/
def inRun (line col cols : Int) (l c : Int) : Bool := decide (l = line) && decide (col ≤ c) && decide (c < col + cols)

def eraseAt (a : AState) (line col cols : Int) : AState :=
  paint a (inRun line col cols) (fun _ _ _ => .erase a.pen)

def skipAt (a : AState) (line col cols : Int) : AState :=
  paint a (inRun line col cols) (fun _ _ _ => .skip)

/-- A text the width counter accepts occupies its columns; a rejected one draws nothing. -/
def textAt (a : AState) (line col : Int) (s : List UInt8) : AState :=
  match Utf8.stringColumns s with
  | none => a
  | some n => paint a (inRun line col n) (fun _ c _ => .text a.pen s (c - col))

def charAt (a : AState) (line col : Int) (cp : Int) : AState :=
  paint a (inRun line col 1) (fun _ _ _ => .char a.pen cp)

/-- Line segments accumulate; the pen is the current one unless the cell's pen is already equivalent. -/
def mergeLine (pen : Pen) (bits : Nat) (old : Content) : Content :=
  match old with
  | .line p m => .line (if Pen.equiv p pen then p else pen) (m ||| bits)
  | _ => .line pen bits

def linecell (a : AState) (line col : Int) (bits : Nat) : AState :=
  paint a (inRun line col 1) (fun _ _ old => mergeLine a.pen bits old)

def lineLoop (cellAt : Int → Int × Int) (bits : Nat) (a : AState) (from_ : Int) : Nat → AState
  | 0 => a
  | n + 1 => lineLoop cellAt bits (linecell a (cellAt from_).1 (cellAt from_).2 bits) (from_ + 1) n

open Tickit.Gen.RBWidth in
def hlineAt (a : AState) (line startcol endcol : Int) (style caps : Nat) : AState :=
  let east := style <<< c_EAST_SHIFT
  let west := style <<< c_WEST_SHIFT
  let a := linecell a line startcol (east ||| (if caps &&& c_TICKIT_LINECAP_START ≠ 0 then west else 0))
  let a := lineLoop (fun col => (line, col)) (east ||| west) a (startcol + 1) (endcol - 1 - startcol).toNat
  linecell a line endcol ((if caps &&& c_TICKIT_LINECAP_END ≠ 0 then east else 0) ||| west)

open Tickit.Gen.RBWidth in
def vlineAt (a : AState) (startline endline col : Int) (style caps : Nat) : AState :=
  let north := style <<< c_NORTH_SHIFT
  let south := style <<< c_SOUTH_SHIFT
  let a := linecell a startline col (south ||| (if caps &&& c_TICKIT_LINECAP_START ≠ 0 then north else 0))
  let a := lineLoop (fun line => (line, col)) (south ||| north) a (startline + 1) (endline - 1 - startline).toNat
  linecell a endline col ((if caps &&& c_TICKIT_LINECAP_END ≠ 0 then south else 0) ||| north)

def eraserect (a : AState) (r : Rect) : AState := paint a r.memb (fun _ _ _ => .erase a.pen)
def skiprect (a : AState) (r : Rect) : AState := paint a r.memb (fun _ _ _ => .skip)
/-- `clear` erases the rectangle `(0,0,lines,cols)` *in user coordinates*. -/
def clear (a : AState) : AState := eraserect a ⟨0, 0, a.lines, a.cols⟩

def goto (a : AState) (line col : Int) : AState := { a with vc := some (line, col) }
def ungoto (a : AState) : AState := { a with vc := none }

/-- Cursor-relative drawing: draw at the cursor, then advance by `adv` whether or not anything was visible. -/
def atCursor (a : AState) (draw : AState → Int → Int → AState) (adv : Int) : AState :=
  match a.vc with
  | none => a
  | some (l, c) => { draw a l c with vc := some (l, c + adv) }

def erase (a : AState) (cols : Int) : AState := atCursor a (fun a l c => eraseAt a l c cols) cols
def skip (a : AState) (cols : Int) : AState := atCursor a (fun a l c => skipAt a l c cols) cols
def char (a : AState) (cp : Int) : AState := atCursor a (fun a l c => charAt a l c cp) 1
/-- Stated for texts the width counter accepts; for a rejected text the code moves the cursor by −1 and the
    property is silent (the specification copies that so that it stays a total function). -/
def text (a : AState) (s : List UInt8) : AState :=
  atCursor a (fun a l c => textAt a l c s) (putStringRet s)

def eraseTo (a : AState) (col : Int) : AState :=
  match a.vc with
  | none => a
  | some (l, c) => { eraseAt a l c (col - c) with vc := some (l, col) }

def skipTo (a : AState) (col : Int) : AState :=
  match a.vc with
  | none => a
  | some (l, c) => { skipAt a l c (col - c) with vc := some (l, col) }

def translate (a : AState) (downward rightward : Int) : AState :=
  { a with xlLine := a.xlLine + downward, xlCol := a.xlCol + rightward }

/-- Clipping intersects: it can only shrink. -/
def clip (a : AState) (r : Rect) : AState :=
  { a with clip := fun L C => a.clip L C && r.memb (L - a.xlLine) (C - a.xlCol) }

/-- Masking adds the buffer cells of the (translated) rectangle. -/
def mask (a : AState) (r : Rect) : AState :=
  { a with masked := fun L C => a.masked L C || (inBuf a.lines a.cols L C && r.memb (L - a.xlLine) (C - a.xlCol)) }

/-- Attribute-wise: the new pen's attribute, else the saved pen's. -/
def orElse {α : Type} (a b : Option α) : Option α :=
  match a with
  | some v => some v
  | none => b

def mergePen (p q : Pen) : Pen :=
  { fg := orElse p.fg q.fg, bg := orElse p.bg q.bg, bold := orElse p.bold q.bold, under := orElse p.under q.under,
    italic := orElse p.italic q.italic, reverse := orElse p.reverse q.reverse, strike := orElse p.strike q.strike,
    altfont := orElse p.altfont q.altfont, blink := orElse p.blink q.blink, sizepos := orElse p.sizepos q.sizepos }

/-- The pen becomes the given one, completed by the pen saved on top of the stack. -/
def setpen (a : AState) (pen : Option Pen) : AState :=
  let p := pen.getD Pen.empty
  match a.stack with
  | f :: _ => { a with pen := mergePen p f.pen }
  | [] => { a with pen := p }

def save (a : AState) : AState :=
  { a with stack := { penOnly := false, vc := a.vc, xlLine := a.xlLine, xlCol := a.xlCol, clip := a.clip,
                      pen := a.pen, masked := a.masked } :: a.stack }

def savepen (a : AState) : AState :=
  { a with stack := { penOnly := true, vc := a.vc, xlLine := a.xlLine, xlCol := a.xlCol, clip := a.clip,
                      pen := a.pen, masked := a.masked } :: a.stack }

def restore (a : AState) : AState :=
  match a.stack with
  | [] => a
  | f :: rest =>
    if f.penOnly then { a with pen := f.pen, masked := f.masked, stack := rest }
    else { a with pen := f.pen, masked := f.masked, stack := rest,
                  vc := f.vc, xlLine := f.xlLine, xlCol := f.xlCol, clip := f.clip }

def reset (a : AState) : AState := AState.new a.lines a.cols

/-- The specification of one operation. -/
def step (a : AState) : Op → AState
  | .textAt l c s => textAt a l c s
  | .text s => text a s
  | .eraseAt l c n => eraseAt a l c n
  | .erase n => erase a n
  | .eraseTo c => eraseTo a c
  | .skipAt l c n => skipAt a l c n
  | .skip n => skip a n
  | .skipTo c => skipTo a c
  | .charAt l c cp => charAt a l c cp
  | .char cp => char a cp
  | .hlineAt l c1 c2 st caps => hlineAt a l c1 c2 st caps
  | .vlineAt l1 l2 c st caps => vlineAt a l1 l2 c st caps
  | .clear => clear a
  | .eraserect r => eraserect a r
  | .skiprect r => skiprect a r
  | .goto l c => goto a l c
  | .ungoto => ungoto a
  | .translate d r => translate a d r
  | .clip r => clip a r
  | .mask r => mask a r
  | .setpen p => setpen a p
  | .save => save a
  | .savepen => savepen a
  | .restore => restore a
  | .reset => reset a

def run (a : AState) (prog : List Op) : AState := prog.foldl step a

/-! ### Reading a concrete buffer as an abstract one -/

/-- The content shown at `(L, C)`: look up the start of the run (as `get_span` does). -/
def absContent (rb : RB) (L C : Int) : Content :=
  if inBuf rb.lines rb.cols L C then
    let c := rb.cell L C
    let start := if c.state = .cont then rb.cell L c.cols else c
    let off := if c.state = .cont then C - c.cols else 0
    match start.state with
    | .skip => .skip
    | .text => .text start.pen start.text (start.offs + off)
    | .erase => .erase start.pen
    | .line => .line start.pen start.lmask
    | .char => .char start.pen start.cp
    | .cont => .skip
  else .skip

def absMasked (rb : RB) (L C : Int) : Bool := inBuf rb.lines rb.cols L C && decide ((rb.cell L C).maskdepth > -1)

/-- The clipping region of `xlate_and_clip` for a single cell. -/
def absClipRect (r : Rect) (L C : Int) : Bool := decide (r.lines ≠ 0) && r.memb L C

/-- The masks that were in force when the frame now at stack position `j` (0 = top) was pushed:
    the cells whose mask depth does not exceed the depth at that time. -/
def absMaskedAt (rb : RB) (savedDepth : Int) (L C : Int) : Bool :=
  absMasked rb L C && decide ((rb.cell L C).maskdepth ≤ savedDepth)

end Tickit.RBAbs
