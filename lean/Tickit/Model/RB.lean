import Tickit.Model.Rect
import Tickit.Gen.RBWidth
/-
  Concrete model of /repo/src/renderbuffer.c (everything except `flush_to_term`, `copyrect`, `moverect`,
  `blit`, `get_span` and the libc formatting of `vtextf`), statement by statement, together with the parts
  of src/pen.c (`tickit_pen_copy`, `tickit_pen_equiv`), src/utf8.c (`next_utf8`, `tickit_utf8_ncountmore`,
  `tickit_utf8_put`), src/unicode.h (`bisearch`, `mk_wcwidth`, `tickit_utf8_wcwidth`) and src/string.c it uses.

  Conventions (DESIGN.md §3):
  * C `int` is unbounded `Int`; cells are indexed by `Int` line and column, the grid is a total function
    `Int → Int → Cell` (the C arrays are `[0,lines) × [0,cols)`; that every access of the code stays inside
    is a theorem about the model (`Proof/RB.lean`) and the sanitizers' business on the real run).
  * `for` loops that assign independent elements are written in closed form; loops whose iterations depend
    on one another (`put_string`/`skip`/`erase` run placement, `hline`/`vline`, the `*rect` loops) are
    recursive.  The run placement loop takes a fuel; running out is the sticky `fuelOut` flag.
  * `abort()` (the "unreachable" arms of `make_span`) is the sticky `aborted` flag.
  * `tickit_renderbuffer_new` leaves `vc_line`/`vc_col` uninitialised and `save` copies them (together with
    `vc_pos_set`, which says they are meaningless): the indeterminate values are explicit parameters of `RB.new`.
  * Pens and strings are values (reference counts are not modelled here; the real run is under ASan/LSan).
    A NULL pen pointer in a cell is the empty pen: the field is only read in states that assigned it.
  * Pen attribute values are taken inside the range of their bit-fields (no wrap-around here; that is C19).
  * The text-width part is a self-contained transcription sufficient for the render buffer; it is proved equal to
    the C07 model (`Model/Utf8`, `Model/Width`) in `Proof/RBUtf8.lean` (kept here so that rbcopy/rbflush keep their names).
  No Mathlib: this file is linked into the driver executable.
-/
namespace Tickit.RB

/-! ## Pens (src/pen.c): attribute → optional value -/

structure RGB where
  r : Nat
  g : Nat
  b : Nat
deriving DecidableEq, Repr, Inhabited

/-- A colour attribute that is set: palette index and, optionally, the RGB8 refinement
    (`valid.fg_rgb8` can only be set while `valid.fgindex` is). -/
structure Colour where
  idx : Int
  rgb : Option RGB
deriving DecidableEq, Repr, Inhabited

/-- `struct TickitPen` as a partial map; `none` = the `valid.*` bit is clear. Field order = attribute ids. -/
structure Pen where
  fg      : Option Colour := none
  bg      : Option Colour := none
  bold    : Option Bool := none
  under   : Option Int := none
  italic  : Option Bool := none
  reverse : Option Bool := none
  strike  : Option Bool := none
  altfont : Option Int := none
  blink   : Option Bool := none
  sizepos : Option Int := none
deriving DecidableEq, Repr, Inhabited

namespace Pen

/-- `tickit_pen_new()` after `tickit_pen_clear`. -/
def empty : Pen := {}

/-- `tickit_pen_get_bool_attr`: false when absent. -/
def getBool (a : Option Bool) : Bool := a.getD false
/-- `tickit_pen_get_int_attr`: 0 when absent. -/
def getInt (a : Option Int) : Int := a.getD 0
/-- `tickit_pen_get_colour_attr`: `COLOUR_DEFAULT` (−1) when absent. -/
def getColour (a : Option Colour) : Int :=
  match a with
  | none => -1
  | some c => c.idx
/-- `tickit_pen_has_colour_attr_rgb8` + `tickit_pen_get_colour_attr_rgb8`. -/
def getRgb (a : Option Colour) : Option RGB :=
  match a with
  | none => none
  | some c => c.rgb

/-- `tickit_pen_equiv_attr` for the three attribute types. -/
def equivBool (a b : Option Bool) : Bool := getBool a == getBool b
def equivInt (a b : Option Int) : Bool := getInt a == getInt b
def equivColour (a b : Option Colour) : Bool :=
  if getColour a ≠ getColour b then false
  else match getRgb a, getRgb b with
    | none, none => true
    | some x, some y => x.r == y.r && x.g == y.g && x.b == y.b
    | _, _ => false

/-- `tickit_pen_equiv` (the pointer-equality shortcut is subsumed: equal values are equivalent). -/
def equiv (a b : Pen) : Bool :=
  equivColour a.fg b.fg && equivColour a.bg b.bg && equivBool a.bold b.bold && equivInt a.under b.under &&
  equivBool a.italic b.italic && equivBool a.reverse b.reverse && equivBool a.strike b.strike &&
  equivInt a.altfont b.altfont && equivBool a.blink b.blink && equivInt a.sizepos b.sizepos

/-- One iteration of the loop of `tickit_pen_copy`: `eqv src dst` is `tickit_pen_equiv_attr(src, dst, attr)`;
    `tickit_pen_copy_attr` stores `get(src)` and sets the valid bit, i.e. `src`'s value. -/
def copyAttr {α : Type} (eqv : Option α → Option α → Bool) (overwrite : Bool) (dst src : Option α) : Option α :=
  if src.isNone then dst
  else if dst.isSome && (!overwrite || eqv src dst) then dst
  else src

/-- `tickit_pen_copy(dst, src, overwrite)`. -/
def copy (dst src : Pen) (overwrite : Bool) : Pen :=
  { fg      := copyAttr equivColour overwrite dst.fg src.fg
    bg      := copyAttr equivColour overwrite dst.bg src.bg
    bold    := copyAttr equivBool overwrite dst.bold src.bold
    under   := copyAttr equivInt overwrite dst.under src.under
    italic  := copyAttr equivBool overwrite dst.italic src.italic
    reverse := copyAttr equivBool overwrite dst.reverse src.reverse
    strike  := copyAttr equivBool overwrite dst.strike src.strike
    altfont := copyAttr equivInt overwrite dst.altfont src.altfont
    blink   := copyAttr equivBool overwrite dst.blink src.blink
    sizepos := copyAttr equivInt overwrite dst.sizepos src.sizepos }

end Pen

/-! ## Text widths (src/utf8.c, src/unicode.h) -/

namespace Utf8
open Tickit.Gen.RBWidth

/-- `str[i]` of a `TickitString` (`len` bytes followed by NUL). -/
def byteAt (s : List UInt8) (i : Nat) : Nat := (s.getD i 0).toNat

/-- `bisearch`'s loop (`min`, `max` are C ints). -/
def bisearchLoop (t : Array (Nat × Nat)) (ucs : Nat) : Nat → Int → Int → Bool
  | 0, _, _ => false
  | fuel + 1, mn, mx =>
    if mx ≥ mn then
      let mid := (mn + mx) / 2
      let e := t.getD mid.toNat (0, 0)
      if ucs > e.2 then bisearchLoop t ucs fuel (mid + 1) mx
      else if ucs < e.1 then bisearchLoop t ucs fuel mn (mid - 1)
      else true
    else false

/-- `bisearch(ucs, table, max)` with `max = size − 1`. -/
def bisearch (t : Array (Nat × Nat)) (ucs : Nat) : Bool :=
  let mx : Int := (t.size : Int) - 1
  if ucs < (t.getD 0 (0, 0)).1 || ucs > (t.getD mx.toNat (0, 0)).2 then false
  else bisearchLoop t ucs (t.size + 1) 0 mx

/-- `mk_wcwidth`; the two range expressions are regenerated from the source. -/
def mkWcwidth (ucs : Nat) : Int :=
  if ucs = 0 then 0
  else if ctrlExpr ucs then -1
  else if bisearch combining ucs then 0
  else 1 + (if wideExpr ucs then 1 else 0)

/-- `tickit_utf8_wcwidth`. -/
def wcwidth (cp : Nat) : Int :=
  if bisearch fullwidth cp then 2 else mkWcwidth cp

/-- Result of `next_utf8`: bytes consumed and code point. -/
structure Dec where
  n : Nat
  cp : Nat
deriving DecidableEq, Repr

/-- The continuation-byte loop of `next_utf8`: only a NUL byte is rejected. -/
def contBytes (s : List UInt8) : Nat → Nat → Nat → Option Nat
  | 0, _, cp => some cp
  | k + 1, i, cp =>
    let b := byteAt s i
    if b = 0 then none else contBytes s k (i + 1) (cp * 64 + b % 64)

/-- `next_utf8(str + i, len, &cp)`; `len = none` is `(size_t)-1`; `none` is the `-1` return. -/
def nextUtf8 (s : List UInt8) (i : Nat) (len : Option Nat) : Option Dec :=
  let b0 := byteAt s i
  if len = some 0 then none
  else if b0 = 0 then none
  else if b0 < 0x80 then some ⟨1, b0⟩
  else if b0 < 0xc0 then none
  else if b0 < 0xf8 then
    let nbytes := if b0 < 0xe0 then 2 else if b0 < 0xf0 then 3 else 4
    let cp0 := if b0 < 0xe0 then b0 % 32 else if b0 < 0xf0 then b0 % 16 else b0 % 8
    if (match len with | none => false | some l => decide (l < nbytes)) then none
    else match contBytes s (nbytes - 1) (i + 1) cp0 with
      | none => none
      | some cp => some ⟨nbytes, cp⟩
  else none

/-- `TickitStringPos`; as a limit, −1 means "no limit" (for `bytes`: `(size_t)-1`). -/
structure StrPos where
  bytes : Int := 0
  codepoints : Int := 0
  graphemes : Int := 0
  columns : Int := 0
deriving DecidableEq, Repr, Inhabited

def limitColumns (n : Int) : StrPos := ⟨-1, -1, -1, n⟩
def limitGraphemes (n : Int) : StrPos := ⟨-1, -1, n, -1⟩

inductive CountStatus | ok | err | fuel
deriving DecidableEq, Repr

/-- What `tickit_utf8_ncountmore` leaves behind: the return status and `*pos`. -/
structure CountRes where
  status : CountStatus
  pos : StrPos
deriving DecidableEq, Repr

/-- The `while(len != 0 && *str)` loop of `tickit_utf8_ncountmore`; `off` is `str − string start`. -/
def countLoop (s : List UInt8) (limit : Option StrPos) : Nat → Nat → Option Nat → StrPos → StrPos → CountRes
  | 0, _, _, pos, _ => ⟨.fuel, pos⟩
  | fuel + 1, off, len, pos, here =>
    if len = some 0 || byteAt s off = 0 then ⟨.ok, here⟩      -- loop exit + "commit on the final grapheme"
    else match nextUtf8 s off len with
      | none => ⟨.err, pos⟩
      | some d =>
        if d.cp < 0x20 || (d.cp ≥ 0x80 && d.cp < 0xa0) then ⟨.err, pos⟩
        else
          let width := wcwidth d.cp
          if width = -1 then ⟨.err, pos⟩
          else
            let isG : Int := if width > 0 then 1 else 0
            let pos := if width > 0 then here else pos
            let stop := match limit with
              | none => false
              | some l =>
                (l.bytes ≠ -1 && here.bytes + d.n > l.bytes) ||
                (l.codepoints ≠ -1 && here.codepoints + 1 > l.codepoints) ||
                (l.graphemes ≠ -1 && here.graphemes + isG > l.graphemes) ||
                (l.columns ≠ -1 && here.columns + width > l.columns)
            if stop then ⟨.ok, pos⟩     -- break: neither `len == 0` nor `*str == 0` holds, no final commit
            else
              countLoop s limit fuel (off + d.n) (len.map (· - d.n)) pos
                { bytes := here.bytes + d.n, codepoints := here.codepoints + 1,
                  graphemes := here.graphemes + isG, columns := here.columns + width }

/-- `tickit_utf8_ncountmore(str, len, pos, limit)`. -/
def ncountmore (s : List UInt8) (len : Option Nat) (pos : StrPos) (limit : Option StrPos) : CountRes :=
  countLoop s limit (s.length + 1) pos.bytes.toNat (len.map (· - pos.bytes.toNat)) pos pos

/-- `tickit_utf8_ncount(tickit_string_get(s), tickit_string_len(s), &endpos, NULL)` as used by `put_string`:
    `some columns`, or `none` for the `-1` return. -/
def stringColumns (s : List UInt8) : Option Int :=
  let r := ncountmore s (some s.length) {} none
  match r.status with
  | .ok => some r.pos.columns
  | _ => none

/-- `tickit_utf8_seqlen`. -/
def seqlen (cp : Int) : Nat :=
  if cp < 0x80 then 1 else if cp < 0x800 then 2 else if cp < 0x10000 then 3
  else if cp < 0x200000 then 4 else if cp < 0x4000000 then 5 else 6

/-- The trailing bytes written backwards by `tickit_utf8_put`. -/
def putTail : Nat → Nat → List UInt8 → List UInt8
  | 0, _, acc => acc
  | k + 1, cp, acc => putTail k (cp / 64) (UInt8.ofNat (0x80 + cp % 64) :: acc)

/-- `tickit_utf8_put` for a non-negative code point: the bytes written. -/
def put (cp : Nat) : List UInt8 :=
  let n := seqlen cp
  let top := cp / 64 ^ (n - 1)
  let lead : Nat := match n with
    | 1 => top % 128
    | 2 => 0xc0 + top % 32
    | 3 => 0xe0 + top % 16
    | 4 => 0xf0 + top % 8
    | 5 => 0xf8 + top % 4
    | _ => 0xfc + top % 2
  UInt8.ofNat lead :: putTail (n - 1) cp []

end Utf8

/-! ## Cells and the buffer -/

/-- `enum TickitRenderBufferCellState`. -/
inductive CState | skip | text | erase | cont | line | char
deriving DecidableEq, Repr, Inhabited

/-- The numeric value of a state as in the C enum (tied to `Gen.RBWidth` in `Proof/RB.lean`). -/
def CState.toNat : CState → Nat
  | .skip => 0 | .text => 1 | .erase => 2 | .cont => 3 | .line => 4 | .char => 5

/-- `RBCell`.  `cols` is the anonymous union `{ startcol; cols }`; the members of the union `v` are separate
    fields (each is only read in the state that wrote it). -/
structure Cell where
  state : CState := .skip
  cols : Int := 0
  maskdepth : Int := -1
  pen : Pen := {}
  text : List UInt8 := []
  offs : Int := 0
  lmask : Nat := 0
  cp : Int := 0
deriving DecidableEq, Repr, Inhabited

/-- One line of cells, `cells[line]`, indexed by an `Int` column.  (A structure rather than a bare function so
    that the compiled model evaluates the `let`s of a row transformer once, not at every lookup.) -/
structure Row where
  get : Int → Cell

/-- `RBStack`.  In a `pen_only` frame only `pen` is initialised (the other fields are never read).
    `vcPosSet` is the `vc_pos_set` bit added by the repair 85271b4 (save/restore must also save whether the
    virtual cursor is set). -/
structure Frame where
  penOnly : Bool
  vcPosSet : Bool := false
  vcLine : Int := 0
  vcCol : Int := 0
  xlLine : Int := 0
  xlCol : Int := 0
  clip : Rect := ⟨0, 0, 0, 0⟩
  pen : Pen := {}
deriving DecidableEq, Repr, Inhabited

/-- `struct TickitRenderBuffer` (without `tmp`, `refcount`).  `stack` is the linked list, newest first. -/
structure RB where
  lines : Int
  cols : Int
  cells : Int → Row
  vcSet : Bool
  vcLine : Int
  vcCol : Int
  xlLine : Int
  xlCol : Int
  clip : Rect
  pen : Pen
  depth : Int
  stack : List Frame
  /-- an `abort()` was reached -/
  aborted : Bool := false
  /-- a fuel-bounded loop of the model ran out (never, see `Proof/RB.lean`) -/
  fuelOut : Bool := false

/-- `0 ≤ line < lines ∧ 0 ≤ col < cols`. -/
def RB.inGrid (rb : RB) (line col : Int) : Prop := 0 ≤ line ∧ line < rb.lines ∧ 0 ≤ col ∧ col < rb.cols

instance (rb : RB) (l c : Int) : Decidable (rb.inGrid l c) := by unfold RB.inGrid; exact inferInstance

/-- `cells[line][col]`. -/
@[inline] def RB.cell (rb : RB) (line col : Int) : Cell := (rb.cells line).get col

/-- Assignment to one element of a row. -/
def rowSet (row : Row) (i : Int) (v : Cell) : Row := ⟨fun k => if k = i then v else row.get k⟩

/-- Replace `cells[line]`. -/
def RB.setRow (rb : RB) (line : Int) (row : Row) : RB :=
  { rb with cells := fun l => if l = line then row else rb.cells l }

/-- `tickit_renderbuffer_new(lines, cols)`; `g1`, `g2` are the indeterminate contents of `vc_line`, `vc_col`. -/
def RB.new (lines cols g1 g2 : Int) : RB :=
  { lines := lines, cols := cols
    cells := fun _ => ⟨fun c => if c = 0 then { state := .skip, maskdepth := -1, cols := cols } else { state := .cont, maskdepth := -1, cols := 0 }⟩
    vcSet := false, vcLine := g1, vcCol := g2
    xlLine := 0, xlCol := 0
    clip := ⟨0, 0, lines, cols⟩
    pen := Pen.empty
    depth := 0, stack := [] }

/-! ### `xlate_and_clip` -/

structure Clipped where
  line : Int
  col : Int
  cols : Int
  startcol : Int
deriving DecidableEq, Repr

/-- `xlate_and_clip(rb, &line, &col, &cols, &startcol)`; `none` is the 0 return. -/
def xlateAndClip (rb : RB) (line col cols : Int) : Option Clipped :=
  let line := line + rb.xlLine
  let col := col + rb.xlCol
  if rb.clip.lines = 0 then none
  else if line < rb.clip.top ∨ line ≥ rb.clip.bottom ∨ col ≥ rb.clip.right then none
  else
    let cols1 := if col < rb.clip.left then cols - (rb.clip.left - col) else cols
    let startcol := if col < rb.clip.left then rb.clip.left - col else 0
    let col1 := if col < rb.clip.left then rb.clip.left else col
    if cols1 ≤ 0 then none
    else some { line := line, col := col1, startcol := startcol
                cols := if cols1 > rb.clip.right - col1 then rb.clip.right - col1 else cols1 }

/-! ### `cont_cell`, `make_span` -/

/-- `cont_cell(cell, startcol)` (the unrefs are not modelled). -/
def contCell (c : Cell) (startcol : Int) : Cell :=
  { c with state := .cont, maskdepth := -1, cols := startcol, pen := Pen.empty }

/-- First block of `make_span`: "if the following cell is a CONT, it needs to become a new start". -/
def splitAfter (ncols : Int) (row : Row) (end_ : Int) : Row :=
  if end_ < ncols ∧ (row.get end_).state = .cont then
    let spanstart := (row.get end_).cols
    let spancell := row.get spanstart
    let spanend := spanstart + spancell.cols
    let afterlen := spanend - end_
    let endcell : Cell :=
      match spancell.state with
      | .skip => { row.get end_ with state := .skip, cols := afterlen }
      | .text => { row.get end_ with state := .text, cols := afterlen, pen := spancell.pen,
                                     text := spancell.text, offs := spancell.offs + end_ - spanstart }
      | .erase => { row.get end_ with state := .erase, cols := afterlen, pen := spancell.pen }
      | _ => row.get end_
    ⟨fun k =>
      let cell := row.get k
      if k = end_ then endcell
      else if end_ + 1 ≤ k ∧ k < spanend then { cell with cols := end_ }
      else cell⟩
  else row

/-- Does the first block reach `abort()`? -/
def splitAfterAborts (ncols : Int) (row : Row) (end_ : Int) : Bool :=
  if end_ < ncols ∧ (row.get end_).state = .cont then
    match (row.get (row.get end_).cols).state with
    | .line | .char | .cont => true
    | _ => false
  else false

/-- Second block: "if the initial cell is a CONT, shorten its start". -/
def shortenBefore (row : Row) (col : Int) : Row :=
  if (row.get col).state = .cont then
    let beforestart := (row.get col).cols
    let spancell := row.get beforestart
    match spancell.state with
    | .skip | .text | .erase => rowSet row beforestart { spancell with cols := col - beforestart }
    | _ => row
  else row

def shortenBeforeAborts (row : Row) (col : Int) : Bool :=
  if (row.get col).state = .cont then
    match (row.get (row.get col).cols).state with
    | .line | .char | .cont => true
    | _ => false
  else false

/-- `make_span` on one line: the four blocks in order. -/
def makeSpanRow (ncols : Int) (row : Row) (col cols : Int) : Row :=
  let end_ := col + cols
  let row1 := splitAfter ncols row end_
  let row2 := shortenBefore row1 col
  let row3 : Row := ⟨fun k => let cell := row2.get k; if col ≤ k ∧ k < end_ then contCell cell col else cell⟩
  rowSet row3 col { row3.get col with cols := cols }

def makeSpanAborts (ncols : Int) (row : Row) (col cols : Int) : Bool :=
  splitAfterAborts ncols row (col + cols) || shortenBeforeAborts (splitAfter ncols row (col + cols)) col

/-- `make_span(rb, line, col, cols)`; the returned pointer is `&cells[line][col]`. -/
def makeSpan (rb : RB) (line col cols : Int) : RB :=
  { rb.setRow line (makeSpanRow rb.cols (rb.cells line) col cols) with
    aborted := rb.aborted || makeSpanAborts rb.cols (rb.cells line) col cols }

/-- Assignments through the pointer returned by `make_span`. -/
def RB.updCell (rb : RB) (line col : Int) (f : Cell → Cell) : RB :=
  rb.setRow line (rowSet (rb.cells line) col (f (rb.cell line col)))

/-! ### Mask-aware run placement: `put_string`, `skip`, `erase` -/

/-- `while(cols && linecells[col].maskdepth > -1) { col++; cols--; }`: how many iterations. -/
def maskedLen (row : Row) : Nat → Int → Nat
  | 0, _ => 0
  | n + 1, col => if (row.get col).maskdepth > -1 then maskedLen row n (col + 1) + 1 else 0

/-- `while(cols && linecells[col + spanlen].maskdepth == -1) { spanlen++; cols--; }`: `spanlen`. -/
def unmaskedLen (row : Row) : Nat → Int → Nat
  | 0, _ => 0
  | n + 1, col => if (row.get col).maskdepth = -1 then unmaskedLen row n (col + 1) + 1 else 0

/-- The `while(cols)` loop shared by `put_string`, `skip` and `erase`.  `fill cell startcol` is the block of
    assignments after `make_span` (`startcol` is only used by `put_string`). -/
def placeRuns (fill : Cell → Int → Cell) (line : Int) : Nat → RB → Int → Int → Int → RB
  | 0, rb, _, cols, _ => if cols = 0 then rb else { rb with fuelOut := true }
  | fuel + 1, rb, col, cols, startcol =>
    if cols = 0 then rb
    else
      let m : Int := maskedLen (rb.cells line) cols.toNat col
      let col := col + m
      let cols := cols - m
      let startcol := startcol + m
      if cols = 0 then rb
      else
        let spanlen : Int := unmaskedLen (rb.cells line) cols.toNat col
        if spanlen = 0 then rb
        else
          let rb := (makeSpan rb line col spanlen).updCell line col (fun c => fill c startcol)
          placeRuns fill line fuel rb (col + spanlen) (cols - spanlen) (startcol + spanlen)

def fillText (pen : Pen) (s : List UInt8) (c : Cell) (startcol : Int) : Cell :=
  { c with state := .text, pen := pen, text := s, offs := startcol }
def fillSkip (c : Cell) (_ : Int) : Cell := { c with state := .skip }
def fillErase (pen : Pen) (c : Cell) (_ : Int) : Cell := { c with state := .erase, pen := pen }

/-- The part of `put_string` after the width count succeeded with `cols` columns. -/
def putStringCols (rb : RB) (line col : Int) (s : List UInt8) (cols : Int) : RB :=
  match xlateAndClip rb line col cols with
  | none => rb
  | some r => placeRuns (fillText rb.pen s) r.line (r.cols.toNat + 1) rb r.col r.cols r.startcol

/-- Return value of `put_string` / `put_text`: the columns of the whole string, or −1.
    (Since e303fef/ef0c9fa `put_string` is a wrapper around `put_string_slice(rb, line, col, s, 0, columns)`;
    `putStringCols` is that call: the slice loop with `offs = 0`.  The general slice is `RBCopy.putStringSlice`.) -/
def putStringRet (s : List UInt8) : Int :=
  match Utf8.stringColumns s with
  | none => -1
  | some n => n

/-- `put_string` / `put_text`: the buffer afterwards. -/
def putString (rb : RB) (line col : Int) (s : List UInt8) : RB :=
  match Utf8.stringColumns s with
  | none => rb
  | some n => putStringCols rb line col s n

/-- `skip(rb, line, col, cols)` (static). -/
def skipRun (rb : RB) (line col cols : Int) : RB :=
  match xlateAndClip rb line col cols with
  | none => rb
  | some r => placeRuns fillSkip r.line (r.cols.toNat + 1) rb r.col r.cols 0

/-- `erase(rb, line, col, cols)` (static). -/
def eraseRun (rb : RB) (line col cols : Int) : RB :=
  match xlateAndClip rb line col cols with
  | none => rb
  | some r => placeRuns (fillErase rb.pen) r.line (r.cols.toNat + 1) rb r.col r.cols 0

/-- `put_char`. -/
def putChar (rb : RB) (line col : Int) (codepoint : Int) : RB :=
  match xlateAndClip rb line col 1 with
  | none => rb
  | some r =>
    if (rb.cell r.line r.col).maskdepth > -1 then rb
    else (makeSpan rb r.line r.col r.cols).updCell r.line r.col
           (fun c => { c with state := .char, pen := rb.pen, cp := codepoint })

/-- `linecell`. -/
def linecell (rb : RB) (line col : Int) (bits : Nat) : RB :=
  match xlateAndClip rb line col 1 with
  | none => rb
  | some r =>
    if (rb.cell r.line r.col).maskdepth > -1 then rb
    else
      let rb1 :=
        if (rb.cell r.line r.col).state ≠ .line then
          (makeSpan rb r.line r.col r.cols).updCell r.line r.col
            (fun c => { c with state := .line, cols := 1, pen := rb.pen, lmask := 0 })
        else if !Pen.equiv (rb.cell r.line r.col).pen rb.pen then
          rb.updCell r.line r.col (fun c => { c with pen := rb.pen })
        else rb
      rb1.updCell r.line r.col (fun c => { c with lmask := c.lmask ||| bits })

/-! ### Public operations -/

/-- `tickit_renderbuffer_translate`. -/
def translate (rb : RB) (downward rightward : Int) : RB :=
  { rb with xlLine := rb.xlLine + downward, xlCol := rb.xlCol + rightward }

/-- `tickit_renderbuffer_clip`. -/
def clip (rb : RB) (rect : Rect) : RB :=
  let other := rect.translate rb.xlLine rb.xlCol
  match Rect.intersect rb.clip other with
  | some r => { rb with clip := r }
  | none => { rb with clip := { rb.clip with lines := 0 } }

/-- The `hole` of `tickit_renderbuffer_mask` after translation and cropping at 0. -/
def maskHole (rb : RB) (mask : Rect) : Rect :=
  let h := mask.translate rb.xlLine rb.xlCol
  let h := if h.top < 0 then { h with lines := h.lines + h.top, top := 0 } else h
  if h.left < 0 then { h with cols := h.cols + h.left, left := 0 } else h

/-- `tickit_renderbuffer_mask`. -/
def mask (rb : RB) (m : Rect) : RB :=
  let hole := maskHole rb m
  { rb with cells := fun l => ⟨fun c =>
      let cell := rb.cell l c
      if hole.top ≤ l ∧ l < hole.bottom ∧ l < rb.lines ∧ hole.left ≤ c ∧ c < hole.right ∧ c < rb.cols ∧
         cell.maskdepth = -1
      then { cell with maskdepth := rb.depth } else cell⟩ }

/-- `tickit_renderbuffer_goto`. -/
def goto (rb : RB) (line col : Int) : RB := { rb with vcSet := true, vcLine := line, vcCol := col }

/-- `tickit_renderbuffer_ungoto`. -/
def ungoto (rb : RB) : RB := { rb with vcSet := false }

/-- `tickit_renderbuffer_setpen`; `pen = none` is a NULL argument. -/
def setpen (rb : RB) (pen : Option Pen) : RB :=
  let newpen := match pen with
    | some p => Pen.copy Pen.empty p true
    | none => Pen.empty
  let newpen := match rb.stack with
    | f :: _ => Pen.copy newpen f.pen false
    | [] => newpen
  { rb with pen := newpen }

/-- `tickit_renderbuffer_reset`. -/
def reset (rb : RB) : RB :=
  { rb with
    cells := fun l => ⟨fun c =>
      let cell := rb.cell l c
      if 0 ≤ l ∧ l < rb.lines ∧ 0 ≤ c ∧ c < rb.cols then
        if c = 0 then { contCell cell 0 with state := .skip, maskdepth := -1, cols := rb.cols }
        else contCell cell 0
      else cell⟩
    vcSet := false
    xlLine := 0, xlCol := 0
    clip := ⟨0, 0, rb.lines, rb.cols⟩
    pen := Pen.empty
    stack := []
    depth := if rb.stack.isEmpty then rb.depth else 0 }

/-- `tickit_renderbuffer_save`. -/
def save (rb : RB) : RB :=
  { rb with
    stack := { penOnly := false, vcPosSet := rb.vcSet, vcLine := rb.vcLine, vcCol := rb.vcCol, xlLine := rb.xlLine, xlCol := rb.xlCol,
               clip := rb.clip, pen := rb.pen } :: rb.stack
    depth := rb.depth + 1 }

/-- `tickit_renderbuffer_savepen`. -/
def savepen (rb : RB) : RB :=
  { rb with stack := { penOnly := true, pen := rb.pen } :: rb.stack, depth := rb.depth + 1 }

/-- `tickit_renderbuffer_restore`. -/
def restore (rb : RB) : RB :=
  match rb.stack with
  | [] => rb
  | f :: prev =>
    let rb1 : RB :=
      if !f.penOnly then
        { rb with vcSet := f.vcPosSet, vcLine := f.vcLine, vcCol := f.vcCol, xlLine := f.xlLine, xlCol := f.xlCol,
                  clip := f.clip }
      else rb
    let depth := rb.depth - 1
    { rb1 with
      stack := prev, pen := f.pen, depth := depth
      cells := fun l => ⟨fun c =>
        let cell := rb.cell l c
        if 0 ≤ l ∧ l < rb.lines ∧ 0 ≤ c ∧ c < rb.cols ∧ cell.maskdepth > depth
        then { cell with maskdepth := -1 } else cell⟩ }

/-- `for(line = from; line < to; line++) f(rb, line)`. -/
def forLines (f : RB → Int → RB) (rb : RB) (from_ : Int) : Nat → RB
  | 0 => rb
  | n + 1 => forLines f (f rb from_) (from_ + 1) n

/-- `tickit_renderbuffer_clear`. -/
def clear (rb : RB) : RB := forLines (fun r line => eraseRun r line 0 r.cols) rb 0 rb.lines.toNat

/-- `tickit_renderbuffer_skip_at`. -/
def skipAt (rb : RB) (line col cols : Int) : RB := skipRun rb line col cols

/-- `tickit_renderbuffer_skip`. -/
def skip (rb : RB) (cols : Int) : RB :=
  if !rb.vcSet then rb
  else { skipRun rb rb.vcLine rb.vcCol cols with vcCol := rb.vcCol + cols }

/-- `tickit_renderbuffer_skip_to`. -/
def skipTo (rb : RB) (col : Int) : RB :=
  if !rb.vcSet then rb
  else { (if rb.vcCol < col then skipRun rb rb.vcLine rb.vcCol (col - rb.vcCol) else rb) with vcCol := col }

/-- `tickit_renderbuffer_skiprect`. -/
def skiprect (rb : RB) (rect : Rect) : RB :=
  forLines (fun r line => skipRun r line rect.left rect.cols) rb rect.top (rect.bottom - rect.top).toNat

/-- `tickit_renderbuffer_textn_at` (also `text_at`, `textf_at`): the buffer afterwards. -/
def textAt (rb : RB) (line col : Int) (s : List UInt8) : RB := putString rb line col s

/-- `tickit_renderbuffer_textn` (also `text`, `textf`): the buffer afterwards. -/
def text (rb : RB) (s : List UInt8) : RB :=
  if !rb.vcSet then rb
  else { putString rb rb.vcLine rb.vcCol s with vcCol := rb.vcCol + putStringRet s }

/-- Return value of `tickit_renderbuffer_textn`. -/
def textRet (rb : RB) (s : List UInt8) : Int := if !rb.vcSet then -1 else putStringRet s

/-- `tickit_renderbuffer_erase_at`. -/
def eraseAt (rb : RB) (line col cols : Int) : RB := eraseRun rb line col cols

/-- `tickit_renderbuffer_erase`. -/
def erase (rb : RB) (cols : Int) : RB :=
  if !rb.vcSet then rb
  else { eraseRun rb rb.vcLine rb.vcCol cols with vcCol := rb.vcCol + cols }

/-- `tickit_renderbuffer_erase_to`. -/
def eraseTo (rb : RB) (col : Int) : RB :=
  if !rb.vcSet then rb
  else { (if rb.vcCol < col then eraseRun rb rb.vcLine rb.vcCol (col - rb.vcCol) else rb) with vcCol := col }

/-- `tickit_renderbuffer_eraserect`. -/
def eraserect (rb : RB) (rect : Rect) : RB :=
  forLines (fun r line => eraseRun r line rect.left rect.cols) rb rect.top (rect.bottom - rect.top).toNat

/-- `tickit_renderbuffer_char_at`. -/
def charAt (rb : RB) (line col : Int) (codepoint : Int) : RB := putChar rb line col codepoint

/-- `tickit_renderbuffer_char`. -/
def char (rb : RB) (codepoint : Int) : RB :=
  if !rb.vcSet then rb
  else { putChar rb rb.vcLine rb.vcCol codepoint with vcCol := rb.vcCol + 1 }

/-- `for(x = from; x <= to; x++) linecell(...)` of `hline_at`/`vline_at` (`n` iterations). -/
def lineLoop (cellAt : Int → Int × Int) (bits : Nat) (rb : RB) (from_ : Int) : Nat → RB
  | 0 => rb
  | n + 1 => lineLoop cellAt bits (linecell rb (cellAt from_).1 (cellAt from_).2 bits) (from_ + 1) n

open Tickit.Gen.RBWidth in
/-- `tickit_renderbuffer_hline_at`. -/
def hlineAt (rb : RB) (line startcol endcol : Int) (style caps : Nat) : RB :=
  let east := style <<< c_EAST_SHIFT
  let west := style <<< c_WEST_SHIFT
  let rb := linecell rb line startcol (east ||| (if caps &&& c_TICKIT_LINECAP_START ≠ 0 then west else 0))
  let rb := lineLoop (fun col => (line, col)) (east ||| west) rb (startcol + 1) (endcol - 1 - startcol).toNat
  linecell rb line endcol ((if caps &&& c_TICKIT_LINECAP_END ≠ 0 then east else 0) ||| west)

open Tickit.Gen.RBWidth in
/-- `tickit_renderbuffer_vline_at`. -/
def vlineAt (rb : RB) (startline endline col : Int) (style caps : Nat) : RB :=
  let north := style <<< c_NORTH_SHIFT
  let south := style <<< c_SOUTH_SHIFT
  let rb := linecell rb startline col (south ||| (if caps &&& c_TICKIT_LINECAP_START ≠ 0 then north else 0))
  let rb := lineLoop (fun line => (line, col)) (south ||| north) rb (startline + 1) (endline - 1 - startline).toNat
  linecell rb endline col ((if caps &&& c_TICKIT_LINECAP_END ≠ 0 then south else 0) ||| north)

/-! ### Queries -/

/-- Result of `get_span`: the start cell of the run and the offset of the queried column in it. -/
structure SpanRef where
  cell : Cell
  offset : Int
deriving DecidableEq, Repr

/-- `get_span(rb, line, col, &offset)`; `none` is the NULL return. -/
def getSpan (rb : RB) (line col : Int) : Option SpanRef :=
  match xlateAndClip rb line col 1 with
  | none => none
  | some r =>
    let cell := rb.cell r.line r.col
    if cell.state = .cont then some ⟨rb.cell r.line cell.cols, r.col - cell.cols⟩
    else some ⟨cell, 0⟩

/-- `tickit_renderbuffer_get_cell_active`. -/
def getCellActive (rb : RB) (line col : Int) : Int :=
  match getSpan rb line col with
  | none => -1
  | some sp => if sp.cell.state ≠ .skip then 1 else 0

/-- `tickit_renderbuffer_get_cell_pen`; `none` is NULL. -/
def getCellPen (rb : RB) (line col : Int) : Option Pen :=
  match getSpan rb line col with
  | none => none
  | some sp => if sp.cell.state = .skip then none else some sp.cell.pen

open Tickit.Gen.RBWidth in
/-- `tickit_renderbuffer_get_cell_linemask` as (north, south, east, west). -/
def getCellLinemask (rb : RB) (line col : Int) : Nat × Nat × Nat × Nat :=
  match getSpan rb line col with
  | none => (0, 0, 0, 0)
  | some sp =>
    if sp.cell.state ≠ .line then (0, 0, 0, 0)
    else ((sp.cell.lmask >>> c_NORTH_SHIFT) % 4, (sp.cell.lmask >>> c_SOUTH_SHIFT) % 4,
          (sp.cell.lmask >>> c_EAST_SHIFT) % 4, (sp.cell.lmask >>> c_WEST_SHIFT) % 4)

/-- `get_span_text(rb, span, offset, one_grapheme = 1, buffer, len)` with a non-NULL buffer:
    return value (−1 for `(size_t)-1`) and the bytes stored. -/
def getSpanText1 (sp : SpanRef) (len : Nat) : Int × List UInt8 :=
  match sp.cell.state with
  | .cont => (-1, [])
  | .skip | .erase => (0, [])
  | .text =>
    let start := (Utf8.ncountmore sp.cell.text none {} (some (Utf8.limitColumns (sp.cell.offs + sp.offset)))).pos
    let end_ := (Utf8.ncountmore sp.cell.text none start (some (Utf8.limitGraphemes (start.graphemes + 1)))).pos
    let bytes := end_.bytes - start.bytes
    if (len : Int) < bytes then (-1, [])
    else (bytes, (sp.cell.text.drop start.bytes.toNat).take bytes.toNat)
  | .line =>
    let bs := Utf8.put (Tickit.Gen.RBWidth.linemaskToChar.getD sp.cell.lmask 0)
    if len < bs.length then (-1, []) else (bs.length, bs)
  | .char =>
    let bs := Utf8.put sp.cell.cp.toNat
    if len < bs.length then (-1, []) else (bs.length, bs)

/-- `tickit_renderbuffer_get_cell_text(rb, line, col, buffer, len)`. -/
def getCellText (rb : RB) (line col : Int) (len : Nat) : Int × List UInt8 :=
  match getSpan rb line col with
  | none => (-1, [])
  | some sp => if sp.cell.state = .cont then (-1, []) else getSpanText1 sp len

/-- `tickit_renderbuffer_has_cursorpos` / `get_cursorpos` (`none`: the outputs are left alone). -/
def getCursor (rb : RB) : Option (Int × Int) := if rb.vcSet then some (rb.vcLine, rb.vcCol) else none

/-! ### Programs -/

/-- One public state-changing operation of the render buffer (the alphabet of "programs" in C03). -/
inductive Op
  | textAt (line col : Int) (s : List UInt8)
  | text (s : List UInt8)
  | eraseAt (line col cols : Int)
  | erase (cols : Int)
  | eraseTo (col : Int)
  | skipAt (line col cols : Int)
  | skip (cols : Int)
  | skipTo (col : Int)
  | charAt (line col : Int) (cp : Int)
  | char (cp : Int)
  | hlineAt (line startcol endcol : Int) (style caps : Nat)
  | vlineAt (startline endline col : Int) (style caps : Nat)
  | clear
  | eraserect (r : Rect)
  | skiprect (r : Rect)
  | goto (line col : Int)
  | ungoto
  | translate (downward rightward : Int)
  | clip (r : Rect)
  | mask (r : Rect)
  | setpen (pen : Option Pen)
  | save
  | savepen
  | restore
  | reset
deriving DecidableEq, Repr

/-- The effect of one operation. -/
def step (rb : RB) : Op → RB
  | .textAt l c s => textAt rb l c s
  | .text s => text rb s
  | .eraseAt l c n => eraseAt rb l c n
  | .erase n => erase rb n
  | .eraseTo c => eraseTo rb c
  | .skipAt l c n => skipAt rb l c n
  | .skip n => skip rb n
  | .skipTo c => skipTo rb c
  | .charAt l c cp => charAt rb l c cp
  | .char cp => char rb cp
  | .hlineAt l c1 c2 st caps => hlineAt rb l c1 c2 st caps
  | .vlineAt l1 l2 c st caps => vlineAt rb l1 l2 c st caps
  | .clear => clear rb
  | .eraserect r => eraserect rb r
  | .skiprect r => skiprect rb r
  | .goto l c => goto rb l c
  | .ungoto => ungoto rb
  | .translate d r => translate rb d r
  | .clip r => clip rb r
  | .mask r => mask rb r
  | .setpen p => setpen rb p
  | .save => save rb
  | .savepen => savepen rb
  | .restore => restore rb
  | .reset => reset rb

/-- A program: operations in order. -/
def run (rb : RB) (prog : List Op) : RB := prog.foldl step rb

/-! ### Tabulation (execution speed only) -/

/-- Re-tabulate the grid into arrays: the identity on `[0,lines) × [0,cols)`; the cells outside (never
    looked at by any operation on a well-formed buffer) become the default cell. -/
def RB.compact (rb : RB) : RB :=
  let nl := rb.lines.toNat
  let nc := rb.cols.toNat
  let tab : Array (Array Cell) := Array.ofFn (n := nl) fun l => Array.ofFn (n := nc) fun c => rb.cell l.val c.val
  { rb with cells := fun l =>
      if 0 ≤ l ∧ l.toNat < nl then
        match tab[l.toNat]? with
        | some row => ⟨fun c => if 0 ≤ c then (row[c.toNat]?).getD default else default⟩
        | none => ⟨fun _ => default⟩
      else ⟨fun _ => default⟩ }

end Tickit.RB
