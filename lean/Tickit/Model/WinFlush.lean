import Tickit.Model.WinTree
import Tickit.Model.WinRB
/-
  Model of the rendering half of /repo/src/window.c on top of the shared window store (`Model/WinTree.lean`)
  and the abstract render buffer (`Model/WinRB.lean`):

    `_do_expose`, `tickit_window_flush`, `_scrollrectset`, `_scroll`, `tickit_window_scroll*`, `on_term_resize`.

  The terminal is a grid `Int → Int → Cell` of `tlines × tcols` cells (the harness's grid driver); whether it performs a
  scroll request is an oracle.  Expose handlers are data: `beh win rect` is the drawing program window `win`'s handler
  runs when handed `rect`.
-/
namespace Tickit
namespace WinFlush
open WinTree WinRB

abbrev Ev := Id × Rect

/-- One invocation of an expose handler: the window, the rectangle it is handed and (ghost state, for the theorems)
    the render buffer as the handler finds it. -/
structure Shot where
  win : Id
  rect : Rect
  rb : RB
deriving Inhabited

def Shot.ev (s : Shot) : Ev := (s.win, s.rect)

structure St where
  tree : Tree := {}
  /-- `win->pen` by window id; `none` = `NULL`. -/
  pens : Array (Option Pen) := #[]
  tlines : Int := 0
  tcols : Int := 0
  screen : Int → Int → Cell := fun _ _ => Cell.never
deriving Inhabited

def St.fuel (st : St) : Nat := st.tree.wins.size + 1

def winPen (pens : Array (Option Pen)) (id : Id) : Option Pen := (pens[id]?).join

/-- Does the terminal perform `scrollrect(rect, downward, rightward)`?  Arguments: terminal lines, cols, the request. -/
abbrev Oracle := Int → Int → Rect → Int → Int → Bool

def rsAdd (s : List Rect) (r : Rect) : Res (List Rect) :=
  match RectSet.add rsFuel s r with
  | some x => .ok x
  | none => .ub "rectset_add out of fuel"

def rsAddMany (s : List Rect) (rs : List Rect) : Res (List Rect) :=
  match RectSet.addMany rsFuel s rs with
  | some x => .ok x
  | none => .ub "rectset_add out of fuel"

def rsSub (s : List Rect) (r : Rect) : Res (List Rect) :=
  match RectSet.subtract rsFuel s r with
  | some x => .ok x
  | none => .ub "rectset_subtract out of fuel"

/-! ### `_do_expose` -/

/-- The `for(child = win->first_child; …)` loop of `_do_expose`; `recur` is `_do_expose` itself. -/
def doChildren (t : Tree) (recur : Id → Rect → RB × List Shot → Res (RB × List Shot)) (rect : Rect) :
    List Id → RB × List Shot → Res (RB × List Shot)
  | [], s => .ok s
  | c :: cs, s => do
    let cw ← get t c
    if !cw.isVisible then doChildren t recur rect cs s
    else
      let s1 ← match Rect.intersect rect cw.rect with
        | some exposed => do
          let rb1 := ((s.1.save).clipTo exposed).translate cw.rect.top cw.rect.left
          let s2 ← recur c (exposed.translate (-cw.rect.top) (-cw.rect.left)) (rb1, s.2)
          pure (s2.1.restore, s2.2)
        | none => pure s
      doChildren t recur rect cs (s1.1.mask cw.rect, s1.2)

/-- `if(win->pen) tickit_renderbuffer_setpen(rb, win->pen);` -/
def applyWinPen (pens : Array (Option Pen)) (win : Id) (rb : RB) : RB :=
  match winPen pens win with
  | some p => rb.setpen (some p)
  | none => rb

/-- `_do_expose(win, rect, rb)`; the list records the handler invocations in order. -/
def doExpose (beh : Id → Rect → List DrawOp) (t : Tree) (pens : Array (Option Pen)) :
    Nat → Id → Rect → RB × List Shot → Res (RB × List Shot)
  | 0, _, _, _ => .ub "window tree too deep"
  | fuel + 1, win, rect, s => do
    let w ← get t win
    let rb := applyWinPen pens win s.1
    let s' ← doChildren t (doExpose beh t pens fuel) rect w.children (rb, s.2)
    pure (s'.1.run (beh win rect), s'.2 ++ [⟨win, rect, s'.1⟩])

/-! ### `tickit_window_flush` -/

/-- The queue loop at the head of `tickit_window_flush`. -/
def applyChanges (fuel : Nat) : Tree → List Req → Res Tree
  | t, [] => .ok t
  | t, r :: rs => do
    let t ← doHierarchyChange t fuel r.change r.parent r.win
    applyChanges fuel t rs

/-- The loop over the damage rectangles; `bounds` is the root window's current area (a rectangle recorded before the
    terminal shrank is cut down to it, or skipped). -/
def exposeRects (beh : Id → Rect → List DrawOp) (t : Tree) (pens : Array (Option Pen)) (fuel : Nat) (bounds : Rect) :
    List Rect → RB × List Shot → Res (RB × List Shot)
  | [], s => .ok s
  | rect0 :: rest, s =>
    match Rect.intersect rect0 bounds with
    | none => exposeRects beh t pens fuel bounds rest s
    | some rect => do
      let s1 ← doExpose beh t pens fuel 0 rect ((s.1.save).clipTo rect, s.2)
      exposeRects beh t pens fuel bounds rest (s1.1.restore, s1.2)

/-- The first half of `tickit_window_flush`: clear `needs_later_processing`, apply the queued restacking requests. -/
def flushQueue (st : St) : Res Tree :=
  let t : Tree := { st.tree with root := { st.tree.root with needsLater := false } }
  applyChanges st.fuel { t with root := { t.root with changes := [] } } t.root.changes

/-- The root's bookkeeping once the damage has been taken for rendering. -/
def rendered (t : Tree) : Tree :=
  { t with root := { t.root with needsExpose := false, damage := [], needsRestore := false } }

/-- The second half: render every damage rectangle into a fresh buffer and flush it to the terminal. -/
def flushRender (beh : Id → Rect → List DrawOp) (st : St) (t : Tree) : Res (St × List Shot) := do
  if t.root.needsExpose then
    let root ← get t 0
    let rb := RB.new root.rect.lines root.rect.cols
    -- `if(!root_window->is_visible) continue;` at the head of the loop body: a hidden root renders nothing
    let rects := if root.isVisible then t.root.damage else []
    let s ← exposeRects beh (rendered t) st.pens (t.wins.size + 1) ⟨0, 0, root.rect.lines, root.rect.cols⟩ rects (rb, [])
    pure ({ st with tree := rendered t, screen := s.1.flushToGrid st.screen }, s.2)
  else
    pure ({ st with tree := { t with root := { t.root with needsRestore := false } } }, [])

/-- `tickit_window_flush(root)`: the new state and the handler invocations in order. -/
def flush (beh : Id → Rect → List DrawOp) (st : St) : Res (St × List Shot) := do
  let root ← get st.tree 0
  if root.parent.isSome then pure (st, [])
  else if !st.tree.root.needsLater then pure (st, [])
  else
    let t ← flushQueue st
    flushRender beh st t

/-- The `tickit_window_expose` calls the handlers made while the flush ran, in order.  During the loop of
    `tickit_window_flush` the damage set has already been copied and cleared and `needs_expose` reset, and nothing the
    rendering reads is touched by `expose` (it only adds to the root's damage and sets flags), so performing them after
    the rendering is the same as interleaving them: the damage they record is for the *next* flush. -/
def applyExposes (fuel : Nat) : Tree → List (Id × Option Rect) → Res Tree
  | t, [] => .ok t
  | t, (w, e) :: rest => do
    let t ← expose t fuel w e
    applyExposes fuel t rest

/-- `tickit_window_flush` with handlers that also expose: `behExp w rect` lists the exposes window `w`'s handler makes
    when handed `rect`. -/
def flushX (beh : Id → Rect → List DrawOp) (behExp : Id → Rect → List (Id × Option Rect)) (st : St) : Res (St × List Shot) := do
  let r ← flush beh st
  let t ← applyExposes st.fuel r.1.tree (r.2.flatMap fun sh => behExp sh.win sh.rect)
  pure ({ r.1 with tree := t }, r.2)

/-! ### scrolling -/

/-- A performed `tickit_term_scrollrect` on the grid: inside `rect` (and the terminal) every cell receives the cell
    `(downward, rightward)` away when that is inside too, otherwise a blank in the terminal's current pen. -/
def termScroll (tlines tcols : Int) (grid : Int → Int → Cell) (rect : Rect) (d r : Int) (fill : Cell) : Int → Int → Cell :=
  let inside (l c : Int) : Bool := rect.memb l c && decide (0 ≤ l) && decide (l < tlines) && decide (0 ≤ c) && decide (c < tcols)
  fun l c => if inside l c then (if inside (l + d) (c + r) then grid (l + d) (c + r) else fill) else grid l c

/-- The inner `for(j …)` of `_scrollrectset`: the pending damage is rebuilt with the part inside `rect` shifted. -/
def shiftDamage (rect : Rect) (d r : Int) : List Rect → List Rect → Res (List Rect)
  | [], acc => .ok acc
  | rj :: rest, acc => do
    let acc ←
      if rj.bottom < rect.top ∨ rj.top > rect.bottom ∨ rj.right < rect.left ∨ rj.left > rect.right then rsAdd acc rj
      else do
        let acc ← rsAddMany acc (Rect.subtract rj rect)
        match Rect.intersect rj rect with
        | none => pure acc
        | some inside =>
          match Rect.intersect (inside.translate (-d) (-r)) rect with
          | some moved => rsAdd acc moved
          | none => pure acc
    shiftDamage rect d r rest acc

/-- The sibling loop of `_scrollrectset`: subtract every visible sibling in front of `win`. -/
def subtractSiblings (t : Tree) (win : Id) : List Id → List Rect → Res (List Rect)
  | [], v => .ok v
  | sib :: rest, v =>
    if sib = win then .ok v
    else do
      let sw ← get t sib
      if !sw.isVisible then subtractSiblings t win rest v
      else do
        let v ← rsSub v sw.rect
        subtractSiblings t win rest v

/-- The walk to the root at the head of `_scrollrectset`: `none` = some window on the way is hidden (`return false`). -/
def scrollWalk (t : Tree) (pens : Array (Option Pen)) :
    Nat → Id → List Rect → Int → Int → Pen → Res (Option (Id × List Rect × Int × Int × Pen))
  | 0, _, _, _, _, _ => .ub "parent chain too long"
  | fuel + 1, win, visible, absTop, absLeft, pen => do
    let w ← get t win
    if !w.isVisible then pure none
    else
      let pen := match winPen pens win with
        | some p => Pen.copy pen p false
        | none => pen
      match w.parent with
      | none => pure (some (win, visible, absTop, absLeft, pen))
      | some p => do
        let pw ← get t p
        let visible := RectSet.translate visible w.rect.top w.rect.left
        let visible ← subtractSiblings t win pw.children visible
        scrollWalk t pens fuel p visible (absTop + w.rect.top) (absLeft + w.rect.left) pen

/-- One iteration of the `for(i …)` loop of `_scrollrectset`.  State: the model state, `ret`, `done_pen`. -/
def scrollOne (oracle : Oracle) (origwin : Id) (absTop absLeft d r : Int) (pen : Pen)
    (acc : St × Bool × Bool) (rect : Rect) : Res (St × Bool × Bool) := do
  let st := acc.1
  let origrect := rect.translate (-absTop) (-absLeft)
  if (d.natAbs : Int) ≥ rect.lines ∨ (r.natAbs : Int) ≥ rect.cols then
    let t ← expose st.tree st.fuel origwin (some origrect)
    pure ({ st with tree := t }, acc.2.1, acc.2.2)
  else
    let dmg ← shiftDamage rect d r st.tree.root.damage []
    let st := { st with tree := { st.tree with root := { st.tree.root with damage := dmg } } }
    if oracle st.tlines st.tcols rect d r then
      let st := { st with screen := termScroll st.tlines st.tcols st.screen rect d r (Cell.blank pen) }
      let t := st.tree
      let t ← if d > 0 then expose t st.fuel origwin (some ⟨origrect.bottom - d, origrect.left, d, rect.cols⟩)
               else if d < 0 then expose t st.fuel origwin (some ⟨origrect.top, origrect.left, -d, rect.cols⟩)
               else pure t
      let t ← if r > 0 then expose t st.fuel origwin (some ⟨origrect.top, origrect.right - r, rect.lines, r⟩)
               else if r < 0 then expose t st.fuel origwin (some ⟨origrect.top, origrect.left, rect.lines, -r⟩)
               else pure t
      pure ({ st with tree := t }, acc.2.1, true)
    else
      let t ← expose st.tree st.fuel origwin (some origrect)
      pure ({ st with tree := t }, false, true)

def scrollLoop (oracle : Oracle) (origwin : Id) (absTop absLeft d r : Int) (pen : Pen) :
    List Rect → St × Bool × Bool → Res (St × Bool × Bool)
  | [], acc => .ok acc
  | rect :: rest, acc => do
    let acc ← scrollOne oracle origwin absTop absLeft d r pen acc rect
    scrollLoop oracle origwin absTop absLeft d r pen rest acc

/-- `_scrollrectset`. -/
def scrollRectSet (oracle : Oracle) (st : St) (win : Id) (visible : List Rect) (d r : Int) (pen : Pen) : Res (St × Bool) := do
  match ← scrollWalk st.tree st.pens st.fuel win visible 0 0 pen with
  | none => pure (st, false)
  | some (top, visible, absTop, absLeft, pen) =>
    let tw ← get st.tree top
    if !tw.isRoot then .ub "_scrollrectset: WINDOW_AS_ROOT of a window that is not a root"
    else
      let (st, ret, donePen) ← scrollLoop oracle win absTop absLeft d r pen visible (st, true, false)
      let st := if donePen then
          { st with tree := { st.tree with root := { st.tree.root with needsRestore := true, needsLater := true } } }
        else st
      pure (st, ret)

/-- The `mask_children` loop of `_scroll`. -/
def subtractChildren (t : Tree) : List Id → List Rect → Res (List Rect)
  | [], v => .ok v
  | c :: cs, v => do
    let cw ← get t c
    if !cw.isVisible then subtractChildren t cs v
    else do
      let v ← rsSub v cw.rect
      subtractChildren t cs v

/-- The clipping loop at the head of `_scroll`: `rect` (in the scrolled window's coordinates) is cut down to the bounds of
    every ancestor; `top`, `left` accumulate the offset of the scrolled window in the coordinates of `w`'s parent. -/
def clipToAncestors (t : Tree) : Nat → Id → Int → Int → Rect → Res (Option Rect)
  | 0, _, _, _, _ => .ub "parent chain too long"
  | fuel + 1, w, top, left, rect => do
    let ww ← get t w
    match ww.parent with
    | none => pure (some rect)
    | some p => do
      let pw ← get t p
      let top := top + ww.rect.top
      let left := left + ww.rect.left
      match Rect.intersect rect ⟨-top, -left, pw.rect.lines, pw.rect.cols⟩ with
      | none => pure none
      | some r => clipToAncestors t fuel p top left r

/-- `_scroll(win, origrect, downward, rightward, pen, mask_children)`. -/
def scroll (oracle : Oracle) (st : St) (win : Id) (origrect : Rect) (d r : Int) (pen : Option Pen) (maskChildren : Bool) :
    Res (St × Bool) := do
  let w ← get st.tree win
  match Rect.intersect ⟨0, 0, w.rect.lines, w.rect.cols⟩ origrect with
  | none => pure (st, false)
  | some rect0 =>
    match ← clipToAncestors st.tree st.fuel win 0 0 rect0 with
    | none => pure (st, false)
    | some rect =>
    let visible ← rsAdd [] rect
    let visible ← if maskChildren then subtractChildren st.tree w.children visible else pure visible
    scrollRectSet oracle st win visible d r (pen.getD {})

/-- `tickit_window_scroll`. -/
def scrollWindow (oracle : Oracle) (st : St) (win : Id) (d r : Int) : Res (St × Bool) := do
  let w ← get st.tree win
  scroll oracle st win ⟨0, 0, w.rect.lines, w.rect.cols⟩ d r none true

/-- `tickit_window_scroll_with_children`. -/
def scrollWithChildren (oracle : Oracle) (st : St) (win : Id) (d r : Int) : Res (St × Bool) := do
  let w ← get st.tree win
  scroll oracle st win ⟨0, 0, w.rect.lines, w.rect.cols⟩ d r none false

/-- The application's half of a `tickit_window_scroll_with_children`: "This is intended for scrolling a container of
    windows, which will move all of the sub-windows too.  Note that this function does not actually move the child
    windows, it simply requests a scrolling operation on the underlying terminal" (tickit_window_scroll.3) — every child
    of the scrolled window gets `tickit_window_set_geometry` with its position moved by `(-downward, -rightward)`, the
    way the terminal's cells moved; nothing is exposed. -/
def moveChildren (d r : Int) : Tree → List Id → Res Tree
  | t, [] => .ok t
  | t, ch :: cs => do
    let cw ← get t ch
    let (t, _) ← setGeometry t ch { cw.rect with top := cw.rect.top - d, left := cw.rect.left - r }
    moveChildren d r t cs

/-- The compound step "scroll a container": `tickit_window_scroll_with_children`, then the application moves the
    children by the same offsets (whatever the call returned). -/
def scrollWithChildrenMoved (oracle : Oracle) (st : St) (win : Id) (d r : Int) : Res (St × Bool) := do
  let (st', ret) ← scrollWithChildren oracle st win d r
  let w ← get st'.tree win
  let t ← moveChildren d r st'.tree w.children
  pure ({ st' with tree := t }, ret)

/-- `tickit_window_scrollrect`. -/
def scrollRect (oracle : Oracle) (st : St) (win : Id) (rect : Rect) (d r : Int) (pen : Option Pen) : Res (St × Bool) :=
  scroll oracle st win rect d r pen true

/-! ### terminal resize -/

/-- The grid driver's resize followed by `tickit_term_set_size` → `on_term_resize`. -/
def termResize (st : St) (lines cols : Int) : Res St := do
  let keepL := min st.tlines lines
  let keepC := min st.tcols cols
  let old := st.screen
  let screen : Int → Int → Cell := fun l c => if 0 ≤ l ∧ l < keepL ∧ 0 ≤ c ∧ c < keepC then old l c else Cell.never
  let st := { st with screen := screen }
  if st.tlines = lines ∧ st.tcols = cols then pure st
  else
    let st := { st with tlines := lines, tcols := cols }
    let root ← get st.tree 0
    let oldlines := root.rect.lines
    let oldcols := root.rect.cols
    let (t, _) ← setGeometry st.tree 0 { root.rect with lines := lines, cols := cols }
    let t ← if lines > oldlines then expose t st.fuel 0 (some ⟨oldlines, 0, lines - oldlines, cols⟩) else pure t
    let t ← if cols > oldcols then expose t st.fuel 0 (some ⟨0, oldcols, oldlines, cols - oldcols⟩) else pure t
    pure { st with tree := t }

/-! ### construction -/

/-- Terminal of `lines × cols`, root window with pen `pen` (after `tickit_window_new_root` + `set_pen`). -/
def St.init (lines cols : Int) (pen : Option Pen) : St :=
  { tree := newRoot lines cols, pens := #[pen], tlines := lines, tcols := cols, screen := fun _ _ => Cell.never }

/-- `tickit_window_new` + `tickit_window_set_pen`. -/
def newWin (st : St) (parent : Id) (rect : Rect) (rootParent hidden lowest steal : Bool) (pen : Option Pen) : Res (St × Id) := do
  let (t, id) ← newWindow st.tree st.fuel parent rect rootParent hidden lowest steal
  pure ({ st with tree := t, pens := st.pens.push pen }, id)

end WinFlush
end Tickit
