import Tickit.Model.WinTree
import Tickit.Model.WinRB
/-
  Specification vocabulary of C01 / C02: the painter's-model composition of a window tree.

  `ownerLoc` is `WinTree.ownerIn` returning, with the owning window, the cell's position in that window's own
  coordinates (`ownerLoc_id` in `Proof/WinSpec.lean`: the window is the one `WinTree.owner` names).
  `compose tree content` is what the property says every terminal cell shows after a flush.
-/
namespace Tickit
namespace WinSpec
open WinTree WinRB

/-- The front-most visible window of `id`'s subtree covering `(l, c)` (given in the coordinates of `id`'s parent),
    and the cell in that window's coordinates. -/
def ownerLoc (t : Tree) : Nat → Id → Int → Int → Option (Id × Int × Int)
  | 0, _, _, _ => none
  | fuel + 1, id, l, c =>
    match t.wins[id]? with
    | none => none
    | some w =>
      if !w.isVisible || w.freed then none
      else if !(w.rect.memb l c) then none
      else
        match w.children.findSome? (fun ch => ownerLoc t fuel ch (l - w.rect.top) (c - w.rect.left)) with
        | some o => some o
        | none => some (id, l - w.rect.top, c - w.rect.left)

/-- The owner of the cell `(l, c)` of window `id` (in `id`'s own coordinates) within `id`'s subtree: the first child
    (front-most first) that owns it, else `id` itself.  (`ownerLoc t fuel id` is `ownerSub t fuel id` where `id` is
    visible and covers the cell: `Proof/WinExpose.lean`.) -/
def ownerSub (t : Tree) : Nat → Id → Int → Int → Id × Int × Int
  | 0, id, l, c => (id, l, c)
  | fuel + 1, id, l, c =>
    match t.wins[id]? with
    | none => (id, l, c)
    | some w =>
      match w.children.findSome? (fun ch => ownerLoc t fuel ch l c) with
      | some o => o
      | none => (id, l, c)

/-- Owner of terminal cell `(l, c)` with the local position (root = window 0). -/
def ownerAt (t : Tree) (l c : Int) : Option (Id × Int × Int) := ownerLoc t (t.wins.size + 1) 0 l c

/-- What the painter's model shows at terminal cell `(l, c)`: the content of the owning window at the cell's
    position in that window; `none` where no visible window covers the cell. -/
def compose (t : Tree) (content : Id → Int → Int → Cell) (l c : Int) : Option Cell :=
  match ownerAt t l c with
  | some (w, l', c') => some (content w l' c')
  | none => none

/-- The proviso of C01 on expose handlers: asked for `rect`, window `w`'s program leaves `content w` in every cell of
    `rect` the buffer lets it touch, whatever the buffer's translation, clip, masks and pen are (positions relative to
    the translation, i.e. to the window's top-left corner). -/
def Repaints (content : Id → Int → Int → Cell) (beh : Id → Rect → List DrawOp) : Prop :=
  ∀ (w : Id) (rect : Rect) (rb : RB) (L C : Int), rb.writable L C = true → rect.memb (L - rb.xl) (C - rb.xc) = true →
    (rb.run (beh w rect)).cells L C = some (.plain (content w (L - rb.xl) (C - rb.xc)))

/-! ### pen inheritance

  `_do_expose` merges the window pens down the tree: `tickit_renderbuffer_save` in the parent's loop pushes the parent's
  merged pen, `if(win->pen) tickit_renderbuffer_setpen(rb, win->pen)` lays the window's pen over the pen saved in that
  frame.  A handler may rely on the pen it finds (e.g. only erase, expecting the background of an ancestor's pen). -/

/-- `tickit_renderbuffer_setpen(rb, p)` as a function of the pen `base` saved in the top frame (`RB.setpen`); a window
    without a pen (`none`: `win->pen == NULL`) leaves the buffer's pen alone. -/
def penOver (p : Option Pen) (base : Pen) : Pen :=
  match p with
  | some p => Pen.copy (Pen.copy {} p true) base false
  | none => base

/-- The pen the render buffer carries when `_do_expose` reaches window `w` during a flush: the window's pen over the
    merged pen of its parent, the root's over the fresh buffer's empty pen (`pens[w]`: `win->pen`, `none` = `NULL`;
    `fuel` bounds the walk up the parent chain). -/
def mergedPen (t : Tree) (pens : Array (Option Pen)) : Nat → Id → Pen
  | 0, _ => {}
  | fuel + 1, w =>
    penOver (pens[w]?).join
      (match t.wins[w]? with
       | some ww => (match ww.parent with
         | some p => mergedPen t pens fuel p
         | none => {})
       | none => {})

/-- The pen-aware proviso of C01: as `Repaints`, but window `w`'s program is only asked to repaint when the buffer
    carries the pen `_do_expose` hands it in tree `t` — the handler may rely on the inherited pen. -/
def RepaintsP (t : Tree) (pens : Array (Option Pen)) (content : Id → Int → Int → Cell) (beh : Id → Rect → List DrawOp) : Prop :=
  ∀ (w : Id) (rect : Rect) (rb : RB) (L C : Int), rb.pen = mergedPen t pens (t.wins.size + 1) w →
    rb.writable L C = true → rect.memb (L - rb.xl) (C - rb.xc) = true →
    (rb.run (beh w rect)).cells L C = some (.plain (content w (L - rb.xl) (C - rb.xc)))

/-- A handler that repaints whatever pen it finds does so in particular with the inherited one. -/
theorem repaintsP_of_repaints {content : Id → Int → Int → Cell} {beh : Id → Rect → List DrawOp} (h : Repaints content beh)
    (t : Tree) (pens : Array (Option Pen)) : RepaintsP t pens content beh :=
  fun w rect rb L C _ hw hm => h w rect rb L C hw hm

end WinSpec
end Tickit
