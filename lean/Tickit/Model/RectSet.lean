import Tickit.Model.Rect
/-
  Model of /repo/src/rectset.c (TickitRectSet).  The sorted array is a `List Rect`.
  Loops whose trip count depends on data that the loop itself rewrites (`goto restart`, the
  recursion on split pieces, the `i--` re-scan of subtract) take a `fuel`; running out of
  fuel is the distinct outcome `none` and is never confused with a result.
-/
namespace Tickit
namespace RectSet

/-- `cmprect`. -/
def cmprect (a b : Rect) : Int :=
  if a.top ≠ b.top then a.top - b.top else a.left - b.left

/-- `insert_rect`: before the first member that sorts after `r` (allocation cannot fail in the model). -/
def insertRect : List Rect → Rect → List Rect
  | [], r => [r]
  | x :: xs, r => if cmprect x r > 0 then r :: x :: xs else x :: insertRect xs r

/-- What one pass of the `for` loop of `tickit_rectset_add` decides. -/
inductive Scan where
  | insert                          -- fell out of the loop (or `break`): insert the current rectangle
  | covered                         -- `return`: already entirely covered
  | stretch (idx : Nat) (grown : Rect)   -- delete member `idx`, restart with the grown rectangle
  | split (idx : Nat) (r : Rect)    -- delete member `idx`, recurse on `tickit_rect_add(r, cur)`
deriving Repr, DecidableEq

/-- The body of the `for` loop of `tickit_rectset_add` from index `i` on, for the current
    (possibly already grown) rectangle `cur`. -/
def scan (cur : Rect) : List Rect → Nat → Scan
  | [], _ => .insert
  | r :: rest, i =>
    if cur.bottom < r.top then .insert                                           -- break
    else if cur.top > r.bottom ∨ cur.left > r.right ∨ cur.right < r.left then scan cur rest (i + 1)
    else if r.contains cur then .covered
    else if (cur.top = r.top ∧ cur.bottom = r.bottom) ∨ (cur.left = r.left ∧ cur.right = r.right) then
      .stretch i (Rect.initBounded (min r.top cur.top) (min r.left cur.left)
                                   (max r.bottom cur.bottom) (max r.right cur.right))
    else if cur.top = r.bottom ∨ cur.bottom = r.top then scan cur rest (i + 1)   -- continue
    else .split i r

mutual
/-- `tickit_rectset_add`. -/
def add : Nat → List Rect → Rect → Option (List Rect)
  | 0, _, _ => none
  | fuel + 1, s, cur =>
    match scan cur s 0 with
    | .insert => some (insertRect s cur)
    | .covered => some s
    | .stretch i grown => add fuel (s.eraseIdx i) grown
    | .split i r => addMany fuel (s.eraseIdx i) (Rect.add r cur)
/-- The loop `for(i = 0; i < n; i++) tickit_rectset_add(trs, to_add + i)`. -/
def addMany : Nat → List Rect → List Rect → Option (List Rect)
  | _, s, [] => some s
  | 0, _, _ :: _ => none
  | fuel + 1, s, p :: ps =>
    match add fuel s p with
    | none => none
    | some s' => addMany fuel s' ps
end

/-- `tickit_rectset_subtract`: index loop; after deleting member `i` and re-adding the remains the
    same index is inspected again (`i--` then `i++`). -/
def subtractFrom : Nat → List Rect → Rect → Nat → Option (List Rect)
  | 0, _, _, _ => none
  | fuel + 1, s, rect, i =>
    match s[i]? with
    | none => some s
    | some r =>
      if !(r.intersects rect) then subtractFrom fuel s rect (i + 1)
      else
        match addMany fuel (s.eraseIdx i) (Rect.subtract r rect) with
        | none => none
        | some s' => subtractFrom fuel s' rect i

/-- `tickit_rectset_subtract`: an empty hole is a no-op (`fix:` commit in /repo; before it the loop split
    members around the empty hole for ever), otherwise the index loop from 0. -/
def subtract (fuel : Nat) (s : List Rect) (rect : Rect) : Option (List Rect) :=
  if rect.lines ≤ 0 ∨ rect.cols ≤ 0 then some s else subtractFrom fuel s rect 0

theorem subtract_of_nonempty (fuel : Nat) (s : List Rect) (rect : Rect) (h : rect.Nonempty) :
    subtract fuel s rect = subtractFrom fuel s rect 0 := by
  unfold subtract Rect.Nonempty at *
  rw [if_neg (by omega)]

/-- `tickit_rectset_translate`. -/
def translate (s : List Rect) (downward rightward : Int) : List Rect :=
  s.map (·.translate downward rightward)

/-- `tickit_rectset_clear`. -/
def clear (_ : List Rect) : List Rect := []

/-- `tickit_rectset_intersects`. -/
def intersects (s : List Rect) (rect : Rect) : Bool :=
  s.any (fun r => r.intersects rect)

/-- The first member intersecting `rect`, as the `for` loop of `tickit_rectset_contains` finds it. -/
def firstIntersecting (s : List Rect) (rect : Rect) : Option Rect :=
  s.find? (fun r => r.intersects rect)

/-- `tickit_rectset_contains`. -/
def contains : Nat → List Rect → Rect → Option Bool
  | 0, _, _ => none
  | fuel + 1, s, rect =>
    match firstIntersecting s rect with
    | none => some false
    | some r =>
      if rect.top < r.top ∨ rect.left < r.left then some false
      else if rect.top < r.bottom ∧ r.bottom < rect.bottom then
        let lower := Rect.initBounded r.bottom rect.left rect.bottom rect.right
        match contains fuel s lower with
        | none => none
        | some false => some false
        | some true => some (r.contains { rect with lines := r.bottom - rect.top })
      else some (r.contains rect)

/-! ### Specification vocabulary -/

/-- One operation of a history. -/
inductive Op where
  | add (r : Rect) | sub (r : Rect) | xl (d k : Int) | clear
deriving Repr, DecidableEq

/-- The effect of one operation on a region (a cell predicate). -/
def Op.apply (reg : Int → Int → Prop) : Op → Int → Int → Prop
  | .add r => fun l c => reg l c ∨ r.Mem l c
  | .sub r => fun l c => reg l c ∧ ¬ r.Mem l c
  | .xl d k => fun l c => reg (l - d) (c - k)
  | .clear => fun _ _ => False

/-- The reference region of a history (oldest operation first). -/
def refRegion (ops : List Op) : Int → Int → Prop :=
  ops.foldl Op.apply (fun _ _ => False)

/-- The model run over a history. -/
def runOps (fuel : Nat) : List Rect → List Op → Option (List Rect)
  | s, [] => some s
  | s, .add r :: ops => (add fuel s r).bind (runOps fuel · ops)
  | s, .sub r :: ops => (subtract fuel s r).bind (runOps fuel · ops)
  | s, .xl d k :: ops => runOps fuel (translate s d k) ops
  | s, .clear :: ops => runOps fuel (clear s) ops

end RectSet
end Tickit
