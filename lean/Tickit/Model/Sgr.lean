/-
  Model/Sgr.lean — the specification side of C10: "the rendering attributes in force on the terminal,
  as determined by the SGR bytes emitted so far".

  A small VT parser (a byte-at-a-time automaton in the style of the DEC/ECMA-48 state machine: ground,
  ESC, CSI with `;` parameters and `:` sub-parameters, private markers and intermediates, and
  DCS/OSC/SOS/PM/APC strings which are skipped up to ST or BEL) and an SGR interpreter
  (DESIGN.md Appendix C, row `CSI … m`).  Every sequence other than an unmarked `CSI … m` leaves the
  rendering attributes alone.

  Bytes are `Nat`s (< 256) so that the proofs are plain `omega` arithmetic.  Core Lean only.
-/
namespace Tickit.Sgr

abbrev Byte := Nat

/-- A colour as the terminal holds it. -/
inductive Colr where
  | dflt
  | idx (n : Nat)
  | rgb (r g b : Nat)
deriving DecidableEq, Repr, Inhabited

/-- `small` is what a logical pen may ask for (`TICKIT_PEN_SIZEPOS_SMALL`); no SGR parameter selects it. -/
inductive SizePos where
  | normal | small | super | sub
deriving DecidableEq, Repr, Inhabited

/-- The rendering attributes in force.  `faint` is not expressible by a pen but is part of what a VT
    renders with (SGR 2), so "everything else default" has to look at it.  `junk` counts SGR
    parameters the interpreter does not understand (a conformant terminal ignores them; the oracle
    does not). -/
structure Attrs where
  fg : Colr := .dflt
  bg : Colr := .dflt
  bold : Bool := false
  faint : Bool := false
  italic : Bool := false
  under : Nat := 0
  blink : Bool := false
  reverse : Bool := false
  strike : Bool := false
  font : Nat := 0
  sizepos : SizePos := .normal
  junk : Nat := 0
deriving DecidableEq, Repr, Inhabited

/-- SGR 0: everything default (the junk counter is bookkeeping, not terminal state). -/
def Attrs.reset (a : Attrs) : Attrs := { junk := a.junk }

/-- One parameter with its sub-parameters; `none` = omitted. -/
abbrev Group := List (Option Nat)

/-- Parser state for `38 ; 5 ; n` / `38 ; 2 ; r ; g ; b` spelled with semicolons. -/
inductive Pend where
  | none
  | kind (bg : Bool)
  | idx5 (bg : Bool)
  | r (bg : Bool)
  | g (bg : Bool) (r : Nat)
  | b (bg : Bool) (r g : Nat)
deriving DecidableEq, Repr, Inhabited

def setColour (bg : Bool) (c : Colr) (a : Attrs) : Attrs :=
  if bg then { a with bg := c } else { a with fg := c }

def addJunk (a : Attrs) : Attrs := { a with junk := a.junk + 1 }

/-- A parameter without sub-parameters, other than 38/48. -/
def sgrSimple (n : Nat) (a : Attrs) : Attrs :=
  if n = 0 then a.reset
  else if n = 1 then { a with bold := true }
  else if n = 2 then { a with faint := true }
  else if n = 3 then { a with italic := true }
  else if n = 4 then { a with under := 1 }
  else if n = 5 then { a with blink := true }
  else if n = 7 then { a with reverse := true }
  else if n = 9 then { a with strike := true }
  else if 10 ≤ n ∧ n ≤ 19 then { a with font := n - 10 }
  else if n = 21 then { a with under := 2 }
  else if n = 22 then { a with bold := false, faint := false }
  else if n = 23 then { a with italic := false }
  else if n = 24 then { a with under := 0 }
  else if n = 25 then { a with blink := false }
  else if n = 27 then { a with reverse := false }
  else if n = 29 then { a with strike := false }
  else if 30 ≤ n ∧ n ≤ 37 then { a with fg := .idx (n - 30) }
  else if n = 39 then { a with fg := .dflt }
  else if 40 ≤ n ∧ n ≤ 47 then { a with bg := .idx (n - 40) }
  else if n = 49 then { a with bg := .dflt }
  else if n = 73 then { a with sizepos := .super }
  else if n = 74 then { a with sizepos := .sub }
  else if n = 75 then { a with sizepos := .normal }
  else if 90 ≤ n ∧ n ≤ 97 then { a with fg := .idx (n - 90 + 8) }
  else if 100 ≤ n ∧ n ≤ 107 then { a with bg := .idx (n - 100 + 8) }
  else addJunk a

/-- A parameter that carries `:` sub-parameters. -/
def sgrSub (g : Group) (a : Attrs) : Attrs :=
  match g with
  | [some 4, some n] => { a with under := n }
  | [some 38, some 5, some n] => { a with fg := .idx n }
  | [some 48, some 5, some n] => { a with bg := .idx n }
  | [some 38, some 2, some r, some g, some b] => { a with fg := .rgb r g b }
  | [some 48, some 2, some r, some g, some b] => { a with bg := .rgb r g b }
  | [some 38, some 2, _, some r, some g, some b] => { a with fg := .rgb r g b }
  | [some 48, some 2, _, some r, some g, some b] => { a with bg := .rgb r g b }
  | _ => addJunk a

/-- One step of the SGR interpreter over the `;`-separated parameters of one CSI. -/
def sgrGroup (s : Attrs × Pend) (g : Group) : Attrs × Pend :=
  match s.2, g with
  | .none, [v] =>
    let n := v.getD 0
    if n = 38 then (s.1, .kind false)
    else if n = 48 then (s.1, .kind true)
    else (sgrSimple n s.1, .none)
  | .none, g => (sgrSub g s.1, .none)
  | .kind bg, [v] =>
    if v.getD 0 = 5 then (s.1, .idx5 bg)
    else if v.getD 0 = 2 then (s.1, .r bg)
    else (addJunk s.1, .none)
  | .idx5 bg, [v] => (setColour bg (.idx (v.getD 0)) s.1, .none)
  | .r bg, [v] => (s.1, .g bg (v.getD 0))
  | .g bg r, [v] => (s.1, .b bg r (v.getD 0))
  | .b bg r g, [v] => (setColour bg (.rgb r g (v.getD 0)) s.1, .none)
  | _, _ => (addJunk s.1, .none)

/-- The effect of `CSI <groups> m`. -/
def sgrApply (gs : List Group) (a : Attrs) : Attrs :=
  let r := gs.foldl sgrGroup (a, .none)
  if r.2 = .none then r.1 else addJunk r.1

/-! ### the parser -/

inductive PState where
  | ground
  | esc
  /-- inside `CSI`: private marker seen, completed groups, sub-parameters of the current group,
      digits of the current number, intermediate byte seen -/
  | csi (priv : Bool) (groups : List Group) (cur : Group) (num : Option Nat) (inter : Bool)
  /-- inside a DCS/OSC/SOS/PM/APC string; `esc` = the previous byte was ESC -/
  | str (esc : Bool)
deriving DecidableEq, Repr, Inhabited

structure VT where
  st : PState := .ground
  attrs : Attrs := {}
deriving DecidableEq, Repr, Inhabited

def feed (vt : VT) (b : Byte) : VT :=
  match vt.st with
  | .ground => if b = 27 then { vt with st := .esc } else vt
  | .esc =>
    if b = 91 then { vt with st := .csi false [] [] none false }
    else if b = 80 ∨ b = 93 ∨ b = 88 ∨ b = 94 ∨ b = 95 then { vt with st := .str false }
    else if b = 27 ∨ (32 ≤ b ∧ b ≤ 47) then vt
    else { vt with st := .ground }
  | .csi priv gs cur num inter =>
    if 48 ≤ b ∧ b ≤ 57 then { vt with st := .csi priv gs cur (some (num.getD 0 * 10 + (b - 48))) inter }
    else if b = 58 then { vt with st := .csi priv gs (cur ++ [num]) none inter }
    else if b = 59 then { vt with st := .csi priv (gs ++ [cur ++ [num]]) [] none inter }
    else if 60 ≤ b ∧ b ≤ 63 then { vt with st := .csi true gs cur num inter }
    else if 32 ≤ b ∧ b ≤ 47 then { vt with st := .csi priv gs cur num true }
    else if 64 ≤ b ∧ b ≤ 126 then
      if b = 109 ∧ priv = false ∧ inter = false then
        { st := .ground, attrs := sgrApply (gs ++ [cur ++ [num]]) vt.attrs }
      else { vt with st := .ground }
    else if b = 27 then { vt with st := .esc }
    else vt
  | .str e =>
    if b = 7 then { vt with st := .ground }
    else if e = true ∧ b = 92 then { vt with st := .ground }
    else if b = 27 then { vt with st := .str true }
    else { vt with st := .str false }

def run (bytes : List Byte) (vt : VT) : VT := bytes.foldl feed vt

theorem run_append (xs ys : List Byte) (vt : VT) : run (xs ++ ys) vt = run ys (run xs vt) := by
  simp [run, List.foldl_append]

end Tickit.Sgr
