import Tickit.Model.WinTree
/-
  Model of input routing in /repo/src/window.c (property C14), on the shared window store `WinTree`:
  `_handle_key`, `_handle_mouse`, `on_term_key`, `on_term_mouse` (press memory and DRAG_START / DRAG_OUTSIDE /
  DRAG_DROP / DRAG_STOP synthesis), `tickit_term_emit_key` / `tickit_term_emit_mouse` (the root window's binding,
  then the application's own terminal binding), `run_events_whilefalse`, the `ref`/`unref` pair around every
  dispatch, `tickit_window_take_focus` (without its events) and `tickit_window_flush` as far as the tree goes.

  Handlers are data (DESIGN §3 "Callbacks"): a binding is a table of entries; invocation `i` runs the actions of
  entry `min i (n-1)` and returns its `ret`.  A binding may be one-shot (`TICKIT_BIND_ONESHOT`) and an entry may first
  unbind the binding it belongs to: such a binding is `gone` from then on (the tombstones and the deferred sweep of
  src/bindings.c are property C16's model; here a walk passes over what is gone).  The actions are the tree mutations an application may perform from
  inside a handler.  The application rules of the harness (which actions it refuses) are part of the interpreter.

  Outcomes: `ok`, `ub` (the C code dereferences freed memory / NULL, or abort()s), `fuel` (the model ran out of
  fuel: never confused with a result).
-/
namespace Tickit
namespace WinInput
open WinTree

/-- Outcome of a routing step. -/
inductive Out (α : Type) where
  | ok (a : α)
  | ub (what : String)
  | fuel
deriving Repr

instance : Monad Out where
  pure := Out.ok
  bind x f := match x with
    | .ok a => f a
    | .ub w => .ub w
    | .fuel => .fuel

def liftRes {α : Type} : Res α → Out α
  | .ok a => .ok a
  | .ub w => .ub w

instance : MonadLift Res Out := ⟨liftRes⟩

def Out.isUb {α : Type} : Out α → Bool
  | .ub _ => true
  | _ => false

def Out.isOk {α : Type} : Out α → Bool
  | .ok _ => true
  | _ => false

inductive Kind where
  | key | mouse
deriving Repr, DecidableEq, Inhabited

inductive Act where
  | close | unref | keep | hide | unhide | raise | raiseFront | lower | lowerBack | focus | stealOn | stealOff
  /-- `tickit_window_set_geometry(win, current rect + (dtop, dleft, dlines, dcols))`: a window is moved / resized from
      inside the dispatch (no ON_GEOMCHANGE handlers are bound, so the event runs nothing). -/
  | geom (dtop dleft dlines dcols : Int)
deriving Repr, DecidableEq, Inhabited

structure Action where
  act : Act
  win : Id
deriving Repr, DecidableEq, Inhabited

/-- What a handler does on one invocation. -/
structure Entry where
  ret : Bool
  actions : List Action := []
  /-- the handler first unbinds this very binding (`tickit_window_unbind_event_id` with its own id, from inside its own
      invocation: the binding becomes a tombstone of the list that is being walked) -/
  unbind : Bool := false
deriving Repr, DecidableEq, Inhabited

structure Binding where
  win : Id
  kind : Kind
  idx : Nat                    -- position among the bindings of this window and kind
  entries : List Entry
  count : Nat := 0             -- invocations so far
  /-- bound with `TICKIT_BIND_ONESHOT` -/
  oneshot : Bool := false
  /-- no longer bound (`bind->id == BINDING_ID_TOMBSTONE`, or already swept out of the list): a fired one-shot binding,
      or one that unbound itself -/
  gone : Bool := false
deriving Repr, DecidableEq, Inhabited

/-- `TickitKeyEventInfo` / `TickitMouseEventInfo` (the key string plays no part in routing). -/
structure Ev where
  type : Int
  button : Int := 0
  line : Int := 0
  col : Int := 0
  mod : Int := 0
deriving Repr, DecidableEq, Inhabited

def evPress : Int := 1
def evDrag : Int := 2
def evRelease : Int := 3
def evWheel : Int := 4
def evDragStart : Int := 257
def evDragOutside : Int := 258
def evDragDrop : Int := 259
def evDragStop : Int := 260

inductive LogItem where
  /-- `run_events_whilefalse(win, …)` was entered: the event was offered to `win` (not printed).  `shown` is a ghost
      field: whether `win` and all its ancestors were visible at that moment (`visibleChain`). -/
  | offer (kind : Kind) (win : Id) (ev : Ev) (shown : Bool)
  /-- one handler ran. -/
  | call (kind : Kind) (win : Id) (idx : Nat) (entry : Nat) (ret : Bool) (ev : Ev)
  | destroyed (win : Id)
  | refused (a : Action)
  /-- the window tree did not claim the event: it reached the terminal's next binding. -/
  | unhandled
deriving Repr, DecidableEq, Inhabited

/-- Model state: the window store plus what the application (harness) keeps. -/
structure St where
  tree : Tree
  binds : Array Binding := #[]
  owned : Array Nat := #[]          -- references the application holds, per window
  log : List LogItem := []          -- newest first
deriving Repr, Inhabited

def St.say (st : St) (i : LogItem) : St := { st with log := i :: st.log }

def treeFuel (t : Tree) : Nat := t.wins.size + 2
def destroyFuel (t : Tree) : Nat := 3 * t.wins.size + 6

def isAlive (t : Tree) (id : Id) : Bool :=
  match t.wins[id]? with
  | some w => !w.freed
  | none => false

/-- The parent chain reaches the root window. -/
def attached (t : Tree) : Nat → Id → Bool
  | 0, _ => false
  | f + 1, id =>
    match t.wins[id]? with
    | none => false
    | some w =>
      if w.freed then false
      else if w.isRoot then true
      else match w.parent with
        | none => false
        | some p => attached t f p

def succOf : List Id → Id → Option Id
  | [], _ => none
  | x :: rest, c => if x = c then rest.head? else succOf rest c

/-- `child->next`: the successor in the parent's list; NULL for a window that is in no list. -/
def nextSibling (t : Tree) (child : Id) : Res (Option Id) := do
  let cw ← get t child
  match cw.parent with
  | none => pure none
  | some p =>
    let pw ← get t p
    pure (succOf pw.children child)

/-! ### focus (`tickit_window_take_focus`; no FOCUS handlers are bound) -/

def focusLost : Nat → Tree → Id → Res Tree
  | 0, _, _ => .ub "focus chain too long"
  | f + 1, t, win => do
    let w ← get t win
    let t ← match w.focusedChild with
      | some fc => focusLost f t fc
      | none => pure t
    let w ← get t win
    pure (if w.isFocused then set t win { w with isFocused := false } else t)

/-- `_focus_gained(win, child)` as repaired by /repo commit 7a99ce0: the branch that held the focus is told it lost
    it also when `win` itself takes the focus, and a focused ancestor loses `is_focused` when a descendant takes it. -/
def focusGained : Nat → Tree → Id → Option Id → Res Tree
  | 0, _, _, _ => .ub "parent chain too long"
  | f + 1, t, win, child => do
    let w ← get t win
    -- if(win->focused_child && win->focused_child != child) _focus_lost(old);
    let t ← match w.focusedChild with
      | some fc => if some fc ≠ child then focusLost (f + 1) t fc else pure t
      | none => pure t
    -- if(child && win->is_focused) win->is_focused = false;
    let w ← get t win
    let t := if child.isSome && w.isFocused then set t win { w with isFocused := false } else t
    let w ← get t win
    let t ← match w.parent with
      | some p => if w.isVisible then focusGained f t p (some win) else pure t
      | none => do
        let _ ← getRoot t (f + 1) win
        pure { t with root := { t.root with needsRestore := true, needsLater := true } }
    let w ← get t win
    let w := if child.isNone then { w with isFocused := true } else w
    pure (set t win { w with focusedChild := child })

def takeFocus (t : Tree) (win : Id) : Res Tree := focusGained (treeFuel t) t win none

/-! ### flush (`tickit_window_flush` on the root, as far as the tree is concerned) -/

def applyChanges (t : Tree) : List Req → Res Tree
  | [] => pure t
  | r :: rest => do
    let t ← doHierarchyChange t (treeFuel t) r.change r.parent r.win
    applyChanges t rest

def flush (t : Tree) : Res Tree :=
  if !t.root.needsLater then pure t else do
    let t := { t with root := { t.root with needsLater := false } }
    let t ← applyChanges t t.root.changes
    let t := { t with root := { t.root with changes := [] } }
    let t := if t.root.needsExpose then { t with root := { t.root with needsExpose := false, damage := [], needsRestore := true } } else t
    pure { t with root := { t.root with needsRestore := false } }

/-! ### which code is being modelled

  Three repairs of `src/window.c` were made for this property (fixes/C14_*.patch, now in /repo).  The model follows
  the code as it is in the working tree: `Gen/WinInputCfg.lean` (extractor) says which of them are present, so that
  a tree in which one of them is undone is still modelled faithfully (and then fails the specification). -/

structure Cfg where
  /-- `_ref_children` / `_unref_children`: the sibling loops walk a counted snapshot and skip closed children. -/
  snapshot : Bool
  /-- `_handle_mouse` returns a counted reference to the window that claimed the event (instead of withdrawing the
      claim of a window that closed or dropped itself), and the root stores a drag source only if it is still in
      the tree. -/
  counted : Bool
  /-- `_is_shown`: the whole parent chain must be visible, on entry and before the window's own handlers. -/
  shown : Bool
deriving Repr, DecidableEq, Inhabited

/-- The code before the three repairs. -/
def Cfg.legacy : Cfg := ⟨false, false, false⟩
/-- The code as it is now. -/
def Cfg.repaired : Cfg := ⟨true, true, true⟩

/-- `_purge_hierarchy_changes(win)` (called by `tickit_window_close` and `tickit_window_destroy` for a window that
    still has a parent) forgets a drag source that is `win` or lies below it.  A drag source is only ever stored
    while attached to the root and only `close` detaches windows, so this is: a drag source that is no longer
    attached to the root is forgotten. -/
def normalizeDrag (t : Tree) : Tree :=
  match t.root.dragSource with
  | none => t
  | some d => if isAlive t d && isWithin t (treeFuel t) 0 d then t else { t with root := { t.root with dragSource := none } }

/-! ### the application's actions -/

/-- The windows below and including `win`, parents before children, front-most child first: the order in which
    `tickit_window_destroy` runs the DESTROY handlers when it takes children along. -/
def preorder (t : Tree) : Nat → Id → List Id
  | 0, _ => []
  | f + 1, win =>
    match t.wins[win]? with
    | none => [win]
    | some w => win :: w.children.flatMap (preorder t f)

/-- `tickit_window_unref` with the DESTROY events logged. -/
def unrefLogged (st : St) (win : Id) : Res St := do
  let w ← get st.tree win
  let t ← WinTree.unref (fun t _ => pure t) (destroyFuel st.tree) st.tree win
  if w.refcount = 1 then
    -- that was the last reference: the window, and whatever it took along, is gone
    let t := normalizeDrag t
    let gone := (preorder st.tree (treeFuel st.tree) win).filter fun i => isAlive st.tree i && !isAlive t i
    pure (gone.foldl (fun st i => st.say (.destroyed i)) { st with tree := t })
  else pure { st with tree := t }

def refWin (st : St) (win : Id) : Res St := do
  let t ← WinTree.ref st.tree win
  pure { st with tree := t }

/-- May the application perform `a` now?  (The rules of harness/input.c.) -/
def allowed (st : St) (a : Action) : Bool :=
  let t := st.tree
  match t.wins[a.win]? with
  | none => false
  | some w =>
    if w.freed then false else
    match a.act with
    | .unref => decide (0 < st.owned.getD a.win 0) && a.win != 0 && w.children.isEmpty
    | .raise | .raiseFront | .lower | .lowerBack | .focus => attached t (treeFuel t) a.win
    | .geom .. => a.win != 0
    | _ => true

/-- `win->rect = geom` of `tickit_window_set_geometry`, with the new rectangle given relative to the old one. -/
def moveRect (dt dl dn dc : Int) (w : Win) : Win :=
  { w with rect := ⟨w.rect.top + dt, w.rect.left + dl, w.rect.lines + dn, w.rect.cols + dc⟩ }

def doAction (st : St) (a : Action) : Res St :=
  if !allowed st a then pure (st.say (.refused a)) else
  let t := st.tree
  let f := treeFuel t
  match a.act with
  | .close => do let t ← WinTree.close t f a.win; pure { st with tree := normalizeDrag t }
  | .unref => unrefLogged { st with owned := st.owned.setIfInBounds a.win (st.owned.getD a.win 0 - 1) } a.win
  | .keep => do let t ← WinTree.ref t a.win; pure { st with tree := t, owned := st.owned.setIfInBounds a.win (st.owned.getD a.win 0 + 1) }
  | .hide => do let t ← WinTree.hide t f a.win; pure { st with tree := t }
  | .unhide => do let t ← WinTree.show t f a.win; pure { st with tree := t }
  | .raise => do let t ← requestHierarchyChange t f .raise a.win; pure { st with tree := t }
  | .raiseFront => do let t ← requestHierarchyChange t f .raiseFront a.win; pure { st with tree := t }
  | .lower => do let t ← requestHierarchyChange t f .lower a.win; pure { st with tree := t }
  | .lowerBack => do let t ← requestHierarchyChange t f .lowerBack a.win; pure { st with tree := t }
  | .focus => do let t ← takeFocus t a.win; pure { st with tree := t }
  | .stealOn => do let t ← modify t a.win (fun w => { w with stealInput := true }); pure { st with tree := t }
  | .stealOff => do let t ← modify t a.win (fun w => { w with stealInput := false }); pure { st with tree := t }
  | .geom dt dl dn dc => do let t ← modify t a.win (moveRect dt dl dn dc); pure { st with tree := t }

def doActions (st : St) : List Action → Res St
  | [] => pure st
  | a :: rest => do
    let st ← doAction st a
    doActions st rest

/-! ### `run_events_whilefalse` -/

def entryIndex (b : Binding) : Nat := if b.count < b.entries.length then b.count else b.entries.length - 1

/-- The entry a binding uses on its next invocation. -/
def Binding.entry (b : Binding) : Entry := b.entries.getD (entryIndex b) { ret := false }

/-- The binding after one more invocation: the walkers of src/bindings.c turn a `TICKIT_BIND_ONESHOT` binding into a
    tombstone before they call it, and a handler that unbinds its own binding does so while it runs (the list is being
    walked, so `tickit_bindings_unbind_event_id` leaves a tombstone); either way the binding is never invoked again. -/
def Binding.fired (b : Binding) : Binding :=
  { b with count := b.count + 1, gone := b.oneshot || b.entry.unbind }

/-- Run the bindings with the given indices into `st.binds` until one claims
    (`for(bind = first; bind; bind = bind->next) if(bind->evindex == evindex && bind->id != BINDING_ID_TOMBSTONE) …`). -/
def runBindings (st : St) (kind : Kind) (win : Id) (ev : Ev) : List Nat → Res (St × Bool)
  | [] => pure (st, false)
  | bi :: rest =>
    match st.binds[bi]? with
    | none => runBindings st kind win ev rest
    | some b =>
      if b.gone then runBindings st kind win ev rest else
      let e := b.entry
      let st := { st with binds := st.binds.setIfInBounds bi b.fired }
      let st := st.say (.call kind win b.idx (entryIndex b) e.ret ev)
      do
        let st ← doActions st e.actions
        if e.ret then pure (st, true) else runBindings st kind win ev rest

/-- The indices of the bindings of `win` for `kind`, in binding order. -/
def bindingsOf (binds : Array Binding) (kind : Kind) (win : Id) : List Nat :=
  (List.range binds.size).filter fun i =>
    match binds[i]? with
    | some b => b.win = win && b.kind = kind
    | none => false

/-- `id` is live and visible, and so is every window on its parent chain. -/
def visibleChain (t : Tree) : Nat → Id → Bool
  | 0, _ => false
  | f + 1, id =>
    match t.wins[id]? with
    | none => false
    | some w =>
      if w.freed || !w.isVisible then false
      else match w.parent with
        | none => true
        | some p => visibleChain t f p

/-- `run_events_whilefalse(win, ev, info)`: the event is offered to `win`. -/
def runHandlers (st : St) (kind : Kind) (win : Id) (ev : Ev) : Res (St × Bool) :=
  runBindings (st.say (.offer kind win ev (visibleChain st.tree (treeFuel st.tree) win))) kind win ev
    (bindingsOf st.binds kind win)

/-- `_is_shown(win)`. -/
def isShown (t : Tree) : Nat → Id → Res Bool
  | 0, _ => .ub "parent chain too long"
  | f + 1, id => do
    let w ← get t id
    if !w.isVisible then pure false
    else match w.parent with
      | none => pure true
      | some p => isShown t f p

/-- The test at the top of `_handle_key` / `_handle_mouse`. -/
def entryVisible (cfg : Cfg) (t : Tree) (win : Id) : Res Bool :=
  if cfg.shown then isShown t (treeFuel t) win
  else do
    let w ← get t win
    pure w.isVisible

/-- The test in front of the window's own handlers (`_is_shown(win) && run_events_whilefalse(…)`). -/
def ownVisible (cfg : Cfg) (t : Tree) (win : Id) : Res Bool :=
  if cfg.shown then isShown t (treeFuel t) win else pure true

/-- `_ref_children`: one reference on every child, front to back. -/
def refAll (st : St) : List Id → Res St
  | [] => pure st
  | c :: cs => do
    let st ← refWin st c
    refAll st cs

/-- `_unref_children`. -/
def unrefAll (st : St) : List Id → Res St
  | [] => pure st
  | c :: cs => do
    let st ← unrefLogged st c
    unrefAll st cs

/-! ### `_handle_key`

  The body of `_handle_key` is written over the function `rec` that the recursive calls go to, so that every phase
  is a definition of its own; `handleKey cfg (f+1)` is the body over `handleKey cfg f` (fuel = nesting depth). -/

abbrev KeyRec := St → Id → Ev → Out (St × Bool)

/-- `a`, and if it did not claim the event, `k` (the `if(…) goto done;` chain). -/
def firstClaim (a : Out (St × Bool)) (k : St → Out (St × Bool)) : Out (St × Bool) := do
  let (st, done) ← a
  if done then pure (st, true) else k st

/-- `if(win->first_child && win->first_child->steal_input) if(_handle_key(win->first_child, info)) goto done;` -/
def keySteal (rec : KeyRec) (st : St) (win : Id) (ev : Ev) : Out (St × Bool) := do
  let w ← get st.tree win
  match w.children.head? with
  | none => pure (st, false)
  | some fc => do
    let fw ← get st.tree fc
    if fw.stealInput then rec st fc ev else pure (st, false)

/-- `if(win->focused_child) if(_handle_key(win->focused_child, info)) goto done;` -/
def keyFocus (rec : KeyRec) (st : St) (win : Id) (ev : Ev) : Out (St × Bool) := do
  let w ← get st.tree win
  match w.focusedChild with
  | none => pure (st, false)
  | some fc => rec st fc ev

/-- `if(_is_shown(win) && run_events_whilefalse(win, TICKIT_WINDOW_ON_KEY, info)) goto done;` -/
def keyOwn (cfg : Cfg) (st : St) (win : Id) (ev : Ev) : Out (St × Bool) := do
  let own ← ownVisible cfg st.tree win
  if own then runHandlers st .key win ev else pure (st, false)

/-- The "other children" loop over the counted snapshot (after the repair). -/
def keySnap (rec : KeyRec) : St → Id → List Id → Ev → Out (St × Bool)
  | st, _, [], _ => pure (st, false)
  | st, win, child :: rest, ev => do
    let cw ← get st.tree child
    if cw.parent ≠ some win then keySnap rec st win rest ev else    -- closed by a handler in the meantime
    let w ← get st.tree win
    if w.focusedChild = some child then keySnap rec st win rest ev else
    let (st, done) ← rec st child ev
    if done then pure (st, true) else keySnap rec st win rest ev

/-- The same loop before the repair: `for(child = win->first_child; child; child = next) { next = child->next; … }`;
    `child` is the loop variable, the fuel bounds the walk. -/
def keyLoop (rec : KeyRec) : Nat → St → Id → Option Id → Ev → Out (St × Bool)
  | _, st, _, none, _ => pure (st, false)
  | 0, _, _, some _, _ => .fuel
  | f + 1, st, win, some child, ev => do
    if !isAlive st.tree child then
      (.ub s!"_handle_key: the saved next sibling {child} was freed by a handler (child->next read after free)" : Out Unit)
    else pure ()
    let next ← nextSibling st.tree child          -- next = child->next
    let w ← get st.tree win
    if w.focusedChild = some child then keyLoop rec f st win next ev else
    let (st, done) ← rec st child ev
    if done then pure (st, true) else keyLoop rec f st win next ev

/-- "Last-ditch attempt to spread it around other children". -/
def keyChildren (cfg : Cfg) (rec : KeyRec) (fuel : Nat) (st : St) (win : Id) (ev : Ev) : Out (St × Bool) := do
  let w ← get st.tree win
  if cfg.snapshot then do
    -- children = snapshot with a reference each; walk it; drop the references
    let cs := w.children
    let st ← refAll st cs
    let (st, done) ← keySnap rec st win cs ev
    let st ← unrefAll st cs
    pure (st, done)
  else keyLoop rec fuel st win w.children.head? ev

/-- `done: tickit_window_unref(win); return ret;` -/
def keyDone (st : St) (win : Id) (ret : Bool) : Out (St × Bool) := do
  let st ← unrefLogged st win
  pure (st, ret)

/-- `_handle_key(win, info)` over the function the recursive calls go to. -/
def handleKeyBody (cfg : Cfg) (rec : KeyRec) (fuel : Nat) (st : St) (win : Id) (ev : Ev) : Out (St × Bool) := do
  let vis ← entryVisible cfg st.tree win
  if !vis then pure (st, false) else
  let st ← refWin st win
  let (st, done) ←
    firstClaim (keySteal rec st win ev) fun st =>
    firstClaim (keyFocus rec st win ev) fun st =>
    firstClaim (keyOwn cfg st win ev) fun st =>
    keyChildren cfg rec fuel st win ev
  keyDone st win done

/-- `_handle_key`. -/
def handleKey (cfg : Cfg) : Nat → KeyRec
  | 0 => fun _ _ _ => .fuel
  | f + 1 => handleKeyBody cfg (handleKey cfg f) f

/-! ### `_handle_mouse` -/

abbrev MouseRec := St → Id → Ev → Out (St × Option Id)

/-- Is the cell `(line, col)` (in the parent's coordinates) outside the child's rectangle? -/
def outsideChild (cw : Win) (line col : Int) : Bool :=
  line - cw.rect.top < 0 || line - cw.rect.top ≥ cw.rect.lines || col - cw.rect.left < 0 || col - cw.rect.left ≥ cw.rect.cols

/-- The event as the child sees it. -/
def Ev.toChild (ev : Ev) (cw : Win) : Ev := { ev with line := ev.line - cw.rect.top, col := ev.col - cw.rect.left }

/-- The children loop of `_handle_mouse` over the counted snapshot (after the repair). -/
def mouseSnap (rec : MouseRec) : St → Id → List Id → Ev → Out (St × Option Id)
  | st, _, [], _ => pure (st, none)
  | st, win, child :: rest, ev => do
    let cw ← get st.tree child
    if cw.parent ≠ some win then mouseSnap rec st win rest ev else    -- closed by a handler in the meantime
    if !cw.stealInput && outsideChild cw ev.line ev.col then mouseSnap rec st win rest ev else
    let (st, r) ← rec st child (ev.toChild cw)
    match r with
    | some h => pure (st, some h)
    | none => mouseSnap rec st win rest ev

/-- The same loop before the repair. -/
def mouseLoop (rec : MouseRec) : Nat → St → Option Id → Ev → Out (St × Option Id)
  | _, st, none, _ => pure (st, none)
  | 0, _, some _, _ => .fuel
  | f + 1, st, some child, ev => do
    if !isAlive st.tree child then
      (.ub s!"_handle_mouse: the saved next sibling {child} was freed by a handler (child->next read after free)" : Out Unit)
    else pure ()
    let next ← nextSibling st.tree child          -- next = child->next
    let cw ← get st.tree child
    if !cw.stealInput && outsideChild cw ev.line ev.col then mouseLoop rec f st next ev else
    let (st, r) ← rec st child (ev.toChild cw)
    match r with
    | some h => pure (st, some h)
    | none => mouseLoop rec f st next ev

def mouseChildren (cfg : Cfg) (rec : MouseRec) (fuel : Nat) (st : St) (win : Id) (ev : Ev) : Out (St × Option Id) := do
  let w ← get st.tree win
  if cfg.snapshot then do
    let cs := w.children
    let st ← refAll st cs
    let (st, r) ← mouseSnap rec st win cs ev
    let st ← unrefAll st cs
    pure (st, r)
  else mouseLoop rec fuel st w.children.head? ev

/-- The window's own handlers; a claim is returned as a counted reference after the repair. -/
def mouseOwn (cfg : Cfg) (st : St) (win : Id) (ev : Ev) : Out (St × Option Id) := do
  let own ← ownVisible cfg st.tree win
  if !own then pure (st, none) else
  let (st, done) ← runHandlers st .mouse win ev
  if !done then pure (st, none) else
  let st ← (if cfg.counted then refWin st win else pure st : Res St)      -- ret = tickit_window_ref(win)
  pure (st, some win)

/-- After the children: if one of them took the event that is the result, otherwise the window's own handlers run. -/
def mouseSelf (cfg : Cfg) (st : St) (win : Id) (ev : Ev) (r : Option Id) : Out (St × Option Id) :=
  match r with
  | some h => pure (st, some h)
  | none => mouseOwn cfg st win ev

/-- `done:` of `_handle_mouse`. -/
def mouseDone (cfg : Cfg) (st : St) (win : Id) (ret : Option Id) : Out (St × Option Id) := do
  -- if(win->is_closed || win->refcount == 1) ret = NULL;   (the rule of 443f8da; gone with the counted return)
  let w ← get st.tree win
  let ret := if !cfg.counted && (w.isClosed || w.refcount = 1) then none else ret
  let st ← unrefLogged st win
  pure (st, ret)

/-- `_handle_mouse(win, info)` over the function the recursive calls go to: the window that handled the event,
    or NULL (a counted reference after the repair). -/
def handleMouseBody (cfg : Cfg) (rec : MouseRec) (fuel : Nat) (st : St) (win : Id) (ev : Ev) : Out (St × Option Id) := do
  let vis ← entryVisible cfg st.tree win
  if !vis then pure (st, none) else
  let st ← refWin st win
  let (st, r) ← mouseChildren cfg rec fuel st win ev
  let (st, r) ← mouseSelf cfg st win ev r
  mouseDone cfg st win r

/-- `_handle_mouse`. -/
def handleMouse (cfg : Cfg) : Nat → MouseRec
  | 0 => fun _ _ _ => .fuel
  | f + 1 => handleMouseBody cfg (handleMouse cfg f) f

/-- Fuel that suffices for any dispatch on a store of this size (one per level of nesting; the unrepaired sibling
    walk also draws on it). -/
def routeFuel (t : Tree) : Nat := 2 * t.wins.size + 8

/-! ### `on_term_key`, `on_term_mouse`, and the terminal-level emission -/

/-- `on_term_key`. -/
def onTermKey (cfg : Cfg) (fuel : Nat) (st : St) (ev : Ev) : Out (St × Bool) := handleKey cfg fuel st 0 ev

/-- Drop the counted reference a `_handle_mouse` call returned (after the repair). -/
def dropResult (cfg : Cfg) (st : St) (r : Option Id) : Res St :=
  match r with
  | some h => if cfg.counted then unrefLogged st h else pure st
  | none => pure st

/-- What `on_term_mouse` does with the window that claimed DRAG_START: before the repair the pointer is stored as
    it is; after it, it is stored only if the window is still below the root, and the counted reference is dropped
    (which may destroy the window; `_purge_hierarchy_changes` then forgets it again). -/
def dragSourceSet (cfg : Cfg) (st : St) (src : Option Id) : Res St :=
  let setSrc (st : St) (v : Option Id) : St := { st with tree := { st.tree with root := { st.tree.root with dragSource := v } } }
  if !cfg.counted then pure (setSrc st src) else
  match src with
  | none => pure (setSrc st none)
  | some s =>
    let st := setSrc st (if isWithin st.tree (treeFuel st.tree) 0 s then some s else none)
    unrefLogged st s

/-- The use of `root->drag_source_window` for DRAG_STOP / DRAG_OUTSIDE: geometry, then dispatch. -/
def toDragSource (cfg : Cfg) (fuel : Nat) (st : St) (src : Id) (type : Int) (ev : Ev) : Out St := do
  if !isAlive st.tree src then
    (.ub s!"on_term_mouse: drag_source_window {src} was freed during the drag (use after free)" : Out Unit)
  else pure ()
  let geom ← absGeometry st.tree (treeFuel st.tree) src
  let (st, r) ← handleMouse cfg fuel st src { type := type, button := ev.button, line := ev.line - geom.top, col := ev.col - geom.left }
  dropResult cfg st r

/-- DRAG_STOP: sent to the drag source (if there still is one) when the button is released. -/
def dragStop (cfg : Cfg) (fuel : Nat) (st : St) (ev : Ev) : Out St :=
  match st.tree.root.dragSource with
  | none => pure st
  | some src => toDragSource cfg fuel st src evDragStop ev

/-- The synthesised events that precede the event itself. -/
def dragPrelude (cfg : Cfg) (fuel : Nat) (st : St) (ev : Ev) : Out St :=
  let root := st.tree.root
  if ev.type = evPress then
    pure { st with tree := { st.tree with root := { root with mouseLastButton := ev.button, mouseLastLine := ev.line, mouseLastCol := ev.col } } }
  else if ev.type = evDrag && !root.mouseDragging then do
    let (st, src) ← handleMouse cfg fuel st 0 { type := evDragStart, button := root.mouseLastButton, line := root.mouseLastLine, col := root.mouseLastCol }
    let st ← dragSourceSet cfg st src
    pure { st with tree := { st.tree with root := { st.tree.root with mouseDragging := true } } }
  else if ev.type = evRelease && root.mouseDragging then do
    let (st, dropped) ← handleMouse cfg fuel st 0 { type := evDragDrop, button := ev.button, line := ev.line, col := ev.col }
    let st ← dropResult cfg st dropped
    let st ← dragStop cfg fuel st ev
    pure { st with tree := { st.tree with root := { st.tree.root with mouseDragging := false } } }
  else pure st

/-- DRAG_OUTSIDE: sent to the drag source when a DRAG was not handled by it. -/
def dragOutside (cfg : Cfg) (fuel : Nat) (st : St) (ev : Ev) (handled : Option Id) : Out St :=
  match st.tree.root.dragSource with
  | some src =>
    if ev.type = evDrag && handled ≠ some src then toDragSource cfg fuel st src evDragOutside ev
    else pure st
  | none => pure st

/-- `on_term_mouse`. -/
def onTermMouse (cfg : Cfg) (fuel : Nat) (st : St) (ev : Ev) : Out (St × Bool) := do
  let st ← refWin st 0                 -- tickit_window_ref(win): the root is needed between the dispatches
  let st ← dragPrelude cfg fuel st ev
  let (st, handled) ← handleMouse cfg fuel st 0 ev
  let st ← dragOutside cfg fuel st ev handled
  let st ← dropResult cfg st handled
  let st ← unrefLogged st 0            -- tickit_window_unref(win)
  pure (st, handled.isSome)

/-- `tickit_term_emit_key`: the root window's binding, then the application's own. -/
def emitKey (cfg : Cfg) (st : St) (ev : Ev) : Out St := do
  let (st, handled) ← onTermKey cfg (routeFuel st.tree) st ev
  pure (if handled then st else st.say .unhandled)

/-- `tickit_term_emit_mouse`. -/
def emitMouse (cfg : Cfg) (st : St) (ev : Ev) : Out St := do
  let (st, handled) ← onTermMouse cfg (routeFuel st.tree) st ev
  pure (if handled then st else st.say .unhandled)

/-! ### the other operations of the engine -/

/-- The engine's `new`: a fresh root window (`tickit_window_new_root2` initialises the press memory to button 0 at
    (0,0), no drag, no drag source). -/
def newSt (lines cols : Int) : St :=
  { tree := newRoot lines cols, owned := #[1] }

/-- `tickit_window_new` by the application (it keeps the reference). -/
def newWin (st : St) (parent : Id) (rect : Rect) (rootParent hidden lowest steal : Bool) : Res (St × Id) := do
  let (t, id) ← newWindow st.tree (treeFuel st.tree) parent rect rootParent hidden lowest steal
  pure ({ st with tree := t, owned := st.owned.push 1 }, id)

def addBinding (st : St) (win : Id) (kind : Kind) (entries : List Entry) (oneshot : Bool := false) : St × Nat :=
  let idx := (bindingsOf st.binds kind win).length
  ({ st with binds := st.binds.push { win := win, kind := kind, idx := idx, entries := entries, oneshot := oneshot } }, idx)

def flushSt (st : St) : Res St := do
  let t ← flush st.tree
  pure { st with tree := t }

/-! ### specification vocabulary: offers and claims -/

/-- The handlers bound do not mutate the tree: every entry of every behaviour table has no actions. -/
def Static (binds : Array Binding) : Prop :=
  ∀ (i : Nat) (b : Binding), binds[i]? = some b → ∀ e ∈ b.entries, e.actions = []

/-- Offer an event to the bindings with the given indices, in order, until one claims: the invocation counters
    afterwards and whether one claimed. -/
def offerBindings (binds : Array Binding) : List Nat → Array Binding × Bool
  | [] => (binds, false)
  | bi :: rest =>
    match binds[bi]? with
    | none => offerBindings binds rest
    | some b =>
      if b.gone then offerBindings binds rest else
      let binds' := binds.setIfInBounds bi b.fired
      if b.entry.ret then (binds', true) else offerBindings binds' rest

/-- Offer an event to one window. -/
def offerOne (binds : Array Binding) (kind : Kind) (win : Id) : Array Binding × Bool :=
  offerBindings binds (bindingsOf binds kind win)

/-- Offer to the windows of the list, in order, stopping at the first that claims: the counters afterwards, the
    offers actually made, and the window that claimed. -/
def offerAll (binds : Array Binding) (kind : Kind) : List (Id × Ev) → Array Binding × List (Id × Ev) × Option Id
  | [] => (binds, [], none)
  | (w, e) :: rest =>
    let r := offerOne binds kind w
    if r.2 then (r.1, [(w, e)], some w)
    else
      let q := offerAll r.1 kind rest
      (q.1, (w, e) :: q.2.1, q.2.2)

/-- The offers recorded in a log, oldest first. -/
def offers : List LogItem → List (Kind × Id × Ev)
  | [] => []
  | .offer k w e _ :: rest => offers rest ++ [(k, w, e)]
  | _ :: rest => offers rest

/-! ### specification vocabulary: the reference offer orders of the property text -/

/-- Run `g` over a list and concatenate (`none` as soon as one of them is `none`). -/
def visitList {α : Type} (g : Id → Option (List α)) : List Id → Option (List α)
  | [] => some []
  | c :: cs => do
    let a ← g c
    let b ← visitList g cs
    pure (a ++ b)

/-- Does the window steal input? -/
def stealAt (t : Tree) (id : Id) : Bool :=
  match t.wins[id]? with
  | some w => w.stealInput
  | none => false

/-- The three groups of children a key is offered to, given the function `g` for a child's own subtree:
    the stealing front-most child, … -/
def stealVisits (t : Tree) (g : Id → Option (List Id)) (w : Win) : Option (List Id) :=
  match w.children.head? with
  | some fc => if stealAt t fc then g fc else some []
  | none => some []

/-- … the focus chain, … -/
def focusVisits (g : Id → Option (List Id)) (w : Win) : Option (List Id) :=
  match w.focusedChild with
  | some fc => g fc
  | none => some []

/-- … and (after the window itself) the children other than the focused one. -/
def restVisits (g : Id → Option (List Id)) (w : Win) : Option (List Id) :=
  visitList (fun c => if w.focusedChild = some c then some [] else g c) w.children

/-- The windows a key event is offered to below and including `win`, in order, *as the code visits them* (a
    stealing first child is visited by the steal rule and again by the loop over the children): nothing if `win` or
    one of its ancestors is hidden; otherwise the stealing front-most child, the focus chain innermost first, the
    window itself, the other children.  `none`: out of fuel. -/
def keyVisits (t : Tree) : Nat → Id → Option (List Id)
  | 0, _ => none
  | f + 1, win =>
    match t.wins[win]? with
    | none => some []
    | some w =>
      if !visibleChain t (treeFuel t) win then some [] else do
      let steal ← stealVisits t (keyVisits t f) w
      let foc ← focusVisits (keyVisits t f) w
      let rest ← restVisits (keyVisits t f) w
      pure (steal ++ foc ++ [win] ++ rest)

/-- First occurrences, given what has been seen already. -/
def firstOccAux (seen : List Id) : List Id → List Id
  | [] => []
  | x :: xs => if x ∈ seen then firstOccAux seen xs else x :: firstOccAux (x :: seen) xs

/-- The list without repetitions: every element at its first occurrence. -/
def firstOcc (l : List Id) : List Id := firstOccAux [] l

/-- The reference offer order for a key event: first occurrences of `keyVisits`. -/
def keyOrder (t : Tree) (fuel : Nat) (win : Id) : Option (List Id) := (keyVisits t fuel win).map firstOcc

/-- Is the cell inside the child's rectangle (cell in the parent's coordinates)? -/
def inChild (cw : Win) (line col : Int) : Bool := !outsideChild cw line col

/-- What a mouse event is offered to below one child (given the function `g` for the child's own subtree):
    the child's subtree if the child steals input or is under the pointer. -/
def childVisits (t : Tree) (g : Id → Ev → Option (List (Id × Ev))) (ev : Ev) (c : Id) : Option (List (Id × Ev)) :=
  match t.wins[c]? with
  | some cw => if cw.stealInput || inChild cw ev.line ev.col then g c (ev.toChild cw) else some []
  | none => some []

/-- The windows a mouse event `ev` (position in `win`'s coordinates) is offered to below and including `win`, with
    the event as each of them sees it: nothing if `win` or an ancestor is hidden; otherwise the children under the
    pointer (or stealing), front-most first, depth first, then the window itself. -/
def mouseVisits (t : Tree) : Nat → Id → Ev → Option (List (Id × Ev))
  | 0, _, _ => none
  | f + 1, win, ev =>
    match t.wins[win]? with
    | none => some []
    | some w =>
      if !visibleChain t (treeFuel t) win then some [] else do
      let below ← visitList (childVisits t (mouseVisits t f) ev) w.children
      pure (below ++ [(win, ev)])

/-- The offsets of the windows on the parent chain starting at `p` add up to `(a, b)`: a window's absolute
    position, without fuel. -/
inductive OriginSum (t : Tree) : Option Id → Int → Int → Prop where
  | top : OriginSum t none 0 0
  | step {p : Id} {pw : Win} {a b : Int} : t.wins[p]? = some pw → OriginSum t pw.parent a b →
      OriginSum t (some p) (a + pw.rect.top) (b + pw.rect.left)

/-- An offer was made while the window and all its ancestors were visible (the ghost bit of the log item). -/
def ShownOffer : LogItem → Prop
  | .offer _ _ _ b => b = true
  | _ => True

/-- What a log item carries, if it is an offer or a handler call. -/
def evOf : LogItem → Option Ev
  | .offer _ _ e _ => some e
  | .call _ _ _ _ _ e => some e
  | _ => none

/-- Every event the item carries satisfies `Q`. -/
def Carries (Q : Ev → Prop) (i : LogItem) : Prop := ∀ e, evOf i = some e → Q e

/-- The windows of the subtree of `win` (through the children lists). -/
def subtree (t : Tree) : Nat → Id → List Id
  | 0, _ => []
  | f + 1, win =>
    match t.wins[win]? with
    | none => [win]
    | some w => win :: w.children.flatMap (subtree t f)

end WinInput
end Tickit
