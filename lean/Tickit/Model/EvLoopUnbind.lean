import Tickit.Model.EvLoop
/-
  `tickit_watch_cancel` (src/tickit.c 757–836) with an *active* unbind handler: the callback of the cancelled
  watch, given `TICKIT_EV_UNBIND`, registers further watches (timers, deferred callbacks — also `BIND_FIRST` —, io,
  signal and process watches), sets errno, raises signals.  In Model/EvLoop.lean notifications are passive; this
  file restates the functions of the cancel path with the notification replaced by one that acts, for a cancel made
  from outside any running callback (the harness's top-level `cancel k` after `ubeh k …`).

  What matters is the order of the C text: the watch is unlinked (`*thisp = this->next`) *before* the handler
  runs, so whatever the handler links into the same list — in front of the place the watch had, or anywhere else —
  stays linked; then the loop hook, then `free(this)`; the walk then continues from the link it stands on.

  The handler's actions are those of a behaviour table (`Act`) except `cancel` (a handler that cancels would make
  `tickit_watch_cancel` re-entrant; the harness skips such an action, the model treats it as `nop`).

  Core Lean only.
-/
namespace Tickit.EvLoop

/-- One action of an unbind handler. -/
def runUAct (st : St) (act : Act) : St :=
  match act with
  | .cancel _ => st
  | _ => runAct st act

/-- The actions of the unbind handler of watch slot `k` (`ubeh k …`; the first entry counts). -/
def unbindActs (ub : List Beh) (k : Int) : List Act :=
  match ub.find? (fun (b : Beh) => b.k = k) with
  | some b => b.acts
  | none => []

/-- The handler's actions, each announced by an `a` marker. -/
def runUActs (st : St) (acts : List Act) : St :=
  acts.foldl (fun st act => if st.isOk then runUAct (st.emit .a) act else st) st

/-- `(*this->fn)(t, TICKIT_EV_UNBIND, NULL, this->user)` with a handler that acts. -/
def notifyU (ub : List Beh) (st : St) (a : Nat) : St :=
  if (st.getW a).slot ≥ 0 then runUActs (notify st a EV_UNBIND) (unbindActs ub (st.getW a).slot) else st

/-- `if(this->flags & TICKIT_BIND_UNBIND) (*this->fn)(t, TICKIT_EV_UNBIND, NULL, this->user);` -/
def cancelNotifyU (ub : List Beh) (st : St) (a : Nat) (w : Watch) : St :=
  if w.flags &&& BIND_UNBIND ≠ 0 then notifyU ub st a else st

/-- The state when the handler has returned: the watch is unlinked, the handler has run. -/
def cancelUnlinkedU (ub : List Beh) (st : St) (a : Nat) (w : Watch) (l : List Nat) : St :=
  cancelNotifyU ub (setListOf st w.type (l.erase a)) a w

/-- `tickit_watch_cancel` once the watch `a` (contents `w`) has been found in its list `l`: unlink, notify (the
    handler acts), hook, free — and then the loop keeps walking from the link it stands on: the nodes that now
    follow the predecessor of `a` (they include what the handler linked in there). -/
def cancelFoundU (ub : List Beh) (st : St) (a : Nat) (w : Watch) (l : List Nat) : St :=
  cancelRest ((cancelHook (cancelUnlinkedU ub st a w l) w.type w.evi).free a)
    ((listOf (cancelUnlinkedU ub st a w l) w.type).drop (l.takeWhile (· ≠ a)).length)

/-- The repaired tail of `tickit_watch_cancel` for a deferred callback of a detached batch. -/
def cancelDetachedU (ub : List Beh) (st : St) (a : Nat) : St :=
  (cancelNotifyU ub st a (st.getW a)).setW a { (cancelNotifyU ub st a (st.getW a)).getW a with type := .none }

/-- `tickit_watch_cancel` (compare `watchCancel0`). -/
def watchCancel0U (ub : List Beh) (st : St) (a : Nat) : St :=
  if !st.isOk then st
  else if !st.live a then st.fail .cancelType
  else if (st.getW a).type = .none then st
  else if !st.allLive ((listOf st (st.getW a).type).takeWhile (· ≠ a)) then st.fail .cancelWalk
  else if !(listOf st (st.getW a).type).contains a then
    (if st.cfg.laterCancelMarks = true ∧ (st.getW a).type = .later then cancelDetachedU ub st a else st)
  else cancelFoundU ub st a (st.getW a) (listOf st (st.getW a).type)

/-- `tickit_watch_cancel` (compare `watchCancel`): the deferred callback that would deliver a pre-exited child is
    the library's own (no handler). -/
def watchCancelU (ub : List Beh) (st : St) (a : Nat) : St :=
  if st.cfg.processLinked = true ∧ cancelFindsProcess st a = true then
    match (st.getW a).notify with
    | some l => watchCancel0 (watchCancel0U ub st a) l
    | none => watchCancel0U ub st a
  else watchCancel0U ub st a

/-- The harness's `cancel k` from outside any callback. -/
def doCancelU (ub : List Beh) (st : St) (k : Int) : St :=
  match findSlot st k with
  | none => st.emit (.skip k)
  | some r => watchCancelU ub { st with cancelReq := k :: st.cancelReq } r.handle

/-- The operation `cancel k` (compare `applyOp (.act (.cancel k))`). -/
def applyCancelU (ub : List Beh) (st : St) (k : Int) : St :=
  if !st.isOk then { st with log := [] }
  else if !st.alive then { st with log := [] }
  else doCancelU ub { st with log := [] } k

/-- Histories in which a `cancel k` made from outside any callback may find an unbind handler that acts: the harness's
    operations, and `cancel k` under the handler table `ub` (`ubeh …` lines seen so far). -/
inductive UOp
  | op (o : Op)
  | cancelU (ub : List Beh) (k : Int)

def applyUOp (st : St) : UOp → St
  | .op o => applyOp st o
  | .cancelU ub k => applyCancelU ub st k

def runUOps (cfg : Config) (ops : List UOp) : St := ops.foldl applyUOp (build cfg)

end Tickit.EvLoop
