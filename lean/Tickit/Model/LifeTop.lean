import Tickit.Model.LifeOps
import Tickit.Model.RBFlush
/-
  Property C08, fourth part of the model: what lies around the window tree of `Model/Life*.lean`.

  * the content of the mock terminal (`src/mockterm.c`: `mtd_goto_abs`, `mtd_print` as transcribed in
    `Model/RBFlush.lean`, engine `rbflush`), so that `tickit_mockterm_get_display_text` is exercised over cells of
    several bytes (non-ASCII, double-width with its empty second cell, base + combining marks).

  * the terminal's own event bindings and its input entry points (`src/term.c`: `tickit_term_bind_event`,
    `tickit_term_input_push_bytes`, `_readable`, `_wait_msec`/`_wait_tv`, `_check_timeout_msec`, `get_keys`,
    `timedout`, `got_key`), with handlers that drop windows and the terminal itself.  What libtermkey makes of the
    bytes is not modelled: input is a list of tokens whose decoding is fixed (and trusted) on both sides.

  * the toplevel instance (`src/tickit.c`: `tickit_build` for a given terminal, `tickit_get_rootwin`,
    `tickit_get_term`, `tickit_ref/unref` → `tickit_destroy`, `tickit_watch_later`, `tickit_watch_timer_after_msec`,
    `tickit_watch_cancel`, `tickit_tick` with the default event loop: `tickit_evloop_invoke_timers`, the watch on the
    terminal's input and `on_term_timeout`).  A watch, and a handler bound on the terminal, may register further
    watches while it runs (`TAct.timerAt`: `tickit_watch_timer_at_tv` for an instant of the harness's clock, possibly
    one that has passed - the new entry then stands in front of the queue the loop of `tickit_evloop_invoke_timers` is
    working on; `TAct.later`: `tickit_watch_later`): `invokeTimers` is that loop, which unlinks the head before it
    invokes it and looks at the queue again afterwards.  The application keeps its own reference to the root window
    and to the terminal it obtains from the instance.  The deferred `_flush_fn` calls the root window queues on the instance
    (`_request_later_processing`) are not tracked: the harness flushes the root window before every tick, and
    handlers in histories with an instance make no restacking requests, so that those calls find nothing to
    reorder (the model would be wrong about the window order otherwise).

  The operations of `Life.Op` keep their meaning (`Life.step`); this layer adds operations and keeps the state they
  need next to the `St` of the lower layers.  The theorems about this layer are `sigwinch_list_safe`, `top_no_ub`,
  `top_lifetime_inv` and `top_all_released` (Props/C08.lean; Proof/LifeSigwinch.lean, LifeTop.lean, LifeTopEnd.lean).
-/
namespace Tickit
namespace Life
open WinTree (Id)

/-- What a handler bound on the terminal does: API calls on windows, and on the terminal. -/
inductive TAct where
  | win (a : Act)
  | tunref                    -- tickit_term_unref
  | tref                      -- tickit_term_ref
  | timerAt (at_ : Int)       -- tickit_watch_timer_at_tv(t, <at_ ms of the harness's clock>, …) of a watch without actions
  | later                     -- tickit_watch_later(t, …) of a watch without actions
deriving Repr, Inhabited

/-- Whose binding on the terminal: the three of the root window (`tickit_window_new_root2`), or the k-th of the
    application (the harness's behaviour record). -/
inductive TKind where
  | rootResize | rootKey | rootMouse
  | app (idx : Nat)
deriving Repr, Inhabited, DecidableEq

structure TBind where
  id : Int
  kind : TKind
  ev : Option Ev := none      -- `none`: TICKIT_TERM_ON_RESIZE
  ret : Bool := false
  acts : List TAct := []
deriving Repr, Inhabited

def TBind.isApp (b : TBind) : Bool := match b.kind with | .app _ => true | _ => false

/-- Input tokens.  harness/life.c sends `a` as the byte 0x61 (a TEXT key), `A` as ESC b (the key M-b), `U` as
    ESC [ A (the key Up), `E` as a lone ESC (pending until the inter-byte timeout makes it the key Escape, or a
    following `a` makes it M-a), and X10 mouse reports ESC [ M b x y for button 1: `P` press, `D` drag, `R` release
    (which names no button: `got_key` reports it for the buttons it believes held). -/
inductive Tok where
  | chr | alt | up | esc
  | press (line col : Int) | drag (line col : Int) | release (line col : Int)
deriving Repr, Inhabited

/-- Configuration of this layer: the repairs of the lower layers, and whether `tickit_destroy` makes a root window
    that outlives the instance forget it (repair 6812027). -/
structure TCfg where
  base : Cfg
  rootForgetsTickit : Bool := false
  /-- `tickit_term_observe_sigwinch` resets `tt->next_sigwinch_observer` of the terminal it unlinks
      (repair a2a7841) -/
  sigwinchClearsNext : Bool := false
  /-- `tickit_term_set_input_fd` forgets the TermKey it destroys (repair f040fc7) -/
  setInputFdClearsTermkey : Bool := false
deriving Repr, Inhabited

/-- A further terminal of the process (`xnew`): only the application refers to it. -/
structure XTerm where
  appRefs : Nat := 1
  freed : Bool := false
deriving Repr, Inhabited

/-- The SIGWINCH part of `struct TickitTerm`: `observe_winch`, `next_sigwinch_observer` (terminal 0 is the main one,
    terminal k+1 the k-th further one). -/
structure SwNode where
  obs : Bool := false
  next : Option Nat := none
deriving Repr, Inhabited

/-- An entry of `t->laters` / `t->timers`: a watch of the application (behaviour record `idx`), or the instance's own
    timer for the terminal's input timeout (`on_term_timeout`). -/
inductive WItem where
  | app (idx : Nat) (acts : List TAct)
  | termTimeout
deriving Repr, Inhabited

/-- `struct Tickit`. -/
structure Inst where
  refcount : Int := 1
  appRefs : Nat := 1
  freed : Bool := false
  laters : List WItem := []
  timers : List (Int × WItem) := []      -- ordered by time, later insertions after equal times
  nW : Nat := 0                          -- behaviour records handed out
deriving Repr, Inhabited

/-- The operations of the `life` engine: those of `Life.Op` and the ones added by this layer. -/
inductive XOp where
  | base (op : Op)
  | mprint (line col : Int) (bytes : List UInt8)         -- tickit_term_goto + tickit_term_printn on the mock terminal
  | newin (lines cols : Int)                             -- like `new`, the terminal reading from a pipe
  | tbind (ev : Ev) (ret : Bool) (acts : List TAct)      -- tickit_term_bind_event(ON_KEY / ON_MOUSE)
  | tunbind (id : Int)
  | tpush (toks : List Tok)                              -- tickit_term_input_push_bytes
  | tread (toks : List Tok)                              -- bytes into the input pipe, tickit_term_input_readable
  | twait (toks : List Tok) (tv : Bool)                  -- bytes into the pipe, tickit_term_input_wait_msec(0) / _wait_tv({0,0})
  | tcheck                                               -- tickit_term_input_check_timeout_msec
  | tick (ms : Int)                                      -- the clock (gettimeofday) advances
  | newtop (lines cols : Int)                            -- terminal (pipe), tickit_build, own references to root window and terminal
  | iref | iunref                                        -- tickit_ref / tickit_unref
  | ilater (acts : List TAct)                            -- tickit_watch_later
  | itimer (ms : Int) (acts : List TAct)                 -- tickit_watch_timer_after_msec
  | itimerat (at_ : Int) (acts : List TAct)              -- tickit_watch_timer_at_tv (an instant of the harness's clock, past or future)
  | icancel (k : Nat)                                    -- tickit_watch_cancel of the k-th watch
  | itick (toks : List Tok)                              -- bytes into the pipe, flush, tickit_tick(NOHANG|NOSETUP)
  | mresize (lines cols : Int)                           -- tickit_mockterm_resize
  | xnew                                                 -- a further terminal (no root window, no input)
  | xref (k : Nat) | xunref (k : Nat)                    -- tickit_term_ref / tickit_term_unref on it
  | xobs (k : Nat) (on : Bool)                           -- tickit_term_observe_sigwinch on it
  | tobs (on : Bool)                                     -- tickit_term_observe_sigwinch on the main terminal
  | winch                                                -- raise(SIGWINCH)
  | tsetin                                               -- tickit_term_set_input_fd, the same descriptor again
deriving Repr, Inhabited

def XOp.isNew : XOp → Bool
  | .base (.newTerm ..) => true
  | .newin .. => true
  | .newtop .. => true
  | _ => false

/-- The operation the specification looks at: `end` is special, the rest is judged alike. -/
def XOp.specOp : XOp → Op
  | .base op => op
  | _ => .pen

structure Top where
  st : St := {}
  mock : Bool := false
  /-- what the mock terminal shows, as long as this model knows it -/
  screen : Option RBFlush.MockTerm := none
  /-- something was printed on the mock terminal (from then on operations that draw make the screen unknown) -/
  printed : Bool := false
  /-- the terminal reads from a pipe (`newin`) -/
  hasFd : Bool := false
  /-- `tt->bindings`, in list order -/
  tbinds : List TBind := []
  /-- behaviour records the harness has handed out -/
  nTB : Nat := 0
  /-- libtermkey holds a lone ESC -/
  pendingEsc : Bool := false
  /-- `tt->input_timeout_at`, in ms of the harness's clock -/
  timeoutAt : Option Int := none
  now : Int := 0
  /-- `tt->mouse_buttons_held` has the bit of button 1 -/
  held : Bool := false
  inst : Option Inst := none
  /-- `tickit_destroy` has torn the terminal down (`tickit_term_teardown`: `termkey_stop`); nothing restarts libtermkey,
      which from then on reports no key and reads nothing -/
  inputDead : Bool := false
  /-- the root window has outlived the instance and still points to it (`root->tickit`, uncounted) -/
  dangling : Bool := false
  /-- `tt->lines`, `tt->cols` of the main terminal -/
  size : Int × Int := (0, 0)
  /-- the further terminals -/
  xterms : Array XTerm := #[]
  /-- SIGWINCH observation: per terminal (0 = the main one), `first_sigwinch_observer`, and whether the handler is
      installed (`sigaction`) -/
  sw : Array SwNode := #[{}]
  swFirst : Option Nat := none
  swHandler : Bool := false
  /-- the process has died inside the SIGWINCH machinery (the text of the CRASH line) -/
  fail : Option String := none

/-- Operations that never reach the terminal driver (window operations other than the flush only queue damage and
    requests on the root window). -/
def Op.leavesScreen : Op → Bool
  | .act .flush => false
  | .act _ | .win .. | .geom .. | .expose _ | .bind .. | .unbind .. | .setpen .. => true
  | .mdisp .. | .pen | .pref _ | .punref _ | .pset .. | .pdesc .. | .pcopy .. | .pcopyattr .. | .pbind .. | .punbind ..
  | .tref | .tunref | .str _ | .sref _ | .sunref _ | .sget _ | .rb .. | .bref _ | .bunref _ | .btext .. | .berase ..
  | .bskip .. | .bchar .. | .bhline .. | .bclear _ | .breset _ | .bsave _ | .bsavepen _ | .brestore _ | .bsetpen ..
  | .bcell .. | .bspan .. | .«end» => true
  | _ => false

/-- The strings of the cells `tickit_mockterm_get_display_text` walks (`NULL` = nothing). -/
def screenCells (t : RBFlush.MockTerm) (line col width : Int) : List (List UInt8) :=
  (List.range width.toNat).map (fun (i : Nat) => ((t.cells line (col + (i : Int))).str).getD [])

/-! ## the terminal's bindings and input -/

def rootAlive (st : St) : Bool :=
  match st.tree.wins[0]? with
  | some r => !r.freed
  | none => false

/-- After anything that may have destroyed the root window (it unbinds its three handlers from the terminal) or the
    terminal (its bindings and its TermKey go with it). -/
def Top.sync (top : Top) : Top :=
  let top := if rootAlive top.st then top else { top with tbinds := top.tbinds.filter (·.isApp) }
  if top.st.term.freed then { top with tbinds := [], pendingEsc := false, timeoutAt := none, held := false } else top

/-- `termkey_get_waittime`: libtermkey's default. -/
def waittime : Int := 50

def termRefI (top : Top) : Top :=
  { top with st := { top.st with term := { top.st.term with refcount := top.st.term.refcount + 1 } } }

def termUnrefI (top : Top) : Out Top := do
  let st ← termUnref top.st
  pure ({ top with st := st }).sync

def instHeld (top : Top) : Bool :=
  match top.inst with
  | some i => !i.freed && i.appRefs > 0
  | none => false

def setInst (top : Top) (f : Inst → Inst) : Top := { top with inst := top.inst.map f }

/-- The harness's table of behaviour records for watches (`MAXB` of harness/life.c): a registration beyond it is
    skipped, from an operation as from a callback. -/
def watchCap : Nat := 64

/-- `tickit_watch_timer_at_tv`: the queue is kept ordered by time, a new entry goes behind the entries of the same
    time (`while(*prevp && !timercmp(&(*prevp)->timer.at, at, >)) prevp = &(*prevp)->next`). -/
def insertTimer (timers : List (Int × WItem)) (at_ : Int) (w : WItem) : List (Int × WItem) :=
  timers.takeWhile (fun e => e.1 ≤ at_) ++ [(at_, w)] ++ timers.dropWhile (fun e => e.1 ≤ at_)

def tAct (cfg : Cfg) (top : Top) : TAct → Out Top
  | .win a =>
    match simpleOp cfg top.st a none with
    | none => pure top
    | some r => do
      let st ← r
      pure ({ top with st := st }).sync
  | .tunref =>
    if heldT top.st then do
      let st ← termUnref { top.st with term := { top.st.term with appRefs := top.st.term.appRefs - 1 } }
      pure ({ top with st := st }).sync
    else pure top
  | .tref =>
    if heldT top.st then
      pure { top with st := { top.st with term := { top.st.term with appRefs := top.st.term.appRefs + 1, refcount := top.st.term.refcount + 1 } } }
    else pure top
  | .timerAt at_ =>
    -- a callback registers a timer (for an instant that may lie in the past: it then stands in front of the queue)
    if instHeld top && decide ((top.inst.getD {}).nW < watchCap) then
      pure (setInst top (fun i => { i with timers := insertTimer i.timers at_ (.app i.nW []), nW := i.nW + 1 }))
    else pure top
  | .later =>
    if instHeld top && decide ((top.inst.getD {}).nW < watchCap) then
      pure (setInst top (fun i => { i with laters := i.laters ++ [.app i.nW []], nW := i.nW + 1 }))
    else pure top

/-- `run_events_whilefalse(tt, ev, info)`: the list is walked as it was on entry; entries unbound meanwhile are
    tombstones and skipped.  The caller holds a reference to the terminal. -/
def runTermEvent (cfg : Cfg) (top : Top) (ev : Ev) (m : Mouse) : Out Top :=
  let rec go : Top → List TBind → Out Top
    | top, [] => pure top
    | top, b :: rest =>
      if !(top.tbinds.any (fun c => c.id = b.id)) then go top rest
      else if b.ev ≠ some ev then go top rest
      else match b.kind with
        | .rootResize => go top rest
        | .rootKey => do
          let (st, handled) ← handleKey cfg (routeFuel top.st) top.st 0
          let top := ({ top with st := st }).sync
          if handled then pure top else go top rest
        | .rootMouse => do
          let (st, handled) ← onTermMouse cfg top.st m
          let top := ({ top with st := st }).sync
          if handled then pure top else go top rest
        | .app idx => do
          let tag := match ev with
            | .key => s!"T{idx}k"
            | .mouse => s!"T{idx}m{hexNat m.type.toNat}@{m.line},{m.col}"
          let top := { top with st := { top.st with log := top.st.log ++ [tag] } }
          let top ← b.acts.foldlM (tAct cfg) top
          if b.ret then pure top else go top rest
  go top top.tbinds

/-- What `termkey_getkey` + `got_key` make of the tokens: the events in order, whether an ESC stays pending, and the
    held-button bit.  `none`: a combination this model does not predict. -/
def decode : Bool → Bool → List Tok → List (Ev × Mouse) → Option (List (Ev × Mouse) × Bool × Bool)
  | pending, held, [], acc => some (acc, pending, held)
  | true, held, .chr :: rest, acc => decode false held rest (acc ++ [(.key, default)])     -- ESC a = M-a
  | true, _, _ :: _, _ => none
  | false, held, tok :: rest, acc =>
    match tok with
    | .chr | .alt | .up => decode false held rest (acc ++ [(.key, default)])
    | .esc => if rest.isEmpty then some (acc, true, held) else none
    | .press l c => decode false true rest (acc ++ [(.mouse, ⟨mPRESS, 1, l, c⟩)])
    | .drag l c => decode false true rest (acc ++ [(.mouse, ⟨mDRAG, 1, l, c⟩)])
    | .release l c => if held then decode false false rest (acc ++ [(.mouse, ⟨mRELEASE, 1, l, c⟩)]) else decode false false rest acc

/-- `get_keys` after `toks` have reached libtermkey's buffer. -/
def getKeys (cfg : Cfg) (top : Top) (toks : List Tok) : Option (Out Top) :=
  if top.inputDead then some (pure { top with timeoutAt := none }) else
  match decode top.pendingEsc top.held toks [] with
  | none => none
  | some (evs, pending, held) => some (do
    let top ← evs.foldlM (fun top (e : Ev × Mouse) => runTermEvent cfg top e.1 e.2) top
    -- the terminal is alive: the entry point holds a reference
    pure { top with pendingEsc := pending, held := held, timeoutAt := if pending then some (top.now + waittime) else none })

/-- `timedout`: `termkey_getkey_force` turns a pending ESC into the key Escape. -/
def timedOut (cfg : Cfg) (top : Top) : Out Top := do
  let top ← if top.pendingEsc && !top.inputDead then runTermEvent cfg { top with pendingEsc := false } .key default else pure top
  pure { top with timeoutAt := none }

/-- `get_timeout`. -/
def getTimeout (top : Top) : Int :=
  match top.timeoutAt with
  | none => -1
  | some t => if t - top.now > 0 then t - top.now else 0

def okT (r : Out Top) : Out (Top × String) := do let t ← r; pure (t, "ok")

/-- An entry point that holds a reference to the terminal while it works. -/
def withTermRef (top : Top) (f : Top → Out Top) : Out Top := do
  let top ← f (termRefI top)
  termUnrefI top

/-- A fresh terminal with its root window. -/
def newTop (cfg : Cfg) (lines cols : Int) (mock hasFd : Bool) : Out (Top × String) := do
  let (st, r) ← step cfg {} (.newTerm lines cols mock)
  pure ({ st := st, mock := mock, hasFd := hasFd, size := (lines, cols), screen := if mock then some (RBFlush.MockTerm.new lines cols) else none,
          tbinds := [⟨1, .rootResize, none, false, []⟩, ⟨2, .rootKey, some .key, false, []⟩, ⟨3, .rootMouse, some .mouse, false, []⟩] }, r)

/-! ## the process-wide list of SIGWINCH observers (`src/term.c`: `first_sigwinch_observer`, `sigwinch`,
  `tickit_term_observe_sigwinch`, and `tickit_term_destroy` which stops the observation first)

  The list is modelled with its pointers, so that what an un-observed terminal keeps in `next_sigwinch_observer` is
  there when it is appended again.  The walks are the C loops: reading a link that lies in a freed terminal is the
  sanitizer's abort, a NULL link where the code expects the terminal is a NULL dereference, and a walk that does not
  end (the list has become a cycle) is the harness's alarm. -/

def failMem : String := "CRASH exit=1"
def failHang : String := "CRASH signal=14"

def swFreed (top : Top) (tid : Nat) : Bool :=
  if tid = 0 then top.st.term.freed else ((top.xterms[tid - 1]?).map (fun (x : XTerm) => x.freed)).getD true

def swNode (top : Top) (tid : Nat) : SwNode := (top.sw[tid]?).getD {}

def swSetNode (top : Top) (tid : Nat) (n : SwNode) : Top := { top with sw := top.sw.setIfInBounds tid n }

/-- `*tailp = v` where `tailp` is `&first_sigwinch_observer` (`none`) or `&p->next_sigwinch_observer`. -/
def swStore (top : Top) (tailp : Option Nat) (v : Option Nat) : Top :=
  match tailp with
  | none => { top with swFirst := v }
  | some p => swSetNode top p { swNode top p with next := v }

/-- `while(*tailp) tailp = &(*tailp)->next_sigwinch_observer; *tailp = tt;` -/
def swAppend (top : Top) (tid : Nat) : Nat → Option Nat → Option Nat → Top
  | 0, _, _ => { top with fail := some failHang }
  | _ + 1, tailp, none => swStore top tailp (some tid)
  | fuel + 1, _, some c =>
    if swFreed top c then { top with fail := some failMem }
    else swAppend top tid fuel (some c) (swNode top c).next

/-- `while(tailp && *tailp != tt) tailp = &(*tailp)->next_sigwinch_observer; if(tailp) *tailp = (*tailp)->next_sigwinch_observer;` -/
def swUnlink (top : Top) (tid : Nat) : Nat → Option Nat → Option Nat → Top
  | 0, _, _ => { top with fail := some failHang }
  | _ + 1, _, none => { top with fail := some failMem }          -- `&(*tailp)->next…` of NULL, then read
  | fuel + 1, tailp, some c =>
    if c = tid then swStore top tailp (swNode top tid).next
    else if swFreed top c then { top with fail := some failMem }
    else swUnlink top tid fuel (some c) (swNode top c).next

def swFuel (top : Top) : Nat := top.sw.size + 2

/-- `tickit_term_observe_sigwinch(tt, true)`. -/
def swObserve (top : Top) (tid : Nat) : Top :=
  if (swNode top tid).obs then top
  else
    let top := swSetNode top tid { swNode top tid with obs := true }
    let top := if top.swFirst.isNone then { top with swHandler := true } else top
    swAppend top tid (swFuel top) none top.swFirst

/-- `tickit_term_observe_sigwinch(tt, false)`. -/
def swUnobserve (tc : TCfg) (top : Top) (tid : Nat) : Top :=
  if !(swNode top tid).obs then top
  else
    let top := swUnlink top tid (swFuel top) none top.swFirst
    if top.fail.isSome then top
    else
      let top := if top.swFirst.isNone then { top with swHandler := false } else top
      let n := swNode top tid
      swSetNode top tid { n with obs := false, next := if tc.sigwinchClearsNext then none else n.next }

/-- The signal handler `sigwinch`: `tt->window_changed = 1` along the list. -/
def swSignal (top : Top) : Top :=
  let rec go : Nat → Option Nat → Top
    | 0, _ => { top with fail := some failHang }
    | _ + 1, none => top
    | fuel + 1, some c => if swFreed top c then { top with fail := some failMem } else go fuel (swNode top c).next
  if top.swHandler then go (swFuel top) top.swFirst else top

/-- `tickit_term_destroy` of the main terminal begins with `if(tt->observe_winch) tickit_term_observe_sigwinch(tt, false)`:
    applied once the lower layers have released the terminal (nothing else looks at the list in between). -/
def Top.swSync (tc : TCfg) (top : Top) : Top :=
  if top.fail.isSome then top
  else if top.st.term.freed && (swNode top 0).obs then swUnobserve tc top 0
  else top

def heldX (top : Top) (k : Nat) : Bool :=
  match top.xterms[k]? with
  | some x => !x.freed && x.appRefs > 0
  | none => false

/-- `tickit_term_unref` of a further terminal by the application. -/
def xUnref (tc : TCfg) (top : Top) (k : Nat) : Top :=
  match top.xterms[k]? with
  | none => top
  | some x =>
    if x.appRefs > 1 then { top with xterms := top.xterms.setIfInBounds k { x with appRefs := x.appRefs - 1 } }
    else
      let top := swUnobserve tc top (k + 1)
      if top.fail.isSome then top
      else { top with xterms := top.xterms.setIfInBounds k { x with appRefs := 0, freed := true } }

def hText (top : Top) : String := s!"ok h={if top.swHandler then 1 else 0}"

/-! ## `tickit_mockterm_resize` -/

/-- The cells of the mock terminal after a resize: what lies inside both sizes is kept, what is new is blank
    (`mtd_clear_cells`), the cursor is clamped. -/
def mockResize (t : RBFlush.MockTerm) (lines cols : Int) : RBFlush.MockTerm :=
  let old := t.cells
  let ol := t.lines
  let oc := t.cols
  { t with
    lines := lines, cols := cols
    cells := fun l c => if 0 ≤ l ∧ l < ol ∧ l < lines ∧ 0 ≤ c ∧ c < oc ∧ c < cols then old l c else {}
    line := RBFlush.MockTerm.bound t.line 0 (lines - 1)
    col := RBFlush.MockTerm.bound t.col 0 (cols - 1) }

/-- `on_term_resize` of the root window: `tickit_window_resize`, the two exposures of what has been added. -/
def onTermResize (top : Top) (lines cols : Int) : Out Top := do
  let w ← getW top.st 0
  let oldlines := w.rect.lines
  let oldcols := w.rect.cols
  let t ← setGeomT top.st.tree 0 ⟨w.rect.top, w.rect.left, lines, cols⟩
  if lines > oldlines then exposeWalk t (chainFuel t) 0 (some ⟨oldlines, 0, lines - oldlines, cols⟩)
  if cols > oldcols then exposeWalk t (chainFuel t) 0 (some ⟨0, oldcols, oldlines, cols - oldcols⟩)
  pure { top with st := { top.st with tree := t } }

/-- `tickit_term_set_size`: the ON_RESIZE handlers run when the size changes (only the root window binds one). -/
def termSetSize (top : Top) (lines cols : Int) : Out Top :=
  if top.size = (lines, cols) then pure top
  else
    let top := { top with size := (lines, cols) }
    withTermRef top (fun top =>
      if rootAlive top.st && top.tbinds.any (fun b => b.kind = .rootResize) then onTermResize top lines cols else pure top)

/-! ## the toplevel instance -/

/-- `tickit_destroy`: the root window and the terminal are released first, then the watches. -/
def instDestroy (tc : TCfg) (top : Top) : Out Top := do
  let top ← if rootAlive top.st then do
      let st ← unrefW tc.base top.st 0
      pure ({ top with st := st, dangling := rootAlive st && !tc.rootForgetsTickit }).sync
    else pure top
  let top ← termUnrefI top        -- tickit_term_teardown, tickit_term_unref
  let top := { top with inputDead := !top.st.term.freed }
  pure (setInst top (fun i => { i with freed := true, refcount := 0, laters := [], timers := [] }))

def instUnref (tc : TCfg) (top : Top) : Out Top :=
  match top.inst with
  | none => pure top
  | some i =>
    let top := setInst top (fun i => { i with appRefs := i.appRefs - 1, refcount := i.refcount - 1 })
    if i.refcount - 1 = 0 then instDestroy tc top else pure top

/-- A watch of the application fires. -/
def runWatch (cfg : Cfg) (top : Top) (tag : String) (acts : List TAct) : Out Top :=
  acts.foldlM (tAct cfg) { top with st := { top.st with log := top.st.log ++ [tag] } }

/-- `on_term_timeout`: `tickit_term_input_check_timeout_msec`, and a timer for what is left. -/
def onTermTimeout (cfg : Cfg) (top : Top) : Out Top := do
  let msec := getTimeout top
  let top ← if msec = 0 then withTermRef top (timedOut cfg) else pure top
  let msec := if msec = 0 then -1 else msec
  if msec > -1 then
    let at_ := top.now + msec
    pure (setInst top (fun i => { i with timers := insertTimer i.timers at_ .termTimeout }))
  else pure top

def fireItem (cfg : Cfg) (timer : Bool) (top : Top) : WItem → Out Top
  | .app idx acts => runWatch cfg top (if timer then s!"M{idx}" else s!"L{idx}") acts
  | .termTimeout => onTermTimeout cfg top

/-- What bounds the loop of `tickit_evloop_invoke_timers`: the timers that are due, and the registrations the
    harness's table still takes (a callback may register a timer that is due at once). -/
def Top.pot (top : Top) : Nat :=
  match top.inst with
  | some i => (i.timers.filter (fun e => decide (e.1 ≤ top.now))).length + (watchCap - i.nW)
  | none => 0

/-- The `while(t->timers)` loop of `tickit_evloop_invoke_timers`: the head of the queue, if it is due, is unlinked, then
    invoked, then freed; the loop looks at the queue again, as the callback has left it. -/
def invokeTimers (cfg : Cfg) : Nat → Top → Out Top
  | 0, _ => .fuel
  | fuel + 1, top =>
    match (top.inst.getD {}).timers with
    | [] => pure top
    | e :: rest =>
      if e.1 > top.now then pure top
      else do
        let top ← fireItem cfg true (setInst top (fun i => { i with timers := rest })) e.2
        invokeTimers cfg fuel top

def xstepCore (tc : TCfg) (top : Top) : XOp → Out (Top × String) :=
  let cfg := tc.base
  fun xop => match xop with
  | .base op =>
    match op with
    | .newTerm lines cols mock => newTop cfg lines cols mock false
    | .mdisp len line col width =>
      -- the harness asks for cells of the screen as it is now only
      if top.mock && heldT top.st && (line < 0 || line ≥ top.size.1 || col < 0 || width < 0 || col + width > top.size.2) then
        pure (top, "skip")
      else
      match top.screen with
      | some scr =>
        if top.printed then
          if !heldT top.st then pure (top, "skip")
          else do
            let (st, r) ← mdispResult top.st len (screenCells scr line col width)
            pure ({ top with st := st }, r)
        else do
          let (st, r) ← step cfg top.st op
          pure ({ top with st := st }, r)
      | none =>
        if top.printed then pure (top, "unsupported-screen")
        else do
          let (st, r) ← step cfg top.st op
          pure ({ top with st := st }, r)
    | .key =>
      -- tickit_term_emit_key with handlers of the application on the terminal
      if top.tbinds.any (·.isApp) then
        if !heldT top.st then pure (top, "skip")
        else okT (withTermRef top (fun top => runTermEvent cfg top .key default))
      else do
        let (st, r) ← step cfg top.st op
        pure (({ top with st := st }).sync, r)
    | .mouse m =>
      if top.tbinds.any (·.isApp) then
        if !heldT top.st then pure (top, "skip")
        else okT (withTermRef top (fun top => runTermEvent cfg top .mouse m))
      else do
        let (st, r) ← step cfg top.st op
        pure (({ top with st := st }).sync, r)
    | .«end» => do
      let (st, r) ← step cfg top.st op
      let top := ({ top with st := st }).sync
      -- the references to the toplevel instance go last
      let top := top.swSync tc
      let n := match top.inst with | some i => i.appRefs | none => 0
      let top ← (List.range n).foldlM (fun top _ => if instHeld top then instUnref tc top else pure top) top
      let top := top.swSync tc
      -- the further terminals go last, in the order they were made
      let top := (List.range top.xterms.size).foldl (fun top k =>
        (List.range (((top.xterms[k]?).map (fun (x : XTerm) => x.appRefs)).getD 0)).foldl (fun top _ =>
          if top.fail.isSome || !heldX top k then top else xUnref tc top k) top) top
      pure (top, r)
    | _ => do
      -- a root window that has outlived its instance: `_request_later_processing` calls `tickit_watch_later` on the
      -- freed instance (certain for a restacking request that opens the queue; other operations are not predicted)
      let crash := match op with
        | .act (.restack c w) => top.dangling && usableW top.st w && isRestack c && top.st.tree.root.changes.isEmpty
        | _ => false
      if crash then .ub .mem "root window uses the toplevel instance it has outlived" else
      let (st, r) ← step cfg top.st op
      -- an operation the harness skips reaches nothing
      let screen := if top.printed && !op.leavesScreen && r ≠ "skip" then none else top.screen
      pure (({ top with st := st, screen := screen }).sync, r)
  | .mprint line col bytes =>
    if !top.mock || !heldT top.st then pure (top, "skip")
    else match top.screen with
      | none => pure (top, "unsupported-screen")
      | some scr =>
        let scr' := ((scr.goto line col).print bytes).compact
        -- `mtd_print` does not return on a text the width counter rejects: the harness does not print those
        if scr'.hung then pure (top, "skip")
        else pure ({ top with screen := some scr', printed := true }, "ok")

  | .newin lines cols => newTop cfg lines cols false true
  | .tbind ev ret acts =>
    if !heldT top.st then pure (top, "skip")
    else
      let id := top.tbinds.foldl (fun m b => if b.id > m then b.id else m) (0 : Int) + 1
      pure ({ top with tbinds := top.tbinds ++ [⟨id, .app top.nTB, some ev, ret, acts⟩], nTB := top.nTB + 1 }, s!"id={id}")
  | .tunbind id =>
    -- the application unbinds what it has bound
    if !heldT top.st || !(top.tbinds.any (fun b => b.id = id && b.isApp)) then pure (top, "skip")
    else pure ({ top with tbinds := top.tbinds.filter (fun b => b.id ≠ id) }, "ok")
  | .tpush toks =>
    if !heldT top.st then pure (top, "skip")
    else match getKeys cfg (termRefI top) toks with
      | none => pure (top, "unsupported-input")
      | some r => okT (do let top ← r; termUnrefI top)
  | .tread toks =>
    if !heldT top.st || !top.hasFd then pure (top, "skip")
    else match getKeys cfg (termRefI top) toks with
      | none => pure (top, "unsupported-input")
      | some r => okT (do let top ← r; termUnrefI top)
  | .twait toks _ =>
    if !heldT top.st || !top.hasFd then pure (top, "skip")
    else if toks.isEmpty then
      -- select() reports nothing to read within 0 ms: `timedout`, then `get_keys` finds nothing
      okT (withTermRef top (fun top => do
        let top ← timedOut cfg top
        match getKeys cfg top [] with
        | none => pure top
        | some r => r))
    else match getKeys cfg (termRefI top) toks with
      | none => pure (top, "unsupported-input")
      | some r => okT (do let top ← r; termUnrefI top)
  | .tcheck =>
    if !heldT top.st then pure (top, "skip")
    else do
      let msec := getTimeout top
      if msec = 0 then do
        let top ← withTermRef top (timedOut cfg)
        pure (top, "ret=-1")
      else pure (top, s!"ret={msec}")
  | .tick ms => pure ({ top with now := top.now + ms }, "ok")
  | .newtop lines cols => do
    let (top, r) ← newTop cfg lines cols false true
    -- the instance holds the creation references of the terminal and of the root window; the application's are its own
    let w ← getW top.st 0
    let st := setW top.st 0 { w with refcount := w.refcount + 1 }
    let st := { st with term := { st.term with refcount := st.term.refcount + 1 } }
    pure ({ top with st := st, inst := some {} }, r)
  | .iref =>
    if !instHeld top then pure (top, "skip")
    else pure (setInst top (fun i => { i with appRefs := i.appRefs + 1, refcount := i.refcount + 1 }), "ok")
  | .iunref => if !instHeld top then pure (top, "skip") else okT (instUnref tc top)
  | .ilater acts =>
    if !instHeld top || decide ((top.inst.getD {}).nW ≥ watchCap) then pure (top, "skip")
    else pure (setInst top (fun i => { i with laters := i.laters ++ [.app i.nW acts], nW := i.nW + 1 }), "ok")
  | .itimer ms acts =>
    if !instHeld top || decide ((top.inst.getD {}).nW ≥ watchCap) then pure (top, "skip")
    else
      let at_ := top.now + ms
      pure (setInst top (fun i => { i with timers := insertTimer i.timers at_ (.app i.nW acts), nW := i.nW + 1 }), "ok")
  | .itimerat at_ acts =>
    if !instHeld top || decide ((top.inst.getD {}).nW ≥ watchCap) then pure (top, "skip")
    else pure (setInst top (fun i => { i with timers := insertTimer i.timers at_ (.app i.nW acts), nW := i.nW + 1 }), "ok")
  | .icancel k =>
    let isK : WItem → Bool
      | .app idx _ => idx = k
      | .termTimeout => false
    let pending := match top.inst with
      | some i => i.laters.any isK || i.timers.any (fun e => isK e.2)
      | none => false
    if !instHeld top || !pending then pure (top, "skip")
    else pure (setInst top (fun i => { i with laters := i.laters.filter (fun x => !isK x), timers := i.timers.filter (fun e => !isK e.2) }), "ok")
  | .itick toks =>
    if !instHeld top then pure (top, "skip")
    else match decode top.pendingEsc top.held toks [] with
      | none => pure (top, "unsupported-input")
      | some _ => okT (do
        -- tickit_window_flush(tickit_get_rootwin(t))
        let top ← if rootAlive top.st then do
            let st ← liftT top.st (flushT top.st.tree)
            pure { top with st := st }
          else pure top
        -- tickit_evloop_invoke_timers: the later queue is detached, the timers run as long as the head of the queue is
        -- due (a callback may put a new head there), then the detached queue
        let i := top.inst.getD {}
        let later := i.laters
        let top := setInst top (fun i => { i with laters := [] })
        let top ← invokeTimers cfg (top.pot + 1) top
        let top ← later.foldlM (fireItem cfg false) top
        if toks.isEmpty then pure top
        else do
          -- the watch on the terminal's input: on_term_readable = tickit_term_input_readable + on_term_timeout
          let top ← match getKeys cfg (termRefI top) toks with
            | some r => do
              let top ← r
              termUnrefI top
            | none => pure top
          onTermTimeout cfg top)
  | .mresize lines cols =>
    if !top.mock || !heldT top.st then pure (top, "skip")
    else do
      let top := { top with screen := top.screen.map (fun scr => (mockResize scr lines cols).compact) }
      let top ← termSetSize top lines cols
      pure (top, s!"ok size={lines}x{cols}")
  | .xnew =>
    if top.xterms.size ≥ 8 then pure (top, "skip")
    else pure ({ top with xterms := top.xterms.push {}, sw := top.sw ++ Array.replicate (top.xterms.size + 2 - top.sw.size) {} }, "ok")
  | .xref k =>
    if !heldX top k then pure (top, "skip")
    else pure ({ top with xterms := top.xterms.modify k (fun x => { x with appRefs := x.appRefs + 1 }) }, "ok")
  | .xunref k =>
    if !heldX top k then pure (top, "skip")
    else
      let top := xUnref tc top k
      pure (top, hText top)
  | .xobs k on =>
    if !heldX top k then pure (top, "skip")
    else
      let top := if on then swObserve top (k + 1) else swUnobserve tc top (k + 1)
      pure (top, hText top)
  | .tobs on =>
    if !heldT top.st then pure (top, "skip")
    else
      let top := if on then swObserve top 0 else swUnobserve tc top 0
      pure (top, hText top)
  | .winch =>
    let top := swSignal top
    pure (top, hText top)
  | .tsetin =>
    if !heldT top.st || !top.hasFd then pure (top, "skip")
    else if !tc.setInputFdClearsTermkey then
      .ub .mem "tickit_term_set_input_fd: get_termkey() uses the TermKey that has just been destroyed"
    else pure ({ top with pendingEsc := false, inputDead := false }, "ok fd=1")

/-- One operation; a main terminal the operation has released leaves the list of SIGWINCH observers. -/
def xstep (tc : TCfg) (top : Top) (xop : XOp) : Out (Top × String) := do
  let (top, r) ← xstepCore tc top xop
  pure (top.swSync tc, r)

/-- Is anything still allocated, in this layer or below?  (The toplevel instance or one of its watches, a further
    terminal, an entry of the SIGWINCH observer list or the handler installed for it.) -/
def Top.anythingLeft (top : Top) : Bool :=
  Life.anythingLeft top.st ||
  (match top.inst with
   | some i => !i.freed || !i.laters.isEmpty || !i.timers.isEmpty
   | none => false) ||
  top.xterms.any (fun x => !x.freed) || top.swFirst.isSome || top.swHandler

/-- A history at this layer: the operations one after the other; the first failure ends it. -/
def xrunOps (tc : TCfg) : Top → List XOp → Out Top
  | top, [] => .ok top
  | top, op :: rest =>
    match xstep tc top op with
    | .ok (top', _) => xrunOps tc top' rest
    | .ub k w => .ub k w
    | .fuel => .fuel

end Life
end Tickit
