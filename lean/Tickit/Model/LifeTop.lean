import Tickit.Model.LifeOps
import Tickit.Model.RBFlush
/-
  Property C08, fourth part of the model: what lies around the window tree of `Model/Life*.lean`.

  * the content of the mock terminal (`src/mockterm.c`: `mtd_goto_abs`, `mtd_print` as transcribed in
    `Model/RBFlush.lean`, engine `rbflush`), so that `tickit_mockterm_get_display_text` is exercised over cells of
    several bytes (non-ASCII, double-width with its empty second cell, base + combining marks).

  The operations of `Life.Op` keep their meaning (`Life.step`); this layer adds operations and keeps the state they
  need next to the `St` of the lower layers.  No theorem of Props/C08 is about this layer: it is tied to the code by
  the correspondence check only.
-/
namespace Tickit
namespace Life
open WinTree (Id)

/-- The operations of the `life` engine: those of `Life.Op` and the ones added by this layer. -/
inductive XOp where
  | base (op : Op)
  | mprint (line col : Int) (bytes : List UInt8)         -- tickit_term_goto + tickit_term_printn on the mock terminal
deriving Repr, Inhabited

def XOp.isNew : XOp → Bool
  | .base (.newTerm ..) => true
  | _ => false

/-- The operation the specification looks at: `end` is special, the rest is judged alike. -/
def XOp.specOp : XOp → Op
  | .base op => op
  | _ => .pen

structure Top where
  st : St := {}
  mock : Bool := false
  /-- what the mock terminal shows, as long as this model knows it -/
  screen : Option RBFlush.MockTerm := none
  /-- something was printed on the mock terminal (from then on operations that draw make the screen unknown) -/
  printed : Bool := false

/-- Operations that never reach the terminal driver. -/
def Op.leavesScreen : Op → Bool
  | .mdisp .. | .pen | .pref _ | .punref _ | .pset .. | .pdesc .. | .pcopy .. | .pcopyattr .. | .pbind .. | .punbind ..
  | .tref | .tunref | .str _ | .sref _ | .sunref _ | .sget _ | .rb .. | .bref _ | .bunref _ | .btext .. | .berase ..
  | .bskip .. | .bchar .. | .bhline .. | .bclear _ | .breset _ | .bsave _ | .bsavepen _ | .brestore _ | .bsetpen ..
  | .bcell .. | .bspan .. | .«end» => true
  | _ => false

/-- The strings of the cells `tickit_mockterm_get_display_text` walks (`NULL` = nothing). -/
def screenCells (t : RBFlush.MockTerm) (line col width : Int) : List (List UInt8) :=
  (List.range width.toNat).map (fun (i : Nat) => ((t.cells line (col + (i : Int))).str).getD [])

def xstep (cfg : Cfg) (top : Top) : XOp → Out (Top × String)
  | .base op =>
    match op with
    | .newTerm lines cols mock => do
      let (st, r) ← step cfg top.st op
      pure ({ st := st, mock := mock, screen := if mock then some (RBFlush.MockTerm.new lines cols) else none }, r)
    | .mdisp len line col width =>
      match top.screen with
      | some scr =>
        if top.printed then
          if !heldT top.st then pure (top, "skip")
          else do
            let (st, r) ← mdispResult top.st len (screenCells scr line col width)
            pure ({ top with st := st }, r)
        else do
          let (st, r) ← step cfg top.st op
          pure ({ top with st := st }, r)
      | none =>
        if top.printed then pure (top, "unsupported-screen")
        else do
          let (st, r) ← step cfg top.st op
          pure ({ top with st := st }, r)
    | _ => do
      let (st, r) ← step cfg top.st op
      let screen := if top.printed && !op.leavesScreen then none else top.screen
      pure ({ top with st := st, screen := screen }, r)
  | .mprint line col bytes =>
    if !top.mock || !heldT top.st then pure (top, "skip")
    else match top.screen with
      | none => pure (top, "unsupported-screen")
      | some scr =>
        let scr' := ((scr.goto line col).print bytes).compact
        -- `mtd_print` does not return on a text the width counter rejects: the harness does not print those
        if scr'.hung then pure (top, "skip")
        else pure ({ top with screen := some scr', printed := true }, "ok")

end Life
end Tickit
