import Tickit.Gen.PenLayout
/-
  Model of /repo/src/pen.c (TickitPen), statement by statement.

  * `Pen` is the pen *value*: the value bit-fields and the validity bits of `struct TickitPen`.
    Stores into a value bit-field go through `store w signed`, with the widths and signedness
    regenerated from the source (`Tickit.Gen.PenLayout`); reads return the stored value.
  * The attribute enum is the inductive `PenAttr`; `PenAttr.code` gives the C enumerator value
    (from `Gen.PenLayout`), `PenAttr.ofCode?` the inverse; every public function also has a
    `…C` entry point taking the raw `int` (an out-of-range value takes the `default:` path).
  * `PenObj` adds what the value does not have: `freezecount`, `changed` and the number of
    `TICKIT_PEN_ON_CHANGE` events delivered (the observable effect of `run_events`).
  * `tickit_pen_set_colour_attr_desc` uses `sscanf`; its two uses are parameters (`Scanf`), and
    `glibcScanf` is a small explicit model of what glibc 2.36 does for `"%d"` and
    `"%2hhx%2hhx%2hhx"` (recorded libc behaviour, validated by the correspondence run only).
  * At the end: `PenDict`, the dictionary (partial map) that property C19 uses as specification.

  No Mathlib import: this file is linked into the driver executable.
-/
namespace Tickit

/-! ### Bit-field storage -/

namespace Bitfield

/-- Value read back from an unsigned bit-field of width `w` after storing `v` (conversion modulo `2^w`). -/
def wrapUnsigned (w : Nat) (v : Int) : Int := v % (2 : Int) ^ w

/-- Value read back from a signed bit-field of width `w` after storing `v`
    (gcc: reduced modulo `2^w` into `[-2^(w-1), 2^(w-1))`). -/
def wrapSigned (w : Nat) (v : Int) : Int :=
  (v + (2 : Int) ^ (w - 1)) % (2 : Int) ^ w - (2 : Int) ^ (w - 1)

/-- Store into a bit-field of width `w`. -/
def store (w : Nat) (signed : Bool) (v : Int) : Int :=
  if signed then wrapSigned w v else wrapUnsigned w v

/-- The values a bit-field of width `w` can hold. -/
def Representable (w : Nat) (signed : Bool) (v : Int) : Prop :=
  if signed then -((2 : Int) ^ (w - 1)) ≤ v ∧ v < (2 : Int) ^ (w - 1) else 0 ≤ v ∧ v < (2 : Int) ^ w

instance (w : Nat) (s : Bool) (v : Int) : Decidable (Representable w s v) := by
  unfold Representable; exact inferInstance

end Bitfield
open Bitfield

/-! ### Attributes -/

/-- `TickitPenAttr` (without the `TICKIT_N_PEN_ATTRS` sentinel). -/
inductive PenAttr
  | fg | bg | bold | under | italic | reverse | strike | altfont | blink | sizepos
deriving DecidableEq, Repr, Inhabited

/-- `TickitPenAttrType`. -/
inductive PenAttrType
  | bool | int | colour
deriving DecidableEq, Repr, Inhabited

namespace PenAttr
open Gen.PenLayout

/-- The C enumerator value. -/
def code : PenAttr → Int
  | fg => TICKIT_PEN_FG | bg => TICKIT_PEN_BG | bold => TICKIT_PEN_BOLD | under => TICKIT_PEN_UNDER
  | italic => TICKIT_PEN_ITALIC | reverse => TICKIT_PEN_REVERSE | strike => TICKIT_PEN_STRIKE
  | altfont => TICKIT_PEN_ALTFONT | blink => TICKIT_PEN_BLINK | sizepos => TICKIT_PEN_SIZEPOS

/-- The attributes in the order of `for(attr = 1; attr < TICKIT_N_PEN_ATTRS; attr++)`. -/
def all : List PenAttr := [fg, bg, bold, under, italic, reverse, strike, altfont, blink, sizepos]

def ofCode? (c : Int) : Option PenAttr := all.find? (fun a => a.code == c)

/-- `tickit_penattr_type`. -/
def type : PenAttr → PenAttrType
  | fg | bg => .colour
  | altfont | under | sizepos => .int
  | bold | italic | reverse | strike | blink => .bool

/-- Width of the bit-field that stores the attribute's value (`Gen.PenLayout`, from `struct TickitPen`). -/
def width : PenAttr → Nat
  | fg => fgindex_width | bg => bgindex_width | bold => bold_width | under => under_width
  | italic => italic_width | reverse => reverse_width | strike => strike_width
  | altfont => altfont_width | blink => blink_width | sizepos => sizepos_width

/-- Signedness of that bit-field. -/
def signed : PenAttr → Bool
  | fg => fgindex_signed | bg => bgindex_signed | bold => bold_signed | under => under_signed
  | italic => italic_signed | reverse => reverse_signed | strike => strike_signed
  | altfont => altfont_signed | blink => blink_signed | sizepos => sizepos_signed

/-- A *representable value* of the attribute: one its bit-field can hold. -/
def Representable (a : PenAttr) (v : Int) : Prop := Bitfield.Representable a.width a.signed v

instance (a : PenAttr) (v : Int) : Decidable (a.Representable v) := by
  unfold PenAttr.Representable; exact inferInstance

end PenAttr

namespace PenAttrType
open Gen.PenLayout
def code : PenAttrType → Int
  | bool => TICKIT_PENTYPE_BOOL | int => TICKIT_PENTYPE_INT | colour => TICKIT_PENTYPE_COLOUR
end PenAttrType

/-- `tickit_penattr_type` on a raw `int`: −1 from the `default` path. -/
def penattrTypeC (c : Int) : Int :=
  match PenAttr.ofCode? c with
  | some a => a.type.code
  | none => -1

/-! ### The pen value -/

/-- `TickitPenRGB8`. -/
structure RGB8 where
  r : UInt8
  g : UInt8
  b : UInt8
deriving DecidableEq, Repr, Inhabited

/-- The nested `valid` struct (only ever read as truth values, only ever assigned 0 or 1). -/
structure PenValid where
  fgindex : Bool := false
  bgindex : Bool := false
  fgRgb8  : Bool := false
  bgRgb8  : Bool := false
  bold    : Bool := false
  under   : Bool := false
  italic  : Bool := false
  reverse : Bool := false
  strike  : Bool := false
  altfont : Bool := false
  blink   : Bool := false
  sizepos : Bool := false
deriving DecidableEq, Repr, Inhabited

/-- The value part of `struct TickitPen`.  A field whose validity bit is off holds an
    arbitrary (in C: indeterminate) value that no public function reads. -/
structure Pen where
  fgindex : Int := 0
  bgindex : Int := 0
  fgRgb8  : RGB8 := ⟨0, 0, 0⟩
  bgRgb8  : RGB8 := ⟨0, 0, 0⟩
  bold    : Int := 0
  italic  : Int := 0
  reverse : Int := 0
  strike  : Int := 0
  blink   : Int := 0
  sizepos : Int := 0
  under   : Int := 0
  altfont : Int := 0
  valid   : PenValid := {}
deriving DecidableEq, Repr, Inhabited

namespace Pen
open Gen.PenLayout

/-- The raw content of the attribute's value bit-field. -/
def rawField (p : Pen) : PenAttr → Int
  | .fg => p.fgindex | .bg => p.bgindex | .bold => p.bold | .under => p.under | .italic => p.italic
  | .reverse => p.reverse | .strike => p.strike | .altfont => p.altfont | .blink => p.blink | .sizepos => p.sizepos

/-- The type invariant of the C struct: every value bit-field holds a value of its width (valid or not). -/
def WF (p : Pen) : Prop := ∀ a : PenAttr, a.Representable (p.rawField a)

/-- `tickit_pen_has_attr`. -/
def hasAttr (p : Pen) : PenAttr → Bool
  | .fg => p.valid.fgindex
  | .bg => p.valid.bgindex
  | .bold => p.valid.bold
  | .under => p.valid.under
  | .italic => p.valid.italic
  | .reverse => p.valid.reverse
  | .strike => p.valid.strike
  | .altfont => p.valid.altfont
  | .blink => p.valid.blink
  | .sizepos => p.valid.sizepos

/-- `tickit_pen_get_bool_attr`. -/
def getBoolAttr (p : Pen) (a : PenAttr) : Bool :=
  if !p.hasAttr a then false
  else match a with
    | .bold => p.bold != 0
    | .italic => p.italic != 0
    | .reverse => p.reverse != 0
    | .strike => p.strike != 0
    | .blink => p.blink != 0
    | .under => decide (p.under > 0)      -- back-compat
    | _ => false

/-- `tickit_pen_set_bool_attr` (value effect). -/
def setBoolAttr (p : Pen) (a : PenAttr) (v : Bool) : Pen :=
  let b : Int := if v then 1 else 0
  match a with
  | .bold => { p with bold := store bold_width bold_signed b, valid := { p.valid with bold := true } }
  | .italic => { p with italic := store italic_width italic_signed b, valid := { p.valid with italic := true } }
  | .reverse => { p with reverse := store reverse_width reverse_signed b, valid := { p.valid with reverse := true } }
  | .strike => { p with strike := store strike_width strike_signed b, valid := { p.valid with strike := true } }
  | .blink => { p with blink := store blink_width blink_signed b, valid := { p.valid with blink := true } }
  | .under =>
    { p with under := store under_width under_signed (if v then TICKIT_PEN_UNDER_SINGLE else TICKIT_PEN_UNDER_NONE),
             valid := { p.valid with under := true } }
  | _ => p

/-- `tickit_pen_get_int_attr`. -/
def getIntAttr (p : Pen) (a : PenAttr) : Int :=
  if !p.hasAttr a then 0
  else match a with
    | .under => p.under
    | .altfont => p.altfont
    | .sizepos => p.sizepos
    | _ => 0

/-- `tickit_pen_set_int_attr` (value effect). -/
def setIntAttr (p : Pen) (a : PenAttr) (v : Int) : Pen :=
  match a with
  | .under => { p with under := store under_width under_signed v, valid := { p.valid with under := true } }
  | .altfont => { p with altfont := store altfont_width altfont_signed v, valid := { p.valid with altfont := true } }
  | .sizepos => { p with sizepos := store sizepos_width sizepos_signed v, valid := { p.valid with sizepos := true } }
  | _ => p

/-- `tickit_pen_get_colour_attr`. -/
def getColourAttr (p : Pen) (a : PenAttr) : Int :=
  if !p.hasAttr a then COLOUR_DEFAULT
  else match a with
    | .fg => p.fgindex
    | .bg => p.bgindex
    | _ => 0

/-- `tickit_pen_set_colour_attr` (value effect). -/
def setColourAttr (p : Pen) (a : PenAttr) (v : Int) : Pen :=
  match a with
  | .fg => { p with fgindex := store fgindex_width fgindex_signed v,
                    valid := { p.valid with fgindex := true, fgRgb8 := false } }
  | .bg => { p with bgindex := store bgindex_width bgindex_signed v,
                    valid := { p.valid with bgindex := true, bgRgb8 := false } }
  | _ => p

/-- `tickit_pen_has_colour_attr_rgb8`. -/
def hasColourAttrRgb8 (p : Pen) : PenAttr → Bool
  | .fg => p.valid.fgindex && p.valid.fgRgb8
  | .bg => p.valid.bgindex && p.valid.bgRgb8
  | _ => false

/-- `tickit_pen_get_colour_attr_rgb8`. -/
def getColourAttrRgb8 (p : Pen) (a : PenAttr) : RGB8 :=
  if p.hasColourAttrRgb8 a then
    match a with
    | .fg => p.fgRgb8
    | .bg => p.bgRgb8
    | _ => ⟨0, 0, 0⟩
  else ⟨0, 0, 0⟩

/-- `tickit_pen_set_colour_attr_rgb8` (value effect): only if the index version is already set. -/
def setColourAttrRgb8 (p : Pen) (a : PenAttr) (v : RGB8) : Pen :=
  if !p.hasAttr a then p
  else match a with
    | .fg => { p with fgRgb8 := v, valid := { p.valid with fgRgb8 := true } }
    | .bg => { p with bgRgb8 := v, valid := { p.valid with bgRgb8 := true } }
    | _ => p

/-- `tickit_pen_nondefault_attr`. -/
def nondefaultAttr (p : Pen) (a : PenAttr) : Bool :=
  if !p.hasAttr a then false
  else match a.type with
    | .bool => p.getBoolAttr a
    | .int => decide (p.getIntAttr a > 0)
    | .colour => decide (p.getColourAttr a ≠ COLOUR_DEFAULT)

/-- `tickit_pen_is_nonempty`. -/
def isNonempty (p : Pen) : Bool := PenAttr.all.any p.hasAttr

/-- `tickit_pen_is_nondefault`. -/
def isNondefault (p : Pen) : Bool := PenAttr.all.any p.nondefaultAttr

/-- `tickit_pen_clear_attr` (value effect). -/
def clearAttr (p : Pen) : PenAttr → Pen
  | .fg => { p with valid := { p.valid with fgindex := false } }
  | .bg => { p with valid := { p.valid with bgindex := false } }
  | .bold => { p with valid := { p.valid with bold := false } }
  | .under => { p with valid := { p.valid with under := false } }
  | .italic => { p with valid := { p.valid with italic := false } }
  | .reverse => { p with valid := { p.valid with reverse := false } }
  | .strike => { p with valid := { p.valid with strike := false } }
  | .altfont => { p with valid := { p.valid with altfont := false } }
  | .blink => { p with valid := { p.valid with blink := false } }
  | .sizepos => { p with valid := { p.valid with sizepos := false } }

/-- `tickit_pen_clear`. -/
def clear (p : Pen) : Pen := PenAttr.all.foldl clearAttr p

/-- `tickit_pen_new`: `malloc` then `tickit_pen_clear`.  `garbage` is the indeterminate content of the
    fresh allocation; note that `clear` does not reset `valid.fg_rgb8` / `valid.bg_rgb8`. -/
def newFrom (garbage : Pen) : Pen := clear garbage

/-- `tickit_pen_new` with the allocation taken to be all zeroes (the choice is unobservable:
    `Proof/Pen.lean`, `newFrom_obs`). -/
def new : Pen := newFrom {}

/-- `tickit_pen_equiv_attr`. -/
def equivAttr (a b : Pen) (attr : PenAttr) : Bool :=
  match attr.type with
  | .bool => a.getBoolAttr attr == b.getBoolAttr attr
  | .int => a.getIntAttr attr == b.getIntAttr attr
  | .colour =>
    if a.getColourAttr attr != b.getColourAttr attr then false
    else if !a.hasColourAttrRgb8 attr && !b.hasColourAttrRgb8 attr then true
    else if !a.hasColourAttrRgb8 attr || !b.hasColourAttrRgb8 attr then false
    else
      let acol := a.getColourAttrRgb8 attr
      let bcol := b.getColourAttrRgb8 attr
      acol.r == bcol.r && acol.g == bcol.g && acol.b == bcol.b

/-- `tickit_pen_equiv` (the `a == b` pointer shortcut returns what the loop returns: `equiv_refl`). -/
def equiv (a b : Pen) : Bool := PenAttr.all.all (equivAttr a b)

/-- `tickit_pen_copy_attr` (value effect).  Everything is read from `src` (index, `has_rgb8`, `rgb8`) before
    `dst` is written (since /repo 8cce03b), so `src` is a snapshot and the function is also right when `dst` and
    `src` are the same object. -/
def copyAttr (dst src : Pen) (attr : PenAttr) : Pen :=
  match attr.type with
  | .bool => dst.setBoolAttr attr (src.getBoolAttr attr)
  | .int => dst.setIntAttr attr (src.getIntAttr attr)
  | .colour =>
    let d1 := dst.setColourAttr attr (src.getColourAttr attr)
    if src.hasColourAttrRgb8 attr then d1.setColourAttrRgb8 attr (src.getColourAttrRgb8 attr) else d1

/-- `tickit_pen_copy_attr(p, p, attr)`: source and destination are the same object; the source values are
    those of `p` before the call, so the RGB8 secondary is kept. -/
def copyAttrSelf (p : Pen) (attr : PenAttr) : Pen := p.copyAttr p attr

/-- One iteration of the loop of `tickit_pen_copy`. -/
def copyStep (src : Pen) (overwrite : Bool) (dst : Pen) (attr : PenAttr) : Pen :=
  if !src.hasAttr attr then dst
  else if dst.hasAttr attr && (!overwrite || src.equivAttr dst attr) then dst
  else dst.copyAttr src attr

/-- `tickit_pen_copy` with `dst` and `src` distinct objects (value effect). -/
def copy (dst src : Pen) (overwrite : Bool) : Pen := PenAttr.all.foldl (copyStep src overwrite) dst

/-- `tickit_pen_clone`. -/
def clone (orig : Pen) : Pen := copy new orig true

/-! ### `tickit_pen_set_colour_attr_desc` -/

/-- The two uses of `sscanf`: `scanD s = some v` iff `sscanf(s, "%d", &val) == 1` with `val = v`;
    `scanRgb s = some c` iff `sscanf(s, "%2hhx%2hhx%2hhx", …) == 3` with the three bytes `c`. -/
structure Scanf where
  scanD : List UInt8 → Option Int
  scanRgb : List UInt8 → Option RGB8

/-- `strncmp(desc, name, len) != 0` is false, for `len ≤ desc.length` and NUL-free `desc`:
    `desc[0..len)` is a prefix of `name`. -/
def namePrefixMatch (desc : List UInt8) (name : List UInt8) (len : Nat) : Bool :=
  decide (len ≤ name.length) && (desc.take len == name.take len)

/-- `while(len > 0 && desc[len-1] == ' ') len--` -/
def trimLen (desc : List UInt8) : Nat → Nat
  | 0 => 0
  | len + 1 => if desc[len]? == some 32 then trimLen desc len else len + 1

/-- The colour-name table as byte strings. -/
def colourNames : List (List UInt8 × Int) :=
  colournames.map (fun (n, c) => (n.toUTF8.toList, c))

def hiPrefix : List UInt8 := [104, 105, 45]   -- "hi-"

/-- The tail `parse_rgb8:` of the function. -/
def descParseRgb8 (sc : Scanf) (p : Pen) (a : PenAttr) (desc : List UInt8) (hashp : Option Nat) : Bool × Pen :=
  match hashp with
  | some k =>
    match sc.scanRgb (desc.drop (k + 1)) with
    | some rgb => (true, p.setColourAttrRgb8 a rgb)
    | none => (true, p)
  | none => (true, p)

/-- The body of `tickit_pen_set_colour_attr_desc` after the `"hi-"` test: `desc` is what the pointer now points
    at, `hi` is 8 or 0. -/
def descCore (sc : Scanf) (p : Pen) (a : PenAttr) (desc : List UInt8) (hi : Int) : Bool × Pen :=
  let hashp : Option Nat := desc.findIdx? (· == 35)
  let len : Nat := match hashp with
    | some k => trimLen desc k
    | none => desc.length
  match sc.scanD desc with
  | some val =>
    if hi ≠ 0 ∧ val > 7 then (false, p)
    else descParseRgb8 sc (p.setColourAttr a (val + hi)) a desc hashp
  | none =>
    match colourNames.find? (fun e => namePrefixMatch desc e.1 len) with
    | some e =>
      let val := if e.2 < 8 ∧ hi ≠ 0 then e.2 + hi else e.2
      descParseRgb8 sc (p.setColourAttr a val) a desc hashp
    | none => (false, p)

/-- `tickit_pen_set_colour_attr_desc` (value effect and return value); `desc0` is the NUL-free
    content of the C string. -/
def setColourAttrDesc (sc : Scanf) (p : Pen) (a : PenAttr) (desc0 : List UInt8) : Bool × Pen :=
  if desc0.take 3 == hiPrefix then descCore sc p a (desc0.drop 3) 8
  else descCore sc p a desc0 0

/-- What the description parser extracts from the string alone: `none` = rejected, otherwise the index and
    the optional RGB8 that it passes to `set_colour_attr` / `set_colour_attr_rgb8` (`Proof/Pen.lean`,
    `setColourAttrDesc_eq_parse`). -/
def descParseCore (sc : Scanf) (desc : List UInt8) (hi : Int) : Option (Int × Option RGB8) :=
  let hashp : Option Nat := desc.findIdx? (· == 35)
  let len : Nat := match hashp with
    | some k => trimLen desc k
    | none => desc.length
  let rgb : Option RGB8 := match hashp with
    | some k => sc.scanRgb (desc.drop (k + 1))
    | none => none
  match sc.scanD desc with
  | some val => if hi ≠ 0 ∧ val > 7 then none else some (val + hi, rgb)
  | none =>
    match colourNames.find? (fun e => namePrefixMatch desc e.1 len) with
    | some e => some (if e.2 < 8 ∧ hi ≠ 0 then e.2 + hi else e.2, rgb)
    | none => none

def descParse (sc : Scanf) (desc0 : List UInt8) : Option (Int × Option RGB8) :=
  if desc0.take 3 == hiPrefix then descParseCore sc (desc0.drop 3) 8 else descParseCore sc desc0 0

/-- The direct calls a parsed description corresponds to. -/
def applyParsed (p : Pen) (a : PenAttr) : Option (Int × Option RGB8) → Bool × Pen
  | none => (false, p)
  | some (idx, none) => (true, p.setColourAttr a idx)
  | some (idx, some rgb) => (true, (p.setColourAttr a idx).setColourAttrRgb8 a rgb)

end Pen

/-! ### glibc's `sscanf` for the two formats used (recorded behaviour, glibc 2.36 `vfscanf-internal.c`) -/

namespace PenScan

/-- `isspace` in the "C" locale. -/
def isSpace (c : UInt8) : Bool := c == 32 || (9 ≤ c && c ≤ 13)
def isDigit (c : UInt8) : Bool := 48 ≤ c && c ≤ 57
def isXDigit (c : UInt8) : Bool := isDigit c || (97 ≤ c && c ≤ 102) || (65 ≤ c && c ≤ 70)
def xval (c : UInt8) : Nat :=
  if isDigit c then c.toNat - 48 else if 97 ≤ c then c.toNat - 87 else c.toNat - 55

def skipSpace (s : List UInt8) : List UInt8 := s.dropWhile isSpace

/-- `sscanf(s, "%d", &val)`: `some val` iff it returns 1.  Leading white space skipped, optional sign,
    decimal digits; the value is converted as by `strtol` (clamped to `long`) and stored into an `int`. -/
def scanD (s : List UInt8) : Option Int :=
  match skipSpace s with
  | [] => none
  | c :: rest =>
    let neg := c == 45
    let body := if c == 45 || c == 43 then rest else c :: rest
    let ds := body.takeWhile isDigit
    if ds.isEmpty then none
    else
      let n : Nat := ds.foldl (fun acc d => acc * 10 + (d.toNat - 48)) 0
      let v : Int := if neg then -(n : Int) else (n : Int)
      let clamped : Int := max (-(2 : Int) ^ 63) (min v ((2 : Int) ^ 63 - 1))
      some (wrapSigned 32 clamped)

/-- One `%<width>hhx` directive: the byte stored and the unread rest, or `none` for an input or
    matching failure.  The sign and the `0x` prefix count against the field width; `0x` without a
    following digit is accepted as 0 with the `x` consumed. -/
def scanHexW (width : Nat) (s : List UInt8) : Option (UInt8 × List UInt8) :=
  match skipSpace s with
  | [] => none
  | c :: rest =>
    let hasSign := c == 45 || c == 43
    let neg := c == 45
    let s1 := if hasSign then rest else c :: rest
    let w1 := if hasSign then width - 1 else width
    let zero := w1 != 0 && s1.head? == some 48
    let s2 := if zero then s1.tail else s1
    let w2 := if zero then w1 - 1 else w1
    let x := zero && w2 != 0 && (s2.head? == some 120 || s2.head? == some 88)
    let s3 := if x then s2.tail else s2
    let w3 := if x then w2 - 1 else w2
    let digs := (s3.takeWhile isXDigit).take w3
    if !zero && digs.isEmpty then none
    else
      let n : Nat := digs.foldl (fun acc d => acc * 16 + xval d) 0
      let v : Int := if neg then -(n : Int) else (n : Int)
      some (UInt8.ofNat (v % 256).toNat, s3.drop digs.length)

/-- `sscanf(s, "%2hhx%2hhx%2hhx", &r, &g, &b) == 3`. -/
def scanRgb (s : List UInt8) : Option RGB8 :=
  match scanHexW 2 s with
  | none => none
  | some (r, s1) =>
    match scanHexW 2 s1 with
    | none => none
    | some (g, s2) =>
      match scanHexW 2 s2 with
      | none => none
      | some (b, _) => some ⟨r, g, b⟩

end PenScan

/-- The recorded glibc behaviour. -/
def glibcScanf : Pen.Scanf := { scanD := PenScan.scanD, scanRgb := PenScan.scanRgb }

/-! ### Entry points taking the raw `int` attribute (out-of-range values take the `default:` path) -/

namespace Pen
open Gen.PenLayout

def hasAttrC (p : Pen) (c : Int) : Bool := match PenAttr.ofCode? c with | some a => p.hasAttr a | none => false
def nondefaultAttrC (p : Pen) (c : Int) : Bool := match PenAttr.ofCode? c with | some a => p.nondefaultAttr a | none => false
def getBoolAttrC (p : Pen) (c : Int) : Bool := match PenAttr.ofCode? c with | some a => p.getBoolAttr a | none => false
def getIntAttrC (p : Pen) (c : Int) : Int := match PenAttr.ofCode? c with | some a => p.getIntAttr a | none => 0
def getColourAttrC (p : Pen) (c : Int) : Int := match PenAttr.ofCode? c with | some a => p.getColourAttr a | none => COLOUR_DEFAULT
def hasColourAttrRgb8C (p : Pen) (c : Int) : Bool := match PenAttr.ofCode? c with | some a => p.hasColourAttrRgb8 a | none => false
def getColourAttrRgb8C (p : Pen) (c : Int) : RGB8 := match PenAttr.ofCode? c with | some a => p.getColourAttrRgb8 a | none => ⟨0, 0, 0⟩
/-- `tickit_pen_equiv_attr`: the type switch has no arm for −1, so the result is `false`. -/
def equivAttrC (a b : Pen) (c : Int) : Bool := match PenAttr.ofCode? c with | some at' => a.equivAttr b at' | none => false

end Pen

/-! ### `tickit_pen_new_attrs` -/

/-- One variadic argument as the caller passed it. -/
inductive VaArg
  | int (v : Int)
  | str (s : List UInt8)
deriving DecidableEq, Repr, Inhabited

namespace Pen
open Gen.PenLayout

/-- The loop of `tickit_pen_new_attrs` over the argument list (the named first parameter included).
    `none` = undefined behaviour: `va_arg` with the wrong type or past the end of the list.  Note the quirk:
    an attribute value without a type (`tickit_penattr_type` = −1) does not consume a value, so the value the
    caller passed for it is read as the next attribute. -/
def newAttrsGo (sc : Scanf) (p : Pen) : List VaArg → Option Pen
  | [] => none
  | .str _ :: _ => none
  | .int a :: rest =>
    if a < 1 then some p
    else if a = TICKIT_PEN_FG_DESC ∨ a = TICKIT_PEN_BG_DESC then
      match rest with
      | .str s :: rest' =>
        match PenAttr.ofCode? (a - 0x100) with
        | some at' => newAttrsGo sc (setColourAttrDesc sc p at' s).2 rest'
        | none => newAttrsGo sc p rest'
      | _ => none
    else
      match PenAttr.ofCode? a with
      | none => newAttrsGo sc p rest
      | some at' =>
        match rest with
        | .int v :: rest' =>
          match at'.type with
          | .bool => newAttrsGo sc (p.setBoolAttr at' (v != 0)) rest'
          | .int => newAttrsGo sc (p.setIntAttr at' v) rest'
          | .colour => newAttrsGo sc (p.setColourAttr at' v) rest'
        | _ => none
termination_by l => l.length

/-- `tickit_pen_new_attrs(attr, ...)`. -/
def newAttrs (sc : Scanf) (args : List VaArg) : Option Pen := newAttrsGo sc Pen.new args

end Pen

/-! ### The pen object: value + freeze state + delivered change events -/

/-- What `struct TickitPen` has beyond the value, as far as it is observable: `events` counts the
    `run_events(pen, TICKIT_PEN_ON_CHANGE, NULL)` calls. -/
structure PenObj where
  pen : Pen := Pen.new
  freezecount : Int := 0
  changed : Bool := false
  events : Nat := 0
deriving DecidableEq, Repr, Inhabited

namespace PenObj

def runEvents (o : PenObj) : PenObj := { o with events := o.events + 1 }
/-- `static void changed(TickitPen *pen)` -/
def markChanged (o : PenObj) : PenObj :=
  if o.freezecount = 0 then o.runEvents else { o with changed := true }
def freeze (o : PenObj) : PenObj := { o with freezecount := o.freezecount + 1 }
def thaw (o : PenObj) : PenObj :=
  let o1 := { o with freezecount := o.freezecount - 1 }
  if o1.freezecount = 0 ∧ o1.changed then { o1.runEvents with changed := false } else o1

def setBoolAttr (o : PenObj) (a : PenAttr) (v : Bool) : PenObj :=
  match a with
  | .bold | .italic | .reverse | .strike | .blink | .under =>
    ({ o with pen := o.pen.setBoolAttr a v }).markChanged
  | _ => o

def setIntAttr (o : PenObj) (a : PenAttr) (v : Int) : PenObj :=
  match a with
  | .under | .altfont | .sizepos => ({ o with pen := o.pen.setIntAttr a v }).markChanged
  | _ => o

/-- `tickit_pen_set_colour_attr` calls `run_events` directly, frozen or not. -/
def setColourAttr (o : PenObj) (a : PenAttr) (v : Int) : PenObj :=
  match a with
  | .fg | .bg => ({ o with pen := o.pen.setColourAttr a v }).runEvents
  | _ => o

def setColourAttrRgb8 (o : PenObj) (a : PenAttr) (v : RGB8) : PenObj :=
  if !o.pen.hasAttr a then o
  else match a with
    | .fg | .bg => ({ o with pen := o.pen.setColourAttrRgb8 a v }).markChanged
    | _ => o

def clearAttr (o : PenObj) (a : PenAttr) : PenObj := ({ o with pen := o.pen.clearAttr a }).markChanged

/-- `tickit_pen_clear_attr` on a raw `int`: a value matching no `case` falls out of the `switch` and still
    reaches `changed(pen)`; only `TICKIT_N_PEN_ATTRS` returns early. -/
def clearAttrC (o : PenObj) (c : Int) : PenObj :=
  match PenAttr.ofCode? c with
  | some a => o.clearAttr a
  | none => if c = Gen.PenLayout.TICKIT_N_PEN_ATTRS then o else o.markChanged

def clear (o : PenObj) : PenObj := PenAttr.all.foldl clearAttr o

/-- `tickit_pen_new`: no binding exists yet, so the events of the initial `clear` reach nobody. -/
def new : PenObj := {}

def copyAttr (dst : PenObj) (src : Pen) (attr : PenAttr) : PenObj :=
  match attr.type with
  | .bool => dst.setBoolAttr attr (src.getBoolAttr attr)
  | .int => dst.setIntAttr attr (src.getIntAttr attr)
  | .colour =>
    let d1 := dst.freeze.setColourAttr attr (src.getColourAttr attr)
    let d2 := if src.hasColourAttrRgb8 attr then d1.setColourAttrRgb8 attr (src.getColourAttrRgb8 attr) else d1
    d2.thaw

def copyAttrSelf (p : PenObj) (attr : PenAttr) : PenObj := p.copyAttr p.pen attr

def copyStep (src : Pen) (overwrite : Bool) (dst : PenObj) (attr : PenAttr) : PenObj :=
  if !src.hasAttr attr then dst
  else if dst.pen.hasAttr attr && (!overwrite || src.equivAttr dst.pen attr) then dst
  else dst.copyAttr src attr

def copy (dst : PenObj) (src : Pen) (overwrite : Bool) : PenObj :=
  (PenAttr.all.foldl (copyStep src overwrite) dst.freeze).thaw

/-- `tickit_pen_copy(p, p, overwrite)`: every attribute present is skipped (`equiv_attr(p, p, ·)` holds or
    `!overwrite`), so only `freeze`/`thaw` happen. -/
def copySelf (p : PenObj) (_overwrite : Bool) : PenObj := p.freeze.thaw

def descParseRgb8 (sc : Pen.Scanf) (o : PenObj) (a : PenAttr) (desc : List UInt8) (hashp : Option Nat) : Bool × PenObj :=
  match hashp with
  | some k =>
    match sc.scanRgb (desc.drop (k + 1)) with
    | some rgb => (true, (o.setColourAttrRgb8 a rgb).thaw)
    | none => (true, o.thaw)
  | none => (true, o.thaw)

def descCore (sc : Pen.Scanf) (o : PenObj) (a : PenAttr) (desc : List UInt8) (hi : Int) : Bool × PenObj :=
  let hashp : Option Nat := desc.findIdx? (· == 35)
  let len : Nat := match hashp with
    | some k => Pen.trimLen desc k
    | none => desc.length
  match sc.scanD desc with
  | some val =>
    if hi ≠ 0 ∧ val > 7 then (false, o)
    else descParseRgb8 sc (o.freeze.setColourAttr a (val + hi)) a desc hashp
  | none =>
    match Pen.colourNames.find? (fun e => Pen.namePrefixMatch desc e.1 len) with
    | some e =>
      let val := if e.2 < 8 ∧ hi ≠ 0 then e.2 + hi else e.2
      descParseRgb8 sc (o.freeze.setColourAttr a val) a desc hashp
    | none => (false, o)

def setColourAttrDesc (sc : Pen.Scanf) (o : PenObj) (a : PenAttr) (desc0 : List UInt8) : Bool × PenObj :=
  if desc0.take 3 == Pen.hiPrefix then descCore sc o a (desc0.drop 3) 8
  else descCore sc o a desc0 0

/-- `tickit_pen_set_colour_attr_desc` with an attribute value that is no enumerator: the setters do
    nothing, but the string is still parsed and decides the return value. -/
def setColourAttrDescNoAttr (sc : Pen.Scanf) (o : PenObj) (desc0 : List UInt8) : Bool :=
  (Pen.setColourAttrDesc sc o.pen .bold desc0).1

end PenObj

/-! ### The specification: a pen as a dictionary (partial map) from attributes to values -/

/-- What an attribute reads as through the getter of its own type. -/
inductive PenVal
  | b (v : Bool)
  | i (v : Int)
  | c (idx : Int) (rgb : Option RGB8)
deriving DecidableEq, Repr, Inhabited

/-- A pen as a partial map. -/
abbrev PenDict := PenAttr → Option PenVal

namespace PenDict
open Gen.PenLayout

def empty : PenDict := fun _ => none
def set (d : PenDict) (a : PenAttr) (v : PenVal) : PenDict := fun x => if x = a then some v else d x
def erase (d : PenDict) (a : PenAttr) : PenDict := fun x => if x = a then none else d x

/-- The default an absent attribute reads as. -/
def default (a : PenAttr) : PenVal :=
  match a.type with
  | .bool => .b false
  | .int => .i 0
  | .colour => .c COLOUR_DEFAULT none

/-- Reading with defaulting. -/
def read (d : PenDict) (a : PenAttr) : PenVal := (d a).getD (default a)

def setBool (d : PenDict) (a : PenAttr) (v : Bool) : PenDict :=
  match a.type with
  | .bool => d.set a (.b v)
  | .int => if a = .under then d.set a (.i (if v then TICKIT_PEN_UNDER_SINGLE else TICKIT_PEN_UNDER_NONE)) else d
  | .colour => d

def setInt (d : PenDict) (a : PenAttr) (v : Int) : PenDict :=
  if a.type = .int then d.set a (.i v) else d

def setColour (d : PenDict) (a : PenAttr) (v : Int) : PenDict :=
  if a.type = .colour then d.set a (.c v none) else d

def setRgb8 (d : PenDict) (a : PenAttr) (v : RGB8) : PenDict :=
  match d a with
  | some (.c idx _) => d.set a (.c idx (some v))
  | _ => d

/-- Copy: without overwrite only absent attributes are filled; with overwrite every attribute present
    in the source is taken from it. -/
def copy (dst src : PenDict) (overwrite : Bool) : PenDict := fun x =>
  match src x with
  | some v => if (dst x).isSome && !overwrite then dst x else some v
  | none => dst x

/-- `copy_attr`: the destination gets what the source *reads as* (so an absent attribute arrives as a
    present default). -/
def copyAttr (dst src : PenDict) (a : PenAttr) : PenDict := dst.set a (src.read a)

/-- Equivalence: every attribute reads the same. -/
def equiv (d1 d2 : PenDict) : Bool := PenAttr.all.all (fun a => d1.read a == d2.read a)

end PenDict

/-- What attribute `x` reads as through the getter(s) of its own type (each getter applies its own default). -/
def Pen.typedRead (p : Pen) (x : PenAttr) : PenVal :=
  match x.type with
  | .bool => .b (p.getBoolAttr x)
  | .int => .i (p.getIntAttr x)
  | .colour => .c (p.getColourAttr x) (if p.hasColourAttrRgb8 x then some (p.getColourAttrRgb8 x) else none)

/-- The abstraction function: the dictionary a pen value denotes. -/
def Pen.abs (p : Pen) : PenDict := fun a =>
  if p.hasAttr a then
    some (match a.type with
      | .bool => .b (p.getBoolAttr a)
      | .int => .i (p.getIntAttr a)
      | .colour => .c (p.getColourAttr a) (if p.hasColourAttrRgb8 a then some (p.getColourAttrRgb8 a) else none))
  else none

end Tickit
