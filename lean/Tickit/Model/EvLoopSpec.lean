import Tickit.Model.EvLoop
import Tickit.Model.EvLoopMulti
/-
  The executable specification of C17 and C18: an abstract event loop (a set of watches with a
  registration sequence number, a clock, the kernel's pending signals) that *checks* a callback log,
  clause by clause.  It never looks at the model: `step` is given the operation and the
  implementation's observation line (tokens) and answers `""` or the first clause that fails.

  Clauses (C17): never before the deadline; deadline order, ties in registration order; exactly once
  with FIRE|UNBIND; a cancelled watch never runs and gets exactly the UNBIND notification it asked
  for; a due timer / a pending deferred callback does run in the iteration (so one registered from
  inside a callback, whatever its deadline, runs in this or a later iteration); destroy notifies every
  remaining watch that asked for it exactly once; no crash on valid usage; nothing is leaked.
  Clauses (C18): a signal the kernel delivered during the wait reaches every watcher in that
  iteration, in registration order, and only then; the loop polls exactly the descriptors of the
  live IO watches; an IO watch is invoked exactly with the conditions reported for its descriptor,
  at most once, and never after it was cancelled.

  A history leaves *valid usage* when it cancels a watch that is not live (already fired, cancelled;
  except a timer or deferred callback cancelled from inside its own running callback, which must do nothing)
  or that belongs to another instance, or lets a signal with default action "terminate" reach the
  process unwatched; from then on every verdict is `""` (`misuse`).

  Several toplevel instances: watches belong to the instance they were registered on; an iteration of
  instance `c` is held to the clauses for `c`'s watches only, and no other instance's watch may be
  invoked by it.  Signals are process wide: a signal is kept pending while *any* instance has a
  watcher of it; when the kernel delivers it (inside whichever instance's wait) it is owed to the
  watchers of every instance, each in its own instance's next iteration.  The specification also
  tracks which instance the process's signal observer is (the first one built while there is none,
  until it is destroyed) — only to say so in its messages.

  The self-pipe configuration (`fb`: event hooks without signal members, one instance): a watched signal is not
  kept blocked; it is *delivered to the process* by the `raise` itself (before an iteration, inside the wait, while
  callbacks run).  At that moment it is owed to every callback then watching it (`owedK`).  What is owed when a
  wait begins must have been invoked when that iteration ends — "within the next loop iterations without needing a
  further signal" read as: the iteration whose wait begins after the delivery (the wake-up is already in the
  pipe).  A signal callback may run when it is owed the signal, or — once per iteration — when the signal was
  delivered to the process since the wait before last began (a watcher registered after the delivery may still see
  it); anything else is spurious.  What the wait returns is the kernel's business (the pipe is the library's own
  descriptor): it is only held to lie between the number of ready descriptors of live io watches and one more.
-/
namespace Tickit.EvLoop.Spec
open Tickit.EvLoop

inductive WState | live | fired | cancelled | destroyed
deriving DecidableEq, Repr, Inhabited

structure SW where
  k : Int
  kind : WType
  flags : Nat
  due : TV := ⟨0, 0⟩
  seq : Nat
  fd : Int := 0
  cond : Nat := 0
  signum : Int := 0
  pid : Int := 0
  state : WState := .live
  fires : Nat := 0
  inst : Nat := 0                -- the instance it was registered on
deriving Repr, Inhabited

/-- What is known about the current iteration. -/
structure TickInfo where
  now : TV := ⟨0, 0⟩
  pollSeq : Nat := 0
  ret : Option Nat := some 0
  delivered : List Int := []                  -- signals owed to this instance's watchers in this iteration
  origin : List (Int × Nat) := []             -- … and the instance in whose wait the kernel delivered each
  ioInvoked : List Int := []
  sigInvoked : List Int := []
  lastTimer : Option (Int × Nat) := none      -- slot, sequence counter when it fired
  lastLater : Option (Int × Nat) := none
  looseOld : List Int := []                   -- self-pipe configuration: signals delivered to the process before this wait began
deriving Repr, Inhabited

structure SSt where
  ws : List SW := []
  seq : Nat := 0
  clockUs : Int := 1000000000
  ready : List (Int × Nat) := []
  children : List Proc := []
  behs : List Beh := []
  /-- unbind handlers (`ubeh k …`): what the callback of watch `k` does when a cancel from outside any callback
      gives it its unbind notification (registrations count like any other: what they register must run) -/
  ubehs : List Beh := []
  raised : List Int := []        -- pending in the kernel (raised while a watcher keeps the signal blocked)
  inpoll : List Int := []
  laterQ : List Int := []        -- deferred callbacks in queue order (FIRST goes to the front)
  sigQ : List Int := []          -- signal watchers in list order
  internalSigs : List (Nat × Int) := [(0, SIGWINCH)]   -- (instance, signal) watched by the instance itself (SIGCHLD once a process watch exists)
  cur : Nat := 0                 -- the instance operated on
  alive : List Nat := [0]        -- instances built and not destroyed
  observer : Option Nat := some 0
  owed : List (Nat × Int × Nat) := []   -- (instance, signal, instance in whose wait it was delivered): delivered, not yet dispatched there
  misuse : Bool := false
  crashed : Bool := false
  started : Bool := false
  prop : Nat := 0                -- 17 / 18: evaluate only that property's clauses; 0: all
  tk : TickInfo := {}
  /-- the self-pipe configuration (`new … fb`: event hooks without signal members): watched signals are not
      blocked; the handler records them at once and the loop owes them to the callbacks that watched them -/
  fb : Bool := false
  owedK : List (Int × Int) := []   -- fb: (signal watch, signal) — delivered to the process while that watch watched it, watch not invoked since
  loose : List Int := []           -- fb: signals delivered to the process since the last wait began
deriving Repr, Inhabited

def init : SSt := {}
def SSt.c17 (s : SSt) : Bool := s.prop ≠ 18
def SSt.c18 (s : SSt) : Bool := s.prop ≠ 17

def find (s : SSt) (k : Int) : Option SW := s.ws.find? (·.k = k)
def upd (s : SSt) (k : Int) (f : SW → SW) : SSt := { s with ws := s.ws.map fun w => if w.k = k then f w else w }
/-- Live watches of the current instance. -/
def liveOf (s : SSt) (kind : WType) : List SW := s.ws.filter fun w => w.kind = kind && w.state = .live && w.inst = s.cur
/-- Watchers of a signal in the current instance. -/
def watchersOf (s : SSt) (sig : Int) : List SW := (liveOf s .signal).filter (·.signum = sig)
/-- Is the signal watched by anybody in the process (a live watch of any instance, or an instance itself)? -/
def held (s : SSt) (sig : Int) : Bool :=
  s.ws.any (fun w => w.kind = .signal && w.state = .live && w.signum = sig) || s.internalSigs.any (·.2 = sig)
def SSt.dead (s : SSt) : Bool := !s.alive.contains s.cur

/-! ### parsing the implementation's observation -/

inductive PEv
  | g
  | poll (timeout : Option Int) (slots : List (Int × Nat)) (ret : Option Nat)
  | cb (k : Int) (flags : Nat) (info : Info)
  | a
  | other
deriving Repr, Inhabited

def parseInfo (s : String) : Option Info :=
  if s = "-" then some .none else
  match s.splitOn "/" with
  | [a, b] => match a.toInt?, b.toInt? with
    | some a, some b => some (.io a b.toNat)     -- `io` and `proc` have the same shape; compared as a pair
    | _, _ => none
  | _ => none

def infoPair : Info → Option (Int × Int)
  | .none => none
  | .io a b => some (a, b)
  | .proc a b => some (a, b)

def parseSlots (s : String) : Option (List (Int × Nat)) :=
  if s = "-" then some [] else
  (s.splitOn ",").mapM fun p =>
    match p.splitOn "/" with
    | [a, b] => match a.toInt?, b.toNat? with
      | some a, some b => some (a, b)
      | _, _ => none
    | _ => none

def parseEv (tok : String) : Option PEv :=
  if tok = "g" then some .g else
  if tok = "a" then some .a else
  match tok.splitOn ":" with
  | ["cb", k, f, i] =>
    match k.toInt?, f.toNat?, parseInfo i with
    | some k, some f, some i => some (.cb k f i)
    | _, _, _ => none
  | ["poll", t, sl, r] =>
    let t? : Option (Option Int) := if t = "inf" then some none else t.toInt?.map some
    let r? : Option (Option Nat) := if r = "eintr" then some none else r.toNat?.map some
    match t?, parseSlots sl, r? with
    | some t, some sl, some r => some (.poll t sl r)
    | _, _, _ => none
  | ["hstop"] => some .other
  | ["skip", _] => some .other
  | ["dup", _] => some .other
  | _ => none

/-- Events before the `ok` token, or before `<cut>` (the library crashed during the operation: `true`). -/
def parseEvents : List String → Option (List PEv × Bool)
  | [] => none
  | "ok" :: _ => some ([], false)
  | "<cut>" :: _ => some ([], true)
  | t :: rest => do
    let e ← parseEv t
    let (es, cut) ← parseEvents rest
    pure (e :: es, cut)

/-! ### abstract effects of registration, cancel, raise -/

def register (s : SSt) (w : SW) : SSt :=
  match find s w.k with
  | some _ => s                       -- `dup`: the harness ignores it
  | none =>
    if w.k < 0 || w.k ≥ MAXW then s else
    let s := { s with ws := s.ws ++ [{ w with seq := s.seq, inst := s.cur }], seq := s.seq + 1 }
    match w.kind with
    | .later => { s with laterQ := if w.flags &&& BIND_FIRST ≠ 0 then w.k :: s.laterQ else s.laterQ ++ [w.k] }
    | .signal => { s with sigQ := if w.flags &&& BIND_FIRST ≠ 0 then w.k :: s.sigQ else s.sigQ ++ [w.k] }
    | _ => s

/-- The signal lost its last watcher: the loop restores the default action and unblocks it. -/
def afterUnwatch (s : SSt) (sig : Int) : SSt :=
  if s.fb then s        -- nothing is pending in the kernel; the handler is removed, nobody is killed
  else if !held s sig && s.raised.contains sig then
    let s := { s with raised := s.raised.filter (· ≠ sig) }
    if sigTerminates sig then { s with misuse := true } else s
  else s

def raiseS (s : SSt) (sig : Int) : SSt :=
  if !held s sig then
    if sigTerminates sig then { s with misuse := true } else s
  else if s.fb then
    -- delivered now: owed to every callback watching it now
    { s with owedK := (watchersOf s sig).foldl (fun acc w => if acc.contains (w.k, sig) then acc else acc ++ [(w.k, sig)]) s.owedK,
             loose := if s.loose.contains sig then s.loose else sig :: s.loose }
  else { s with raised := if s.raised.contains sig then s.raised else sig :: s.raised }

/-- Result of applying one action abstractly: new state and the notifications that must follow
    immediately in the log. -/
def applyAct (s : SSt) (a : Act) : SSt × List (Int × Nat × WType) :=
  match a with
  | .timer k ms f =>
    if ms < 0 then (s, []) else
    (register s { k := k, kind := .timer, flags := f, seq := 0,
                  due := (TV.ofUs s.clockUs).add ⟨ms / 1000, (ms % 1000) * 1000⟩ }, [])
  | .timerAt k sec usec f => if usec < 0 then (s, []) else (register s { k := k, kind := .timer, flags := f, seq := 0, due := ⟨sec, usec⟩ }, [])
  | .later k f => (register s { k := k, kind := .later, flags := f, seq := 0 }, [])
  | .io k fd c f => (register s { k := k, kind := .io, flags := f, seq := 0, fd := fd, cond := c }, [])
  | .signal k sig f => if validSig sig then (register s { k := k, kind := .signal, flags := f, seq := 0, signum := sig }, []) else (s, [])
  | .process k pid f =>
    if validPid pid then
      let fresh := (find s k).isNone && 0 ≤ k && k < MAXW
      let s := register s { k := k, kind := .process, flags := f, seq := 0, pid := pid }
      (if fresh && !s.internalSigs.contains (s.cur, SIGCHLD) then { s with internalSigs := (s.cur, SIGCHLD) :: s.internalSigs } else s, [])
    else (s, [])
  | .cancel k =>
    match find s k with
    | none => (s, [])
    | some w =>
      if w.state ≠ .live || w.inst ≠ s.cur then ({ s with misuse := true }, [])
      else
        let s := upd s k fun w => { w with state := .cancelled }
        let s := if w.kind = .signal then afterUnwatch s w.signum else s
        (s, if w.flags &&& BIND_UNBIND ≠ 0 then [(k, EV_UNBIND, w.kind)] else [])
  | .errno _ => (s, [])
  | .raise sig => if validSig sig then (raiseS s sig, []) else (s, [])
  | .exit pid status =>
    if !validPid pid then (s, []) else
    if s.children.any (·.pid = pid) then (s, [])
    else ({ s with children := s.children ++ [{ pid := pid, exited := true, reaped := false, status := status }] }, [])
  | .stop => (s, [])
  | .nop => (s, [])

def kindName : WType → String
  | .io => "io watch" | .timer => "timer" | .later => "deferred callback" | .signal => "signal watch"
  | .process => "process watch" | .none => "watch"

/-- Consume the notifications an action list must produce, in order.  `strict = false` (the clause
    belongs to the other property): consume them when they are there, say nothing when not. -/
def expectNotesF (strict : Bool) : Nat → List PEv → List (Int × Nat × WType) → Except String (List PEv)
  | _, evs, [] => .ok evs
  | 0, evs, _ => .ok evs
  | fuel + 1, evs, (k, f, kd) :: rest =>
    match evs with
    | .g :: evs' => expectNotesF strict fuel evs' ((k, f, kd) :: rest)
    | .other :: evs' => expectNotesF strict fuel evs' ((k, f, kd) :: rest)
    | [] => .ok []          -- the log was cut by a crash
    | .cb k' f' .none :: evs' =>
      if k' = k && f' = f then expectNotesF strict fuel evs' rest
      else if strict then
        .error s!"cancel of {kindName kd} {k}: expected its unbind notification (flags {f}), saw a callback of watch {k'} with flags {f'}"
      else expectNotesF strict fuel evs rest
    | _ =>
      if strict then .error s!"cancel of {kindName kd} {k}: the unbind notification it asked for did not arrive"
      else expectNotesF strict fuel evs rest

def expectNotes (strict : Bool) (evs : List PEv) (notes : List (Int × Nat × WType)) : Except String (List PEv) :=
  expectNotesF strict (evs.length + notes.length + 1) evs notes

/-- Skip informational events. -/
def skipInfo : List PEv → List PEv
  | .g :: r => skipInfo r
  | .other :: r => skipInfo r
  | l => l

/-- Run the actions of a behaviour abstractly, consuming their notifications from the log.  Every
    action the callback starts is announced by an `a` marker; when the log ends (cut by a crash) the
    remaining actions never started. -/
def runActs (s : SSt) (evs : List PEv) : List Act → Except String (SSt × List PEv)
  | [] => .ok (s, evs)
  | a :: rest =>
    match skipInfo evs with
    | [] => .ok (s, [])
    | .a :: evs =>
      let (s, notes) := applyAct s a
      if s.misuse then .ok (s, []) else
      match expectNotes s.c17 evs notes with
      | .error e => .error e
      | .ok evs => runActs s evs rest
    | .cb k f _ :: _ =>
      if f &&& EV_FIRE = 0 then .error s!"watch {k} got a notification (flags {f}) that nothing asked for"
      else .error "harness: a callback did not announce its next action"
    | _ => .error "harness: a callback did not announce its next action"

def fireActs (s : SSt) (k : Int) (evs : List PEv) : Except String (SSt × List PEv) :=
  match find s k with
  | none => .ok (s, evs)
  | some w =>
    let n := w.fires
    let s := upd s k fun w => { w with fires := w.fires + 1 }
    match s.behs.find? (fun b => b.k = k && b.n = n) with
    | none => .ok (s, evs)
    | some b =>
      -- A timer or deferred callback that passes its own watch to tickit_watch_cancel while it runs: the loop has
      -- taken it out of its queue and this very invocation (FIRE|UNBIND) is the unbind notification it asked for,
      -- so the cancel is valid usage and must give it nothing more ("runs exactly once with the fire-and-unbind
      -- flags", "gets only the unbind notification it asked for"): abstractly the action does nothing.
      let oneShot := w.kind = .timer || w.kind = .later
      runActs s evs (b.acts.map fun a => match a with
        | .cancel k' => if oneShot && k' = k then .nop else a
        | a => a)

def stateName : WState → String
  | .live => "live" | .fired => "already run" | .cancelled => "cancelled" | .destroyed => "destroyed"

def idxOf (l : List Int) (k : Int) : Nat := l.findIdx (· = k)

/-- What the wait reports for a live IO watch. -/
def reventsOf (s : SSt) (w : SW) : Nat :=
  if FD0 ≤ w.fd && w.fd < FD0 + NFD then
    (match s.ready.find? (·.1 = w.fd) with | some (_, b) => b | none => 0) &&& (eventsOfCond w.cond ||| POLLERR ||| POLLHUP ||| POLLNVAL)
  else 0

def showI : Info → String
  | .none => "-"
  | .io a b => s!"{a}/{b}"
  | .proc a b => s!"{a}/{b}"

/-- The clauses a FIRE callback of watch `w` must satisfy; `""` when it does. -/
def fireClauses (s : SSt) (w : SW) (flags : Nat) (info : Info) (inTick : Bool) : String :=
  let k := w.k
  if w.state ≠ .live then
    s!"{kindName w.kind} {k} was invoked (flags {flags}) although it is {stateName w.state}"
  else if w.inst ≠ s.cur then
    s!"{kindName w.kind} {k} belongs to instance {w.inst} and was invoked (flags {flags}) by an operation on instance {s.cur}"
  else if !inTick then s!"{kindName w.kind} {k} was invoked outside a loop iteration"
  else
  match w.kind with
  | .timer =>
    if flags ≠ EV_FIRE ||| EV_UNBIND then s!"timer {k} invoked with flags {flags}, not FIRE|UNBIND"
    else if w.due.gt s.tk.now then
      s!"timer {k} ran before its deadline ({w.due.sec}.{w.due.usec} > now {s.tk.now.sec}.{s.tk.now.usec})"
    else
      let orderBad := match s.tk.lastTimer with
        | some (p, pseq) =>
          match find s p with
          | some pw => w.seq < pseq && (pw.due.gt w.due || (pw.due = w.due && pw.seq > w.seq))
          | none => false
        | none => false
      if orderBad then s!"timer {k} ran after a timer with a later deadline (or equal deadline, registered later) although both were pending"
      else ""
  | .later =>
    if flags ≠ EV_FIRE ||| EV_UNBIND then s!"deferred callback {k} invoked with flags {flags}, not FIRE|UNBIND"
    else
      let orderBad := match s.tk.lastLater with
        | some (p, pseq) => w.seq < pseq && idxOf s.laterQ p > idxOf s.laterQ k
        | none => false
      if orderBad then s!"deferred callback {k} ran after one queued behind it" else ""
  | .io =>
    if flags ≠ EV_FIRE then s!"io watch {k} invoked with flags {flags}, not FIRE"
    else if s.tk.ioInvoked.contains k then s!"io watch {k} invoked twice in one iteration"
    else if w.seq ≥ s.tk.pollSeq then
      s!"io watch {k} was invoked ({showI info}) although it was registered after the wait: nothing was reported for its descriptor"
    else
      let want := condOfRevents (reventsOf s w)
      if s.tk.ret = some 0 || s.tk.ret = none then s!"io watch {k} invoked although no descriptor was reported ready"
      else if reventsOf s w = 0 then s!"io watch {k} invoked ({showI info}) although nothing was reported for descriptor {w.fd}"
      else if infoPair info ≠ some (w.fd, (want : Int)) then
        s!"io watch {k} invoked with {showI info}, the wait reported {w.fd}/{want}"
      else ""
  | .signal =>
    if flags ≠ EV_FIRE then s!"signal watch {k} invoked with flags {flags}, not FIRE"
    else if s.fb then
      let orderBad := s.tk.sigInvoked.any fun p =>
        match find s p with
        | some pw => pw.signum = w.signum && idxOf s.sigQ p > idxOf s.sigQ k
        | none => false
      if s.owedK.contains (k, w.signum) then
        (if orderBad then s!"signal watch {k} invoked after a watcher of the same signal registered behind it" else "")
      else if s.tk.sigInvoked.contains k then s!"signal watch {k} invoked twice for one delivery of signal {w.signum}"
      else if !(s.loose.contains w.signum || s.tk.looseOld.contains w.signum) then
        s!"signal watch {k} invoked although signal {w.signum} was not delivered to the process (spurious)"
      else if orderBad then s!"signal watch {k} invoked after a watcher of the same signal registered behind it" else ""
    else if !s.tk.delivered.contains w.signum then
      s!"signal watch {k} invoked although signal {w.signum} was not delivered in this iteration (spurious)"
    else if s.tk.sigInvoked.contains k then s!"signal watch {k} invoked twice for one delivery"
    else
      let orderBad := s.tk.sigInvoked.any fun p =>
        match find s p with
        | some pw => pw.signum = w.signum && idxOf s.sigQ p > idxOf s.sigQ k
        | none => false
      if orderBad then s!"signal watch {k} invoked after a watcher of the same signal registered behind it" else ""
  | .process =>
    if flags &&& EV_FIRE = 0 then s!"process watch {k} invoked with flags {flags}"
    else
      match s.children.find? (·.pid = w.pid) with
      | some c =>
        if !c.exited then s!"process watch {k} invoked although child {w.pid} has not exited"
        else if infoPair info ≠ some (w.pid, c.status) then s!"process watch {k} invoked with {showI info}, child {w.pid} exited with {c.status}"
        else ""
      | none => s!"process watch {k} invoked although child {w.pid} has not exited"
  | .none => ""

/-- Bookkeeping of a FIRE callback (whatever the clauses said). -/
def fireMark (s : SSt) (w : SW) : SSt :=
  let k := w.k
  match w.kind with
  | .timer =>
    let s := if w.state = .live then upd s k fun w => { w with state := .fired } else s
    { s with tk := { s.tk with lastTimer := some (k, s.seq) } }
  | .later =>
    let s := if w.state = .live then upd s k fun w => { w with state := .fired } else s
    { s with tk := { s.tk with lastLater := some (k, s.seq) } }
  | .io => { s with tk := { s.tk with ioInvoked := k :: s.tk.ioInvoked } }
  | .signal => { s with tk := { s.tk with sigInvoked := k :: s.tk.sigInvoked },
                        owedK := s.owedK.filter (· ≠ (k, w.signum)) }
  | .process => if w.state = .live then upd s k fun w => { w with state := .fired } else s
  | .none => s

/-- Check one FIRE callback against the clauses of the property under check, then run its behaviour
    abstractly.  Timers, deferred callbacks and process watches belong to C17, io and signal watches to C18. -/
def checkFire (s : SSt) (k : Int) (flags : Nat) (info : Info) (evs : List PEv) (inTick : Bool) :
    Except String (SSt × List PEv) :=
  match find s k with
  | none => .error s!"callback of a watch slot {k} that was never registered"
  | some w =>
    let owned := match w.kind with
      | .io | .signal => s.c18
      | _ => s.c17
    let verdict := fireClauses s w flags info inTick
    if owned && verdict ≠ "" then .error verdict
    else fireActs (fireMark s w) k evs

/-- Walk the callback log of one operation. -/
def walk (s : SSt) (inTick : Bool) : (fuel : Nat) → List PEv → Except String SSt
  | 0, _ => .error "specification ran out of fuel"
  | _, [] => .ok s
  | fuel + 1, e :: evs =>
    if s.misuse then .ok s else
    match e with
    | .g | .other => walk s inTick fuel evs
    | .a => .error "harness: an action outside a callback"
    | .poll .. => .error "a second wait in one operation"
    | .cb k flags info =>
      if flags &&& EV_FIRE ≠ 0 then
        match checkFire s k flags info evs inTick with
        | .error e => .error e
        | .ok (s, evs) => walk s inTick fuel evs
      else .error s!"watch {k} got a notification (flags {flags}) that nothing asked for"

def multisetEq (a b : List (Int × Nat)) : Bool :=
  a.length == b.length && a.all (fun x => a.count x == b.count x)

/-- The harness numbers the library's self-pipes 90, 91, … (below its virtual descriptors). -/
def isPipeFd (fd : Int) : Bool := 90 ≤ fd && fd < FD0

/-- A loop iteration in the self-pipe configuration. -/
def checkTickFb (s : SSt) (hang : Bool) (evs : List PEv) (cut : Bool) : Except String SSt :=
  let pre := evs.takeWhile fun e => match e with | .poll .. => false | _ => true
  let rest := evs.dropWhile fun e => match e with | .poll .. => false | _ => true
  if pre.any (fun e => match e with | .cb .. => true | _ => false) then .error "a callback ran before the wait" else
  match rest with
  | .poll timeout slots ret :: cbs =>
    let ios := liveOf s .io
    let wantSlots := ios.map fun w => (w.fd, eventsOfCond w.cond)
    -- the instance's own descriptors: the terminal's (none) and the self-pipe
    let haveSlots := slots.filter fun x => x.1 ≠ -1 && !(isPipeFd x.1 && !ios.any (·.fd = x.1))
    if s.c18 && !multisetEq wantSlots haveSlots then
      .error s!"the loop polls {haveSlots}, the live io watches are {wantSlots}"
    else
    -- what was delivered to the process before this wait began is due in this iteration
    let due := s.owedK
    let looseOld := s.loose
    let s := s.inpoll.foldl raiseS { s with inpoll := [], loose := [] }
    if s.misuse then .ok s else
    let count := (ios.filter fun w => reventsOf s w ≠ 0).length
    let retOk := match ret with
      | some n => n = count || n = count + 1
      | none => count = 0
    if !retOk then .error s!"harness: the wait returned {ret} with {count} descriptors of io watches ready" else
    let s := if ret = some 0 then
        match timeout with
        | some ms => { s with clockUs := s.clockUs + ms * 1000 }
        | none => s
      else s
    if !hang && timeout ≠ some 0 then .error s!"a non-blocking iteration waited with timeout {timeout}" else
    let now := TV.ofUs s.clockUs
    let s := { s with tk := { now := now, pollSeq := s.seq, ret := ret, looseOld := looseOld } }
    let dueTimers := (liveOf s .timer).filter fun w => !w.due.gt now
    let batch := liveOf s .later
    let ioWant := if count > 0 then ios.filter (fun w => reventsOf s w ≠ 0) else []
    match walk s true (cbs.length + 1) cbs with
    | .error e => .error e
    | .ok s =>
      if s.misuse || cut then .ok s else
      let stillLive (w : SW) : Bool := match find s w.k with | some w' => w'.state = .live | none => false
      let liveK (k : Int) : Bool := match find s k with | some w' => w'.state = .live | none => false
      match (if s.c17 then dueTimers else []).find? stillLive with
      | some w => .error s!"timer {w.k} was due (deadline {w.due.sec}.{w.due.usec} <= now {now.sec}.{now.usec}) and did not run in this iteration"
      | none =>
      match (if s.c17 then batch else []).find? stillLive with
      | some w => .error s!"deferred callback {w.k} was pending and did not run in this iteration"
      | none =>
      match (if s.c18 then ioWant else []).find? (fun w => stillLive w && !s.tk.ioInvoked.contains w.k) with
      | some w => .error s!"io watch {w.k}: descriptor {w.fd} was reported ready and the watch was not invoked"
      | none =>
      match (if s.c18 then due else []).find? (fun x => liveK x.1 && !s.tk.sigInvoked.contains x.1) with
      | some (k, sg) =>
        .error s!"signal {sg} was delivered to the process before the wait of this iteration began, while signal watch {k} was watching it, and the watch was not invoked in this iteration (self-pipe configuration: the wake-up has been consumed, the signal is lost or waits for a further one)"
      | none => .ok s
  | _ =>
    if cut then .ok (s.inpoll.foldl raiseS { s with inpoll := [] })
    else .error "no wait in this iteration"

/-- A loop iteration. -/
def checkTick (s : SSt) (hang : Bool) (evs : List PEv) (cut : Bool) : Except String SSt :=
  if s.fb then checkTickFb s hang evs cut else
  -- the wait
  let pre := evs.takeWhile fun e => match e with | .poll .. => false | _ => true
  let rest := evs.dropWhile fun e => match e with | .poll .. => false | _ => true
  if pre.any (fun e => match e with | .cb .. => true | _ => false) then .error "a callback ran before the wait" else
  match rest with
  | .poll timeout slots ret :: cbs =>
    let ios := liveOf s .io
    let wantSlots := ios.map fun w => (w.fd, eventsOfCond w.cond)
    let haveSlots := slots.filter (·.1 ≠ -1)
    if s.c18 && !multisetEq wantSlots haveSlots then
      .error s!"the loop polls {haveSlots}, the live io watches are {wantSlots}"
    else
    let s := s.inpoll.foldl raiseS { s with inpoll := [] }
    if s.misuse then .ok s else
    let count := (ios.filter fun w => reventsOf s w ≠ 0).length
    let wantRet : Option Nat := if count > 0 then some count else if s.raised.isEmpty then some 0 else none
    if ret ≠ wantRet then
      (if wantRet = none then
         .error s!"signals {s.raised} were raised while watched and the wait of this iteration did not deliver them (it returned {ret})"
       else .error s!"harness: the wait returned {ret}, expected {wantRet}") else
    -- what the kernel delivers inside this wait is owed to the watchers of every instance; this instance's
    -- share — and what was delivered inside other instances' waits since its last iteration — is due now
    let here := if wantRet = none then s.raised else []
    let s := if wantRet = none then
        { s with raised := [],
                 owed := s.owed ++ (s.alive.filter (· ≠ s.cur)).flatMap fun i => here.map fun sg => (i, sg, s.cur) }
      else s
    let mine := s.owed.filter (·.1 = s.cur)
    let s := { s with owed := s.owed.filter (·.1 ≠ s.cur) }
    let origin := here.map (fun sg => (sg, s.cur)) ++ mine.map fun x => (x.2.1, x.2.2)
    let delivered := origin.map (·.1)
    let s := if wantRet = some 0 then
        match timeout with
        | some ms => { s with clockUs := s.clockUs + ms * 1000 }
        | none => s
      else s
    if !hang && timeout ≠ some 0 then .error s!"a non-blocking iteration waited with timeout {timeout}" else
    let now := TV.ofUs s.clockUs
    let s := { s with tk := { now := now, pollSeq := s.seq, ret := ret, delivered := delivered, origin := origin } }
    let dueTimers := (liveOf s .timer).filter fun w => !w.due.gt now
    let batch := liveOf s .later
    let ioWant := if count > 0 then ios.filter (fun w => reventsOf s w ≠ 0) else []
    let sigWant := delivered.flatMap fun sg => watchersOf s sg
    match walk s true (cbs.length + 1) cbs with
    | .error e => .error e
    | .ok s =>
      if s.misuse || cut then .ok s else
      let stillLive (w : SW) : Bool := match find s w.k with | some w' => w'.state = .live | none => false
      match (if s.c17 then dueTimers else []).find? stillLive with
      | some w => .error s!"timer {w.k} was due (deadline {w.due.sec}.{w.due.usec} <= now {now.sec}.{now.usec}) and did not run in this iteration"
      | none =>
      match (if s.c17 then batch else []).find? stillLive with
      | some w => .error s!"deferred callback {w.k} was pending and did not run in this iteration"
      | none =>
      match (if s.c18 then ioWant else []).find? (fun w => stillLive w && !s.tk.ioInvoked.contains w.k) with
      | some w => .error s!"io watch {w.k}: descriptor {w.fd} was reported ready and the watch was not invoked"
      | none =>
      match (if s.c18 then sigWant else []).find? (fun w => stillLive w && !s.tk.sigInvoked.contains w.k) with
      | some w =>
        let from_ := match origin.find? (·.1 = w.signum) with | some (_, j) => j | none => s.cur
        if from_ ≠ s.cur then
          .error s!"signal {w.signum} was delivered to the process during the wait of instance {from_} and signal watch {w.k} of instance {s.cur} was not invoked in the next iteration of instance {s.cur}"
        else if s.observer ≠ some s.cur then
          .error s!"signal {w.signum} was delivered during the wait of this iteration and signal watch {w.k} was not invoked (instance {s.cur} is not the signal observer of the process: the default loop records signals for one toplevel instance)"
        else .error s!"signal {w.signum} was delivered during the wait of this iteration and signal watch {w.k} was not invoked"
      | none => .ok s
  | _ =>
    if cut then
      -- died before the wait returned: a signal raised inside the wait with nobody watching it?
      .ok (s.inpoll.foldl raiseS { s with inpoll := [] })
    else .error "no wait in this iteration"

/-- The events of a `tickit_run`, one list per iteration (each begins at its wait). -/
def splitAtPolls : List PEv → List PEv → Bool → List (List PEv)
  | [], cur, _ => [cur.reverse]
  | e :: rest, cur, seen =>
    match e with
    | .poll .. => if seen then cur.reverse :: splitAtPolls rest [e] true else splitAtPolls rest (e :: cur) true
    | _ => splitAtPolls rest (e :: cur) seen

/-- `tickit_run`: every iteration is held to the clauses of an iteration. -/
def checkRun (s : SSt) (evs : List PEv) (cut : Bool) : Except String SSt :=
  let segs := splitAtPolls evs [] false
  let n := segs.length
  let rec go (s : SSt) (i : Nat) : List (List PEv) → Except String SSt
    | [] => .ok s
    | seg :: rest =>
      match checkTick s true seg (cut && i + 1 = n) with
      | .error e => .error e
      | .ok s => if s.misuse then .ok s else go s (i + 1) rest
  go s 0 segs

/-- The abstract effect of destroying the current instance: its live watches are gone, it watches nothing
    itself any more; signals nobody else keeps watched leave the kernel's pending set. -/
def destroyMark (s : SSt) : SSt :=
  let s := { s with ws := s.ws.map (fun (w : SW) => if w.state = WState.live && w.inst = s.cur then { w with state := .destroyed } else w),
                    internalSigs := s.internalSigs.filter (·.1 ≠ s.cur),
                    alive := s.alive.filter (· ≠ s.cur),
                    observer := if s.observer = some s.cur then none else s.observer,
                    owed := s.owed.filter (·.1 ≠ s.cur), owedK := [], loose := [] }
  { s with raised := s.raised.filter (held s) }

/-- Destruction: every remaining watch of the instance that asked for it is notified exactly once; nobody else is. -/
def checkDestroy (s : SSt) (evs : List PEv) (cut : Bool) : Except String SSt :=
  -- a pending signal whose last watchers go away with the instance reaches the process with its default action
  if !s.fb && (s.raised.filter fun sg => !held (destroyMark s) sg).any sigTerminates then .ok { destroyMark s with misuse := true } else
  if cut then .ok s else
  if !s.c17 then .ok (destroyMark s) else
  let cbs := evs.filterMap fun e => match e with | .cb k f _ => some (k, f) | _ => none
  match cbs.find? (fun (_, f) => f &&& EV_FIRE ≠ 0) with
  | some (k, f) => .error s!"watch {k} was fired (flags {f}) by the destruction of the instance"
  | none =>
  let count (k : Int) : Nat := (cbs.filter fun (k', f) => k' = k && f &&& EV_DESTROY ≠ 0).length
  let any (k : Int) : Nat := (cbs.filter fun (k', _) => k' = k).length
  let mine (w : SW) : Bool := w.state = .live && w.inst = s.cur
  match s.ws.find? (fun w => mine w && w.flags &&& BIND_DESTROY ≠ 0 && count w.k ≠ 1) with
  | some w => .error s!"{kindName w.kind} {w.k} asked for a destroy notification and got {count w.k}"
  | none =>
  match s.ws.find? (fun w => mine w && w.flags &&& (BIND_DESTROY ||| BIND_UNBIND) = 0 && any w.k ≠ 0) with
  | some w => .error s!"{kindName w.kind} {w.k} asked for no notification and got one at destruction"
  | none =>
  match s.ws.find? (fun w => mine w && any w.k > 1) with
  | some w => .error s!"{kindName w.kind} {w.k} was notified {any w.k} times at destruction"
  | none =>
  match s.ws.find? (fun w => w.state = .live && w.inst ≠ s.cur && any w.k ≠ 0) with
  | some w => .error s!"{kindName w.kind} {w.k} of instance {w.inst} was notified by the destruction of instance {s.cur}"
  | none =>
  match s.ws.find? (fun w => w.state ≠ .live && any w.k ≠ 0) with
  | some w => .error s!"{kindName w.kind} {w.k} is {stateName w.state} and was notified at destruction"
  | none => .ok (destroyMark s)

/-- `inst i`: make instance `i` current, building it when it does not exist (the first instance built while
    the process has no signal observer becomes it). -/
def instS (s : SSt) (i : Nat) : SSt :=
  if i ≥ NINST then s
  else if s.alive.contains i then { s with cur := i }
  else { s with cur := i, alive := s.alive ++ [i], internalSigs := (i, SIGWINCH) :: s.internalSigs,
                observer := if s.observer.isNone then some i else s.observer }

/-- One operation line. `why` is the model's explanation of a crash it predicts (used only to word the message). -/
def step (s : SSt) (wop : WOp) (impl : List String) (why : String) (owner : Nat := 0) : SSt × String :=
  let isNew := match wop with | .op (.new _) => true | _ => false
  if s.crashed && !isNew then (s, "") else
  let crashMsg (how : String) : String :=
    s!"the library crashed ({how}) on valid usage" ++ (if why.isEmpty then "" else s!": {why}")
  match wop with
  | .op (.new p) => ({ init with started := true, prop := p }, "")
  | .op .bad => (s, "")
  | .use i => (if i < NINST && !(s.fb && i ≠ 0) then { s with cur := i } else s, "")
  | .inst i =>
    if s.fb && i ≠ 0 then (s, "") else
    (match impl with
     | "CRASH" :: rest => ({ instS s i with crashed := true }, if s.misuse then "" else crashMsg (" ".intercalate rest))
     | _ => (instS s i, ""))
  | .op op =>
  -- a line `CRASH …`: the process died before the operation produced any event
  let parsed : Option (List PEv × Bool × String) :=
    match impl with
    | "CRASH" :: rest => some ([], true, " ".intercalate rest)
    | _ => if op = .finish then some ([], false, "") else
      (parseEvents impl).map fun (evs, cut) => (evs, cut, "during the operation")
  match parsed with
  | none => if s.dead then (s, "") else (s, "unparsable observation")
  | some (evs, cut, how) =>
    if op ≠ .finish && s.dead && !cut then (s, "")
    else if s.misuse then ({ s with crashed := cut }, "") else
    -- a raise of a signal somebody watches must leave it pending, not run its default action
    let heldRaise : Option (Int × List Int) := match op with
      | .act (.raise sg) =>
        if validSig sg && held s sg then
          some (sg, (s.ws.filter fun w => w.kind = .signal && w.state = .live && w.signum = sg).map (·.k))
        else none
      | _ => none
    let r : Except String SSt :=
      match op with
      | .finish =>
        if cut || !s.c17 || impl = ["leaks=0"] then .ok s
        else .error (s!"memory was leaked ({" ".intercalate impl})" ++ (if why.isEmpty then "" else s!": {why}"))
      | .beh b => .ok { s with behs := s.behs ++ [b] }
      | .act a =>
        let (s, notes) := applyAct s a
        if s.misuse then .ok s else
        match expectNotes s.c17 evs notes with
        | .error e => .error e
        | .ok rest =>
          -- a cancel from outside any callback: the unbind handler of the watch acts (every action but cancel)
          let uacts : List Act := match a, notes with
            | .cancel k, _ :: _ =>
              (match s.ubehs.find? (fun (b : Beh) => b.k = k) with
               | some b => b.acts.map fun x => match x with | .cancel _ => .nop | y => y
               | none => [])
            | _, _ => []
          match runActs s rest uacts with
          | .error e => .error e
          | .ok (s, rest) => if s.misuse then .ok s else walk s false (rest.length + 1) rest
      | .clock us => .ok { s with clockUs := s.clockUs + us }
      | .ready fd bits => .ok { s with ready := (fd, bits) :: s.ready.filter (·.1 ≠ fd) }
      | .inpoll sg => .ok { s with inpoll := s.inpoll ++ [sg] }
      | .tick => checkTick s false evs cut
      | .tickhang => checkTick s true evs cut
      | .run => checkRun s evs cut
      | .destroy => checkDestroy s evs cut
      | _ => .ok s
    match r with
    | .ok s =>
      if cut then
        -- a crash the model attributes to the other property's territory is that property's to report
        if s.misuse || (owner ≠ 0 && s.prop ≠ 0 && owner ≠ s.prop) then ({ s with crashed := true }, "")
        else match heldRaise with
          | some (sg, ks) =>
            ({ s with crashed := true },
             s!"signal {sg} was raised while watched (signal watches {ks}) and its default action ran ({how}): the signal was not kept blocked for its watchers")
          | none => ({ s with crashed := true }, crashMsg how)
      else (s, "")
    | .error e => ({ s with crashed := true }, e)     -- one verdict per history: the abstract state is no longer in step

end Tickit.EvLoop.Spec
