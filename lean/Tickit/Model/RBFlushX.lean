import Tickit.Model.RBFlush
import Tickit.Model.TermBuf
import Tickit.Model.TermPen
import Tickit.Model.XTermDrv
/-
  Third configuration of C04: the render buffer is flushed to a terminal object built with the library's *real* xterm
  driver (termtype "xterm"), whose bytes travel through the output buffer of src/term.c (`write_str`,
  `tickit_term_flush`, any size, or none) to an output function.  What the property demands is stated on the
  screen a VT shows after reading those bytes.

  Everything below the render buffer is reused from the engines that own it:
   * `Tickit.TermBuf` (C11): `writeStr` / `flush` - the output buffer, statement by statement (chunks delivered);
   * `Tickit.XTermDrv` (C09): `gotoAbs`, `signedSeq`, `csi`, `showInt` - the bytes of goto / move_rel / ECH;
   * `Tickit.TermPen` (C10): `xtermChpen` - the SGR bytes of the driver's `chpen`; `expected` - the rendering
     attributes a pen asks for;
   * `Tickit.Sgr` (C10): `sgrApply` - the SGR interpreter; `Tickit.VT` (C09): the tokenizer state (`PState`,
     `CsiAcc`), `classify`, `cnt`, `param`.
  New here: the split of each request of the flush (`Req`, Model/RBFlush.lean) into the `write_str` calls the driver
  makes (`reqCalls`), and the screen `XScreen`: the VT executor of C09 (cursor addressing with clamping, pending
  wrap, ECH, autowrap, scrolling at the bottom) over cells that keep what C04 talks about - the bytes of the whole
  grapheme (base character plus zero-width characters, re-encoded with the reference encoder `stdUtf8`), *all*
  rendering attributes, and how often the cell has been written.
  No Mathlib: this file is linked into the driver executable.
-/
namespace Tickit.RBFlushX
open Tickit.RB Tickit.RBFlush

abbrev Bytes := List UInt8

/-! ## UTF-8 as the Unicode Standard defines it (Table 3-6), independent of src/utf8.c -/

/-- The UTF-8 form of a scalar value up to U+10FFFF (larger values: the four-byte pattern, never produced by a decoder
    that stops at F4). -/
def stdUtf8 (cp : Nat) : Bytes :=
  if cp < 0x80 then [UInt8.ofNat cp]
  else if cp < 0x800 then [UInt8.ofNat (0xC0 + cp / 64), UInt8.ofNat (0x80 + cp % 64)]
  else if cp < 0x10000 then
    [UInt8.ofNat (0xE0 + cp / 4096), UInt8.ofNat (0x80 + cp / 64 % 64), UInt8.ofNat (0x80 + cp % 64)]
  else
    [UInt8.ofNat (0xF0 + cp / 262144 % 8), UInt8.ofNat (0x80 + cp / 4096 % 64), UInt8.ofNat (0x80 + cp / 64 % 64),
     UInt8.ofNat (0x80 + cp % 64)]

/-! ## The requests of the flush as `write_str` calls of the xterm driver -/

/-- The same pen in C10's vocabulary. -/
def toTPColour (c : Colour) : TermPen.Colour := ⟨c.idx, c.rgb.map fun x => ⟨x.r, x.g, x.b⟩⟩

def toTP (p : Pen) : TermPen.Pen :=
  { fg := p.fg.map toTPColour, bg := p.bg.map toTPColour, bold := p.bold, under := p.under, italic := p.italic,
    reverse := p.reverse, strike := p.strike, altfont := p.altfont, blink := p.blink, sizepos := p.sizepos }

/-- A byte string the driver hands to `tickit_termdrv_write_str` / `_write_strf`: nothing is written when it is empty. -/
def call (bs : Bytes) : List Bytes := if bs.isEmpty then [] else [bs]

/-- `move_rel(downward, rightward)`: one write per non-zero direction. -/
def moveRelCalls (downward rightward : Int) : List Bytes :=
  call (XTermDrv.signedSeq downward [] 0x42 0x41) ++ call (XTermDrv.signedSeq rightward [] 0x43 0x44)

/-- `while(remaining > 64) { write 64 spaces; remaining -= 64; } write remaining spaces;` -/
def spacesCalls : Nat → Int → List Bytes
  | 0, _ => []
  | fuel + 1, remaining =>
    if remaining > 64 then List.replicate 64 0x20 :: spacesCalls fuel (remaining - 64)
    else [List.replicate remaining.toNat 0x20]

/-- `erasech(count, moveend)` of src/termdriver-xterm.c; `rv` = reverse video in `tt->pen`. -/
def eraseCalls (rv : Bool) (count : Int) (m : MaybeBool) : List Bytes :=
  if count < 1 then []
  else if !rv then
    [if count = 1 then XTermDrv.csi [0x58] else XTermDrv.csi (XTermDrv.showInt count ++ [0x58])] ++
    (if m = .yes then moveRelCalls 0 count else [])
  else
    spacesCalls (count.toNat + 1) count ++ (if m = .no then moveRelCalls 0 (-count) else [])

/-- `tickit_term_setpen` + the driver's `chpen(delta, final)`: at most one write. -/
def chpenCalls (caps : TermPen.Caps) (cache p : Pen) : List Bytes :=
  match TermPen.xtermChpen caps Tickit.Gen.Sgr.paramsCap (toTP (termSetpenDelta cache p)) (toTP (termSetpen cache p)) with
  | .bytes bs => call (bs.map UInt8.ofNat)
  | .overflow _ => []

/-- The `write_str` calls one request of the flush leads to; `cache` is `tt->pen` before it. -/
def reqCalls (caps : TermPen.Caps) (cache : Pen) : Req → List Bytes
  | .goto l c => call (XTermDrv.gotoAbs l c)
  | .setpen p => chpenCalls caps cache p
  | .print s start len => if len = 0 then [] else call ((s.drop start).take len)   -- tickit_term_printn returns at once for 0
  | .erasech n m => eraseCalls (Pen.getBool cache.reverse) n m

/-- `tt->pen` after a request. -/
def reqPen (cache : Pen) : Req → Pen
  | .setpen p => termSetpen cache p
  | _ => cache

/-- All `write_str` calls of a sequence of requests, in order. -/
def reqsCalls (caps : TermPen.Caps) : Pen → List Req → List Bytes
  | _, [] => []
  | cache, r :: rs => reqCalls caps cache r ++ reqsCalls caps (reqPen cache r) rs

def reqsPen : Pen → List Req → Pen
  | cache, [] => cache
  | cache, r :: rs => reqsPen (reqPen cache r) rs

/-- `write_str(tt, bs, |bs|)` for each call, through the output buffer. -/
def writeCalls : TermBuf.State → List Bytes → TermBuf.Outcome
  | st, [] => .ok st
  | st, bs :: rest => (TermBuf.writeStr st bs bs.length).bind fun st => writeCalls st rest

/-- A terminal object with an output function and an output buffer of `n` bytes (`0`: none), nothing pending. -/
def outState (n : Nat) : TermBuf.State := { hasFunc := true, bufLen := n }

/-- What the output function has received: the chunks. -/
def chunkBytes (cs : List TermBuf.Chunk) : List Bytes :=
  cs.filterMap fun c => match c with
    | .data _ b => some b
    | .fin => none

/-! ## The screen -/

/-- A screen cell: the grapheme it shows, the rendering attributes it was written with, and how often it has been
    written since the screen was set up. -/
structure XCell where
  glyph : Glyph := .blank
  attrs : Sgr.Attrs := {}
  writes : Nat := 0
deriving DecidableEq, Repr, Inhabited

/-- A VT screen.  Conventions of Model/VT.lean (C09): a printable character in the last column sets `pending` instead
    of advancing; every cursor movement clears it and clamps to the screen; erasing does neither; erased cells carry
    the current background and no other attribute; the deferred wrap on the last line scrolls the screen. -/
structure XScreen where
  lines : Int
  cols : Int
  cells : Int → Int → XCell
  row : Int := 0
  col : Int := 0
  pending : Bool := false
  /-- the cell holding the last character of width ≥ 1 printed since the last cursor movement or erase -/
  last : Option (Int × Int) := none
  attrs : Sgr.Attrs := {}
  ps : VT.PState := .ground
  /-- control sequences and controls the reference terminal does not know (the flush has no business sending any) -/
  unknown : Nat := 0

namespace XScreen

def moveTo (s : XScreen) (r c : Int) : XScreen :=
  { s with row := max 0 (min r (s.lines - 1)), col := max 0 (min c (s.cols - 1)), pending := false, last := none }

/-- What ECH / scrolling fills with: a blank in the current background. -/
def blankAttrs (a : Sgr.Attrs) : Sgr.Attrs := { bg := a.bg }

/-- ECH: blank `min n (cols − col)` cells from the cursor; cursor and pending wrap unchanged. -/
def ech (s : XScreen) (n : Int) : XScreen :=
  { s with
    cells := fun l c =>
      if l = s.row ∧ s.col ≤ c ∧ c < s.col + n ∧ c < s.cols then
        { glyph := .blank, attrs := blankAttrs s.attrs, writes := (s.cells l c).writes + 1 }
      else s.cells l c
    last := none }

/-- EL / ED (not sent by the flush; the start-up sequence of the driver ends with `CSI K`). -/
def eraseWhere (s : XScreen) (p : Int → Int → Bool) : XScreen :=
  { s with
    cells := fun l c =>
      if 0 ≤ l ∧ l < s.lines ∧ 0 ≤ c ∧ c < s.cols ∧ p l c = true then
        { glyph := .blank, attrs := blankAttrs s.attrs, writes := (s.cells l c).writes + 1 }
      else s.cells l c
    last := none }

/-- The screen moves up by one line; the new bottom line is blank. -/
def scrollUp (s : XScreen) : XScreen :=
  { s with
    cells := fun l c =>
      if 0 ≤ l ∧ l < s.lines - 1 then s.cells (l + 1) c
      else if l = s.lines - 1 then { glyph := .blank, attrs := blankAttrs s.attrs, writes := (s.cells l c).writes + 1 }
      else s.cells l c
    last := s.last.map fun p => (p.1 - 1, p.2) }

def lineFeed (s : XScreen) : XScreen :=
  if s.row = s.lines - 1 then s.scrollUp else { s with row := s.row + 1 }

/-- The deferred wrap. -/
def wrap (s : XScreen) : XScreen :=
  let s1 := s.lineFeed
  { s1 with col := 0, pending := false }

/-- A character of width `w ∈ {1, 2}` at the cursor. -/
def putWide (s : XScreen) (bs : Bytes) (w : Int) : XScreen :=
  let s1 := if s.pending ∨ s.col + w > s.cols then s.wrap else s
  let cells : Int → Int → XCell := fun l c =>
    if l = s1.row ∧ s1.col ≤ c ∧ c < s1.col + w ∧ c < s1.cols then
      { glyph := if c = s1.col then .chars bs else .wcont, attrs := s1.attrs, writes := (s1.cells l c).writes + 1 }
    else s1.cells l c
  if s1.col + w ≥ s1.cols then { s1 with cells := cells, col := s1.cols - 1, pending := true, last := some (s1.row, s1.col) }
  else { s1 with cells := cells, col := s1.col + w, last := some (s1.row, s1.col) }

/-- A zero-width character joins the last character printed (dropped when there is none). -/
def addZeroWidth (s : XScreen) (bs : Bytes) : XScreen :=
  match s.last with
  | none => s
  | some p =>
    { s with cells := fun l c =>
        if l = p.1 ∧ c = p.2 then
          match (s.cells l c).glyph with
          | .chars g => { s.cells l c with glyph := .chars (g ++ bs) }
          | _ => s.cells l c
        else s.cells l c }

/-- A decoded character arrives; widths from the library's tables (the property's assumption); a code point without a
    width (a control) shows nothing. -/
def putCp (s : XScreen) (cp : Nat) : XScreen :=
  let w := Tickit.RB.Utf8.wcwidth cp
  if w = 0 then s.addZeroWidth (stdUtf8 cp)
  else if w = 1 then s.putWide (stdUtf8 cp) 1
  else if w = 2 then s.putWide (stdUtf8 cp) 2
  else s

/-- Execute one complete control sequence. -/
def dispatch (s : XScreen) (priv : UInt8) (ps : List (List (Option Nat))) (inter : List UInt8) (final : UInt8) : XScreen :=
  if priv = 0 ∧ inter = [] then
    if final = 0x48 ∨ final = 0x66 then s.moveTo (VT.cnt ps 0 - 1) (VT.cnt ps 1 - 1)        -- CUP / HVP
    else if final = 0x64 then s.moveTo (VT.cnt ps 0 - 1) s.col                               -- VPA
    else if final = 0x47 ∨ final = 0x60 then s.moveTo s.row (VT.cnt ps 0 - 1)                -- CHA / HPA
    else if final = 0x41 then s.moveTo (s.row - VT.cnt ps 0) s.col                           -- CUU
    else if final = 0x42 then s.moveTo (s.row + VT.cnt ps 0) s.col                           -- CUD
    else if final = 0x43 then s.moveTo s.row (s.col + VT.cnt ps 0)                           -- CUF
    else if final = 0x44 then s.moveTo s.row (s.col - VT.cnt ps 0)                           -- CUB
    else if final = 0x58 then s.ech (VT.cnt ps 0)                                            -- ECH
    else if final = 0x4b then                                                                -- EL
      let m := (VT.param ps 0).getD 0
      s.eraseWhere fun l c => decide (l = s.row) && (m == 2 || (m == 0 && decide (c ≥ s.col)) || (m == 1 && decide (c ≤ s.col)))
    else if final = 0x4a then                                                                -- ED
      let m := (VT.param ps 0).getD 0
      s.eraseWhere fun l c => m == 2 || m == 3 ||
        (m == 0 && (decide (l > s.row) || (decide (l = s.row) && decide (c ≥ s.col)))) ||
        (m == 1 && (decide (l < s.row) || (decide (l = s.row) && decide (c ≤ s.col))))
    else if final = 0x6d then { s with attrs := Sgr.sgrApply ps s.attrs }                    -- SGR
    else { s with unknown := s.unknown + 1 }
  else { s with unknown := s.unknown + 1 }

/-- One byte inside a control sequence (the tokenizer of Model/VT.lean, `csiByte`). -/
def csiByte (s : XScreen) (a : VT.CsiAcc) (b : UInt8) : XScreen :=
  match VT.classify b with
  | .digit =>
    if a.inter = [] then { s with ps := .csi { a with cur := some (a.cur.getD 0 * 10 + (b.toNat - 48)) } }
    else { s with ps := .csiIgnore }
  | .semi =>
    if a.inter = [] then { s with ps := .csi { a with done := a.done ++ [a.sub ++ [a.cur]], sub := [], cur := none } }
    else { s with ps := .csiIgnore }
  | .colon =>
    if a.inter = [] then { s with ps := .csi { a with sub := a.sub ++ [a.cur], cur := none } }
    else { s with ps := .csiIgnore }
  | .priv =>
    if a = VT.CsiAcc.empty then { s with ps := .csi { a with priv := b } }
    else { s with ps := .csiIgnore }
  | .inter => { s with ps := .csi { a with inter := a.inter ++ [b] } }
  | .final => ({ s with ps := .ground } : XScreen).dispatch a.priv a.params a.inter b
  | .esc => { s with ps := .esc }
  | .cancel => { s with ps := .ground }
  | .other => s

/-- One byte in the ground state (`groundByte` of Model/VT.lean). -/
def groundByte (s : XScreen) (b : UInt8) : XScreen :=
  let n := b.toNat
  if n = 0x1b then { s with ps := .esc }
  else if n = 0x0d then { s with col := 0, pending := false, last := none }
  else if n = 0x0a ∨ n = 0x0b ∨ n = 0x0c then { s.lineFeed with last := none }
  else if n = 0x08 then s.moveTo s.row (s.col - 1)
  else if n < 0x20 ∨ n = 0x7f then s
  else if n < 0x80 then s.putCp n
  else if 0xc2 ≤ n ∧ n ≤ 0xdf then { s with ps := .utf8 1 (n - 0xc0) }
  else if 0xe0 ≤ n ∧ n ≤ 0xef then { s with ps := .utf8 2 (n - 0xe0) }
  else if 0xf0 ≤ n ∧ n ≤ 0xf4 then { s with ps := .utf8 3 (n - 0xf0) }
  else s.putCp 0xfffd

/-- The tokenizer / executor: one byte (`step` of Model/VT.lean over this screen). -/
def step (s : XScreen) (b : UInt8) : XScreen :=
  match s.ps with
  | .ground => s.groundByte b
  | .esc =>
    if b = 0x5b then { s with ps := .csi VT.CsiAcc.empty }
    else if b = 0x5d ∨ b = 0x50 ∨ b = 0x58 ∨ b = 0x5e ∨ b = 0x5f then { s with ps := .str }
    else if 0x20 ≤ b ∧ b ≤ 0x2f then { s with ps := .escInter }
    else if b = 0x1b then s
    else { s with ps := .ground }
  | .escInter =>
    if 0x20 ≤ b ∧ b ≤ 0x2f then s
    else if b = 0x1b then { s with ps := .esc }
    else { s with ps := .ground }
  | .csi a => s.csiByte a b
  | .csiIgnore =>
    if 0x40 ≤ b ∧ b ≤ 0x7e then { s with ps := .ground }
    else if b = 0x1b then { s with ps := .esc }
    else s
  | .str =>
    if b = 0x1b then { s with ps := .strEsc }
    else if b = 0x07 ∨ b = 0x9c then { s with ps := .ground }
    else s
  | .strEsc =>
    if b = 0x5c then { s with ps := .ground }
    else if b = 0x1b then s
    else if b = 0x5b then { s with ps := .csi VT.CsiAcc.empty }
    else { s with ps := .ground }
  | .utf8 need acc =>
    if 0x80 ≤ b.toNat ∧ b.toNat ≤ 0xbf then
      let acc' := acc * 64 + (b.toNat - 0x80)
      if need ≤ 1 then ({ s with ps := .ground } : XScreen).putCp acc'
      else { s with ps := .utf8 (need - 1) acc' }
    else
      (({ s with ps := .ground } : XScreen).putCp 0xfffd).groundByte b

/-- Re-tabulate the screen (execution speed only). -/
def compact (s : XScreen) : XScreen :=
  let nl := s.lines.toNat
  let nc := s.cols.toNat
  let tab : Array XCell := Array.ofFn (n := nl * nc) fun i => s.cells ((i.val / nc : Nat) : Int) ((i.val % nc : Nat) : Int)
  let old := s.cells
  { s with cells := fun l c =>
      if 0 ≤ l ∧ l < s.lines ∧ 0 ≤ c ∧ c < s.cols then
        match tab[l.toNat * nc + c.toNat]? with
        | some x => x
        | none => old l c
      else old l c }

/-- Interpret a byte string; the screen is re-tabulated every 64 bytes. -/
def runFrom (s : XScreen) : Nat → Bytes → XScreen
  | _, [] => s
  | k, b :: rest => runFrom (if k % 64 = 63 then (s.step b).compact else s.step b) (k + 1) rest

def run (s : XScreen) (bs : Bytes) : XScreen := (runFrom s 0 bs).compact

/-- Interpret a byte string (the definition the statements are about: `run` without the re-tabulation). -/
def interp (s : XScreen) (bs : Bytes) : XScreen := bs.foldl step s

/-- A blank screen. -/
def fresh (lines cols : Nat) : XScreen := { lines := lines, cols := cols, cells := fun _ _ => {} }

/-- Forget the write counts (after the screen has been set up). -/
def zeroWrites (s : XScreen) : XScreen := { s with cells := fun l c => { s.cells l c with writes := 0 } }

end XScreen

/-! ## The specification on the screen -/

/-- A printed space and an erased cell look the same. -/
def isBlankGlyph : Glyph → Bool
  | .blank => true
  | .chars bs => bs == [0x20]
  | .wcont => false

def glyphSame (a b : Glyph) : Bool := a == b || (isBlankGlyph a && isBlankGlyph b)

/-- The rendering attributes pen `p` asks for on a terminal with capabilities `caps` and 256 colours (C10's reading). -/
def expectAttrs (caps : TermPen.Caps) (p : Pen) : Sgr.Attrs :=
  TermPen.expected { colors := 256, caps := caps, cap := Tickit.Gen.Sgr.paramsCap } (toTP p)

/-- Does the cell show the rendition `e`?  A cell that was *erased* has a background and nothing else (what an erased
    cell of a VT looks like is decided by the background and by reverse video, which ECH does not apply - the reason
    the driver prints spaces under reverse video); a cell that was printed has all attributes. -/
def attrsShow (new : XCell) (e : Sgr.Attrs) : Bool :=
  match new.glyph with
  | .blank => new.attrs.bg == e.bg && e.reverse == false
  | _ => new.attrs == e

/-- The obligation `w` on a screen cell that was `old` before the flush and is `new` after it. -/
def xcellOK (caps : TermPen.Caps) (w : Want) (old new : XCell) : Bool :=
  match w with
  | .keep => new == old
  | .unspecified => true
  | .glyph g p => glyphSame new.glyph g && attrsShow new (expectAttrs caps p) && new.writes == old.writes + 1
  | .line m p =>
    (match new.glyph with
     | .chars bs => lineGlyphOK m bs
     | _ => false) && attrsShow new (expectAttrs caps p) && new.writes == old.writes + 1

/-! ## One flush in this configuration -/

/-- What the harness observes of a flush followed by `tickit_term_flush`. -/
structure XFlushRes where
  /-- chunks the output function received during `tickit_renderbuffer_flush_to_term` -/
  during : List Bytes
  /-- the chunk `tickit_term_flush` delivered afterwards (`[]`: nothing was pending) -/
  final : Bytes
  /-- `tt->pen` afterwards -/
  pen : Pen
  /-- the model of the output buffer ran into undefined behaviour (never, for a well-formed state) -/
  ok : Bool

/-- The requests `reqs`, issued with `tt->pen = cache`, through an output buffer of `n` bytes. -/
def xflush (caps : TermPen.Caps) (n : Nat) (cache : Pen) (reqs : List Req) : XFlushRes :=
  match writeCalls (outState n) (reqsCalls caps cache reqs) with
  | .ok st =>
    { during := chunkBytes st.out, final := st.buf, pen := reqsPen cache reqs, ok := true }
  | _ => { during := [], final := [], pen := reqsPen cache reqs, ok := false }

/-- Everything the terminal receives. -/
def XFlushRes.stream (r : XFlushRes) : Bytes := r.during.flatten ++ r.final

/-! ## Pause and resume between two flushes

  `tickit_term_pause` makes the xterm driver write its `teardown()` bytes - for the modes this configuration leaves
  alone only the pen reset `CSI m` - and flushes; `tickit_term_resume` makes it write its `resume()` bytes (none for
  those modes) and then calls `chpen(driver, tt->pen, tt->pen)`: the cached pen is delta and final pen at once, so
  every attribute `tt->pen` holds is sent again.  `tt->pen` itself is not touched by either.  The output-layer side
  is C11's (`TermBuf.termPause` / `termResume`, literals regenerated from the source); the pen bytes are C10's
  (`TermPen.xtermChpen`). -/

/-- The driver's `chpen(delta, final)` as `write_str` calls: at most one. -/
def drvChpenCalls (caps : TermPen.Caps) (delta final : Pen) : List Bytes :=
  match TermPen.xtermChpen caps Tickit.Gen.Sgr.paramsCap (toTP delta) (toTP final) with
  | .bytes bs => call (bs.map UInt8.ofNat)
  | .overflow _ => []

/-- The last statement of `tickit_term_resume`; `resends` = the working tree has it
    (`Gen.TermBuf.term_resume_resends_pen`, read from the source). -/
def resumePenCalls (resends : Bool) (caps : TermPen.Caps) (cache : Pen) : List Bytes :=
  if resends then drvChpenCalls caps cache cache else []

/-- The output layer of a started terminal (cursor visible, main screen) with a buffer of `n` bytes, nothing pending. -/
def startedState (n : Nat) : TermBuf.State := { outState n with mode := { started := true } }

/-- What the harness observes of `tickit_term_pause; tickit_term_resume; tickit_term_flush`. -/
structure XSuspendRes where
  /-- chunks delivered during `tickit_term_pause` (it ends with a flush) -/
  paused : List Bytes
  /-- chunks delivered during `tickit_term_resume` -/
  resumed : List Bytes
  /-- the chunk of the `tickit_term_flush` afterwards -/
  final : Bytes
  ok : Bool

def xsuspend (resends : Bool) (caps : TermPen.Caps) (n : Nat) (cache : Pen) : XSuspendRes :=
  match TermBuf.termPause (startedState n) with
  | .ok st1 =>
    match (TermBuf.termResume { st1 with out := [] }).bind fun st => writeCalls st (resumePenCalls resends caps cache) with
    | .ok st2 => { paused := chunkBytes st1.out, resumed := chunkBytes st2.out, final := st2.buf, ok := true }
    | _ => { paused := chunkBytes st1.out, resumed := [], final := [], ok := false }
  | _ => { paused := [], resumed := [], final := [], ok := false }

/-- Everything the terminal receives from a pause followed by a resume. -/
def XSuspendRes.stream (r : XSuspendRes) : Bytes := r.paused.flatten ++ r.resumed.flatten ++ r.final

end Tickit.RBFlushX
