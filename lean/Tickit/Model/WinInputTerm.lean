import Tickit.Model.WinInput
import Tickit.Model.InputXlate
/-
  Mouse input that arrives as BYTES (property C14, the terminal end of the mouse path): one report in the X10
  encoding `ESC [ M <32+code> <32+col+1> <32+line+1>` pushed with `tickit_term_input_push_bytes`.

    bytes --libtermkey--> TermKeyKey --got_key (src/term.c)--> TickitMouseEventInfo* --on_term_mouse (src/window.c)--> windows

  * `x10Key`: what libtermkey (CSI driver + `termkey_interpret_mouse`) makes of the report.  libtermkey is not part
    of libtickit: this decoding is *modelled, not verified* (trusted base of C14, tied to the installed library by
    the differential runs of engine `input`).
  * `InputXlate.gotKey` (the C20 model of `got_key`, reused, not copied): translation to tickit's event types, the
    wheel renumbering, and the record `tt->mouse_buttons_held` from which a button-less X10 release is given its
    button(s).
  * `deliver`: every event `got_key` emits goes through `run_events_whilefalse(tt, TICKIT_TERM_ON_MOUSE, …)`, i.e.
    `emitMouse` of `Model/WinInput.lean` (the root window's `on_term_mouse`, then the application's own binding).

  Handlers of the window tree cannot re-enter the terminal's input functions (no action of the behaviour tables
  does), so the order of "update the held record" and "emit" inside `got_key` is not observable; the model updates
  the record first.
-/
namespace Tickit
namespace WinInput

/-- `termkey_interpret_mouse`'s event for an X10 button code (after the CSI driver has moved the modifier bits
    `0x1c` out): low two bits 0..2 = button 1..3 (press, or drag with the motion bit `0x20`), 3 = release,
    64 / 65 = buttons 4 / 5 (the wheel); everything else is `TERMKEY_MOUSE_UNKNOWN`. -/
def x10Event (code : Nat) : Int :=
  let c := code &&& 0xc3
  let drag := code &&& 0x20 != 0
  if c < 3 then (if drag then InputXlate.TERMKEY_MOUSE_DRAG else InputXlate.TERMKEY_MOUSE_PRESS)
  else if c = 3 then InputXlate.TERMKEY_MOUSE_RELEASE
  else if c = 64 ∨ c = 65 then (if drag then InputXlate.TERMKEY_MOUSE_DRAG else InputXlate.TERMKEY_MOUSE_PRESS)
  else InputXlate.TERMKEY_MOUSE_UNKNOWN

/-- …and the button: an X10 release cannot say which one (0). -/
def x10Button (code : Nat) : Int :=
  let c := code &&& 0xc3
  if c < 3 then (c : Int) + 1
  else if c = 64 ∨ c = 65 then (c : Int) - 60
  else 0

/-- `key->modifiers = (code & 0x1c) >> 2`: shift 1, alt 2, ctrl 4. -/
def x10Mods (code : Nat) : Int := ((code &&& 0x1c) >>> 2 : Nat)

/-- The `TermKeyKey` of the report `ESC [ M <32+code> <32+col+1> <32+line+1>` (positions 1-based, as libtermkey
    reports them; `line`, `col` are the 0-based cell). -/
def x10Key (code line col : Nat) : InputXlate.Key :=
  .mouse (x10Event code) (x10Button code) ((line : Int) + 1) ((col : Int) + 1) (x10Mods code)

/-- The window tree with the terminal's held-button record. -/
structure TSt where
  st : St
  /-- `tt->mouse_buttons_held` -/
  held : Nat := 0
deriving Repr, Inhabited

/-- `run_events_whilefalse(tt, TICKIT_TERM_ON_MOUSE, &info)` for every event of the list, in order. -/
def deliver (cfg : Cfg) : St → List InputXlate.Event → Out St
  | st, [] => pure st
  | st, .mouse type button line col mods :: rest => do
    let st ← emitMouse cfg st { type := type, button := button, line := line, col := col, mod := mods }
    deliver cfg st rest
  | st, _ :: rest => deliver cfg st rest

/-- Fuel for the X10 release loop of `got_key` (30 iterations suffice: `Props.C20.release_loop_terminates`). -/
def x10Fuel : Nat := 31

/-- `tickit_term_input_push_bytes(tt, "\e[M…", 6)`: one complete X10 report. -/
def pushX10 (cfg : Cfg) (xcfg : InputXlate.Cfg) (ts : TSt) (code line col : Nat) : Out TSt :=
  match InputXlate.gotKey xcfg x10Fuel ts.held (x10Key code line col) with
  | .ok (held, evs) => do
    let st ← deliver cfg ts.st evs
    pure { st := st, held := held }
  | .ub w => .ub w
  | .outOfFuel => .fuel

end WinInput
end Tickit
