import Tickit.Model.EvLoop
/-
  The toplevel event loop in the configuration *without signal hooks*: the `TickitEventHooks` of
  evloop-default.c with the optional members `.signal` and `.cancel_signal` cleared.  `tickit_watch_signal`
  then falls back to tickit.c's own implementation (`watch_signal`, `unwatch_signal`, `sighandler`,
  `on_sigpipe_readable`): a `sigaction` handler per watched signal that records the signal in
  `t->signal.pending` and writes one byte to a self-pipe; the read end of the pipe is an ordinary io watch
  of the instance whose callback `on_sigpipe_readable` reads one byte, takes a snapshot of the pending set
  (emptying it, with the watched signals blocked meanwhile) and invokes the watchers.  Signals are *not*
  blocked in this configuration: a `raise` runs the handler at once.

  Types, the heap, the clock, timers, deferred callbacks, io slots and process bookkeeping are those of
  Model/EvLoop.lean.  Every function of that file that (transitively) reaches one of the places where the two
  configurations differ — recording a signal, `tickit_watch_signal`, the cancel hook of a signal watch, the
  wait, the callback of an io watch, `dispatch_signals`, construction, destruction — is restated here,
  *textually unchanged*, so that it binds to the definitions of this namespace (the loop of the repaired
  `tickit_evloop_invoke_sigwatches` is shared: `sigSnapLoopG`); the differing leaves are
  written out (`sigRecord`, `raiseSig`, `ensurePipe`, `watchSignal`, `unwatchSignal`, `cancelHook`,
  `pollRevents`, `ppoll`, `onSigpipeReadable`, `ioCb`, `build`, `destroy`).

  Meaning of the shared `St` fields here: `watched` is `t->signal.watched`, `pendingSig` is
  `t->signal.pending`, `observer` is the file-scope `signal_observer` of *tickit.c*; `blocked`, `kpending`,
  `signums` stay empty (`EventLoopData.watched_signals` is empty, so `dispatch_signals` never invokes anybody).
  One toplevel instance per process.

  Tied to the code by differential execution (harness/evloop.c, histories `new … fb`); the theorems of
  Props/C18 about this configuration are `fb_*` (Proof/EvLoopFb*.lean).  Core Lean only.
-/
namespace Tickit.EvLoop.Fb
open Tickit.EvLoop

/-- First descriptor number the harness gives the library's self-pipes (read end 90+2n, write end 91+2n). -/
def PIPE0 : Int := 90

/-- Read end of the most recent pipe. -/
def pipeFd (st : St) : Int := PIPE0 + 2 * ((st.pipesMade : Int) - 1)

/-- `sighandler` (tickit.c): `if(signal_observer) { sigaddset(&signal_observer->signal.pending, signum);
    write(signal_observer->signal.pipefds[1], "\0", 1); }` -/
def sigRecord (st : St) (s : Int) : St :=
  match st.observer with
  | .self => { st with pendingSig := setInsert s st.pendingSig, pipeBytes := st.pipeBytes + 1 }
  | _ => st

/-- `raise(s)`: nothing is blocked in this configuration; the handler (if any) runs at once, otherwise the default action. -/
def raiseSig (st : St) (s : Int) : St :=
  if !st.isOk then st
  else if st.handled.contains s then sigRecord st s
  else if sigTerminates s then { st with status := .killed s }
  else st

/-- `watch_signal`, first half: `if(t->signal.pipefds[0] == -1) { pipe(…); t->signal.pipewatch = tickit_watch_io(t, pipefds[0], IN, 0, &on_sigpipe_readable, t); }`
    (internal callback `-6`). -/
def ensurePipe (st : St) : St :=
  match st.pipewatch with
  | some _ => st
  | none =>
    { (watchIo { st with pipesMade := st.pipesMade + 1, pipeBytes := 0 } (PIPE0 + 2 * (st.pipesMade : Int)) IO_IN 0 (-6)).1 with
      pipewatch := some (watchIo { st with pipesMade := st.pipesMade + 1, pipeBytes := 0 } (PIPE0 + 2 * (st.pipesMade : Int)) IO_IN 0 (-6)).2 }

/-- `watch_signal`, second half: `if(sigismember(&t->signal.watched, signum)) return; sigaction(signum, sighandler);
    sigaddset(&t->signal.watched, signum); if(!signal_observer) signal_observer = t;` -/
def installHandler (st : St) (signum : Int) : St :=
  if st.watched.contains signum then st
  else { st with handled := setInsert signum st.handled, watched := setInsert signum st.watched,
                 observer := if st.observer = Observer.none then Observer.self else st.observer }

/-- `tickit_watch_signal` without a `signal` hook: allocate, `watch_signal`, `insert_watch(&t->signals, flags, watch)`. -/
def watchSignal (st : St) (signum : Int) (flags : Nat) (slot : Int) : St × Nat :=
  let a := st.heap.length
  let st1 := installHandler (ensurePipe (st.alloc { type := .signal, flags := flags &&& (BIND_UNBIND ||| BIND_DESTROY), slot := slot, signum := signum }).1) signum
  ({ (insertWatch st1 st1.signals flags a).1 with signals := (insertWatch st1 st1.signals flags a).2 }, a)

/-- `if(!t->sigchldwatch) t->sigchldwatch = tickit_watch_signal(t, SIGCHLD, 0, &on_sigchld, NULL);` -/
def ensureSigchld (st : St) : St :=
  match st.sigchldwatch with
  | some _ => st
  | none => { (watchSignal st SIGCHLD 0 (-3)).1 with sigchldwatch := some (watchSignal st SIGCHLD 0 (-3)).2 }

/-- `tickit_watch_process` (the default loop has no `process` hook). -/
def watchProcess (st : St) (pid : Int) (flags : Nat) (slot : Int) : St × Nat :=
  (linkProcess (ensureSigchld (st.alloc { type := .process, flags := flags &&& (BIND_UNBIND ||| BIND_DESTROY), slot := slot, pid := pid }).1)
     st.heap.length pid flags, st.heap.length)

/-- `unwatch_signal` (the watch has been unlinked already): another watcher of the signal keeps the handler;
    otherwise `sigdelset(&t->signal.watched, signum); sigaction(signum, SIG_DFL)`.  `t->signal.pending` is not touched. -/
def unwatchSignal (st : St) (signum : Int) : St :=
  if !st.allLive st.signals then st.fail .cancelWalk
  else if st.signals.any (fun b => (st.getW b).signum = signum) then st
  else { st with watched := setErase signum st.watched, handled := setErase signum st.handled }

/-- The `switch(this->type)` of `tickit_watch_cancel`: `cancel_io` hook; no `cancel_signal` hook, hence `unwatch_signal`. -/
def cancelHook (st : St) (w : Watch) : St :=
  match w.type with
  | .io => evloopCancelIo st w.evi
  | .signal => unwatchSignal st w.signum
  | _ => st

/-- `tickit_watch_cancel` once the watch `a` (contents `w`) has been found in its list `l`. -/
def cancelFound (st : St) (a : Nat) (w : Watch) (l : List Nat) : St :=
  cancelRest ((cancelHook (cancelNotify (setListOf st w.type (l.erase a)) a w) w).free a)
    ((l.dropWhile (· ≠ a)).drop 1)

/-- `tickit_watch_cancel` (lines 701–770).  The loop reads `->next` of every node of the list the
    watch's type selects (also after it has found the watch). -/
def watchCancel0 (st : St) (a : Nat) : St :=
  if !st.isOk then st
  else if !st.live a then st.fail .cancelType
  else if (st.getW a).type = .none then st
  else if !st.allLive ((listOf st (st.getW a).type).takeWhile (· ≠ a)) then st.fail .cancelWalk
  else if !(listOf st (st.getW a).type).contains a then
    (if st.cfg.laterCancelMarks = true ∧ (st.getW a).type = .later then cancelDetached st a else st)
  else cancelFound st a (st.getW a) (listOf st (st.getW a).type)

/-- `tickit_watch_cancel`.  `watchCancel0` is the function for every watch; repaired, a process watch found in
    `t->processes` whose child had already exited (`process.notify` set) also cancels the deferred callback that
    would deliver it: `if(this->process.notify) tickit_watch_cancel(t, this->process.notify);` — in the C text
    between the hook and `free(this)`; it touches only `t->laters` and that deferred callback (which asked for no
    notification), so the model performs it after the rest. -/
def watchCancel (st : St) (a : Nat) : St :=
  if st.cfg.processLinked = true ∧ cancelFindsProcess st a = true then
    match (st.getW a).notify with
    | some l => watchCancel0 (watchCancel0 st a) l
    | none => watchCancel0 st a
  else watchCancel0 st a

def doCancel (st : St) (k : Int) : St :=
  match findSlot st k with
  | none => st.emit (.skip k)
  | some r => watchCancel { st with cancelReq := k :: st.cancelReq } r.handle

/-- One action; `inCb`: inside a callback (where the harness restores `errno` around its own bookkeeping,
    so only `E` and a failing `waitpid` inside the library change it). -/
def runAct (st : St) (act : Act) : St :=
  if !st.isOk then st else
  match act with
  | .timer k ms flags => if ms ≥ 0 then doRegister st k (fun s => watchTimerAfterMsec s ms flags k) else st
  | .timerAt k sec usec flags => if usec ≥ 0 then doRegister st k (fun s => watchTimerAt s ⟨sec, usec⟩ flags k) else st
  | .later k flags => doRegister st k (fun s => watchLater s flags k)
  | .io k fd cond flags => doRegister st k (fun s => watchIo s fd cond flags k)
  | .signal k sig flags => if validSig sig then doRegister st k (fun s => watchSignal s sig flags k) else st
  | .process k pid flags => if validPid pid then doRegister st k (fun s => watchProcess s pid flags k) else st
  | .cancel k => doCancel st k
  | .errno v => { st with errno := v }
  | .raise s => if validSig s then raiseSig st s else st
  | .exit pid status =>
    if validPid pid then
      if st.children.any (·.pid = pid) then st      -- a child exits once
      else { st with children := st.children ++ [{ pid := pid, exited := true, reaped := false, status := status }] }
    else st
  | .stop => { st with stillRunning := false }
  | .nop => st

/-- `(*watch->fn)(t, flags, info, user)` with `FIRE` set, for the harness's callback of slot `k`. -/
def fireUser (st : St) (k : Int) (flags : Nat) (info : Info) : St :=
  let st := st.emit (.cb k flags info)
  match findSlot st k with
  | none => st
  | some r =>
    let st := { st with slots := st.slots.map fun (s : SlotRec) => if s.k = k then { s with fires := s.fires + 1 } else s }
    match st.behs.find? (fun (b : Beh) => b.k = k && b.n = r.fires) with
    | none => st
    | some b => b.acts.foldl (fun st act => if st.isOk then runAct (st.emit .a) act else st) st

/-- `invoke_watch` for a watch whose callback is the harness's (lines 297–333). -/
def invokeWatch (st : St) (a : Nat) (flags : Nat) (info : Info) : St :=
  if !st.isOk then st
  else if !st.live a then st.fail .invokeWatchType
  else if !(if (st.getW a).slot ≥ 0 then fireUser st (st.getW a).slot flags info else st).isOk then
    (if (st.getW a).slot ≥ 0 then fireUser st (st.getW a).slot flags info else st)
  else if st.cfg.invokeTypeSaved then
    unlinkOneshotSaved (if (st.getW a).slot ≥ 0 then fireUser st (st.getW a).slot flags info else st) a (st.getW a).type
  else unlinkOneshot (if (st.getW a).slot ≥ 0 then fireUser st (st.getW a).slot flags info else st) a

/-- Body of the loop of `on_sigchld` for one process watch: `waitpid(pid, &wstatus, WNOHANG)`, and the
    watch is invoked when the child has exited. -/
def procStep (st : St) (a : Nat) : St :=
  if (waitpidV st (st.getW a).pid).ret ≤ 0 then (waitpidV st (st.getW a).pid).st
  else invokeWatch (waitpidV st (st.getW a).pid).st a EV_FIRE (.proc (st.getW a).pid (waitpidV st (st.getW a).pid).wstatus)

/-- `on_sigchld` (lines 639–653): `next` is read before the callback runs. -/
def onSigchld (fuel : Nat) (st : St) (this : Option Nat) : St :=
  match fuel with
  | 0 => if st.isOk then { st with status := .outOfFuel } else st
  | fuel + 1 =>
    if !st.isOk then st else
    match this with
    | none => st
    | some a =>
      if !st.live a then st.fail .procLoopThis
      else onSigchld fuel (procStep st a) (succOf a st.procs)

/-- The repaired `on_sigchld`: a snapshot of `t->processes` is walked; an entry is used only if
    `watch_is_linked` still finds it (pointer comparisons; the walk reads `->next` of the nodes before it). -/
def procSnapLoop (st : St) : List Nat → St
  | [] => st
  | a :: rest =>
    if !st.isOk then st
    else if !st.allLive (st.procs.takeWhile (· ≠ a)) then st.fail .procLoopThis
    else if !st.procs.contains a then procSnapLoop st rest
    else if !st.live a then st.fail .procLoopThis
    else procSnapLoop (procStep st a) rest

/-- `on_sigchld` in the variant the source has. -/
def onSigchldAny (fuel : Nat) (st : St) : St :=
  if st.cfg.procSnapshot then
    (if !st.allLive st.procs then st.fail .procLoopThis else procSnapLoop st st.procs)
  else onSigchld fuel st st.procs.head?

/-- `process_notify` (lines 655–662), the callback of the internal `later` of a pre-exited child. -/
def processNotify (st : St) (later : Nat) : St :=
  if !st.live (st.getW later).puser then st.fail .invokeWatchType
  else invokeWatch (clearNotify st (st.getW later).puser) (st.getW later).puser EV_FIRE
         (.proc (st.getW (st.getW later).puser).pid (st.getW (st.getW later).puser).wstatus)

def laterCb (st : St) (a : Nat) : St :=
  if (st.getW a).slot ≥ 0 then fireUser st (st.getW a).slot (EV_FIRE ||| EV_UNBIND) .none
  else if (st.getW a).slot = -4 then processNotify st a
  else st

/-- The `while(later)` loop over the detached queue. -/
def laterLoop (st : St) : List Nat → St
  | [] => st
  | a :: rest =>
    if !st.isOk then st
    else if !st.live a then st.fail .laterLoopThis
    else if st.cfg.laterCancelMarks = true ∧ (st.getW a).type ≠ .later then laterLoop (st.free a) rest
    else if !(laterCb (laterPre st a) a).isOk then laterCb (laterPre st a) a
    else if !(laterCb (laterPre st a) a).live a then (laterCb (laterPre st a) a).fail .laterLoopThis
    else laterLoop ((laterCb (laterPre st a) a).free a) rest

/-- The `while` loop of `tickit_evloop_invoke_timers` as first shipped: `t->timers` keeps pointing at the original head. -/
def timerLoop (fuel : Nat) (st : St) (now : TV) (this : Option Nat) : St × Option Nat :=
  match fuel with
  | 0 => (if st.isOk then { st with status := .outOfFuel } else st, this)
  | fuel + 1 =>
    if !st.isOk then (st, this) else
    match this with
    | none => (st, none)
    | some a =>
      if !st.live a then (st.fail .timerLoopThis, this)
      else if (st.getW a).due.gt now then (st, this)
      else if !(fireUser st (st.getW a).slot (EV_FIRE ||| EV_UNBIND) .none).isOk then (fireUser st (st.getW a).slot (EV_FIRE ||| EV_UNBIND) .none, this)
      else if !(fireUser st (st.getW a).slot (EV_FIRE ||| EV_UNBIND) .none).live a then ((fireUser st (st.getW a).slot (EV_FIRE ||| EV_UNBIND) .none).fail .timerLoopThis, this)
      else timerLoop fuel ((fireUser st (st.getW a).slot (EV_FIRE ||| EV_UNBIND) .none).free a) now
             (succOf a (fireUser st (st.getW a).slot (EV_FIRE ||| EV_UNBIND) .none).timers)

/-- The repaired loop: unlink the head, then invoke it. -/
def timerLoopPop (fuel : Nat) (st : St) (now : TV) : St :=
  match fuel with
  | 0 => if st.isOk then { st with status := .outOfFuel } else st
  | fuel + 1 =>
    if !st.isOk then st else
    match st.timers with
    | [] => st
    | a :: rest =>
      if !st.live a then st.fail .timerLoopThis
      else if (st.getW a).due.gt now then st
      else if !(fireUser { st with timers := rest } (st.getW a).slot (EV_FIRE ||| EV_UNBIND) .none).isOk then
        fireUser { st with timers := rest } (st.getW a).slot (EV_FIRE ||| EV_UNBIND) .none
      else if !(fireUser { st with timers := rest } (st.getW a).slot (EV_FIRE ||| EV_UNBIND) .none).live a then
        (fireUser { st with timers := rest } (st.getW a).slot (EV_FIRE ||| EV_UNBIND) .none).fail .timerLoopThis
      else timerLoopPop fuel ((fireUser { st with timers := rest } (st.getW a).slot (EV_FIRE ||| EV_UNBIND) .none).free a) now

def timerPhaseShipped (fuel : Nat) (st : St) (now : TV) : St :=
  if (timerLoop fuel st now st.timers.head?).1.isOk then
    { (timerLoop fuel st now st.timers.head?).1 with
      timers := suffixFrom (timerLoop fuel st now st.timers.head?).2 (timerLoop fuel st now st.timers.head?).1.timers }
  else (timerLoop fuel st now st.timers.head?).1

/-- The `if(t->timers) { … }` block of `tickit_evloop_invoke_timers`. -/
def timerPhase (fuel : Nat) (st : St) : St :=
  if st.timers.isEmpty then st
  else if st.cfg.timersPop then timerLoopPop fuel (st.emit .g) (TV.ofUs st.clockUs)
  else timerPhaseShipped fuel (st.emit .g) (TV.ofUs st.clockUs)

def invokeTimers (fuel : Nat) (st : St) : St :=
  if !st.isOk then st
  else laterLoop (timerPhase fuel { st with laters := [] }) st.laters

/-- `if(this->signal.signum == signum) (*this->fn)(…)` for the three callbacks a signal watch can have. -/
def sigCb (fuel : Nat) (st : St) (a : Nat) (signum : Int) : St :=
  if (st.getW a).signum = signum then
    if (st.getW a).slot ≥ 0 then fireUser st (st.getW a).slot EV_FIRE .none
    else if (st.getW a).slot = -3 then onSigchldAny fuel st
    else if (st.getW a).slot = -5 then { st with stillRunning := false }    -- on_sigint: tickit_stop
    else st     -- on_sigwinch: the headless terminal has no output descriptor
  else st

/-- `tickit_evloop_invoke_sigwatches`: `this = this->next` is read after the callback.
    Returns the state and the watches the walk visited, in order (read only by the theorems of C18). -/
def sigwatchLoopT (fuel : Nat) (st : St) (signum : Int) (this : Option Nat) : St × List Nat :=
  match fuel with
  | 0 => (if st.isOk then { st with status := .outOfFuel } else st, [])
  | fuel + 1 =>
    if !st.isOk then (st, []) else
    match this with
    | none => (st, [])
    | some a =>
      if !st.live a then (st.fail .sigLoopThis, [])
      else if !(sigCb fuel st a signum).isOk then (sigCb fuel st a signum, [a])
      else if !(sigCb fuel st a signum).live a then ((sigCb fuel st a signum).fail .sigLoopThis, [a])
      else
        ((sigwatchLoopT fuel (sigCb fuel st a signum) signum (succOf a (sigCb fuel st a signum).signals)).1,
         a :: (sigwatchLoopT fuel (sigCb fuel st a signum) signum (succOf a (sigCb fuel st a signum).signals)).2)

def sigwatchLoop (fuel : Nat) (st : St) (signum : Int) (this : Option Nat) : St :=
  (sigwatchLoopT fuel st signum this).1

/-- The repaired `tickit_evloop_invoke_sigwatches`: a snapshot of `t->signals` is walked; an entry is used
    only if `watch_is_linked` still finds it.  Returns the state and the watches visited, in order.  The loop is
    Model/EvLoop.lean's (`sigSnapLoopG`), run with the callbacks of this configuration. -/
def sigSnapLoopT (fuel : Nat) (st : St) (signum : Int) (l : List Nat) : St × List Nat :=
  sigSnapLoopG (fun st a => sigCb fuel st a signum) st l

/-- `tickit_evloop_invoke_sigwatches` in the variant the source has. -/
def sigDispatch (fuel : Nat) (st : St) (signum : Int) : St :=
  if st.cfg.sigSnapshot then
    (if !st.allLive st.signals then st.fail .sigLoopThis else (sigSnapLoopT fuel st signum st.signals).1)
  else sigwatchLoop fuel st signum st.signals.head?

/-- `dispatch_signals` (after `EINTR`): `EventLoopData.pending_signals` is snapshot and emptied, but
    `EventLoopData.watched_signals` is empty in this configuration — nobody is invoked. -/
def dispatchSignals (_fuel : Nat) (st : St) : St := st

/-- What the harness's `ppoll` writes into `revents`: scripted readiness for the virtual descriptors, the kernel's
    answer for the read end of the self-pipe (readable while it holds a byte). -/
def pollRevents (st : St) (s : PollSlot) : Nat :=
  if FD0 ≤ s.fd && s.fd < FD0 + NFD then readyOf st s.fd &&& (s.events ||| POLLERR ||| POLLHUP ||| POLLNVAL)
  else if st.pipesMade > 0 && s.fd = pipeFd st && st.pipeBytes > 0 then POLLIN &&& s.events
  else 0

/-- The kernel writes `revents` of every entry. -/
def pollScan (st : St) : St :=
  { st with pfd := st.pfd.map fun s => { s with revents := some (pollRevents st s) } }

/-- Number of entries with something to report. -/
def pollCount (st : St) : Nat := ((pollScan st).pfd.filter fun s => s.revents ≠ some 0).length

/-- Signals the harness raises from inside its `ppoll`: it keeps them blocked until the kernel looks (the real
    zero-timeout `ppoll` under the loop's mask, or the return from the call) — a standard signal raised twice
    meanwhile is delivered once. -/
def pollRaise (st : St) : St := st.inpoll.eraseDups.foldl raiseSig { st with inpoll := [] }

/-- The harness's `ppoll` in this configuration (hypothesis `OsPpoll`): ready descriptors are reported before signals
    are looked at (a signal that arrived meanwhile is acted upon when the call has returned); otherwise a signal
    arriving during the wait runs its handler and the call fails with `EINTR` (an ignored one does not end the
    wait); otherwise it times out. -/
def ppoll (st : St) (timeoutMs : Option Int) : St × Option Nat :=
  if !(pollRaise (pollScan st)).isOk then (pollRaise (pollScan st), some 0)
  else if pollCount st > 0 then
    ((pollRaise (pollScan st)).emit (.poll timeoutMs (pollSlots st) (some (pollCount st))), some (pollCount st))
  else if st.inpoll.any st.handled.contains then
    ({ pollRaise (pollScan st) with errno := EINTR }.emit (.poll timeoutMs (pollSlots st) none), none)
  else
    ((pollTimeout (pollRaise (pollScan st)) timeoutMs).emit (.poll timeoutMs (pollSlots st) (some 0)), some 0)

/-- The loop of `on_sigpipe_readable` as shipped: `for(this = t->signals; this; this = this->next) if(sigismember(&pending,
    this->signal.signum)) (*this->fn)(this->t, TICKIT_EV_FIRE, NULL, this->user);` — `this->next` is read after the callback. -/
def sigpipeLoop (fuel : Nat) (st : St) (pending : List Int) (this : Option Nat) : St :=
  match fuel with
  | 0 => if st.isOk then { st with status := .outOfFuel } else st
  | fuel + 1 =>
    if !st.isOk then st else
    match this with
    | none => st
    | some a =>
      if !st.live a then st.fail .sigLoopThis
      else if !pending.contains (st.getW a).signum then sigpipeLoop fuel st pending (succOf a st.signals)
      else if !(sigCb fuel st a (st.getW a).signum).isOk then sigCb fuel st a (st.getW a).signum
      else if !(sigCb fuel st a (st.getW a).signum).live a then (sigCb fuel st a (st.getW a).signum).fail .sigLoopThis
      else sigpipeLoop fuel (sigCb fuel st a (st.getW a).signum) pending (succOf a (sigCb fuel st a (st.getW a).signum).signals)

/-- The repaired dispatch: `for(signum = 1; signum < NSIG; signum++) if(sigismember(&pending, signum))
    tickit_evloop_invoke_sigwatches(t, signum);` -/
def sigpipeInvoke (fuel : Nat) (st : St) (pending : List Int) : List Int → St
  | [] => st
  | s :: rest => sigpipeInvoke fuel (if st.isOk && pending.contains s then sigDispatch fuel st s else st) pending rest

/-- `on_sigpipe_readable`: read one byte; snapshot `t->signal.pending` and empty it (watched signals blocked
    meanwhile); invoke the watchers of the signals of the snapshot. -/
def onSigpipeReadable (fuel : Nat) (st : St) : St :=
  if st.cfg.sigpipeViaInvoke then
    sigpipeInvoke fuel { st with pipeBytes := st.pipeBytes - 1, pendingSig := [] } st.pendingSig signalRange
  else
    sigpipeLoop fuel { st with pipeBytes := st.pipeBytes - 1, pendingSig := [] } st.pendingSig st.signals.head?

/-- `tickit_evloop_invoke_iowatch(evdata->pollwatches[idx], TICKIT_EV_FIRE, cond)`: the self-pipe's watch has the
    library's own callback. -/
def ioCb (fuel : Nat) (st : St) (s : PollSlot) : St :=
  match s.watch with
  | some a =>
    if !st.live a then st.fail .invokeWatchType
    else if (st.getW a).slot = -6 then onSigpipeReadable fuel st
    else invokeWatch st a EV_FIRE (.io (st.getW a).fd (condOfRevents (slotRevents s)))
  | none => st

/-- The descriptor loop of `evloop_run`; `nfds` is re-read on every iteration. -/
def ioLoop (fuel : Nat) (st : St) (idx : Nat) : St :=
  match fuel with
  | 0 => if st.isOk then { st with status := .outOfFuel } else st
  | fuel + 1 =>
    if !st.isOk then st
    else if idx ≥ st.pfd.length then st
    else if (st.pfd.getD idx default).fd = -1 then ioLoop fuel st (idx + 1)
    else if slotRevents (st.pfd.getD idx default) = 0 then ioLoop fuel st (idx + 1)
    else ioLoop fuel (ioCb fuel st (st.pfd.getD idx default)) (idx + 1)

/-- `evloop_run` after the wait (lines 159–188): timers and deferred callbacks, then descriptors or signals. -/
def tickAfterPoll (fuel : Nat) (st : St) (ret : Option Nat) : St :=
  if !(invokeTimers fuel st).isOk then invokeTimers fuel st
  else match ret with
    | some n => if n > 0 then ioLoop fuel (invokeTimers fuel st) 0 else invokeTimers fuel st
    | none =>
      if errnoSeen st (invokeTimers fuel st) = EINTR then dispatchSignals fuel (invokeTimers fuel st)
      else invokeTimers fuel st

/-- One iteration of `evloop_run` under `tickit_tick`. -/
def tick (fuel : Nat) (st : St) (nohang : Bool) : St :=
  if !st.isOk then st
  else if !(nextTimerMsec st).1.isOk then (nextTimerMsec st).1
  else if !(ppoll (nextTimerMsec st).1 (tickTimeout nohang (nextTimerMsec st).2)).1.isOk then
    (ppoll (nextTimerMsec st).1 (tickTimeout nohang (nextTimerMsec st).2)).1
  else tickAfterPoll fuel (ppoll (nextTimerMsec st).1 (tickTimeout nohang (nextTimerMsec st).2)).1
         (ppoll (nextTimerMsec st).1 (tickTimeout nohang (nextTimerMsec st).2)).2

/-- Inside `tickit_run` the harness's `ppoll` counts its calls and calls `tickit_stop` itself when the loop
    would block for ever (no timeout, nothing ready, no signal) or has made `maxRunPolls` waits. -/
def ppollRun (st : St) (timeoutMs : Option Int) : St × Option Nat :=
  if !(ppoll st timeoutMs).1.isOk then ppoll st timeoutMs
  else if (ppoll st timeoutMs).1.runPolls + 1 ≥ maxRunPolls || (timeoutMs = none && (ppoll st timeoutMs).2 = some 0) then
    (({ (ppoll st timeoutMs).1 with runPolls := (ppoll st timeoutMs).1.runPolls + 1, stillRunning := false }).emit .hstop,
     (ppoll st timeoutMs).2)
  else ({ (ppoll st timeoutMs).1 with runPolls := (ppoll st timeoutMs).1.runPolls + 1 }, (ppoll st timeoutMs).2)

/-- One iteration of the `while(evdata->still_running)` loop of `evloop_run` under `tickit_run`. -/
def runIter (fuel : Nat) (st : St) : St :=
  if !st.isOk then st
  else if !(nextTimerMsec st).1.isOk then (nextTimerMsec st).1
  else if !(ppollRun (nextTimerMsec st).1 (tickTimeout false (nextTimerMsec st).2)).1.isOk then
    (ppollRun (nextTimerMsec st).1 (tickTimeout false (nextTimerMsec st).2)).1
  else tickAfterPoll fuel (ppollRun (nextTimerMsec st).1 (tickTimeout false (nextTimerMsec st).2)).1
         (ppollRun (nextTimerMsec st).1 (tickTimeout false (nextTimerMsec st).2)).2

def runLoop (fuel : Nat) : Nat → St → St
  | 0, st => if st.isOk then { st with status := .outOfFuel } else st
  | n + 1, st =>
    if !st.isOk then st
    else if !st.stillRunning then st
    else runLoop fuel n (runIter fuel st)

/-- `tickit_run` (the terminal has been set up when the instance was built): watch SIGINT with
    `on_sigint` (= `tickit_stop`), loop until stopped, cancel that watch. -/
def run (fuel : Nat) (st : St) : St :=
  if !st.isOk then st
  else if !(runLoop fuel (maxRunPolls + 2)
        { (watchSignal st 2 0 (-5)).1 with stillRunning := true, inRun := true, runPolls := 0 }).isOk then
    runLoop fuel (maxRunPolls + 2) { (watchSignal st 2 0 (-5)).1 with stillRunning := true, inRun := true, runPolls := 0 }
  else
    watchCancel { (runLoop fuel (maxRunPolls + 2)
        { (watchSignal st 2 0 (-5)).1 with stillRunning := true, inRun := true, runPolls := 0 }) with inRun := false }
      (watchSignal st 2 0 (-5)).2

/-- `tickit_build` on a headless terminal with these hooks: `t->signal.pipefds[0] = -1`, both sets empty;
    tickit.c's `signal_observer` is NULL in a fresh process. -/
def build0 (cfg : Config) : St :=
  { cfg := cfg, alive := true, observer := Observer.none, pendingSig := [] }

def build (cfg : Config) : St :=
  { (watchSignal (watchIo (build0 cfg) (-1) IO_IN 0 (-1)).1 SIGWINCH 0 (-2)).1 with log := [] }

/-- `destroy_watchlist`: the io list is given `cancel_io`, every other list no hook (`cancel_signal` is NULL). -/
def destroyList (st : St) (t : WType) : List Nat → St
  | [] => st
  | a :: rest =>
    if !st.isOk then st
    else if !st.live a then st.fail .destroyWalk
    else destroyList ((if t = .io then evloopCancelIo (destroyNotify st a) (st.getW a).evi else destroyNotify st a).free a) t rest

/-- `if(t->LIST) destroy_watchlist(t, t->LIST, hook);` -/
def destroyOf (t : WType) (st : St) : St := destroyList st t (listOf st t)

/-- `if(t->sigchldwatch) tickit_watch_cancel(t, t->sigchldwatch);` -/
def cancelSigchld (st : St) : St :=
  match st.sigchldwatch with
  | some a => watchCancel st a
  | none => st

/-- `if(t->signal.pipewatch) tickit_watch_cancel(t, t->signal.pipewatch);` (the descriptors are not closed) -/
def cancelPipewatch (st : St) : St :=
  match st.pipewatch with
  | some a => watchCancel st a
  | none => st

/-- `for(signum = 1; signum < NSIG; signum++) if(sigismember(&t->signal.watched, signum)) sigaction(signum, SIG_DFL);` -/
def restoreDefaults (st : St) : St :=
  if st.isOk then { st with handled := st.handled.filter fun s => !st.watched.contains s } else st

def destroyFinish (st : St) : St :=
  if st.isOk then { st with alive := false, iow := [], timers := [], laters := [], signals := [], procs := [],
                            pipewatch := none, watched := [], pendingSig := [],
                            observer := observerAfterDestroy st.observer } else st

/-- `tickit_destroy`. -/
def destroy (st : St) : St :=
  if !st.isOk then st
  else destroyFinish (destroyOf .process (destroyOf .signal (destroyOf .later (destroyOf .timer (destroyOf .io
         (restoreDefaults (cancelPipewatch (cancelSigchld st))))))))

def applyOp' (st : St) (op : Op) : St :=
  if !st.isOk then st else
  match op with
  | .new _ => st
  | .finish => st
  | .bad => st
  | _ =>
    if !st.alive then st else
    match op with
    | .beh b => { st with behs := st.behs ++ [b] }
    | .act a => runAct st a
    | .clock us => { st with clockUs := st.clockUs + us }
    | .ready fd bits => { st with ready := (fd, bits) :: st.ready.filter (·.1 ≠ fd) }
    | .inpoll s => { st with inpoll := st.inpoll ++ [s] }
    | .tick => tick defaultFuel { st with stillRunning := true } true
    | .tickhang => tick defaultFuel { st with stillRunning := true } false
    | .run => run defaultFuel st
    | .destroy => destroy st
    | _ => st

/-- One operation of the harness (`log` is reset first). -/
def applyOp (st : St) (op : Op) : St := applyOp' { st with log := [] } op

/-- `inst 0` after `destroy`: `tickit_build` of a new instance in the same process (the old pipe is never
    closed: the new one gets the next pair of descriptors). -/
def buildOn (st : St) : St :=
  { (watchSignal (watchIo { st with alive := true, iow := [], timers := [], laters := [], signals := [], procs := [],
                                    sigchldwatch := none, pfd := [], signums := [], watched := [], pendingSig := [],
                                    pipewatch := none, stillRunning := false } (-1) IO_IN 0 (-1)).1 SIGWINCH 0 (-2)).1 with log := [] }

/-- A whole history. -/
def runOps (cfg : Config) (ops : List Op) : St := ops.foldl applyOp (build cfg)

end Tickit.EvLoop.Fb
