import Tickit.Model.TermBuf
/-
  The output side of the terminal as the pen requests of C10 see it: the driver's SGR string goes through
  `write_str` (`Model/TermBuf.lean`, the model of C11: buffer of `tickit_term_set_output_buffer`, flush when full,
  `tickit_term_flush`) to the output function.  What the terminal reads is what the output function received, in
  the order it received it.  Nothing is copied from `Model/TermBuf.lean`; this file only fixes the configuration
  of the C10 harness (an output function, no descriptor) and converts between byte representations.
-/
namespace Tickit.SgrBuf
open Tickit.TermBuf

/-- `tickit_term_build` with an output function and no descriptor. -/
def init : State := { hasFunc := true, outfd := -1 }

def chunkBytes : Chunk → List Nat
  | .data _ b => b.map (·.toNat)
  | .fin => []

/-- the bytes the output function has received since `clear` -/
def received (st : State) : List Nat := st.out.flatMap chunkBytes

def clear (st : State) : State := { st with out := [] }

/-- one `tickit_termdrv_write_str(ttd, buffer, len)` with the `len = |bs|` bytes `bs` (a NUL follows them in the scratch
    buffer); the xterm driver's `chpen` does not call it when it has nothing to say. -/
def write (st : State) (bs : List Nat) : State :=
  if bs.isEmpty then st else
  match writeStr st (bs.map UInt8.ofNat ++ [0]) bs.length with
  | .ok st' => st'
  | _ => st

end Tickit.SgrBuf
