import Tickit.Model.XTermDrv
/-
  Engine `xterm` (C09): pens whose background carries an RGB8 secondary value next to its palette index
  (`tickit_pen_set_colour_attr_rgb8`), through `tickit_term_setpen` / `tickit_term_chpen` (term.c), the pen helpers
  they use (`tickit_pen_equiv_attr`, `tickit_pen_copy_attr`, `tickit_pen_set_colour_attr`, pen.c) and the xterm
  driver's `chpen` (`xd->cap.rgb8`).  Extends `XTermDrv.setpen` / `chpen` (which it equals for pens and caches
  without RGB8 values: `setpenX_plain`, `chpenX_plain`).
-/
namespace Tickit.XTermDrv

structure RGB8 where
  r : Nat
  g : Nat
  b : Nat
deriving DecidableEq, Repr, Inhabited

/-- The cached pen `tt->pen` with the background's `valid.bg_rgb8` / `bg_rgb8`. -/
structure PenCacheX where
  base : PenCache
  bgRgb : Option RGB8
deriving DecidableEq, Repr, Inhabited

def PenCacheX.empty : PenCacheX := ⟨PenCache.empty, none⟩

/-- A pen handed to setpen/chpen: `bgRgb` is what `tickit_pen_set_colour_attr_rgb8(pen, BG, …)` was called with
    after the index was set. -/
structure PenReqX where
  base : PenReq
  bgRgb : Option RGB8
deriving DecidableEq, Repr, Inhabited

/-- `tickit_pen_has_colour_attr_rgb8` / `_get_colour_attr_rgb8` of the request: the RGB8 setter returns at once for
    a pen that has no background index. -/
def PenReqX.rgb (p : PenReqX) : Option RGB8 := if p.base.bg.isSome then p.bgRgb else none

/-- The driver's `chpen`, `case TICKIT_PEN_BG`. -/
def bgParamsX (rgb8cap : Bool) (v : Int) (rgb : Option RGB8) : List SgrParam :=
  if v < 0 then [⟨49, false⟩]
  else
    match (if rgb8cap then rgb else none) with
    | some c => [⟨48, true⟩, ⟨2, true⟩, ⟨c.r, true⟩, ⟨c.g, true⟩, ⟨c.b, false⟩]
    | none => bgParams v

/-- `setpenParams` with the background's parameters given. -/
def setpenParamsX (o bgChanged rvChanged : Bool) (bgPs : List SgrParam) (rvv : Bool) : List SgrParam :=
  (if o then [⟨39, false⟩] else []) ++
  (if bgChanged then bgPs else []) ++
  (if o then [⟨22, false⟩, ⟨24, false⟩, ⟨23, false⟩] else []) ++
  (if rvChanged then [⟨if rvv then 7 else 27, false⟩] else []) ++
  (if o then [⟨29, false⟩, ⟨10, false⟩, ⟨25, false⟩, ⟨75, false⟩] else [])

/-- `tickit_term_setpen` + driver `chpen`.  `tickit_pen_equiv_attr` on a colour compares the indices and then the
    RGB8 values (both absent, or both present and equal); `tickit_pen_copy_attr` sets the index - which DROPS the
    destination's RGB8 value (`tickit_pen_set_colour_attr`: `valid.bg_rgb8 = 0`) - and then the source's RGB8 value
    if it has one. -/
def setpenX (caps : Caps) (cache : PenCacheX) (pen : PenReqX) : PenCacheX × List UInt8 :=
  let bgv := pen.base.bg.getD (-1)
  let rgbv := pen.rgb
  let rvv := pen.base.rv.getD false
  let bgChanged : Bool := decide (¬ (cache.base.bg = some bgv ∧ cache.bgRgb = rgbv))
  let rvChanged : Bool := decide (cache.base.rv ≠ some rvv)
  let cb : PenCache := ⟨true, some bgv, some rvv⟩
  (⟨cb, rgbv⟩,
   chpenBytes caps.colon (setpenParamsX (!cache.base.others) bgChanged rvChanged (bgParamsX caps.rgb8 bgv rgbv) rvv) cb)

/-- `tickit_term_chpen` + driver `chpen`. -/
def chpenX (caps : Caps) (cache : PenCacheX) (pen : PenReqX) : PenCacheX × List UInt8 :=
  let bgChanged : Bool :=
    match pen.base.bg with
    | some v => decide (¬ (cache.base.bg = some v ∧ cache.bgRgb = pen.rgb))
    | none => false
  let rvChanged : Bool := changedBy cache.base.rv pen.base.rv
  let cb : PenCache :=
    ⟨cache.base.others, if bgChanged then pen.base.bg else cache.base.bg, if rvChanged then pen.base.rv else cache.base.rv⟩
  (⟨cb, if bgChanged then pen.rgb else cache.bgRgb⟩,
   chpenBytes caps.colon
     (setpenParamsX false bgChanged rvChanged (bgParamsX caps.rgb8 (pen.base.bg.getD (-1)) pen.rgb) (pen.base.rv.getD false)) cb)

/-- `resumeBytes` for a cache with an RGB8 background. -/
def resumeBytesX (fx : Fixes) (caps : Caps) (cache : PenCacheX) : List UInt8 :=
  if fx.resumeResendsPen then
    chpenBytes caps.colon
      (setpenParamsX cache.base.others cache.base.bg.isSome cache.base.rv.isSome
        (bgParamsX caps.rgb8 (cache.base.bg.getD (-1)) cache.bgRgb) (cache.base.rv.getD false)) cache.base
  else []

/-- The background the cached pen ASKS the terminal for ("the current background" of the property): the RGB8 colour
    if the pen has one and the terminal can show it, else the palette index, `-1` = default. -/
def PenCacheX.wantBg (caps : Caps) (cache : PenCacheX) : Option Int :=
  match cache.base.bg with
  | none => none
  | some v =>
    if v < 0 then some v
    else
      match (if caps.rgb8 then cache.bgRgb else none) with
      | some c => some (VT.rgbColour c.r c.g c.b)
      | none => some v

/-- The cache as the specification reads it: the background is the colour asked for. -/
def PenCacheX.spec (caps : Caps) (cache : PenCacheX) : PenCache :=
  { cache.base with bg := cache.wantBg caps }

end Tickit.XTermDrv
