import Tickit.Model.WinRB
/-
  Engine `win` (C02): `tickit_renderbuffer_textf_at` as the harness calls it (format "%*s").

  `put_vtextf` (src/renderbuffer.c) formats into a 64-byte array on the stack first; when the result has fewer than 64 bytes
  it hands that array to `put_text`, otherwise it formats again into the buffer's scratch area `rb->tmp` (grown by
  `tmp_alloc`) and hands that to `put_text`.  Either way `put_text` receives the formatted bytes, and the count of
  valid bytes of the scratch area, `rb->tmplen`, which `flush_to_term` relies on to be 0 when it starts to collect the
  bytes of a LINE run or a CHAR cell, is left alone.  The model keeps the scratch area as a ghost pair so that this can
  be stated: the draw operation is `textAt` of the formatted text on both paths, and the ghost count is unchanged.
-/
namespace Tickit.WinRB

/-- `vsnprintf(…, "%*s", pad, bytes)` for `pad ≥ 0`: the bytes right-justified in a field of `pad` bytes. -/
def formatPad (pad : Nat) (bytes : List Nat) : List Nat :=
  List.replicate (pad - bytes.length) 32 ++ bytes

/-- The scratch area of the render buffer as `put_vtextf` and `flush_to_term` share it: the bytes stored and how many of
    them count (`rb->tmp`, `rb->tmplen`). -/
structure Scratch where
  tmp : List Nat := []
  tmplen : Nat := 0
deriving Repr, Inhabited, DecidableEq

/-- `put_vtextf`: the bytes handed to `put_text` and the scratch area afterwards. -/
def putVtextf (sc : Scratch) (formatted : List Nat) : List Nat × Scratch :=
  if formatted.length < 64 then (formatted, sc)
  else
    -- tmp_alloc(rb, len + 1); vsnprintf(rb->tmp, rb->tmpsize, fmt, args); return put_text(rb, line, col, rb->tmp, len);
    let sc := { sc with tmp := formatted }
    (sc.tmp, sc)

/-- `tickit_renderbuffer_textf_at(rb, l, c, "%*s", pad, bytes)`: what `put_text` draws (`decode`: UTF-8 bytes to code
    points). -/
def RB.textfAt (rb : RB) (decode : List Nat → List Nat) (l c : Int) (pad : Nat) (bytes : List Nat) : RB :=
  rb.textAt l c (decode (putVtextf {} (formatPad pad bytes)).1)

end Tickit.WinRB
