import Tickit.Model.LifeRB
/-
  Property C08, sixth part of the model: the scratch block of a render buffer (`rb->tmp`, `rb->tmpsize`, `rb->tmplen` of
  `src/renderbuffer.c`) as `tickit_renderbuffer_flush_to_term` uses it for a run of LINE cells:

      rb->tmplen = 0;
      do { tmp_cat_utf8(rb, linemask_to_char[cell->v.line.mask]); col++; } while(<next cell is a LINE cell with an equivalent pen>);
      tickit_term_printn(tt, rb->tmp, rb->tmplen);

  A byte of the block is `none` until something has been stored there: `malloc` hands out memory nobody has written, and
  the half `realloc` adds is as fresh.  `tickit_term_printn` reads `tmp[0 .. tmplen)` *as the text of the line*: a `none`
  among them is memory "read uninitialised-as-meaningful", an index beyond the block is an out-of-bounds read.  Both are
  explicit failures here (`Tmp.read`).
-/
namespace Tickit
namespace Life

/-- `rb->tmp` (its length is `rb->tmpsize`) and `rb->tmplen`. -/
structure Tmp where
  mem : List (Option UInt8) := List.replicate 256 none
  len : Nat := 0
deriving Repr

def Tmp.size (t : Tmp) : Nat := t.mem.length

/-- `tmp_cat_utf8(rb, codepoint)`: `if(tmpsize < tmplen + seqlen) { tmpsize *= 2; tmp = realloc(tmp, tmpsize); }` — the
    contents are kept, the added half is fresh —, `tickit_utf8_put(tmp + tmplen, tmpsize - tmplen, codepoint)` — stores
    nothing when the room is too small —, `tmplen += seqlen`. -/
def Tmp.catUtf8 (t : Tmp) (cp : Nat) : Tmp :=
  let n := seqlen cp
  let mem := if t.size < t.len + n then t.mem ++ List.replicate t.size none else t.mem
  let mem := if mem.length - t.len < n then mem
             else mem.take t.len ++ (utf8Bytes cp).map some ++ mem.drop (t.len + n)
  { mem := mem, len := t.len + n }

def allSome : List (Option UInt8) → Option (List UInt8)
  | [] => some []
  | none :: _ => none
  | some b :: r => (allSome r).map (b :: ·)

/-- `tickit_term_printn(tt, rb->tmp, rb->tmplen)`: the bytes the terminal is given. -/
def Tmp.read (t : Tmp) : Out (List UInt8) :=
  if t.size < t.len then .ub .mem "tickit_term_printn(rb->tmp, rb->tmplen): read beyond the block"
  else match allSome (t.mem.take t.len) with
    | none => .ub .mem "tickit_term_printn(rb->tmp, rb->tmplen): bytes that were never written are sent as the line"
    | some bs => pure bs

/-- One run of LINE cells (their characters given): what the terminal is sent, and the block afterwards. -/
def Tmp.lineRun (t : Tmp) (cps : List Nat) : Out (Tmp × List UInt8) := do
  let t := cps.foldl Tmp.catUtf8 { t with len := 0 }
  let bs ← t.read
  pure (t, bs)

/-- The maximal runs of LINE cells of one row (pens inside a buffer are not followed by this model: the `life` engine
    draws its lines with one pen), each as the list of its cells' masks. -/
def lineRunsOfRow (row : List Cell) : List (List Int) :=
  let (runs, cur) := row.foldl (fun (acc : List (List Int) × List Int) c =>
    if c.state = .line then (acc.1, acc.2 ++ [c.mask])
    else if acc.2.isEmpty then acc else (acc.1 ++ [acc.2], [])) ([], [])
  if cur.isEmpty then runs else runs ++ [cur]

/-- The LINE runs of `tickit_renderbuffer_flush_to_term`, row after row, through one scratch block; `glyph` is
    `linemask_to_char[]`.  The bytes of all runs, in order. -/
def flushLineRuns (glyph : Int → Nat) (b : RBObj) (t : Tmp) : Out (Tmp × List UInt8) :=
  (b.cells.toList.flatMap (fun row => lineRunsOfRow row.toList)).foldlM
    (fun (acc : Tmp × List UInt8) run => do
      let (t, bs) ← acc.1.lineRun (run.map glyph)
      pure (t, acc.2 ++ bs)) (t, [])

end Life
end Tickit
