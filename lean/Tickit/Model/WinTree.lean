import Tickit.Model.Rect
import Tickit.Model.RectSet
/-
  Shared model of the window tree of /repo/src/window.c: the object store, the sibling lists, the root's
  damage set and queue of restacking requests, and the operations that only touch those
  (`init_window`, `tickit_window_new`, `_do_hierarchy_*`, `_request_hierarchy_change`,
  `_purge_hierarchy_changes`, `tickit_window_expose`, `show`, `hide`, `close`, geometry accessors).
  Engines build on it: `win` (flush / expose composition / scrolling, C01 C02), `input` (C14),
  `focus` (C15), `life` (C08).  Event handlers are not run here: operations that run handlers in C
  return the list of events to deliver, and the engine's interpreter decides what handlers do.

  Windows live in a store indexed by id (`Nat`); a destroyed window keeps its slot with `freed := true`.
  The C sibling chain `first_child` / `next` is the list `children` of the parent (front-most first).
  Every dereference of a freed or unknown id, and every C statement that would dereference NULL, is the
  explicit outcome `Res.ub`.
-/
namespace Tickit
namespace WinTree

/-- Outcome of a model step: a value, or undefined behaviour in the C code (with a description). -/
inductive Res (α : Type) where
  | ok (a : α)
  | ub (what : String)
deriving Repr

instance : Monad Res where
  pure := Res.ok
  bind x f := match x with
    | .ok a => f a
    | .ub w => .ub w

abbrev Id := Nat

structure Cursor where
  line : Int := 0
  col : Int := 0
  shape : Int := 1          -- TICKIT_CURSORSHAPE_BLOCK
  visible : Bool := true
  blink : Int := -1         -- -1 = leave alone
deriving Repr, DecidableEq, Inhabited

structure Win where
  parent : Option Id := none
  children : List Id := []          -- first_child / next chain, front-most first
  focusedChild : Option Id := none
  rect : Rect := ⟨0, 0, 0, 0⟩
  cursor : Cursor := {}
  isRoot : Bool := false
  isVisible : Bool := true
  isFocused : Bool := false
  isClosed : Bool := false
  stealInput : Bool := false
  focusChildNotify : Bool := false
  hasPen : Bool := true
  refcount : Int := 1
  freed : Bool := false
deriving Repr, Inhabited

/-- `HierarchyChangeType`. -/
inductive Change where
  | insertFirst | insertLast | remove | raise | raiseFront | lower | lowerBack
deriving Repr, DecidableEq, Inhabited

/-- One queued `HierarchyChange` (raw ids: the C code stores raw pointers). -/
structure Req where
  change : Change
  parent : Id
  win : Id
deriving Repr, DecidableEq, Inhabited

/-- The part of `TickitRootWindow` that is about the tree (the root window itself is id `0`). -/
structure Root where
  damage : List Rect := []          -- the TickitRectSet, as stored
  changes : List Req := []          -- hierarchy_changes, oldest first
  needsExpose : Bool := false
  needsRestore : Bool := false
  needsLater : Bool := false
  mouseDragging : Bool := false
  mouseLastButton : Int := 0
  mouseLastLine : Int := 0
  mouseLastCol : Int := 0
  dragSource : Option Id := none
deriving Repr, Inhabited

structure Tree where
  wins : Array Win := #[]
  root : Root := {}
deriving Repr, Inhabited

/-- Fuel handed to the rectangle-set operations on the damage set. -/
def rsFuel : Nat := 100000

/-- Read a live window. -/
def get (t : Tree) (id : Id) : Res Win :=
  match t.wins[id]? with
  | none => .ub s!"unknown window {id}"
  | some w => if w.freed then .ub s!"use of freed window {id}" else .ok w

/-- Write a window (the caller has already checked liveness through `get`). -/
def set (t : Tree) (id : Id) (w : Win) : Tree :=
  { t with wins := t.wins.setIfInBounds id w }

def modify (t : Tree) (id : Id) (f : Win → Win) : Res Tree := do
  let w ← get t id
  pure (set t id (f w))

/-- `tickit_window_new_root2` as far as the tree is concerned (window 0 of the given size),
    followed by its `tickit_window_expose(root, NULL)`. -/
def newRoot (lines cols : Int) : Tree :=
  let w : Win := { rect := ⟨0, 0, lines, cols⟩, isRoot := true }
  let dmg := if 0 < lines ∧ 0 < cols then [(⟨0, 0, lines, cols⟩ : Rect)] else []
  { wins := #[w], root := { damage := dmg, needsExpose := !dmg.isEmpty, needsLater := !dmg.isEmpty } }

/-- `_get_root`: walks `parent` until a root window; an orphan makes the C code `abort()`. -/
def getRoot (t : Tree) : Nat → Id → Res Id
  | 0, _ => .ub "parent chain too long"
  | fuel + 1, id => do
    let w ← get t id
    if w.isRoot then pure id
    else match w.parent with
      | none => .ub s!"_get_root: orphaned window {id} (abort)"
      | some p => getRoot t fuel p

/-- `tickit_window_get_abs_geometry`. -/
def absGeometry (t : Tree) : Nat → Id → Res Rect
  | fuel, id => do
    let w ← get t id
    let rec up : Nat → Option Id → Rect → Res Rect
      | 0, _, _ => .ub "parent chain too long"
      | _, none, g => pure g
      | f + 1, some p, g => do
        let pw ← get t p
        up f pw.parent (g.translate pw.rect.top pw.rect.left)
    up fuel w.parent w.rect

/-- `tickit_window_expose`: clip to the window, translate up to the root, de-duplicate against and add to
    the damage set.  `exposed = none` is the C `NULL` (whole window). -/
def expose (t : Tree) : Nat → Id → Option Rect → Res Tree
  | 0, _, _ => .ub "parent chain too long"
  | fuel + 1, id, exposed => do
    let w ← get t id
    let selfrect : Rect := ⟨0, 0, w.rect.lines, w.rect.cols⟩
    let damaged? := match exposed with
      | some e => Rect.intersect selfrect e
      | none => some selfrect
    match damaged? with
    | none => pure t
    | some damaged =>
      if !w.isVisible then pure t
      else if !w.isRoot then
        match w.parent with
        | none => pure t
        | some p => expose t fuel p (some (damaged.translate w.rect.top w.rect.left))
      else
        -- the C code hands `damaged` to the rectangle set even when it is empty (NULL expose of a 0-size root)
        match RectSet.contains rsFuel t.root.damage damaged with
        | none => .ub "rectset_contains out of fuel"
        | some true => pure t
        | some false =>
          match RectSet.add rsFuel t.root.damage damaged with
          | none => .ub "rectset_add out of fuel"
          | some d => pure { t with root := { t.root with damage := d, needsExpose := true, needsLater := true } }

/-! ### sibling-list surgery (`_do_hierarchy_*`) -/

/-- `_do_hierarchy_remove`: unlink `win` if present (`_find_child` never returns NULL, so a missing
    window unlinks nothing... except that `*winp = (*winp)->next` then dereferences NULL). -/
def listRemove (cs : List Id) (win : Id) : Res (List Id) :=
  if cs.contains win then .ok (cs.erase win) else .ub "_do_hierarchy_remove: window not in parent's list (NULL dereference)"

/-- `_do_hierarchy_raise`: swap with the previous sibling. -/
def listRaise : List Id → Id → Res (List Id)
  | [], _ => .ub "_do_hierarchy_raise: window not in parent's list (NULL dereference)"
  | [x], w => if x = w then .ok [x] else .ub "_do_hierarchy_raise: window not in parent's list (NULL dereference)"
  | x :: y :: rest, w =>
    if x = w then .ok (x :: y :: rest)        -- already first
    else if y = w then .ok (y :: x :: rest)
    else do
      let r ← listRaise (y :: rest) w
      pure (x :: r)

/-- `_do_hierarchy_lower`: swap with the next sibling.  A window that is not in the list has
    `next == NULL` (REMOVE clears it), which the C code takes for "already last": no effect. -/
def listLower : List Id → Id → List Id
  | [], _ => []
  | [x], _ => [x]
  | x :: y :: rest, w =>
    if x = w then y :: x :: rest
    else x :: listLower (y :: rest) w

/-- `_do_hierarchy_change`, including the REMOVE side effects and the trailing expose. -/
def doHierarchyChange (t : Tree) (fuel : Nat) (change : Change) (parent win : Id) : Res Tree := do
  let p ← get t parent
  let w ← get t win
  let t ← match change with
    | .insertFirst => pure (set t parent { p with children := win :: p.children })
    | .insertLast => pure (set t parent { p with children := p.children ++ [win] })
    | .remove => do
      let cs ← listRemove p.children win
      let fc := if p.focusedChild = some win then none else p.focusedChild
      let t := set t parent { p with children := cs, focusedChild := fc }
      let w ← get t win
      pure (set t win { w with parent := none })
    | .raise => do
      let cs ← listRaise p.children win
      pure (set t parent { p with children := cs })
    | .raiseFront => do
      let cs ← listRemove p.children win
      pure (set t parent { p with children := win :: cs })
    | .lower => pure (set t parent { p with children := listLower p.children win })
    | .lowerBack => do
      let cs ← listRemove p.children win
      pure (set t parent { p with children := cs ++ [win] })
  if w.isVisible then expose t fuel parent (some w.rect) else pure t

/-- `_request_hierarchy_change`. -/
def requestHierarchyChange (t : Tree) (fuel : Nat) (change : Change) (win : Id) : Res Tree := do
  let w ← get t win
  match w.parent with
  | none => pure t
  | some p =>
    let _ ← getRoot t fuel win
    let first := t.root.changes.isEmpty
    let later := t.root.needsLater || first
    pure { t with root := { t.root with changes := t.root.changes ++ [⟨change, p, win⟩], needsLater := later } }

/-- Is `w` the window `anc` or a window below it (walking `parent`)? -/
def isWithin (t : Tree) : Nat → Id → Id → Bool
  | 0, _, _ => false
  | fuel + 1, anc, w =>
    if w = anc then true
    else match t.wins[w]? with
      | some ww => match ww.parent with
        | some p => isWithin t fuel anc p
        | none => false
      | none => false

/-- The top of the parent chain of a window. -/
def topOf (t : Tree) : Nat → Id → Res Id
  | 0, _ => .ub "parent chain too long"
  | fuel + 1, id => do
    let w ← get t id
    match w.parent with
    | none => pure id
    | some p => topOf t fuel p

/-- `_purge_hierarchy_changes` (after the `fix:` commit): drops every queued request naming `win` or a
    window below it; does nothing when the parent chain does not end in a root window. -/
def purgeHierarchyChanges (t : Tree) (fuel : Nat) (win : Id) : Res Tree := do
  let top ← topOf t fuel win
  let tw ← get t top
  if !tw.isRoot then pure t
  else
    -- the walk `for(w = req->win; w; w = w->parent)` dereferences the queued window
    let rec chk : List Req → Res Unit
      | [] => pure ()
      | r :: rs => do
        let _ ← get t r.win
        chk rs
    chk t.root.changes
    pure { t with root := { t.root with changes := t.root.changes.filter (fun r => !isWithin t fuel win r.win) } }

/-- `tickit_window_new` (flags decoded by the caller): returns the new id. -/
def newWindow (t : Tree) (fuel : Nat) (parent : Id) (rect : Rect)
    (rootParent hidden lowest steal : Bool) : Res (Tree × Id) := do
  -- TICKIT_WINDOW_ROOT_PARENT: re-express the rectangle relative to the root
  let rec climb : Nat → Id → Rect → Res (Id × Rect)
    | 0, _, _ => .ub "parent chain too long"
    | f + 1, p, r => do
      let pw ← get t p
      match pw.parent with
      | none => pure (p, r)
      | some pp => climb f pp { r with top := r.top + pw.rect.top, left := r.left + pw.rect.left }
  let (parent, rect) ← if rootParent then climb fuel parent rect else pure (parent, rect)
  let _ ← get t parent
  let id := t.wins.size
  let w : Win := { parent := some parent, rect := rect, isVisible := !hidden, stealInput := steal }
  let t := { t with wins := t.wins.push w }
  let t ← doHierarchyChange t fuel (if lowest then .insertLast else .insertFirst) parent id
  pure (t, id)

/-- `tickit_window_close`. -/
def close (t : Tree) (fuel : Nat) (win : Id) : Res Tree := do
  let w ← get t win
  let t ← match w.parent with
    | some p => do
      let t ← purgeHierarchyChanges t fuel win
      doHierarchyChange t fuel .remove p win
    | none => pure t
  modify t win (fun w => { w with isClosed := true })

/-- `tickit_window_show`. -/
def «show» (t : Tree) (fuel : Nat) (win : Id) : Res Tree := do
  let t ← modify t win (fun w => { w with isVisible := true })
  let w ← get t win
  let t ← match w.parent with
    | some p => do
      let pw ← get t p
      if pw.focusedChild.isNone && (w.focusedChild.isSome || w.isFocused) then
        pure (set t p { pw with focusedChild := some win })
      else pure t
    | none => pure t
  expose t fuel win none

/-- `tickit_window_hide`. -/
def hide (t : Tree) (fuel : Nat) (win : Id) : Res Tree := do
  let t ← modify t win (fun w => { w with isVisible := false })
  let w ← get t win
  match w.parent with
  | some p => do
    let pw ← get t p
    let t := if pw.focusedChild = some win then set t p { pw with focusedChild := none } else t
    expose t fuel p (some w.rect)
  | none => pure t

/-- `tickit_window_set_geometry` without the event: returns whether a GEOMCHANGE event is due. -/
def setGeometry (t : Tree) (win : Id) (geom : Rect) : Res (Tree × Bool) := do
  let w ← get t win
  if w.rect ≠ geom then pure (set t win { w with rect := geom }, true) else pure (t, false)

/-! ### reference counting and destruction -/

mutual
/-- `tickit_window_unref`. `onDestroy` stands for `tickit_bindings_unbind_and_destroy` (the engine decides
    what DESTROY handlers do). -/
def unref (onDestroy : Tree → Id → Res Tree) : Nat → Tree → Id → Res Tree
  | 0, _, _ => .ub "destroy recursion too deep"
  | fuel + 1, t, win => do
    let w ← get t win
    if w.refcount < 1 then .ub s!"tickit_window_unref: invalid refcount on window {win} (abort)"
    else
      let t := set t win { w with refcount := w.refcount - 1 }
      if w.refcount - 1 = 0 then destroy onDestroy fuel t win else pure t

/-- `tickit_window_destroy`. -/
def destroy (onDestroy : Tree → Id → Res Tree) : Nat → Tree → Id → Res Tree
  | 0, _, _ => .ub "destroy recursion too deep"
  | fuel + 1, t, win => do
    let t ← onDestroy t win
    let w ← get t win
    -- for(child = first_child; child; ) { next = child->next; unref(child); child->parent = NULL; child = next; }
    let t ← destroyChildren onDestroy fuel t w.children
    let w ← get t win
    let t ← if w.parent.isSome then purgeHierarchyChanges t (fuel + 1) win else pure t
    let w ← get t win
    let t ← if !w.isClosed then close t (fuel + 1) win else pure t
    let w ← get t win
    -- root cleanup frees the requests still queued
    let t := if w.isRoot then { t with root := { t.root with changes := [] } } else t
    pure (set t win { w with freed := true })

/-- The children loop of `tickit_window_destroy` (after the `fix:` commit):
    `next = child->next; tickit_window_close(child); tickit_window_unref(child);`. -/
def destroyChildren (onDestroy : Tree → Id → Res Tree) : Nat → Tree → List Id → Res Tree
  | _, t, [] => pure t
  | 0, _, _ :: _ => .ub "destroy recursion too deep"
  | fuel + 1, t, c :: cs => do
    let t ← close t (fuel + 1) c
    let t ← unref onDestroy fuel t c
    destroyChildren onDestroy fuel t cs
end

/-- `tickit_window_ref`. -/
def ref (t : Tree) (win : Id) : Res Tree :=
  modify t win (fun w => { w with refcount := w.refcount + 1 })

/-! ### specification vocabulary: the painter's model -/

/-- The chain of ancestors of a window, nearest first (fuel-bounded). -/
def ancestors (t : Tree) : Nat → Id → List Id
  | 0, _ => []
  | fuel + 1, id =>
    match t.wins[id]? with
    | some w => match w.parent with
      | some p => p :: ancestors t fuel p
      | none => []
    | none => []

/-- The front-most visible window covering the cell `(l, c)` given in the coordinates of window `id`'s
    *parent* (for the root: terminal coordinates), searching `id`'s subtree: children over their parent,
    earlier siblings over later ones, hidden subtrees ignored, everything clipped to the window. -/
def ownerIn (t : Tree) : Nat → Id → Int → Int → Option Id
  | 0, _, _, _ => none
  | fuel + 1, id, l, c =>
    match t.wins[id]? with
    | none => none
    | some w =>
      if !w.isVisible || w.freed then none
      else if !(w.rect.memb l c) then none
      else
        let l' := l - w.rect.top
        let c' := c - w.rect.left
        match w.children.findSome? (fun ch => ownerIn t fuel ch l' c') with
        | some o => some o
        | none => some id

/-- The window owning terminal cell `(l, c)` in the composition (root = window 0). -/
def owner (t : Tree) (l c : Int) : Option Id := ownerIn t (t.wins.size + 1) 0 l c

end WinTree
end Tickit
