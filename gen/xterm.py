#!/usr/bin/env python3
"""Operation generator for engine `xterm` (C09).  All randomness from --seed.

Histories of drawing requests against an xterm-driver terminal.  The generator tracks the logical cursor so that
most requests are inside the in-range contract (DESIGN.md Appendix C) and concentrates on the boundaries: last
row / last column, text and erasures ending exactly at the right edge, rectangles touching the screen edges,
one-line and one-column rectangles, offsets 0, +-1, +-(n-1), counts around the 64-byte chunk of the reverse-video
erase.  A few percent of the requests are deliberately out of range (compared byte for byte, not judged).
Histories also resize the terminal (`resize L C` = tickit_term_set_size after the emulator's window changed):
mostly the width, often right after a scroll and followed by a scroll whose right edge is the OLD width or the new
one, so that a scroll decision made with a stale size is exposed.  The start-up probes are answered with every
DECRPM value 0..4 for each of the modes 69 / 25 / 12 (`new L C slrm colon rgb vis blink`); reply 2 for mode 69 (known
finding slrm_probe_reset while the tree accepts it) only in its dedicated history.
Formatted output (`printf <hex> [d]` = tickit_term_printf "%s" / "%s%d"): every formatted length 0..200 bytes is
produced in every run (sweep histories on a 3 x 210 screen: goto, printf, then a cursor-relative erasech that shows
where the cursor ended), besides printf requests mixed into the random histories.
Output buffers (`outbuf N` = tickit_term_set_output_buffer, N in 1..300 around the usual sizes and the lengths of the
strings written): a third of the random histories run buffered, with `flush` every few requests and at the end, texts
shorter and longer than the buffer, a goto / erasech / pen change pending in the buffer when a long text follows; the
buffer size changes only right after a flush (a few percent deliberately not: outside the contract, not judged).
`pause` + `resume` (tickit_term_pause / _resume), typically followed by a partial-width scroll (which needs DECLRMM
to be what the driver thinks it is) and by erasures under the re-sent pen; `stop` + `start` (tickit_term_teardown,
then tickit_term_set_output_func again) only while the cached pen is the default one (a stale pen cache after a
restart is C12's business).
The known findings of C09 are triggered only in dedicated histories (at most two per file) so that they cannot
crowd out other disagreements; tier `exhaustive` enumerates every rectangle and offset on 4x5 and 3x3 screens for
every capability combination, every erase on a 2x5 screen and every goto/move on a 3x3 screen.
"""
import argparse, random, json, itertools, collections

ap = argparse.ArgumentParser()
ap.add_argument("--seed", type=int, default=1); ap.add_argument("--tier", default="quick")
ap.add_argument("--out", required=True); ap.add_argument("--prop", default="C09")
a = ap.parse_args()
rng = random.Random(a.seed * 7919 + 13)
lines = []
dist = collections.Counter()

W1 = ["c3a9", "c489", "e282ac", "f0908d88", "ce a9".replace(" ", "")]     # é ĉ € 𐍈 Ω  (width 1)
W2 = ["e4b880", "efbca1", "ea b080".replace(" ", "")]                    # 一 Ａ 가   (width 2)
COMB = ["cc81", "cc88"]                                                   # U+0301 U+0308 (width 0)


def hexs(s):
    return "".join("%02x" % ord(ch) for ch in s)


class Hist:
    def __init__(self, L, C, slrm, colon, rgb, trigger=None, vis=None, blink=None):
        # slrm / vis / blink: DECRPM reply values for modes 69 / 25 / 12; self.slrm: is DECSLRM expected to be used
        self.L, self.C, self.slrm = L, C, 1 if slrm in (1, 2) else 0
        self.row, self.col, self.pw, self.known = 0, 0, False, True
        self.rv = False
        self.trigger = trigger      # None | "onecol" | "rvlast" | "probe2"
        self.n = 0
        self.prevC = None           # width before the last resize that changed it
        self.just_resized = False
        self.scrolled = False       # has a scrollrect been sent (a driver might cache something on the first one)
        self.buf = 0                # size of the output buffer (0 = none)
        self.dirty = False          # requests issued since the last flush point (with a buffer)
        self.pen_default = True     # the cached pen is empty or all-default
        self.last_bg = None         # background index of the cached pen
        self.cache_rgb = None       # ... and its RGB8 secondary value
        self.last_rgb = None        # the RGB8 value used last
        self.oor = True             # may requests be out of range (not in buffered histories: they suspend judging)
        if vis is None:
            lines.append(f"new {L} {C} {slrm} {colon} {rgb}")
        else:
            lines.append(f"new {L} {C} {slrm} {colon} {rgb} {vis} {blink}")
            dist[f"reply25:{vis}"] += 1; dist[f"reply12:{blink}"] += 1
        dist["hist"] += 1
        dist[f"size:{'1xN' if L == 1 else 'Nx1' if C == 1 else 'small' if L * C <= 48 else 'medium' if L * C <= 2400 else 'large'}"] += 1
        dist[f"caps:{self.slrm}{colon}{rgb}"] += 1
        dist[f"reply69:{slrm}"] += 1

    def emit(self, s, kind):
        lines.append(s); dist["op:" + kind] += 1; self.n += 1
        if self.buf and kind not in ("flush", "pause", "stop", "outbuf"):
            self.dirty = True

    # ---- output layer
    def flush(self):
        self.emit("flush", "flush"); self.dirty = False

    def outbuf(self, n=None):
        if n is None:
            n = rng.choice([1, 2, 3, 4, 5, 7, 8, 15, 16, 17, 31, 32, 33, 63, 64, 65, 80, 100, 127, 128, 129, 200, 255, 256, 257, 300,
                            rng.randrange(1, 301), rng.randrange(1, 301), rng.randrange(1, 40), 0])
        if self.dirty:
            if rng.random() < 0.9:
                self.flush()
            else:
                dist["outbuf:while-pending"] += 1       # outside the contract: pending bytes are dropped
                self.known = False
        self.emit(f"outbuf {n}", "outbuf")
        dist["outbuf:" + ("0" if n == 0 else "1-8" if n <= 8 else "9-63" if n < 64 else "64-128" if n <= 128 else "129-300")] += 1
        self.buf = n
        if n == 0:
            self.dirty = False

    def suspend(self):
        self.emit("pause", "pause"); self.dirty = False
        if rng.random() < 0.1:
            self.emit("flush", "flush")
        self.emit("resume", "resume")
        dist["suspend:slrm=%d" % self.slrm] += 1
        x = rng.random()
        if x < 0.6:
            self.scroll(partial=True)
        elif x < 0.8:
            self.erasech()

    def restart(self):
        if not self.pen_default:
            self.emit("setpen", "setpen"); self.rv = False; self.pen_default = True
            self.last_bg, self.cache_rgb = -1, None
        self.emit("stop", "stop"); self.dirty = False
        self.emit("start", "start")
        dist["restart"] += 1
        self.known = False
        if rng.random() < 0.6:
            self.scroll(partial=True)

    # ---- cursor
    def goto(self, force_abs=False):
        L, C = self.L, self.C
        r = rng.choice([0, L - 1, rng.randrange(L), rng.randrange(L)])
        c = rng.choice([0, C - 1, rng.randrange(C), rng.randrange(C), max(0, C - 2)])
        x = rng.random()
        if not force_abs and self.known and x < 0.10:
            self.emit(f"goto -1 {c}", "goto"); dist["goto:col-only"] += 1
            self.col, self.pw = c, False
        elif not force_abs and self.known and not self.pw and x < 0.18:
            self.emit(f"goto {r} -1", "goto"); dist["goto:line-only"] += 1
            self.row = r
        elif not force_abs and x < 0.20:
            self.emit("goto -1 -1", "goto"); dist["goto:none"] += 1
        elif not force_abs and x < 0.23 and self.oor:
            rr, cc = rng.choice([(L, c), (r, C), (-2, c), (r, -3), (L + 5, C + 7)])
            self.emit(f"goto {rr} {cc}", "goto"); dist["out-of-range"] += 1
            self.known = False
        else:
            self.emit(f"goto {r} {c}", "goto")
            self.row, self.col, self.pw, self.known = r, c, False, True

    def ensure_pos(self):
        if not self.known or self.pw:
            self.goto(force_abs=True)

    def move(self):
        self.ensure_pos()
        L, C = self.L, self.C
        tr = rng.choice([self.row, self.row, 0, L - 1, min(L - 1, self.row + 1), max(0, self.row - 1), rng.randrange(L)])
        tc = rng.choice([self.col, self.col, 0, C - 1, min(C - 1, self.col + 1), max(0, self.col - 1), rng.randrange(C)])
        if rng.random() < 0.03 and self.oor:
            d, r = rng.choice([(L, 0), (0, C), (-L, -C), (-self.row - 1, 0), (0, C - self.col)])
            self.emit(f"move {d} {r}", "move"); dist["out-of-range"] += 1
            self.known = False
            return
        d, r = tr - self.row, tc - self.col
        self.emit(f"move {d} {r}", "move")
        dist["move:" + ("0" if d == 0 else "1" if abs(d) == 1 else "n") + ("0" if r == 0 else "1" if abs(r) == 1 else "n")] += 1
        self.row, self.col = tr, tc

    def text(self, width):
        """hex of a text of exactly `width` columns"""
        out, w = [], 0
        while w < width:
            x = rng.random()
            if x < 0.08 and width - w >= 2:
                out.append(rng.choice(W2)); w += 2; dist["print:wide"] += 1
            elif x < 0.20:
                out.append(rng.choice(W1)); w += 1; dist["print:multibyte"] += 1
            else:
                out.append("%02x" % rng.randrange(0x20, 0x7f)); w += 1
            if rng.random() < 0.03:
                out.append(rng.choice(COMB)); dist["print:combining"] += 1
        return "".join(out)

    def print_(self):
        self.ensure_pos()
        avail = self.C - self.col
        x = rng.random()
        if x < 0.03 and self.oor:
            self.emit(f"print {self.text(avail + rng.randrange(1, 4))}", "print"); dist["out-of-range"] += 1
            self.known = False
            return
        if x < 0.05:
            self.emit(rng.choice(["print -", "printf -"]), "print"); dist["print:empty"] += 1
            return
        w = avail if x < 0.30 else rng.choice([1, 1, 2, rng.randrange(1, avail + 1)])
        w = min(w, avail)
        y = rng.random()
        if y < 0.30:
            # formatted output: "%s" or "%s%d"
            if y < 0.08 and w >= 2:
                d = rng.choice([0, 7, -3, 42, 12345, -99999, 2147483647])
                if len(str(d)) >= w: d = 7
                t = self.text(w - len(str(d)))
                self.emit(f"printf {t or '-'} {d}", "printf"); dist["printf:%s%d"] += 1
                nb = len(t) // 2 + len(str(d))
            else:
                t = self.text(w)
                self.emit(f"printf {t}", "printf"); dist["printf:%s"] += 1
                nb = len(t) // 2
            dist["printf:len" + ("<63" if nb < 63 else "=%d" % nb if nb <= 65 else "66-126" if nb < 127 else "=%d" % nb if nb <= 129 else ">129")] += 1
        elif y < 0.40:
            # printn with a length shorter than the string (the known finding printn_zero_len, length 0 of a
            # non-empty string, is probed from the corpus only)
            t = self.text(w)
            self.emit(f"printn {t}{rng.choice(['58', '5859', 'c3a9'])} {len(t) // 2}", "print"); dist["print:printn-prefix"] += 1
        else:
            self.emit(f"print {self.text(w)}", "print")
        if self.col + w == self.C:
            self.col, self.pw = self.C - 1, True; dist["print:to-last-col"] += 1
        else:
            self.col += w

    def erasech(self):
        self.ensure_pos()
        avail = self.C - self.col
        x = rng.random()
        me = rng.choice([0, 1, -1])
        if x < 0.03:
            n = rng.choice([0, -1, -5])
            self.emit(f"erasech {n} {me}", "erasech"); dist["erasech:n<1"] += 1
            return
        if x < 0.06 and self.oor:
            self.emit(f"erasech {avail + rng.randrange(1, 70)} {me}", "erasech"); dist["out-of-range"] += 1
            self.known = False
            return
        cands = [avail, avail, 1, 2, rng.randrange(1, avail + 1)] + [k for k in (63, 64, 65, 127, 128, 129, 200) if k <= avail]
        n = min(rng.choice(cands), avail)
        at_end = self.col + n == self.C
        if self.rv and me == 0 and ((at_end and self.col >= 1) or n > 64):
            # known findings rv_erase_last_col / rv_erase_over_64: only in their dedicated history
            if self.trigger != "rvlast":
                me = rng.choice([1, -1])
            else:
                dist["trigger:rv_erase_last_col" if n <= 64 else "trigger:rv_erase_over_64"] += 1
        self.emit(f"erasech {n} {me}", "erasech")
        dist[f"erasech:{'rv' if self.rv else 'ech'}:me={me}:{'end' if at_end else 'mid'}"] += 1
        if n > 64: dist["erasech:n>64"] += 1
        if me == 0:
            if self.rv and (at_end or n > 64): self.known = False
        elif me == 1 and not at_end:
            self.col += n
        else:
            self.known = False

    def clear(self):
        self.emit("clear", "clear")

    RGBS = ["0a141e", "0a141f", "000000", "ffffff", "800000", "123456"]

    def pen(self, op=None, bg="any", rgb="any", rvv="any"):
        """bg: "any" | None | index; rgb: "any" | None | "RRGGBB" (the RGB8 secondary value of the background)."""
        if op is None:
            op = rng.choice(["setpen", "setpen", "chpen"])
        toks = []
        if bg == "any":
            bg = None
            if rng.random() < 0.75:
                bg = rng.choice([-1, rng.randrange(0, 8), rng.randrange(8, 16), rng.randrange(16, 256), 255, 16, 15, 8, 7, 0])
                # near misses: the index the cache already holds, with another / the same / no RGB8 value
                if self.last_bg is not None and rng.random() < 0.4:
                    bg = self.last_bg
        if rgb == "any":
            rgb = None
            x = rng.random()
            if self.last_rgb is not None and x < 0.25:
                rgb = self.last_rgb
            elif x < (0.45 if bg is not None else 0.05):      # without an index the setter must ignore it
                rgb = rng.choice(self.RGBS)
        if bg is not None:
            toks.append(f"bg={bg}")
        if rgb is not None:
            toks.append(f"bgrgb={rgb}")
            dist["pen:rgb8" + ("" if bg is not None else "-without-index")] += 1
        if rvv == "any":
            rvv = rng.choice([0, 1, 1]) if rng.random() < 0.7 else None
        if rvv is not None:
            toks.append(f"rv={rvv}")
        if bg is not None and bg == self.last_bg:
            dist["pen:same-index:%s->%s" % ("rgb" if self.cache_rgb else "plain", "rgb" if rgb is not None else "plain")] += 1
        self.emit(" ".join([op] + toks), op)
        if op == "setpen":
            self.pen_default = bg in (None, -1) and not rvv
            self.last_bg, self.cache_rgb = (bg if bg is not None else -1), (rgb if bg is not None else None)
        else:
            if bg not in (None, -1) or rvv:
                self.pen_default = False
            if bg is not None:
                self.last_bg, self.cache_rgb = bg, rgb
        if rgb is not None and bg is not None:
            self.last_rgb = rgb
        if op == "setpen":
            self.rv = bool(rvv) if rvv is not None else False
        elif rvv is not None:
            self.rv = bool(rvv)
        dist["pen:rv=" + str(int(self.rv))] += 1

    def rect(self, partial=False):
        L, C = self.L, self.C
        kind = rng.choice(["full", "band", "band", "right", "left", "inner", "inner", "oneline", "onecol", "any", "any"])
        if partial and C >= 2:
            kind = rng.choice(["left", "inner", "oneline", "any"])
        if self.prevC is not None and self.prevC < C and rng.random() < (0.6 if self.just_resized else 0.3):
            kind = rng.choice(["oldright", "oldright", "oldfull"])
        if kind == "oldright":        # right edge where the right edge of the screen used to be
            t = rng.randrange(L); n = rng.randrange(1, L - t + 1); l = rng.randrange(self.prevC); c = self.prevC - l
        elif kind == "oldfull":
            t = rng.randrange(L); n = rng.randrange(1, L - t + 1); l, c = 0, self.prevC
        elif kind == "full":
            t, l, n, c = 0, 0, L, C
        elif kind == "band":
            t = rng.randrange(L); n = rng.randrange(1, L - t + 1); l, c = 0, C
        elif kind == "right":
            t = rng.randrange(L); n = rng.randrange(1, L - t + 1); l = rng.randrange(C); c = C - l
        elif kind == "left":
            t = rng.randrange(L); n = rng.randrange(1, L - t + 1); l = 0; c = rng.randrange(1, C + 1)
        elif kind == "oneline":
            t = rng.choice([0, L - 1, rng.randrange(L)]); n = 1; l = rng.randrange(C); c = rng.randrange(1, C - l + 1)
        elif kind == "onecol":
            t = rng.randrange(L); n = rng.randrange(1, L - t + 1); l = rng.choice([0, C - 1, rng.randrange(C)]); c = 1
        else:
            t = rng.randrange(L); n = rng.randrange(1, L - t + 1); l = rng.randrange(C); c = rng.randrange(1, C - l + 1)
        return kind, t, l, n, c

    def offs(self, n):
        # an offset as large as the rectangle (or larger) vacates all of it: a one-line rectangle scrolled vertically,
        # a one-column rectangle scrolled horizontally, a scroll by the whole height, ...
        if rng.random() < (0.25 if n <= 1 else 0.10):
            dist["scroll:offset>=size"] += 1
            return rng.choice([n, -n, n + 1, -(n + 2), 2 * n, -1 if n == 1 else -n])
        if n <= 1: return 0
        return rng.choice([0, 0, 1, -1, n - 1, -(n - 1), rng.randrange(-(n - 1), n)])

    def scroll(self, partial=False):
        for _ in range(20):
            kind, t, l, n, c = self.rect(partial)
            if partial and l + c == self.C and c > 1:
                c -= 1
            d, r = self.offs(n), self.offs(c)
            if d == 0 and r == 0 and rng.random() < 0.85:
                continue
            x = rng.random() if self.oor else 1.0
            if x < 0.03:
                t, l, n, c = rng.choice([(t, l, n, self.C - l + 2), (t, l, self.L - t + 1, c), (-1, l, n, c), (t, -2, n, c), (t, l, 0, c), (t, l, n, 0)]); oor = True
            else:
                oor = False
            onecol = self.slrm and c == 1 and d != 0 and (l > 0 or l + c < self.C)
            if onecol and not oor:
                if self.trigger != "onecol":
                    continue
                dist["trigger:scroll_one_column"] += 1
            # known finding scroll_one_cell: the single cell at column 0 of a wider terminal, DECSLRM available, scrolled
            # horizontally (CSI ;1 s is not a valid margin) - only in the dedicated history / probed from the corpus
            onecell = self.slrm and n == 1 and c == 1 and l == 0 and self.C > 1 and d == 0 and r != 0
            if onecell and not oor:
                if self.trigger != "onecol":
                    continue
                dist["trigger:scroll_one_cell"] += 1
            if oor:
                dist["out-of-range"] += 1
            else:
                if n == 1 and d != 0: dist["scroll:oneline-vertical:slrm=%d" % self.slrm] += 1
                dist["scroll:" + kind] += 1
                dist["scroll:" + ("both" if d and r else "vert" if d else "horiz" if r else "none")] += 1
                # which strategy the driver is expected to pick (measurement only)
                if d or r:
                    if ((self.slrm and n == 1) or l + c == self.C) and d == 0:
                        dist["strategy:ich/dch" + ("+decslrm" if l + c < self.C else "")] += 1
                    elif self.slrm or (l == 0 and c == self.C and r == 0):
                        dist["strategy:margins" + ("+decslrm" if l > 0 or l + c < self.C else "")] += 1
                    else:
                        dist["strategy:refused"] += 1
            self.emit(f"scroll {t} {l} {n} {c} {d} {r}", "scroll")
            self.known = False
            self.scrolled = True
            return

    def resize(self):
        L, C = self.L, self.C
        if not self.scrolled and rng.random() < 0.7:
            self.scroll()
        if self.dirty:
            self.flush()
        nL = L if rng.random() < 0.6 else rng.choice([max(1, L - 1), L + 1, rng.randrange(1, L + 4)])
        nC = rng.choice([C + 1, max(1, C - 1), C + rng.randrange(1, 8), max(1, C - rng.randrange(1, 8)), 2 * C, max(1, C // 2), C])
        nL, nC = min(nL, 60), min(nC, 300)
        self.emit(f"resize {nL} {nC}", "resize")
        dist["resize:" + ("same" if (nL, nC) == (L, C) else ("wider" if nC > C else "narrower" if nC < C else "same-width") + ("+lines" if nL != L else ""))] += 1
        if nC != C:
            self.prevC = C
        self.L, self.C = nL, nC
        self.known = False
        if rng.random() < 0.7:
            self.just_resized = True
            self.scroll()
            self.just_resized = False

    def fill(self):
        """paint the whole screen with text so that scrolls move recognisable content"""
        for r in range(self.L):
            self.emit(f"goto {r} 0", "goto")
            self.emit("print " + "".join("%02x" % (0x21 + (r * 7 + c * 3 + self.n) % 94) for c in range(self.C)), "print")
        self.known = False


def size():
    x = rng.random()
    if x < 0.08: return 1, rng.choice([1, 2, 5, 80])
    if x < 0.14: return rng.choice([2, 5, 24]), 1
    if x < 0.55: return rng.randrange(2, 7), rng.randrange(2, 9)
    if x < 0.85: return rng.randrange(5, 30), rng.randrange(10, 100)
    if x < 0.93: return 24, 80
    return rng.randrange(30, 60), rng.randrange(130, 300)


def random_history(trigger=None):
    L, C = size()
    if trigger == "onecol":
        L, C = max(L, 3), max(C, 3)
    if trigger == "rvlast":
        C = max(C, rng.choice([2, 70, 140]))
    # DECRPM reply for mode 69: 2 ("reset") makes the unchanged tree claim DECSLRM on a terminal whose DECLRMM is
    # reset (known finding slrm_probe_reset): only in its dedicated history
    slrm = 1 if trigger == "onecol" else 2 if trigger == "probe2" else rng.choice([0, 0, 1, 1, 1, 1, 3, 4, 4])
    if rng.random() < 0.5:
        h = Hist(L, C, slrm, rng.randrange(2), rng.randrange(2), trigger)
    else:
        h = Hist(L, C, slrm, rng.randrange(2), rng.randrange(2), trigger, rng.randrange(5), rng.randrange(5))
    if trigger == "probe2":
        h.scroll(); h.scroll()
        return
    if trigger == "rvlast":
        h.emit("setpen rv=1", "setpen"); h.rv = True; h.pen_default = False
    buffered = trigger is None and rng.random() < 0.34
    if buffered:
        h.oor = False
        if rng.random() < 0.3:
            h.goto(); h.print_()        # something unbuffered first
        h.outbuf(rng.choice([None, None, None, max(1, C - rng.randrange(0, 3)), max(1, C // 2), C + rng.randrange(1, 12)]) or None)
        dist["hist:buffered"] += 1
    if rng.random() < 0.3 and L * C <= 2400:
        h.fill()
    nops = rng.randrange(8, 36)
    weights = [("goto", 16), ("move", 12), ("print", 16), ("erasech", 20), ("clear", 3), ("scroll", 23), ("pen", 10), ("resize", 5),
               ("suspend", 4), ("restart", 1)]
    if buffered:
        weights = [("goto", 16), ("move", 10), ("print", 22), ("erasech", 18), ("clear", 3), ("scroll", 16), ("pen", 10), ("resize", 3),
                   ("suspend", 4), ("restart", 1), ("flush", 9), ("outbuf", 2)]
    if trigger == "onecol": weights = [("goto", 5), ("print", 10), ("scroll", 60), ("pen", 5)]
    if trigger == "rvlast": weights = [("goto", 20), ("print", 10), ("erasech", 60)]
    names = [w[0] for w in weights]; ws = [w[1] for w in weights]
    while h.n < nops:
        k = rng.choices(names, ws)[0]
        {"goto": h.goto, "move": h.move, "print": h.print_, "erasech": h.erasech, "clear": h.clear, "scroll": h.scroll, "pen": h.pen, "resize": h.resize,
         "suspend": h.suspend, "restart": h.restart, "flush": h.flush, "outbuf": h.outbuf}[k]()
    if h.buf:
        h.flush()


def pen_rgb_history():
    """Colour steps on ONE palette index: index+RGB8, plain index, index+RGB8 again (same or another value), in every
    mix of setpen / chpen, each followed by an erase / clear / print whose blanks must have the background asked for."""
    L, C = rng.choice([(3, 12), (5, 20), (10, 40), size()])
    L, C = max(L, 2), max(C, 6)
    h = Hist(L, C, rng.choice([0, 1]), rng.randrange(2), rng.choice([1, 1, 1, 0]))
    h.oor = False
    if rng.random() < 0.3:
        h.outbuf(rng.choice([8, 16, 64, 100]))
    idx = rng.choice([3, 0, 7, 8, 15, 16, 200, 255, rng.randrange(256)])
    a = rng.choice(Hist.RGBS); b = rng.choice(Hist.RGBS)
    steps = rng.choice([[a, None, a], [a, None, a], [a, None, b], [None, a, None, a], [a, a, None, a], [a, b, a], [a, None, None, a]])
    for k, c in enumerate(steps):
        i = idx
        if rng.random() < 0.08: i = rng.choice([-1, (idx + 1) % 256])     # an index change in between
        h.pen(op=rng.choice(["setpen", "chpen"]), bg=i, rgb=c, rvv=rng.choice([None, None, None, 0]))
        h.goto(force_abs=True)
        x = rng.random()
        if x < 0.6: h.erasech()
        elif x < 0.75: h.clear()
        else: h.print_()
        if h.buf and rng.random() < 0.5: h.flush()
        if rng.random() < 0.1: h.suspend()
    if h.buf:
        h.flush()
    dist["hist:pen-rgb"] += 1


def printf_sweep(lengths, slrm, bufsize=0):
    """goto; printf of exactly `n` formatted bytes; cursor-relative erasech (shows where the cursor ended)"""
    C = 210
    h = Hist(3, C, slrm, rng.randrange(2), rng.randrange(2))
    if bufsize:
        h.outbuf(bufsize)
    for i, n in enumerate(lengths):
        row, col = i % 3, rng.choice([0, 0, 1, C - n - 1 if n < C - 1 else 0, rng.randrange(0, C - n)])
        h.emit(f"goto {row} {col}", "goto")
        x = rng.random()
        if x < 0.25 and n >= 2:
            d = rng.choice([5, -7, 12, 123456])
            if len(str(d)) > n: d = 5
            k = n - len(str(d))
            t = "".join("%02x" % (0x21 + (i * 5 + j) % 94) for j in range(k))
            h.emit(f"printf {t or '-'} {d}", "printf")
        elif x < 0.45 and n >= 3:
            # multi-byte characters: n bytes, fewer columns
            out, nb = [], 0
            while nb < n:
                ch = rng.choice(W1 + W2) if n - nb >= 4 else None
                if ch and nb + len(ch) // 2 <= n: out.append(ch); nb += len(ch) // 2
                else: out.append("%02x" % rng.randrange(0x21, 0x7f)); nb += 1
            h.emit("printf " + "".join(out), "printf")
        else:
            h.emit("printf " + ("".join("%02x" % (0x21 + (i * 3 + j) % 94) for j in range(n)) or "-"), "printf")
        dist["printf-sweep"] += 1
        h.emit(f"erasech 1 {rng.choice([0, 1])}", "erasech")
        if bufsize and rng.random() < 0.5:
            h.flush()
    if bufsize:
        h.flush()


def rv_erase_sweep(slrm):
    """erasech under reverse video (the print-spaces strategy) of counts around the multiples of the chunk size, on a
    wide terminal, each after a formatted text longer than a chunk (the driver's scratch buffer is shared with the
    formatted-output path: what an erase sends must not depend on what is left in it)"""
    C = rng.choice([200, 210, 256, 300])
    h = Hist(4, C, slrm, rng.randrange(2), rng.randrange(2))
    h.fill()
    for i in range(rng.randrange(4, 8)):
        n = rng.choice([64, 64, 128, 192, 63, 65, 127, 129, 1, 2, rng.randrange(1, 200)])
        n = min(n, C - 1)
        tl = rng.choice([65, 70, 100, 129, 150, 200, rng.randrange(65, 201)])
        tl = min(tl, C - 1)
        h.emit(f"goto {i % 4} {rng.randrange(0, C - tl)}", "goto")
        h.emit("printf " + "".join("%02x" % (0x21 + (i * 11 + j) % 94) for j in range(tl)), "printf")
        if i == 0 or rng.random() < 0.4:
            bg = rng.choice([None, 1, 4, 12, 200])
            h.emit(rng.choice(["setpen", "chpen"]) + " rv=1" + (f" bg={bg}" if bg is not None else ""), "setpen")
            h.rv = True; h.pen_default = False
        col = rng.choice([0, 0, 1, rng.randrange(0, C - n)])
        if col + n >= C: col = 0
        me = rng.choice([1, -1, 1, -1, 0]) if n <= 64 else rng.choice([1, -1])
        h.emit(f"goto {(i + 1) % 4} {col}", "goto")
        h.emit(f"erasech {n} {me}", "erasech")
        dist["rv-erase-sweep:" + ("64k" if n % 64 == 0 else "other")] += 1
        if me == 1:
            h.emit("erasech 1 0", "erasech")       # cursor-relative: shows where the cursor ended


def order_history():
    """an output buffer smaller than a text, with a positioning / erase / pen change still pending in it"""
    L, C = rng.randrange(2, 6), rng.randrange(8, 90)
    slrm = rng.choice([0, 1])
    h = Hist(L, C, slrm, rng.randrange(2), rng.randrange(2))
    h.oor = False
    h.fill()
    n = rng.choice([C - 1, C, C + 1, C // 2, 3, 5, 8, rng.randrange(1, C + 8)])
    h.outbuf(max(1, n))
    for _ in range(rng.randrange(3, 9)):
        h.goto(force_abs=True)
        x = rng.random()
        if x < 0.3: h.erasech()
        elif x < 0.45: h.pen()
        elif x < 0.55: h.move()
        h.ensure_pos()
        avail = h.C - h.col
        w = rng.choice([avail, avail, max(1, avail - 1), rng.randrange(1, avail + 1)])
        h.emit(("printf " if rng.random() < 0.4 else "print ") + h.text(w), "print")
        dist["order:text" + (">buf" if w > h.buf else "<=buf")] += 1
        if h.col + w == h.C: h.col, h.pw = h.C - 1, True
        else: h.col += w
        if rng.random() < 0.35:
            h.flush()
    h.flush()


def exhaustive():
    n = 0
    # every rectangle and offset on 4x5 and 3x3 screens, every capability combination
    for (L, C) in [(4, 5), (3, 3)]:
        for slrm, colon, rgb in itertools.product([0, 1], [0, 1], [0, 1]):
            cases = []
            for t in range(L):
                for b in range(t + 1, L + 1):
                    for l in range(C):
                        for r in range(l + 1, C + 1):
                            nl, nc = b - t, r - l
                            for d in range(-(nl - 1), nl):
                                for rt in range(-(nc - 1), nc):
                                    if slrm and nc == 1 and d != 0 and (l > 0 or r < C):
                                        continue       # known finding scroll_one_column (probed from the corpus)
                                    cases.append((t, l, nl, nc, d, rt))
            for i in range(0, len(cases), 6):
                h = Hist(L, C, slrm, colon, rgb)
                for cs in cases[i:i + 6]:
                    h.fill()
                    if (n % 3) == 0: h.emit("setpen bg=%d" % (n % 16), "setpen")
                    h.emit("scroll %d %d %d %d %d %d" % cs, "scroll"); n += 1
    dist["exhaustive:scroll"] = n
    # offsets as large as the rectangle or one larger, in either or both directions (everything is vacated, or the
    # scroll is refused), every rectangle of a 3x3 screen, with and without DECSLRM
    v = 0
    for slrm in (0, 1):
        L, C = 3, 3
        cases = []
        for t in range(L):
            for b in range(t + 1, L + 1):
                for l in range(C):
                    for r in range(l + 1, C + 1):
                        nl, nc = b - t, r - l
                        for d in range(-(nl + 1), nl + 2):
                            for rt in range(-(nc + 1), nc + 2):
                                if abs(d) < nl and abs(rt) < nc:
                                    continue
                                if slrm and nc == 1 and d != 0 and (l > 0 or r < C):
                                    continue       # former known finding scroll_one_column
                                if slrm and nl == 1 and nc == 1 and l == 0 and d == 0 and rt != 0:
                                    continue       # known finding scroll_one_cell (probed from the corpus)
                                cases.append((t, l, nl, nc, d, rt))
        for i in range(0, len(cases), 6):
            h = Hist(L, C, slrm, 0, 0)
            for cs in cases[i:i + 6]:
                h.fill()
                if (v % 3) == 0: h.emit("setpen bg=%d" % (v % 16), "setpen")
                h.emit("scroll %d %d %d %d %d %d" % cs, "scroll"); v += 1
    dist["exhaustive:scroll-big-offsets"] = v
    # every DECRPM reply value for mode 69 (2 only while it is not the known finding slrm_probe_reset: probed from the
    # corpus) x every rectangle and offset on a 3x3 screen; replies for modes 25 / 12 run through 0..4 alongside
    p = 0
    for reply in (0, 1, 3, 4):
        cases = []
        L, C = 3, 3
        for t in range(L):
            for b in range(t + 1, L + 1):
                for l in range(C):
                    for r in range(l + 1, C + 1):
                        nl, nc = b - t, r - l
                        for d in range(-(nl - 1), nl):
                            for rt in range(-(nc - 1), nc):
                                cases.append((t, l, nl, nc, d, rt))
        for i in range(0, len(cases), 6):
            h = Hist(L, C, reply, 0, 0, None, (i // 6) % 5, (i // 30) % 5)
            for cs in cases[i:i + 6]:
                h.fill()
                h.emit("scroll %d %d %d %d %d %d" % cs, "scroll"); p += 1
    dist["exhaustive:probe-reply-scroll"] = p
    # resize: a scroll at the old size, the resize, then every rectangle x offset at the new size (one scroll per
    # history, so that every one of them is the first after the resize), with and without DECSLRM
    q = 0
    for (L0, C0), (L, C) in [((2, 3), (2, 4)), ((2, 4), (2, 3)), ((2, 3), (3, 3)), ((3, 2), (2, 4))]:
        for reply in (0, 1):
            for t in range(L):
                for b in range(t + 1, L + 1):
                    for l in range(C):
                        for r in range(l + 1, C + 1):
                            nl, nc = b - t, r - l
                            h = None
                            for d in range(-(nl - 1), nl):
                                for rt in range(-(nc - 1), nc):
                                    if d == 0 and rt == 0:
                                        continue
                                    h = Hist(L0, C0, reply, 0, 0)
                                    h.fill()
                                    h.emit(f"scroll 0 0 {L0} {C0} {1 if L0 > 1 else 0} {0 if L0 > 1 else 1}", "scroll")
                                    h.emit(f"resize {L} {C}", "resize"); h.L, h.C = L, C
                                    h.fill()
                                    h.emit(f"scroll {t} {l} {nl} {nc} {d} {rt}", "scroll"); q += 1
    dist["exhaustive:resize-scroll"] = q
    # every erase on a 2x5 screen: column, count, moveend, reverse
    m = 0
    for rv in (0, 1):
        for col in range(5):
            h = Hist(2, 5, 1, 1, 0)
            h.emit(f"setpen rv={rv} bg=4", "setpen")
            for cnt in range(0, 5 - col + 1):
                for me in (0, 1, -1):
                    if rv and me == 0 and cnt >= 1 and col + cnt == 5 and col >= 1:
                        continue           # known finding rv_erase_last_col (probed from the corpus)
                    h.fill()
                    h.emit(f"goto 1 {col}", "goto")
                    h.emit(f"erasech {cnt} {me}", "erasech"); m += 1
    dist["exhaustive:erasech"] = m
    # every goto and every move on a 3x3 screen
    g = 0
    h = Hist(3, 3, 1, 0, 0)
    for l in range(-1, 3):
        for c in range(-1, 3):
            for (l0, c0) in [(0, 0), (1, 2), (2, 1)]:
                h.emit(f"goto {l0} {c0}", "goto"); h.emit(f"goto {l} {c}", "goto"); g += 1
    for l0 in range(3):
        for c0 in range(3):
            h = Hist(3, 3, 0, 0, 1)
            for l1 in range(3):
                for c1 in range(3):
                    h.emit(f"goto {l0} {c0}", "goto"); h.emit(f"move {l1 - l0} {c1 - c0}", "move"); g += 1
    dist["exhaustive:goto+move"] = g
    # pause + resume, then every rectangle x offset on a 3x3 screen, for the DECRPM replies 0 / 1 / 3 of mode 69
    # (the scroll after the resume relies on DECLRMM being what the driver takes it for)
    u = 0
    for reply in (0, 1, 3):
        cases = []
        L, C = 3, 3
        for t in range(L):
            for b in range(t + 1, L + 1):
                for l in range(C):
                    for r in range(l + 1, C + 1):
                        nl, nc = b - t, r - l
                        for d in range(-(nl - 1), nl):
                            for rt in range(-(nc - 1), nc):
                                if d or rt:
                                    cases.append((t, l, nl, nc, d, rt))
        for i in range(0, len(cases), 6):
            h = Hist(L, C, reply, 0, 0)
            if (i // 6) % 2:
                h.emit("setpen bg=%d rv=%d" % (i % 16, (i // 12) % 2), "setpen")
            for cs in cases[i:i + 6]:
                h.fill()
                h.emit("pause", "pause"); h.emit("resume", "resume")
                h.emit("scroll %d %d %d %d %d %d" % cs, "scroll"); u += 1
    dist["exhaustive:suspend-scroll"] = u
    # every formatted length 0..200, unbuffered and through output buffers around the stack-buffer size
    f = 0
    for bufsize in (0, 1, 63, 64, 65, 128):
        for base in range(0, 201, 15):
            h = Hist(3, 210, 1, 0, 0)
            if bufsize:
                h.emit(f"outbuf {bufsize}", "outbuf")
            for n in range(base, min(base + 15, 201)):
                h.emit(f"goto {n % 3} {n % 5}", "goto")
                if n % 4 == 3 and n >= 3:
                    h.emit("printf " + "".join("%02x" % (0x21 + (n + j) % 94) for j in range(n - 2)) + " 47", "printf")
                else:
                    h.emit("printf " + ("".join("%02x" % (0x21 + (n + j) % 94) for j in range(n)) or "-"), "printf")
                h.emit("erasech 1 1", "erasech"); f += 1
                if bufsize:
                    h.emit("flush", "flush")
    dist["exhaustive:printf-length"] = f
    # output buffers of 1..14 bytes x texts of 1..12 columns on a 2x12 screen, with a goto, a goto + erasech or a
    # goto + pen change pending in the buffer when the text is written
    w = 0
    for N in range(1, 15):
        for pend in range(3):
            h = Hist(2, 12, 1, 0, 0)
            h.emit(f"outbuf {N}", "outbuf")
            for k in range(1, 13):
                col = (k * 5 + N) % (12 - k + 1)
                h.emit(f"goto {k % 2} {col}", "goto")
                if pend == 1 and col + 1 <= 12:
                    h.emit("erasech 1 0", "erasech")
                if pend == 2:
                    h.emit(f"chpen bg={(k + N) % 8}", "chpen")
                h.emit(("printf " if (k + N) % 3 == 0 else "print ") + "".join("%02x" % (0x41 + (k + j) % 26) for j in range(k)), "print")
                h.emit("flush", "flush"); w += 1
    dist["exhaustive:outbuf-order"] = w


if a.tier == "exhaustive":
    exhaustive()
else:
    nh = 350 if a.tier == "quick" else 2500
    random_history("onecol")
    random_history("rvlast")
    random_history("probe2")
    # every formatted length 0..200 (some of them through an output buffer as well)
    lens = list(range(0, 201)); rng.shuffle(lens)
    for i in range(0, len(lens), 21):
        printf_sweep(lens[i:i + 21], rng.choice([0, 1]))
    for _ in range(3 if a.tier == "quick" else 12):
        printf_sweep([rng.choice([0, 1, 31, 32, 33, 62, 63, 64, 65, 66, 127, 128, 129, 191, 192, 193, 200, rng.randrange(0, 201)]) for _ in range(14)],
                     rng.choice([0, 1]), rng.choice([1, 7, 16, 63, 64, 65, 100, 128, 129, 256, 300, rng.randrange(1, 301)]))
    for _ in range(6 if a.tier == "quick" else 40):
        rv_erase_sweep(rng.choice([0, 1]))
    for _ in range(25 if a.tier == "quick" else 150):
        order_history()
    for _ in range(40 if a.tier == "quick" else 300):
        pen_rgb_history()
    for _ in range(nh):
        random_history()

open(a.out, "w").write("\n".join(lines) + "\n")
info = {"ops": len(lines), "histories": dist["hist"], "distribution": dict(sorted(dist.items()))}
if a.tier == "exhaustive":
    info["exhaustive_bound"] = "all rectangles x in-range offsets on 4x5 and 3x3 screens x 8 capability combinations; all erasech (col,count,moveend,reverse) on 2x5; all goto/move on 3x3; every rectangle x offset on 3x3 for the DECRPM replies 0/1/3/4 of mode 69; scroll + resize (2x3->2x4, 2x4->2x3, 2x3->3x3, 3x2->2x4) + every rectangle x non-zero offset at the new size, with and without DECSLRM; pause + resume + every rectangle x non-zero offset on 3x3 for the replies 0/1/3; printf of every formatted length 0..200 unbuffered and through buffers of 1/63/64/65/128 bytes; output buffers of 1..14 bytes x texts of 1..12 columns x three kinds of request pending in the buffer (the known-finding triggers excluded: they are probed from corpus/C09)"
print(json.dumps(info))
