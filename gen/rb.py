#!/usr/bin/env python3
"""Operation generator for engine `rb` (C03).  All randomness from --seed.

quick / thorough: random drawing programs on buffers from 1x1 to 6x12: every primitive, coordinates from
-5 to size+5 chosen *after* undoing the translation currently in force (so most operations hit the buffer and
the edges of the clip, of masks and of existing runs), nested save/savepen/restore, translate, clip, mask,
setpen, goto, texts mixing ASCII, combining and double-width characters plus a malformed stream.
exhaustive: every program of <= 3 drawing operations over a reduced alphabet on a 2x5 buffer, each under four
auxiliary prologues (plain, mask, clip+translation, save+mask), followed by `restore` and `getcells`.
Prints one JSON line: the input distribution actually produced.
"""
import argparse, random, json, itertools, collections

ap = argparse.ArgumentParser()
ap.add_argument("--seed", type=int, default=1); ap.add_argument("--tier", default="quick")
ap.add_argument("--out", required=True); ap.add_argument("--prop", default="C03")
a = ap.parse_args()
rng = random.Random(a.seed)
stats = collections.Counter()
textkinds = collections.Counter()
sizes = collections.Counter()


def hexs(b):
    return b.hex() if b else "-"


ASCII = "abcxyzAZ09 _.#"
COMBINING = ["\u0301", "\u0308", "\u20d7", "\u200b"]           # width 0 (incl. ZERO WIDTH SPACE)
WIDE = ["\uff21", "\u4e00", "\u3042", "\uac00", "\U0001f600", "\u231a"]   # width 2 (mk_wcwidth and fullwidth.inc)
NARROW = ["\u00e9", "\u00ad", "\u2500", "\u03a9", "\U00010400"]  # width 1, 2-4 bytes


def gen_text():
    k = rng.random()
    if k < 0.08:
        textkinds["malformed"] += 1
        return rng.choice([
            b"ab\x01c", b"\x7f", b"a\xc2\x80b", b"\x80", b"ab\xbf", b"\xe3\x81", b"x\xf0\x9f\x98", b"\xf8\x88\x80\x80\x80",
            b"\xff", b"a\x00bc", b"\x00", b"\xc3\x41z", b"\xc1\x81", b"\xe0\x80\xaf", b"\xc2\x9f", b"\xc2\xa0", b"ab\xe2\x00\x80",
            b"\xf4\x90\x80\x80", b"\xf7\xbf\xbf\xbf", b"\xed\xa0\x80", b"\xc0\x80", b"q\xcc", b"\x1b[m"])
    if k < 0.12:
        textkinds["empty"] += 1
        return b""
    if k < 0.16:
        textkinds["zero-width-only"] += 1
        return "".join(rng.choice(COMBINING) for _ in range(rng.randint(1, 2))).encode()
    n = rng.choice([1, 1, 2, 2, 3, 3, 4, 5, 6, 8, 12, 15])
    if k < 0.45:
        textkinds["ascii"] += 1
        s = "".join(rng.choice(ASCII) for _ in range(n))
        if n >= 12 and rng.random() < 0.3:
            s = s * 6                                  # > 64 bytes: the tmp_alloc path of vtextf
        return s.encode()
    textkinds["mixed"] += 1
    out = []
    for _ in range(n):
        r = rng.random()
        if r < 0.45: out.append(rng.choice(ASCII))
        elif r < 0.70: out.append(rng.choice(WIDE))
        elif r < 0.85: out.append(rng.choice(COMBINING))
        else: out.append(rng.choice(NARROW))
    return "".join(out).encode()


def gen_pen():
    if rng.random() < 0.06:
        return "NULL"
    if rng.random() < 0.10:
        return "-"
    items = []
    def colour(name):
        idx = rng.choice([-1, 0, 1, 2, 3, 7, 8, 15, 16, 255])
        s = f"{name}={idx}"
        if rng.random() < 0.3:
            s += "#" + rng.choice(["ff0000", "00ff00", "0000ff", "000000", "102030", "ffffff"])
        return s
    p = rng.choice([0.15, 0.3, 0.6])
    if rng.random() < max(p, 0.4): items.append(colour("fg"))
    if rng.random() < p: items.append(colour("bg"))
    if rng.random() < p: items.append(f"b={rng.randint(0, 1)}")
    if rng.random() < p: items.append(f"u={rng.randint(0, 3)}")
    if rng.random() < p: items.append(f"i={rng.randint(0, 1)}")
    if rng.random() < p: items.append(f"rv={rng.randint(0, 1)}")
    if rng.random() < p / 2: items.append(f"strike={rng.randint(0, 1)}")
    if rng.random() < p / 2: items.append(f"af={rng.choice([-1, 0, 1, 5, 10])}")
    if rng.random() < p / 2: items.append(f"blink={rng.randint(0, 1)}")
    if rng.random() < p / 2: items.append(f"sizepos={rng.randint(0, 3)}")
    return ",".join(items) if items else "-"


class Hist:
    """One history; tracks an approximation of the auxiliary state so that operations mostly land."""
    def __init__(self, L, C):
        self.L, self.C = L, C
        self.ops = [f"new {L} {C}"]
        self.xl = (0, 0)
        self.saved = []       # (kind, xl, cursor set?)
        self.cursor = False

    def emit(self, s):
        self.ops.append(s)
        stats[s.split()[0]] += 1

    # target position in buffer coordinates, mostly inside, sometimes around the edges, rarely far away
    def line(self):
        r = rng.random()
        if r < 0.80: v = rng.randint(0, self.L - 1)
        elif r < 0.95: v = rng.choice([-1, self.L, -2, self.L + 1])
        else: v = rng.choice([-5, self.L + 5, 1000, -1000])
        return v - self.xl[0]

    def col(self):
        r = rng.random()
        if r < 0.70: v = rng.randint(0, self.C - 1)
        elif r < 0.93: v = rng.randint(-5, self.C + 5)
        else: v = rng.choice([-1000, 1000, -self.C, 2 * self.C])
        return v - self.xl[1]

    def width(self):
        r = rng.random()
        if r < 0.75: return rng.randint(1, self.C + 2)
        if r < 0.90: return rng.choice([0, 1, self.C, self.C + 5])
        return rng.choice([-1, -3, 1000])

    def rect(self):
        r = rng.random()
        if r < 0.75:
            t = rng.randint(-1, self.L - 1); l = rng.randint(-2, self.C - 1)
            return (t - self.xl[0], l - self.xl[1], rng.randint(1, self.L + 1), rng.randint(1, self.C + 2))
        if r < 0.90:
            return (self.line(), self.col(), rng.randint(0, 2), rng.randint(0, 3))
        return (self.line(), self.col(), rng.choice([-1, 0, 1, 50]), rng.choice([-2, 0, 1, 50]))

    def restore(self):
        """`restore`.  (Before the repair 85271b4 this avoided the trigger of the then known finding
        vc_pos_set_not_saved in most histories; now every history is free to change the cursor's set/unset
        state between `save` and `restore`.)"""
        self.emit("restore")
        if self.saved:
            k, xl, cur = self.saved.pop()
            if k == "save": self.xl = xl

    def step(self):
        r = rng.random()
        if r < 0.14:
            kind = rng.choice(["text_at", "text_at", "text_at", "textf_at"])
            self.emit(f"{kind} {self.line()} {self.col()} {hexs(gen_text())}")
        elif r < 0.22:
            if not self.cursor and rng.random() < 0.8:
                self.emit(f"goto {self.line()} {self.col()}"); self.cursor = True
            self.emit(f"{rng.choice(['text', 'text', 'textf'])} {hexs(gen_text())}")
        elif r < 0.30:
            self.emit(f"erase_at {self.line()} {self.col()} {self.width()}")
        elif r < 0.36:
            self.emit(f"skip_at {self.line()} {self.col()} {self.width()}")
        elif r < 0.43:
            if not self.cursor and rng.random() < 0.8:
                self.emit(f"goto {self.line()} {self.col()}"); self.cursor = True
            k = rng.choice(["erase", "skip", "erase_to", "skip_to", "char"])
            if k in ("erase", "skip"): self.emit(f"{k} {self.width()}")
            elif k == "char": self.emit(f"char {rng.choice([65, 0x2500, 0xff21, 0x301, 0x1f600])}")
            else: self.emit(f"{k} {self.col()}")
        elif r < 0.48:
            self.emit(f"char_at {self.line()} {self.col()} {rng.choice([65, 97, 0xe9, 0x2500, 0xff21, 0x301, 0x1f600, 0x10ffff, 0x3ffffff, 0x7fffffff, 0])}")
        elif r < 0.58:
            st, caps = rng.randint(1, 3), rng.randint(0, 3)
            if rng.random() < 0.5:
                c1 = self.col(); c2 = c1 + rng.choice([0, 1, 2, 3, self.C, -1, -2])
                self.emit(f"hline {self.line()} {c1} {c2} {st} {caps}")
            else:
                l1 = self.line(); l2 = l1 + rng.choice([0, 1, 2, self.L, -1])
                self.emit(f"vline {l1} {l2} {self.col()} {st} {caps}")
        elif r < 0.61:
            self.emit("clear")
        elif r < 0.66:
            self.emit("%s %d %d %d %d" % ((rng.choice(["eraserect", "skiprect"]),) + self.rect()))
        elif r < 0.70:
            if rng.random() < 0.8:
                self.emit(f"goto {self.line()} {self.col()}"); self.cursor = True
            else:
                self.emit("ungoto"); self.cursor = False
        elif r < 0.74:
            d, rr = rng.choice([(0, 1), (1, 0), (-1, -1), (1, 2), (0, -3), (2, 5), (0, 0)])
            if rng.random() < 0.05: d, rr = rng.choice([(100, 0), (0, -100)])
            self.emit(f"xl {d} {rr}"); self.xl = (self.xl[0] + d, self.xl[1] + rr)
        elif r < 0.78:
            self.emit("clip %d %d %d %d" % self.rect())
        elif r < 0.84:
            self.emit("mask %d %d %d %d" % self.rect())
        elif r < 0.90:
            self.emit(f"setpen {gen_pen()}")
        elif r < 0.94:
            k = rng.choice(["save", "save", "savepen"])
            self.emit(k); self.saved.append((k, self.xl, self.cursor))
        elif r < 0.98:
            self.restore()
        elif r < 0.985:
            self.emit("reset"); self.xl = (0, 0); self.saved = []; self.cursor = False
        elif r < 0.993:
            self.emit("getcur")
        else:
            self.emit("getcells")


def random_history():
    L = rng.choice([1, 1, 2, 2, 3, 3, 4, 5, 6]); C = rng.choice([1, 2, 3, 4, 5, 5, 6, 7, 8, 10, 12])
    sizes[f"{L}x{C}"] += 1
    h = Hist(L, C)
    n = rng.randint(8, 36)
    # a prologue that makes the auxiliary state non-neutral in a good share of the histories
    if rng.random() < 0.3:
        if rng.random() < 0.4: h.emit(f"goto {h.line()} {h.col()}"); h.cursor = True
        h.emit("save"); h.saved.append(("save", h.xl, h.cursor))
        if rng.random() < 0.5: h.emit("mask %d %d %d %d" % h.rect())
    for _ in range(n):
        h.step()
    h.emit("getcur")
    h.emit("getcells")
    # unwind: restore everything and look again through the public queries at (nearly) neutral state
    if rng.random() < 0.6:
        for _ in range(len(h.saved) + (1 if rng.random() < 0.2 else 0)):
            h.restore()
        h.emit("getcells")
    return h.ops


def exhaustive():
    """Every program of <= 3 drawing operations over a reduced alphabet on a 2x5 buffer."""
    alpha = [
        "text_at 0 1 414243",            # ABC
        "text_at 0 -1 61efbca162",       # a + fullwidth A + b, clipped on the left inside the wide character
        "text_at 0 3 78cc81797a",        # x + combining acute, y, z: clipped on the right
        "erase_at 0 0 5",
        "erase_at 0 2 2",
        "skip_at 0 1 3",
        "char_at 0 2 65",
        "hline 0 1 3 1 3",
        "vline 0 1 2 2 1",
        "hline 0 2 2 3 0",
        "setpen fg=1,b=1",
        "eraserect 0 3 2 2",
    ]
    prologues = [
        [],
        ["mask 0 2 1 1"],
        ["clip 0 1 2 3", "xl 0 1"],
        ["save", "mask 0 3 2 1", "setpen bg=4"],
    ]
    out = []
    n = 0
    for pro in prologues:
        for k in (1, 2, 3):
            for prog in itertools.product(alpha, repeat=k):
                out.append("new 2 5")
                out.extend(pro)
                out.extend(prog)
                out.append("restore")
                out.append("getcells")
                n += 1
    for op in out:
        stats[op.split()[0]] += 1
    return out, n


lines = []
info = {}
if a.tier == "exhaustive":
    lines, n = exhaustive()
    info = {"histories": n, "exhaustive_bound": "all programs of <= 3 operations over a 12-operation alphabet on a 2x5 buffer x 4 auxiliary prologues"}
else:
    N = 2500 if a.tier == "quick" else 20000
    for _ in range(N):
        lines.extend(random_history())
    info = {"histories": N}
open(a.out, "w").write("\n".join(lines) + "\n")
info.update({"ops": len(lines), "op_mix": dict(stats.most_common()), "text_kinds": dict(textkinds), "buffer_sizes": dict(sizes.most_common(8))})
print(json.dumps(info))
