#!/usr/bin/env python3
"""Operation generator for engine `rb` (C03).  All randomness from --seed.

quick / thorough: random drawing programs on buffers from 1x1 to 6x12: every primitive and every text entry
point (text/textn/textf/vtextf, at a position and at the cursor), coordinates from -5 to size+5 chosen *after*
undoing the translation currently in force (so most operations hit the buffer and the edges of the clip, of
masks and of existing runs), nested save/savepen/restore, translate, clip, mask, setpen, goto, texts mixing
ASCII, combining and double-width characters plus a malformed stream; single-cell and span queries with buffer
lengths around the length of the answer.  About one history in sixteen runs on a wide buffer (1-2 lines, 66 to
1030 columns) with texts whose byte length straddles 64 (the stack buffer of put_vtextf) and 256/512/1024 (the
scratch area and its doublings), in ascending order so that the exact sizes are met after each growth.
exhaustive: every program of <= 3 drawing operations over a reduced alphabet on a 2x5 buffer, each under four
auxiliary prologues (plain, mask, clip+translation, save+mask), followed by `restore` and `getcells`; the programs
of <= 2 operations once more, followed by span and single-cell queries along the first line.
Prints one JSON line: the input distribution actually produced.
"""
import argparse, random, json, itertools, collections

ap = argparse.ArgumentParser()
ap.add_argument("--seed", type=int, default=1); ap.add_argument("--tier", default="quick")
ap.add_argument("--out", required=True); ap.add_argument("--prop", default="C03")
a = ap.parse_args()
rng = random.Random(a.seed)
stats = collections.Counter()
textkinds = collections.Counter()
sizes = collections.Counter()
textlens = collections.Counter()


def hexs(b):
    return b.hex() if b else "-"


ASCII = "abcxyzAZ09 _.#"
COMBINING = ["\u0301", "\u0308", "\u20d7", "\u200b"]           # width 0 (incl. ZERO WIDTH SPACE)
WIDE = ["\uff21", "\u4e00", "\u3042", "\uac00", "\U0001f600", "\u231a"]   # width 2 (mk_wcwidth and fullwidth.inc)
NARROW = ["\u00e9", "\u00ad", "\u2500", "\u03a9", "\U00010400"]  # width 1, 2-4 bytes


def gen_text():
    k = rng.random()
    if k < 0.08:
        textkinds["malformed"] += 1
        return rng.choice([
            b"ab\x01c", b"\x7f", b"a\xc2\x80b", b"\x80", b"ab\xbf", b"\xe3\x81", b"x\xf0\x9f\x98", b"\xf8\x88\x80\x80\x80",
            b"\xff", b"a\x00bc", b"\x00", b"\xc3\x41z", b"\xc1\x81", b"\xe0\x80\xaf", b"\xc2\x9f", b"\xc2\xa0", b"ab\xe2\x00\x80",
            b"\xf4\x90\x80\x80", b"\xf7\xbf\xbf\xbf", b"\xed\xa0\x80", b"\xc0\x80", b"q\xcc", b"\x1b[m"])
    if k < 0.12:
        textkinds["empty"] += 1
        return b""
    if k < 0.16:
        textkinds["zero-width-only"] += 1
        return "".join(rng.choice(COMBINING) for _ in range(rng.randint(1, 2))).encode()
    n = rng.choice([1, 1, 2, 2, 3, 3, 4, 5, 6, 8, 12, 15])
    if k < 0.45:
        textkinds["ascii"] += 1
        s = "".join(rng.choice(ASCII) for _ in range(n))
        if n >= 12 and rng.random() < 0.3:
            s = s * 6                                  # > 64 bytes: the tmp_alloc path of vtextf
        return s.encode()
    textkinds["mixed"] += 1
    out = []
    for _ in range(n):
        r = rng.random()
        if r < 0.45: out.append(rng.choice(ASCII))
        elif r < 0.70: out.append(rng.choice(WIDE))
        elif r < 0.85: out.append(rng.choice(COMBINING))
        else: out.append(rng.choice(NARROW))
    return "".join(out).encode()


def gen_pen():
    if rng.random() < 0.06:
        return "NULL"
    if rng.random() < 0.10:
        return "-"
    items = []
    def colour(name):
        idx = rng.choice([-1, 0, 1, 2, 3, 7, 8, 15, 16, 255])
        s = f"{name}={idx}"
        if rng.random() < 0.3:
            s += "#" + rng.choice(["ff0000", "00ff00", "0000ff", "000000", "102030", "ffffff"])
        return s
    p = rng.choice([0.15, 0.3, 0.6])
    if rng.random() < max(p, 0.4): items.append(colour("fg"))
    if rng.random() < p: items.append(colour("bg"))
    if rng.random() < p: items.append(f"b={rng.randint(0, 1)}")
    if rng.random() < p: items.append(f"u={rng.randint(0, 3)}")
    if rng.random() < p: items.append(f"i={rng.randint(0, 1)}")
    if rng.random() < p: items.append(f"rv={rng.randint(0, 1)}")
    if rng.random() < p / 2: items.append(f"strike={rng.randint(0, 1)}")
    if rng.random() < p / 2: items.append(f"af={rng.choice([-1, 0, 1, 5, 10])}")
    if rng.random() < p / 2: items.append(f"blink={rng.randint(0, 1)}")
    if rng.random() < p / 2: items.append(f"sizepos={rng.randint(0, 3)}")
    return ",".join(items) if items else "-"


BOUNDARIES = [63, 64, 65, 255, 256, 257, 511, 512, 513, 1023, 1024, 1025]


def bucket(n):
    for b in BOUNDARIES:
        if n == b: return str(b)
    return "<64" if n < 64 else "64-255" if n < 256 else "256-511" if n < 512 else "512-1023" if n < 1024 else ">1024"


def long_text(nbytes):
    """A valid text of exactly nbytes bytes: ASCII, or ASCII with some multi-byte characters mixed in."""
    if rng.random() < 0.7:
        textkinds["long-ascii"] += 1
        return "".join(rng.choice(ASCII) for _ in range(nbytes)).encode()
    textkinds["long-mixed"] += 1
    out = b""
    while len(out) < nbytes:
        r = rng.random()
        ch = rng.choice(ASCII) if r < 0.6 else rng.choice(WIDE) if r < 0.8 else rng.choice(COMBINING) if r < 0.9 else rng.choice(NARROW)
        e = ch.encode()
        if len(out) + len(e) > nbytes:
            e = rng.choice(ASCII).encode()
        out += e
    return out


def text_op(at, text, pos=""):
    """One of the text entry points for the bytes `text` (`at`: with a position).  The formatted ones print a C
    string, so they are used for texts without a NUL only half of the time otherwise."""
    sfx = "_at" if at else ""
    pre = f" {pos}" if at else ""
    textlens[bucket(len(text))] += 1
    r = rng.random()
    if r < 0.30:
        return f"text{sfx}{pre} {hexs(text)}"
    if r < 0.40:
        return f"textz{sfx}{pre} {hexs(text)}"
    if r < 0.52:
        k = rng.random()
        n = -1 if k < 0.25 else len(text) if k < 0.5 else rng.randint(0, len(text))
        return f"textn{sfx}{pre} {n} {hexs(text)}"
    if r < 0.72:
        return f"textf{sfx}{pre} {hexs(text)}"
    if r < 0.86:
        return f"vtextf{sfx}{pre} {hexs(text)}"
    # "%s%d": the last bytes of the result are the digits
    v = rng.choice([0, 7, -1, 42, 123, -999, 65536, 2147483647, -2147483648])
    d = str(v).encode()
    if len(text) > len(d) and rng.random() < 0.8 and 0 not in text:
        return f"textfd{sfx}{pre} {hexs(text[:len(text) - len(d)])} {v}"     # same total length
    return f"textfd{sfx}{pre} {hexs(text)} {v}"


class Hist:
    """One history; tracks an approximation of the auxiliary state so that operations mostly land."""
    def __init__(self, L, C):
        self.L, self.C = L, C
        self.ops = [f"new {L} {C}"]
        self.xl = (0, 0)
        self.saved = []       # (kind, xl, cursor set?)
        self.cursor = False
        self.spans = True     # does this history use the span query

    def emit(self, s):
        self.ops.append(s)
        stats[s.split()[0]] += 1

    # target position in buffer coordinates, mostly inside, sometimes around the edges, rarely far away
    def line(self):
        r = rng.random()
        if r < 0.80: v = rng.randint(0, self.L - 1)
        elif r < 0.95: v = rng.choice([-1, self.L, -2, self.L + 1])
        else: v = rng.choice([-5, self.L + 5, 1000, -1000])
        return v - self.xl[0]

    def col(self):
        r = rng.random()
        if r < 0.70: v = rng.randint(0, self.C - 1)
        elif r < 0.93: v = rng.randint(-5, self.C + 5)
        else: v = rng.choice([-1000, 1000, -self.C, 2 * self.C])
        return v - self.xl[1]

    def width(self):
        r = rng.random()
        if r < 0.75: return rng.randint(1, self.C + 2)
        if r < 0.90: return rng.choice([0, 1, self.C, self.C + 5])
        return rng.choice([-1, -3, 1000])

    def rect(self):
        r = rng.random()
        if r < 0.75:
            t = rng.randint(-1, self.L - 1); l = rng.randint(-2, self.C - 1)
            return (t - self.xl[0], l - self.xl[1], rng.randint(1, self.L + 1), rng.randint(1, self.C + 2))
        if r < 0.90:
            return (self.line(), self.col(), rng.randint(0, 2), rng.randint(0, 3))
        return (self.line(), self.col(), rng.choice([-1, 0, 1, 50]), rng.choice([-2, 0, 1, 50]))

    def restore(self):
        """`restore`.  (Before the repair 85271b4 this avoided the trigger of the then known finding
        vc_pos_set_not_saved in most histories; now every history is free to change the cursor's set/unset
        state between `save` and `restore`.)"""
        self.emit("restore")
        if self.saved:
            k, xl, cur = self.saved.pop()
            if k == "save": self.xl = xl

    def step(self):
        r = rng.random()
        if r < 0.14:
            self.emit(text_op(True, gen_text(), f"{self.line()} {self.col()}"))
        elif r < 0.22:
            if not self.cursor and rng.random() < 0.8:
                self.emit(f"goto {self.line()} {self.col()}"); self.cursor = True
            self.emit(text_op(False, gen_text()))
        elif r < 0.30:
            self.emit(f"erase_at {self.line()} {self.col()} {self.width()}")
        elif r < 0.36:
            self.emit(f"skip_at {self.line()} {self.col()} {self.width()}")
        elif r < 0.43:
            if not self.cursor and rng.random() < 0.8:
                self.emit(f"goto {self.line()} {self.col()}"); self.cursor = True
            k = rng.choice(["erase", "skip", "erase_to", "skip_to", "char"])
            if k in ("erase", "skip"): self.emit(f"{k} {self.width()}")
            elif k == "char": self.emit(f"char {rng.choice([65, 0x2500, 0xff21, 0x301, 0x1f600])}")
            else: self.emit(f"{k} {self.col()}")
        elif r < 0.48:
            self.emit(f"char_at {self.line()} {self.col()} {rng.choice([65, 97, 0xe9, 0x2500, 0xff21, 0x301, 0x1f600, 0x10ffff, 0x3ffffff, 0x7fffffff, 0])}")
        elif r < 0.58:
            st, caps = rng.randint(1, 3), rng.randint(0, 3)
            if rng.random() < 0.5:
                c1 = self.col(); c2 = c1 + rng.choice([0, 1, 2, 3, self.C, -1, -2])
                self.emit(f"hline {self.line()} {c1} {c2} {st} {caps}")
            else:
                l1 = self.line(); l2 = l1 + rng.choice([0, 1, 2, self.L, -1])
                self.emit(f"vline {l1} {l2} {self.col()} {st} {caps}")
        elif r < 0.61:
            self.emit("clear")
        elif r < 0.66:
            self.emit("%s %d %d %d %d" % ((rng.choice(["eraserect", "skiprect"]),) + self.rect()))
        elif r < 0.70:
            if rng.random() < 0.8:
                self.emit(f"goto {self.line()} {self.col()}"); self.cursor = True
            else:
                self.emit("ungoto"); self.cursor = False
        elif r < 0.74:
            d, rr = rng.choice([(0, 1), (1, 0), (-1, -1), (1, 2), (0, -3), (2, 5), (0, 0)])
            if rng.random() < 0.05: d, rr = rng.choice([(100, 0), (0, -100)])
            self.emit(f"xl {d} {rr}"); self.xl = (self.xl[0] + d, self.xl[1] + rr)
        elif r < 0.78:
            self.emit("clip %d %d %d %d" % self.rect())
        elif r < 0.84:
            self.emit("mask %d %d %d %d" % self.rect())
        elif r < 0.90:
            self.emit(f"setpen {gen_pen()}")
        elif r < 0.94:
            k = rng.choice(["save", "save", "savepen"])
            self.emit(k); self.saved.append((k, self.xl, self.cursor))
        elif r < 0.98:
            self.restore()
        elif r < 0.985:
            self.emit("reset"); self.xl = (0, 0); self.saved = []; self.cursor = False
        elif r < 0.990:
            self.emit("getcur")
        elif r < 0.993:
            self.emit("getcells")
        else:
            self.query()

    def query(self):
        """A single-cell or span query with a buffer length around the length of the answer."""
        if self.spans and rng.random() < 0.6:
            ln = rng.choice([0, 1, 2, 3, 4, 5, 6, 8, 12, 16, 40])
            mode = rng.choice([7, 7, 7, 7, 5, 3, 1, 4, 6, 2, 0])
            self.emit(f"getspan {self.line()} {self.col()} {ln} {mode}")
        else:
            self.emit(f"getcell {self.line()} {self.col()} {rng.choice([-1, 0, 1, 2, 3, 4, 5, 6, 8, 255])}")


def random_history():
    L = rng.choice([1, 1, 2, 2, 3, 3, 4, 5, 6]); C = rng.choice([1, 2, 3, 4, 5, 5, 6, 7, 8, 10, 12])
    sizes[f"{L}x{C}"] += 1
    h = Hist(L, C)
    n = rng.randint(8, 36)
    # a prologue that makes the auxiliary state non-neutral in a good share of the histories
    if rng.random() < 0.3:
        if rng.random() < 0.4: h.emit(f"goto {h.line()} {h.col()}"); h.cursor = True
        h.emit("save"); h.saved.append(("save", h.xl, h.cursor))
        if rng.random() < 0.5: h.emit("mask %d %d %d %d" % h.rect())
    for _ in range(n):
        h.step()
        if rng.random() < 0.06:
            h.query()
    h.emit("getcur")
    for _ in range(rng.randint(0, 3)):
        h.query()
    h.emit("getcells")
    # unwind: restore everything and look again through the public queries at (nearly) neutral state
    if rng.random() < 0.6:
        for _ in range(len(h.saved) + (1 if rng.random() < 0.2 else 0)):
            h.restore()
        h.emit("getcells")
    return h.ops


def wide_history():
    """A short history on a wide buffer: long texts through every text entry point, byte lengths straddling the
    stack buffer of put_vtextf (64) and the scratch area (256, then 512, 1024 after each growth), in ascending
    order; wide erases, skips and lines; queries with buffers around the length of the answer."""
    L = rng.choice([1, 1, 2])
    C = rng.choice([66, 130, 258, 300, 514, 520, 1026, 1030])
    sizes[f"{L}x{C}"] += 1
    h = Hist(L, C)
    lens = sorted(set(rng.choice(BOUNDARIES[3 * k:3 * k + 3] if rng.random() < 0.7 else BOUNDARIES[:3 * k + 3])
                      for k in range(4) for _ in range(rng.randint(1, 2)) if BOUNDARIES[3 * k] <= C + 2))
    if rng.random() < 0.3: h.emit(f"setpen {gen_pen()}")
    if rng.random() < 0.3: h.emit("mask %d %d %d %d" % (rng.randint(0, L - 1), rng.randint(0, C - 1), 1, rng.choice([1, 2, 7, 100])))
    if rng.random() < 0.2: h.emit("clip %d %d %d %d" % (0, rng.choice([0, 1, 5]), L, rng.choice([C, C - 1, C - 7, C // 2])))
    if rng.random() < 0.2:
        d = rng.choice([(0, 1), (0, -3), (1, 2), (0, 5)])
        h.emit(f"xl {d[0]} {d[1]}"); h.xl = d
    for n in lens:
        t = long_text(n)
        # mostly placed so that the whole text is inside, sometimes hanging over either edge
        r = rng.random()
        col = (0 if r < 0.5 else rng.choice([1, 2, max(0, C - n), max(0, C - n - 1), C - n + 1, -1, -3])) - h.xl[1]
        line = rng.randint(0, L - 1) - h.xl[0]
        if rng.random() < 0.6:
            h.emit(text_op(True, t, f"{line} {col}"))
        else:
            h.emit(f"goto {line} {col}"); h.cursor = True
            h.emit(text_op(False, t))
            if rng.random() < 0.5: h.emit(f"char {rng.choice([33, 0x2500, 0xff21])}")       # lands right after the text
        k = rng.random()
        if k < 0.15: h.emit(f"erase_at {line} {h.col()} {rng.choice([1, 5, 64, 255, 256, C])}")
        elif k < 0.25: h.emit(f"skip_at {line} {h.col()} {rng.choice([1, 5, 64, 256, C])}")
        elif k < 0.33:
            c1 = rng.randint(0, C - 1) - h.xl[1]
            h.emit(f"hline {line} {c1} {c1 + rng.choice([1, 7, 63, 300, C])} {rng.randint(1, 3)} {rng.randint(0, 3)}")
        elif k < 0.38: h.emit(f"vline {-h.xl[0]} {L - 1 - h.xl[0]} {h.col()} {rng.randint(1, 3)} {rng.randint(0, 3)}")
        elif k < 0.43: h.emit("char_at %d %d %d" % (line, h.col(), rng.choice([65, 0xff21, 0x301])))
        elif k < 0.47: h.emit("mask %d %d %d %d" % (line, h.col(), 1, rng.choice([1, 3, 64])))
        elif k < 0.50: h.emit("clear")
        elif k < 0.53: h.emit("eraserect %d %d %d %d" % (line, h.col(), rng.randint(1, 2), rng.choice([3, 64, 256, C])))
        elif k < 0.56: h.emit(rng.choice(["save", "savepen", "restore"]))
        # look at the text just drawn: around its start, its end and the boundaries
        for _ in range(rng.randint(0, 2)):
            qc = col + rng.choice([0, 1, n - 1, n - 2, n, 63, 64, 255, 256, rng.randint(0, max(0, n - 1))])
            if h.spans and rng.random() < 0.6:
                h.emit(f"getspan {line} {qc} {rng.choice([0, 1, n - 1, n, n + 1, 64, 256, 2048])} {rng.choice([7, 7, 7, 5, 1, 4])}")
            else:
                h.emit(f"getcell {line} {qc} {rng.choice([-1, 0, 1, 3, 4, 255])}")
    h.emit("getcur")
    if C <= 130 and rng.random() < 0.5:
        h.emit("getcells")
    return h.ops


def exhaustive():
    """Every program of <= 3 drawing operations over a reduced alphabet on a 2x5 buffer."""
    alpha = [
        "text_at 0 1 414243",            # ABC
        "text_at 0 -1 61efbca162",       # a + fullwidth A + b, clipped on the left inside the wide character
        "text_at 0 3 78cc81797a",        # x + combining acute, y, z: clipped on the right
        "erase_at 0 0 5",
        "erase_at 0 2 2",
        "skip_at 0 1 3",
        "char_at 0 2 65",
        "hline 0 1 3 1 3",
        "vline 0 1 2 2 1",
        "hline 0 2 2 3 0",
        "setpen fg=1,b=1",
        "eraserect 0 3 2 2",
    ]
    prologues = [
        [],
        ["mask 0 2 1 1"],
        ["clip 0 1 2 3", "xl 0 1"],
        ["save", "mask 0 3 2 1", "setpen bg=4"],
    ]
    out = []
    n = 0
    for pro in prologues:
        for k in (1, 2, 3):
            for prog in itertools.product(alpha, repeat=k):
                out.append("new 2 5")
                out.extend(pro)
                out.extend(prog)
                out.append("restore")
                out.append("getcells")
                n += 1
                if k <= 2:
                    # the same program again, looked at through the single-cell and span queries
                    out.append("new 2 5")
                    out.extend(pro)
                    out.extend(prog)
                    for c in range(-1, 6):
                        out.append(f"getspan 0 {c} 8 7")
                    out.extend(["getspan 1 3 2 5", "getspan 0 1 0 1", "getcell 0 1 2", "getcell 0 3 -1", "getcell 1 3 0"])
                    n += 1
    for op in out:
        stats[op.split()[0]] += 1
    return out, n


lines = []
info = {}
if a.tier == "exhaustive":
    lines, n = exhaustive()
    info = {"histories": n, "exhaustive_bound": "all programs of <= 3 operations over a 12-operation alphabet on a 2x5 buffer x 4 auxiliary prologues (+ those of <= 2 operations under the span and single-cell queries)"}
else:
    N = 2500 if a.tier == "quick" else 20000
    nwide = 0
    for _ in range(N):
        if rng.random() < 1 / 16:
            lines.extend(wide_history()); nwide += 1
        else:
            lines.extend(random_history())
    info = {"histories": N, "wide_histories": nwide}
open(a.out, "w").write("\n".join(lines) + "\n")
info.update({"ops": len(lines), "op_mix": dict(stats.most_common()), "text_kinds": dict(textkinds), "text_bytes": dict(textlens),
             "buffer_sizes": dict(sizes.most_common(8))})
print(json.dumps(info))
