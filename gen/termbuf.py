#!/usr/bin/env python3
"""Operation generator for engine `termbuf` (C11).  All randomness from --seed.

Structured: a history is `new <n> <func|fd|both|none> <late|early>` followed by <= ~30 calls.  The generator tracks
the fill level the buffer should have (exactly, from the byte counts of every call) and aims most writes at the
boundaries: a write that ends one byte before / exactly at / one byte past the end of the buffer, n-1, n, n+1, 2n,
2n+1 bytes, the 63/64/65-byte edge of write_vstrf's stack buffer (title = 6 bytes of framing), zero-length and
`len == 0` writes (which print nothing), embedded NULs.  A share of the histories (`big_history`) uses buffers above
PIPE_BUF (4097 … 40000) and lets more than 4096 bytes accumulate before the flush points.  Payload bytes are a running counter so that a lost, duplicated or reordered byte
changes the stream.  tier exhaustive: every history of <= 3 writes of length <= 8 with every flush placement, for
every buffer size <= 6, both output methods.
Prints one JSON line: the input distribution actually produced."""
import argparse, random, json, itertools, collections

ap = argparse.ArgumentParser()
ap.add_argument("--seed", type=int, default=1); ap.add_argument("--tier", default="quick")
ap.add_argument("--out", required=True); ap.add_argument("--prop", default="C11")
a = ap.parse_args()
rng = random.Random(a.seed)
lines = []
dist = collections.Counter()
sizes_seen, lens_seen, fds_seen = collections.Counter(), collections.Counter(), collections.Counter()


def hexs(bs):
    return "".join("%02x" % b for b in bs) if bs else "-"


class Hist:
    """one history; tracks the expected fill level `cur` of the terminal under test"""

    def __init__(self, n, how, order, fds=None):
        self.n, self.how, self.cur, self.ctr = n, how, 0, rng.randrange(1, 250)
        self.alt, self.vis, self.started = False, True, how != "none"
        if how in ("fd", "both"):
            fdm, fdr = fds if fds else pick_fds()
            self.ops = ["new %d %s %s %d %d" % (n, how, order, fdm, fdr)]
            fds_seen[fdm] += 1
            dist["outfd_main_" + ("0" if fdm == 0 else "1" if fdm == 1 else "small" if fdm < 16 else "large")] += 1
            if fdr == 0: dist["outfd_ref_0"] += 1
        else:
            self.ops = ["new %d %s %s" % (n, how, order)]
        sizes_seen[n if n <= 70 else (">70" if n <= 4096 else n)] += 1
        dist["new_" + how + "_" + order] += 1

    def payload(self, k, nul=False):
        out = []
        for _ in range(k):
            self.ctr = self.ctr % 254 + 1          # 1..254, never NUL
            out.append(self.ctr)
        if nul and k >= 2:
            out[rng.randrange(k)] = 0
        return out

    def account(self, k):
        """k bytes were requested"""
        lens_seen[min(k, 5000) if k < 140 else (k // 100) * 100] += 1
        if self.n:
            rel = k - (self.n - self.cur)
            dist["write_ends_before_buffer_end" if rel < -1 else "write_ends_1_before" if rel == -1 else "write_fills_exactly" if rel == 0
                 else "write_1_past" if rel == 1 else "write_straddles" if k <= self.n + (self.n - self.cur) else "write_spans_several_buffers"] += 1
            self.cur = (self.cur + k) % self.n
        else:
            dist["write_unbuffered"] += 1

    def aimed_len(self):
        n, space = self.n, (self.n - self.cur) if self.n else 0
        c = rng.random()
        if n and c < 0.45:
            return max(0, rng.choice([space - 1, space, space + 1, space + n - 1, space + n, space + n + 1, space + 2 * n, space + 2 * n + 1]))
        if n and c < 0.70:
            return max(0, rng.choice([n - 1, n, n + 1, 2 * n - 1, 2 * n, 2 * n + 1, 3 * n]))
        if c < 0.80:
            return rng.choice([0, 1, 1, 2])
        if c < 0.92:
            return rng.randint(0, 24)
        return rng.choice([62, 63, 64, 65, 100, 300])

    def op_write(self, k=None, quirk=None):
        k = self.aimed_len() if k is None else k
        k = min(k, 9000 if self.n <= 4096 else 100000)
        r = rng.random() if quirk is None else (0.0 if quirk else 0.5)
        if r < 0.07:
            # len == 0 with k bytes at the pointer: prints nothing since 6b09beb (before: strlen(mem) bytes)
            b = self.payload(k, nul=rng.random() < 0.3)
            self.ops.append("write %s 0" % hexs(b)); dist["write_len0_" + ("empty" if k == 0 else "nonempty")] += 1
            self.account(0)
        elif r < 0.14 and k >= 1:
            # a prefix of a longer memory, possibly containing NULs (printn with an explicit length copies them)
            extra = rng.randint(1, 5)
            b = self.payload(k + extra, nul=rng.random() < 0.5)
            self.ops.append("write %s %d" % (hexs(b), k)); dist["write_prefix"] += 1
            self.account(k)
        else:
            b = self.payload(k, nul=(k >= 2 and rng.random() < 0.08))
            self.ops.append("write %s %d" % (hexs(b), k)); dist["write" if k else "write_len0_empty"] += 1
            self.account(k)

    def op_print(self):
        k = self.aimed_len()
        b = self.payload(k, nul=rng.random() < 0.1)
        self.ops.append("print " + hexs(b)); dist["print"] += 1
        self.account(b.index(0) if 0 in b else k)

    def op_printf(self):
        d = rng.choice([0, 7, -1, 42, 100000, -2147483648, 2147483647, rng.randint(-999, 999)])
        tail = 1 + len(str(d))
        k = max(0, self.aimed_len() - tail)
        b = self.payload(k, nul=rng.random() < 0.05)
        self.ops.append("printf %s %d" % (hexs(b), d)); dist["printf"] += 1
        self.account((b.index(0) if 0 in b else k) + tail)

    def op_title(self):
        # total = 6 + k: aim at the 64-byte stack buffer of write_vstrf half of the time
        if rng.random() < 0.5:
            k = rng.choice([56, 57, 58, 59, 120])
            dist["title_at_strf_edge"] += 1
        else:
            k = max(0, self.aimed_len() - 6)
            dist["title"] += 1
        b = self.payload(k, nul=rng.random() < 0.05)
        self.ops.append("title " + hexs(b))
        self.account((b.index(0) if 0 in b else k) + 6)

    def op_goto(self):
        l = rng.choice([-1, 0, 1, 9, 99, rng.randint(0, 300)])
        c = rng.choice([-1, 0, 1, 9, 99, rng.randint(0, 300)])
        self.ops.append("goto %d %d" % (l, c)); dist["goto"] += 1
        if l != -1 and c > 0: k = 4 + len(str(l + 1)) + len(str(c + 1))
        elif l != -1: k = 3 + len(str(l + 1))
        elif c > 0: k = 3 + len(str(c + 1))
        elif c != -1: k = 3
        else: k = None
        if k is not None: self.account(k)

    def op_ctl(self):
        which = rng.choice(["altscreen", "cursorvis"])
        v = rng.choice([0, 1, 1, 5])
        self.ops.append("ctl %s %d" % (which, v)); dist["ctl"] += 1
        if which == "altscreen":
            if self.alt != bool(v): self.account(8); self.alt = bool(v)
        else:
            if self.vis != bool(v): self.account(6); self.vis = bool(v)

    def teardown_bytes(self):
        for k in ([6] if not self.vis else []) + ([8] if self.alt else []) + [3]:
            self.account(k)

    def op_flush(self):
        self.ops.append("flush"); dist["flush_" + ("empty" if self.cur == 0 else "pending")] += 1
        self.cur = 0

    def op_pause(self):
        self.ops.append("pause"); dist["pause"] += 1
        self.teardown_bytes()
        self.ops.append("resume"); dist["resume"] += 1
        if self.alt: self.account(8)
        if not self.vis: self.account(6)

    def op_teardown(self):
        self.ops.append("teardown"); dist["teardown"] += 1
        if self.started: self.teardown_bytes(); self.started = False
        self.cur = 0

    def op_setbuf(self, pending_ok):
        m = pick_size()
        if self.cur and not pending_ok:
            self.op_flush()
        dist["setbuf_" + ("while_pending" if self.cur else "idle")] += 1
        self.ops.append("setbuf %d" % m)
        self.n, self.cur = m, 0

    def op_destroy(self):
        self.ops.append("destroy"); dist["destroy"] += 1

    def emit(self):
        lines.extend(self.ops)


FD_NUMBERS = [3, 4, 5, 6, 7, 8, 9, 10, 11, 12, 15, 16, 31, 32, 63, 64, 127, 128, 255, 256, 511, 512, 599]


def pick_fds():
    """descriptor numbers of the terminal under test and of the reference terminal: any number is a legitimate output
    descriptor — 0 (what TICKIT_OPEN_STDTTY picks when stdin is the tty) and 1 (TICKIT_OPEN_STDIO) in particular; 2 is
    left to the sanitizers' reports"""
    c = rng.random()
    fdm = 0 if c < 0.30 else 1 if c < 0.45 else rng.choice(FD_NUMBERS)
    c = rng.random()
    fdr = 0 if c < 0.15 else 1 if c < 0.25 else rng.choice(FD_NUMBERS)
    while fdr == fdm:
        fdr = rng.choice(FD_NUMBERS)
    return fdm, fdr


def pick_size():
    c = rng.random()
    if c < 0.12: return 0
    if c < 0.55: return rng.randint(1, 9)
    if c < 0.80: return rng.randint(10, 40)
    if c < 0.90: return rng.choice([62, 63, 64, 65, 66])
    return rng.choice([100, 512, 4096])


BIG_SIZES = [4097, 4098, 8191, 8192, 8193, 12288, 16384, 40000]


def big_history():
    """buffers larger than PIPE_BUF (4096) that really fill up: more than 4096 bytes are pending at the flush points,
    on the descriptor and on the function configuration alike"""
    how = rng.choices(["fd", "func", "both"], [50, 40, 10])[0]
    n = rng.choice(BIG_SIZES)
    h = Hist(n, how, rng.choices(["late", "early"], [70, 30])[0])
    dist["big_history"] += 1
    for _ in range(rng.randint(2, 6)):
        c = rng.random()
        space = h.n - h.cur
        if c < 0.55:
            # leave more than PIPE_BUF pending: up to 1 byte short of the buffer end
            lo = max(1, 4097 - h.cur)
            k = rng.choice([space - 1, space - 1, max(lo, space - rng.randint(2, 40)), max(lo, min(space - 1, rng.randint(lo, lo + 5000)))])
            h.op_write(max(1, k), quirk=False)
        elif c < 0.80:
            h.op_write(rng.choice([space, space + 1, space + 4096, space + 4097, space + h.n - 1, space + h.n, h.n + 4097]), quirk=False)
        elif c < 0.90:
            h.op_title()
        else:
            h.op_pause()
        if h.cur > 4096:
            dist["more_than_PIPE_BUF_pending"] += 1
        if rng.random() < 0.6:
            h.op_flush()
    c = rng.random()
    if c < 0.4: h.op_flush()
    elif c < 0.7: h.op_teardown(); h.op_destroy()
    else: h.op_destroy()
    h.emit()


def random_history():
    how = rng.choices(["func", "fd", "both", "none"], [50, 35, 10, 5])[0]
    h = Hist(pick_size(), how, rng.choices(["late", "early"], [60, 40])[0])
    nops = rng.randint(3, 28)
    # 1 history in 8 changes the buffer size while output may be pending (outside the property; model vs code only)
    wild = rng.random() < 0.125
    for _ in range(nops):
        c = rng.random()
        if c < 0.50: h.op_write()
        elif c < 0.57: h.op_print()
        elif c < 0.63: h.op_printf()
        elif c < 0.70: h.op_title()
        elif c < 0.74: h.op_goto()
        elif c < 0.78: h.op_ctl()
        elif c < 0.92: h.op_flush()
        elif c < 0.95: h.op_pause()
        else: h.op_setbuf(pending_ok=wild)
    c = rng.random()
    if c < 0.25: h.op_flush()
    elif c < 0.45: h.op_teardown(); h.op_destroy()
    elif c < 0.85: h.op_destroy()
    h.emit()


def exhaustive():
    """every history of <= 3 writes of length 0..8, flush or not after each write, for n in 0..6, func and fd (the
    descriptor number cycling through 0, 1, 3, 7, 64, 255); and every such history of <= 2 writes on descriptor 0"""
    count = 0
    cyc = [(0, 4), (1, 0), (3, 1), (7, 0), (64, 5), (255, 1)]
    for n in range(0, 7):
        for how in ("func", "fd", "fd0"):
            for k in range(1, 4 if how != "fd0" else 3):
                for lens in itertools.product(range(0, 9), repeat=k):
                    for fl in itertools.product((0, 1), repeat=k):
                        h = Hist(n, how[:2] if how == "fd0" else how, "late", fds=(0, 3) if how == "fd0" else cyc[count % len(cyc)])
                        for L, f in zip(lens, fl):
                            h.op_write(L, quirk=False)
                            if f: h.op_flush()
                        h.op_destroy()
                        h.emit(); count += 1
    return count


if a.tier == "exhaustive":
    nh = exhaustive()
    bound = "every history of <= 3 writes of length 0..8 x every flush placement x buffer sizes 0..6 x {func, fd}; <= 2 writes x the same x descriptor number 0"
else:
    nh = 700 if a.tier == "quick" else 4000
    nbig = 40 if a.tier == "quick" else 150
    for i in range(nh):
        if i % (nh // nbig) == 0: big_history()
        else: random_history()
    bound = None
open(a.out, "w").write("\n".join(lines) + "\n")
print(json.dumps({"ops": len(lines), "histories": nh, "mix": dict(sorted(dist.items())),
                  "buffer_sizes": {str(k): v for k, v in sorted(sizes_seen.items(), key=lambda kv: str(kv[0]))} if a.tier != "exhaustive" else "0..6",
                  "output_descriptor_numbers": {str(k): v for k, v in sorted(fds_seen.items())} if a.tier != "exhaustive" else "0,1,3,7,64,255",
                  "request_lengths_distinct": len(lens_seen), "exhaustive_bound": bound}))
