#!/usr/bin/env python3
"""Operation generator for engine `evloop` (C17 timers / deferred callbacks / destroy, C18 signals / IO readiness).

All randomness from --seed.  Histories are short (<= ~40 operations), independent, mostly valid usage
(cancel targets are watches that are probably live), adversarial around the boundaries the properties
name: deadlines in the past / exactly now / in the future, equal deadlines, registration and cancel
from inside callbacks (behaviour tables) including of the running watch, the next one and the
previous one of the same batch, signals raised before an iteration / inside the wait / from a
callback, descriptors ready together with due timers and pending signals, callbacks that set errno.

About a fifth of the histories use several toplevel instances (`inst i` / `use i`): watches, iterations
and destruction on each, instances destroyed and rebuilt in any order.  evloop-default.c keeps ONE signal
observer and a process-wide signal mask per process (its own TODO), so such histories stay inside what it
supports: user signal watches and process watches only on the instance that is the signal observer (the first
one built while there is none), no signal raised from a callback, and every raise is followed at once by an
iteration of the observer with no descriptor ready.  What happens outside that is probed by corpus/C18/multi_*.ops.

About a quarter of the single-instance histories run in the self-pipe configuration (`new Cnn fb`: the default hooks
without their signal members, so that tickit.c's sigaction + self-pipe fallback is used).  Signals are not blocked
there; the interesting arrivals are those *during dispatch*: signal callbacks raise the signal being dispatched,
another watched one, or cancel watchers (themselves, the next, the previous one).

--tier exhaustive enumerates every history of a small scope (see `exhaustive()`).
Prints one JSON line with the distribution actually produced.
"""
import argparse, random, json, itertools, collections

ap = argparse.ArgumentParser()
ap.add_argument("--seed", type=int, default=1)
ap.add_argument("--tier", default="quick")
ap.add_argument("--out", required=True)
ap.add_argument("--prop", default="C17")
a = ap.parse_args()
rng = random.Random(a.seed * 7919 + (17 if a.prop == "C17" else 18))

SIGS = [1, 10, 12, 23]          # SIGHUP SIGUSR1 SIGUSR2 SIGURG  (17 = SIGCHLD only through process watches)
FDS = list(range(100, 106))
PIDS = list(range(1000000000, 1000000004))
PIDS8 = list(range(1000000000, 1000000008))   # the harness knows eight virtual children
T0 = 1000 * 1000000             # the harness's clock starts at 1000 s

stats = collections.Counter()
lines = []


class Hist:
    """One history under construction; tracks what the generator believes about it."""

    def __init__(self, focus, fb=False):
        self.focus = focus
        self.fb = fb
        self.ops = ["new " + a.prop + (" fb" if fb else "")]
        self.next_slot = 0
        self.clock = T0
        self.reg = {}            # slot -> kind, for every slot that may get registered
        self.top_live = []       # slots registered at top level and not cancelled / probably not fired
        self.persistent = []     # io / signal slots registered at top level
        self.watched_sigs = set()
        self.io_fds = set()
        self.depth_budget = 6    # watches registered from inside behaviours
        # several toplevel instances
        self.multi = False
        self.cur = 0             # instance operated on
        self.alive = {0}
        self.observer = 0        # the instance evloop_init made the signal observer (None: nobody)
        self.inst_of = {}        # slot -> instance
        self.ready_set = set()   # descriptors with a non-zero readiness script

    def restricted(self):
        """is the current instance one that must not watch signals / processes (not the observer)?"""
        return self.multi and self.cur != self.observer

    def slot(self, kind):
        k = self.next_slot
        self.next_slot += 1
        self.reg[k] = kind
        self.inst_of[k] = self.cur
        return k

    # ---- deadlines
    def deadline_action(self, k, flags):
        """a timer registration as an action token (inside a callback)"""
        c = rng.random()
        if c < 0.30:
            stats["cb_timer_now"] += 1
            return f"T,{k},0,{flags}"
        if c < 0.50:
            stats["cb_timer_future"] += 1
            return f"T,{k},{rng.choice([1, 5, 10, 1500, 400, 900])},{flags}"
        if c < 0.80:
            stats["cb_timer_past"] += 1
            us = self.clock - rng.choice([1, 1000, 5000000])
            return f"A,{k},{us // 1000000},{us % 1000000},{flags}"
        stats["cb_timer_at_equal"] += 1
        us = self.clock + rng.choice([0, 5000, 10000])
        return f"A,{k},{us // 1000000},{us % 1000000},{flags}"

    def flags(self):
        c = rng.random()
        f = 0
        if c < 0.35: f = 0
        elif c < 0.55: f = 2
        elif c < 0.75: f = 4
        elif c < 0.90: f = 6
        else: f = rng.choice([1, 3, 5, 7])
        stats[f"flags_{f}"] += 1
        return f

    # ---- behaviours
    def gen_actions(self, owner, kind, depth, behs):
        """action list for one FIRE invocation of watch `owner`"""
        acts = []
        n = rng.choice([1, 1, 2, 2, 3])
        for _ in range(n):
            c = rng.random()
            if self.fb and kind == "signal" and self.watched_sigs and rng.random() < 0.35:
                # arrival while signal callbacks run (self-pipe configuration: the handler runs at once)
                s = rng.choice(sorted(self.watched_sigs))
                stats["fb_act_raise_in_signal_cb"] += 1
                acts.append(f"R,{s}")
                continue
            if c < 0.40 and self.depth_budget > 0:
                self.depth_budget -= 1
                acts.append(self.gen_reg_action(depth + 1, behs))
            elif c < 0.65:
                acts.append(self.gen_cancel_action(owner, kind))
            elif c < 0.80:
                e = rng.choice([5, 11, 4, 0, 2])
                stats["act_errno"] += 1
                acts.append(f"E,{e}")
            elif c < 0.90 and self.watched_sigs and not self.multi:
                s = rng.choice(sorted(self.watched_sigs))
                stats["act_raise"] += 1
                acts.append(f"R,{s}")
            elif c < 0.93:
                stats["act_exit"] += 1
                acts.append(f"X,{rng.choice(PIDS)},{rng.choice([0, 256, 9])}")
            elif c < 0.97:
                stats["act_stop"] += 1
                acts.append("K")
            else:
                acts.append(self.gen_reg_action(depth + 1, behs) if self.depth_budget > 0 else "E,0")
                self.depth_budget -= 1
        return acts

    def gen_cancel_action(self, owner, kind):
        c = rng.random()
        cands = [k for k in self.reg if k != owner and self.inst_of[k] == self.inst_of[owner]]
        if c < 0.15 and kind in ("io", "signal"):
            stats["cancel_self_persistent"] += 1
            return f"C,{owner}"
        if c < 0.20:
            stats["cancel_self_oneshot"] += 1
            return f"C,{owner}"
        if c < 0.55 and [k for k in cands if k > owner]:
            stats["cancel_later_slot"] += 1
            return f"C,{rng.choice([k for k in cands if k > owner])}"
        if cands:
            same = [k for k in cands if self.reg[k] == kind]
            stats["cancel_other"] += 1
            return f"C,{rng.choice(same if same and rng.random() < 0.6 else cands)}"
        return f"C,{owner + 50}"

    def gen_reg_action(self, depth, behs):
        kinds = ["timer", "timer", "later", "later", "io", "signal", "process"] if self.focus == "C17" else \
                ["timer", "later", "io", "io", "signal", "signal", "process"]
        if self.restricted():
            kinds = [x for x in kinds if x not in ("signal", "process")]
        kind = rng.choice(kinds)
        k = self.slot(kind)
        f = self.flags()
        stats["reg_in_cb_" + kind] += 1
        if kind == "timer":
            act = self.deadline_action(k, f)
        elif kind == "later":
            act = f"L,{k},{f}"
        elif kind == "io":
            fd = rng.choice(FDS)
            act = f"I,{k},{fd},{rng.choice([1, 1, 2, 3, 5, 7])},{f}"
        elif kind == "signal":
            s = rng.choice(SIGS)
            self.watched_sigs.add(s)
            act = f"S,{k},{s},{f}"
        else:
            act = f"P,{k},{rng.choice(PIDS)},{f}"
        if depth < 3 and rng.random() < 0.35:
            self.add_beh(k, kind, depth, behs)
        return act

    def add_beh(self, k, kind, depth, behs):
        ns = [0] if kind in ("timer", "later", "process") else rng.choice([[0], [0, 1], [1]])
        for n in ns:
            acts = self.gen_actions(k, kind, depth, behs)
            behs.append(f"beh {k} {n} " + " ".join(acts))
            stats["beh"] += 1

    # ---- top-level registration
    def reg_top(self, kind=None):
        if kind is None:
            kinds = ["timer", "timer", "timer", "later", "later", "io", "signal", "process"] if self.focus == "C17" else \
                    ["timer", "later", "io", "io", "signal", "signal", "signal", "process"]
            if self.restricted():
                kinds = [x for x in kinds if x not in ("signal", "process")]
            kind = rng.choice(kinds)
        k = self.slot(kind)
        f = self.flags()
        behs = []
        if rng.random() < (0.55 if kind in ("timer", "later") else 0.45):
            self.add_beh(k, kind, 0, behs)
        stats["reg_top_" + kind] += 1
        if kind == "timer":
            c = rng.random()
            if c < 0.25:
                op = f"timer {k} 0 {f}"; stats["top_timer_now"] += 1
            elif c < 0.55:
                op = f"timer {k} {rng.choice([1, 5, 5, 10, 10, 1500, 300, 700, 999])} {f}"; stats["top_timer_future"] += 1
            elif c < 0.70:
                us = self.clock - rng.choice([1, 1000, 3000000]); stats["top_timer_past"] += 1
                op = f"timer_at {k} {us // 1000000} {us % 1000000} {f}"
            else:
                us = self.clock + rng.choice([0, 5000, 5000, 10000, 10000]); stats["top_timer_at_equal"] += 1
                op = f"timer_at {k} {us // 1000000} {us % 1000000} {f}"
        elif kind == "later":
            op = f"later {k} {f}"
        elif kind == "io":
            fd = rng.choice(FDS)
            self.io_fds.add(fd)
            op = f"io {k} {fd} {rng.choice([1, 1, 2, 3, 5, 7])} {f}"
            self.persistent.append(k)
        elif kind == "signal":
            s = rng.choice(SIGS)
            self.watched_sigs.add(s)
            op = f"signal {k} {s} {f}"
            self.persistent.append(k)
        else:
            op = f"process {k} {rng.choice(PIDS)} {f}"
        self.ops += behs
        self.ops.append(op)
        self.top_live.append(k)

    def step(self):
        c = rng.random()
        w = {"C17": [0.28, 0.08, 0.22, 0.06, 0.05, 0.03, 0.03, 0.05], "C18": [0.20, 0.07, 0.10, 0.20, 0.18, 0.05, 0.03, 0.05]}[self.focus]
        # thresholds: register, cancel, clock, ready, raise/inpoll, exit, tickhang, run (rest: tick)
        t = list(itertools.accumulate(w))
        if c < t[0]:
            self.reg_top()
        elif c < t[1]:
            mine = [k for k in self.top_live if self.inst_of[k] == self.cur]
            if mine and rng.random() < 0.85:
                k = rng.choice(mine)
                self.top_live.remove(k)
                stats["cancel_top_live"] += 1
            elif [k for k in self.reg if self.inst_of[k] == self.cur]:
                k = rng.choice([k for k in self.reg if self.inst_of[k] == self.cur])
                stats["cancel_top_any"] += 1
            else:
                k = 90
            self.ops.append(f"cancel {k}")
        elif c < t[2]:
            us = rng.choice([1, 999, 1000, 5000, 5000, 10000, 10000, 1500000, 733337, 260001, 999999])
            self.clock += us
            self.ops.append(f"clock {us}")
            stats["clock"] += 1
        elif c < t[3]:
            fd = rng.choice(sorted(self.io_fds)) if self.io_fds and rng.random() < 0.8 else rng.choice(FDS)
            bits = rng.choice([1, 1, 1, 4, 5, 16, 8, 32, 0, 0, 17])
            self.ops.append(f"ready {fd} {bits}")
            (self.ready_set.add if bits else self.ready_set.discard)(fd)
            stats["ready"] += 1
        elif c < t[4]:
            if self.multi:
                self.raise_group()
            elif self.watched_sigs:
                s = rng.choice(sorted(self.watched_sigs))
                if rng.random() < 0.5:
                    self.ops.append(f"raise {s}"); stats["raise_pre"] += 1
                else:
                    self.ops.append(f"inpoll {s}"); stats["raise_inpoll"] += 1
                if len(self.watched_sigs) > 1 and rng.random() < 0.4:
                    s2 = rng.choice(sorted(self.watched_sigs - {s}))
                    self.ops.append(f"raise {s2}"); stats["raise_second_signal"] += 1
            else:
                self.reg_top("signal")
        elif c < t[5]:
            self.ops.append(f"exit {rng.choice(PIDS)} {rng.choice([0, 256, 9])}")
            if self.multi:
                if not self.restricted() and rng.random() < 0.8:
                    self.raise_group(17)
            elif rng.random() < 0.8:
                self.ops.append("raise 17")
            stats["exit"] += 1
        elif c < t[6]:
            self.ops.append("tickhang"); stats["tickhang"] += 1
        elif c < t[7]:
            self.ops.append("run"); stats["run"] += 1
        else:
            self.ops.append("tick"); stats["tick"] += 1

    def finish(self):
        for _ in range(rng.choice([1, 2, 2, 3])):
            self.ops.append("tick"); stats["tick"] += 1
        if rng.random() < 0.75:
            self.ops.append("destroy"); stats["destroy"] += 1
        self.ops.append("end")

    # ---- several toplevel instances
    def raise_group(self, sig=None):
        """a signal for the observer, delivered at once: nothing ready, raise (now or inside the wait), one iteration"""
        if self.restricted() or (sig is None and not self.watched_sigs):
            return
        for fd in sorted(self.ready_set):
            self.ops.append(f"ready {fd} 0")
        self.ready_set.clear()
        s = sig if sig is not None else rng.choice(sorted(self.watched_sigs))
        if rng.random() < 0.5:
            self.ops.append(f"raise {s}"); stats["multi_raise_pre"] += 1
        else:
            self.ops.append(f"inpoll {s}"); stats["multi_raise_inpoll"] += 1
        self.ops.append(rng.choice(["tick", "tick", "tickhang"]))

    def switch(self, i):
        if i == self.cur and i in self.alive:
            return
        if i in self.alive:
            self.ops.append(f"use {i}" if rng.random() < 0.8 else f"inst {i}")
        else:
            self.ops.append(f"inst {i}")
            self.alive.add(i)
            stats["multi_build"] += 1
            if self.observer is None:
                self.observer = i
                stats["multi_new_observer"] += 1
        self.cur = i

    def destroy_cur(self):
        self.ops.append("destroy")
        stats["multi_destroy_observer" if self.cur == self.observer else "multi_destroy_other"] += 1
        self.alive.discard(self.cur)
        if self.observer == self.cur:
            self.observer = None
            self.watched_sigs = set()
        self.top_live = [k for k in self.top_live if self.inst_of[k] != self.cur]
        self.persistent = [k for k in self.persistent if self.inst_of[k] != self.cur]

    def finish_multi(self):
        order = sorted(self.alive)
        rng.shuffle(order)
        for i in order:
            self.switch(i)
            self.ops.append("tick"); stats["tick"] += 1
            if rng.random() < 0.8:
                self.destroy_cur()
        self.ops.append("end")


def multi_history(focus):
    """several toplevel instances: segments of operations on one instance at a time"""
    h = Hist(focus)
    h.multi = True
    for _ in range(rng.choice([1, 2, 2, 3])):
        h.reg_top()
    if rng.random() < 0.7:
        h.reg_top("signal")
    nseg = rng.choice([2, 3, 3, 4, 5])
    for _ in range(nseg):
        if len(h.ops) > 40:
            break
        c = rng.random()
        if c < 0.55 or not h.alive:
            # an instance other than the observer (built now when it does not exist)
            others = [i for i in range(3) if i != h.observer]
            h.switch(rng.choice(others) if h.observer is not None and h.observer in h.alive else rng.choice(range(3)))
        elif h.observer is not None and h.observer in h.alive:
            h.switch(h.observer)
        else:
            h.switch(rng.choice(range(3)))
        if not [k for k in h.top_live if h.inst_of[k] == h.cur]:
            h.reg_top()
        for _ in range(rng.randint(1, 6)):
            h.step()
        if h.cur != h.observer and rng.random() < 0.5:
            h.ops.append("tick"); stats["tick"] += 1
            h.destroy_cur()
        elif h.cur == h.observer and rng.random() < 0.15:
            h.destroy_cur()
        elif h.cur == h.observer and h.watched_sigs and rng.random() < 0.6:
            h.raise_group()
    # back to the observer: a signal must still reach it whatever happened to the other instances
    if h.observer is not None and h.observer in h.alive and h.watched_sigs:
        h.switch(h.observer)
        h.raise_group()
    h.finish_multi()
    stats["histories"] += 1
    stats["histories_multi"] += 1
    stats["ops_len_%02d" % (len(h.ops) // 10 * 10)] += 1
    return h.ops



def carry_history(focus):
    """relative timers registered at a moment whose microsecond part plus the delay's crosses a second
    (tickit_watch_timer_after_msec adds two timevals), the loop woken after the second boundary and before the
    deadline (a non-blocking iteration, another timer, a deferred callback), equal/nearby absolute deadlines"""
    h = Hist(focus)
    stats["histories_carry"] += 1
    us = rng.choice([600000, 750000, 900000, 999000, 999999, 500001, 999001]) + rng.choice([0, 0, 1, 37, 999])
    us = min(us, 999999)
    h.ops.append(f"clock {us}"); h.clock += us; stats["clock"] += 1
    n = rng.choice([1, 1, 2, 3])
    need = 1000000 - us                      # microseconds to the next whole second
    delays = []
    for i in range(n):
        # a delay whose microsecond part reaches the boundary (and sometimes one that does not)
        lo = (need + 999) // 1000
        ms = rng.choice([lo, lo + 1, min(999, lo + rng.randint(0, 300)), 999, 1000 + lo, rng.randint(1, 999)])
        ms = max(1, ms)
        delays.append(ms)
        k = h.slot("timer")
        f = h.flags()
        behs = []
        if rng.random() < 0.4:
            h.add_beh(k, "timer", 0, behs)
        h.ops += behs
        if rng.random() < 0.25:
            # registered from inside a callback that runs now
            k0 = h.slot("later")
            h.ops.append(f"beh {k0} 0 T,{k},{ms},{f}")
            h.ops.append(f"later {k0} 0")
            h.ops.append("tick"); stats["tick"] += 1
            stats["carry_timer_in_cb"] += 1
        else:
            h.ops.append(f"timer {k} {ms} {f}")
            stats["carry_timer_top"] += 1
        h.top_live.append(k)
        if rng.random() < 0.4:
            # an absolute deadline close to it (just before, equal, just after)
            d = h.clock + ms * 1000 + rng.choice([-1, 0, 1, -1000, 1000])
            k2 = h.slot("timer")
            h.ops.append(f"timer_at {k2} {d // 1000000} {d % 1000000} {h.flags()}")
            h.top_live.append(k2); stats["carry_abs_neighbour"] += 1
    # wake-ups between the second boundary and the deadlines
    first = min(delays) * 1000
    for _ in range(rng.choice([1, 2, 2, 3])):
        c = rng.random()
        if c < 0.6:
            room = first - need
            step = need + (rng.choice([0, 1, room // 2, max(0, room - 1)]) if room > 0 else 0)
            step = max(1, step - (h.clock - (T0 + us)))
            h.ops.append(f"clock {step}"); h.clock += step; stats["clock"] += 1
            h.ops.append("tick"); stats["tick"] += 1; stats["carry_wake_nohang"] += 1
        elif c < 0.8:
            k = h.slot("later"); h.ops.append(f"later {k} {h.flags()}")
            h.ops.append("tickhang"); stats["tickhang"] += 1
        else:
            h.ops.append("tickhang"); stats["tickhang"] += 1
    for _ in range(rng.randint(0, 6)):
        h.step()
    h.ops.append(f"clock {rng.choice([1000000, 2000000, 999999])}")
    h.finish()
    stats["histories"] += 1
    stats["ops_len_%02d" % (len(h.ops) // 10 * 10)] += 1
    return h.ops


def unbind_history(focus):
    """unbind handlers that act: a watch bound with UNBIND is cancelled from outside; its handler registers timers whose
    deadlines fall before / between / equal to / after those of the cancelled timer and its neighbours, deferred
    callbacks (also BIND_FIRST, while the cancelled one is the head of the queue or not), or watches of other kinds"""
    h = Hist(focus)
    stats["histories_unbind"] += 1
    base = h.clock
    offs = [rng.choice([0, 1000, 5000, 5000, 10000, 20000]) for _ in range(rng.choice([1, 2, 3, 3, 4]))]
    timers = []
    for o in sorted(offs) if rng.random() < 0.7 else offs:
        k = h.slot("timer")
        f = rng.choice([2, 2, 6, 3, 0, 4])
        behs = []
        if rng.random() < 0.2:
            h.add_beh(k, "timer", 0, behs)
        h.ops += behs
        d = base + o
        h.ops.append(f"timer_at {k} {d // 1000000} {d % 1000000} {f}" if rng.random() < 0.7 else f"timer {k} {o // 1000} {f}")
        timers.append((k, o)); h.top_live.append(k)
    laters = []
    for _ in range(rng.choice([0, 1, 2, 3])):
        k = h.slot("later")
        f = rng.choice([2, 2, 6, 3, 0])
        h.ops.append(f"later {k} {f}")
        if f & 1: laters.insert(0, k)
        else: laters.append(k)
        h.top_live.append(k)
    others = []
    for _ in range(rng.choice([0, 0, 1, 2])):
        n0 = len(h.ops)
        h.reg_top(rng.choice(["io", "signal", "process"]))
        others.append(h.next_slot - 1)
    # handlers
    cands = [k for k, _ in timers] + laters + others
    rng.shuffle(cands)
    victims = cands[:rng.choice([1, 1, 2, 3])]
    for v in victims:
        acts = []
        for _ in range(rng.choice([1, 1, 2])):
            c = rng.random()
            if c < 0.5:
                n = h.slot("timer")
                o = rng.choice([o for _, o in timers] or [5000]) + rng.choice([-1000, -1, 0, 1, 1000, -3000, 3000])
                d = base + o
                acts.append(f"A,{n},{d // 1000000},{d % 1000000},{h.flags()}" if rng.random() < 0.8 else f"T,{n},{max(0, o // 1000)},{h.flags()}")
                stats["ubeh_timer"] += 1
            elif c < 0.85:
                n = h.slot("later")
                acts.append(f"L,{n},{rng.choice([1, 1, 3, 0, 2, 5])}")
                stats["ubeh_later"] += 1
            else:
                behs = []
                acts.append(h.gen_reg_action(2, behs))
                h.ops += behs
                stats["ubeh_other"] += 1
            if rng.random() < 0.25:
                h.add_beh(n if c < 0.85 else h.next_slot - 1, "timer", 1, h.ops)
        h.ops.append(f"ubeh {v} " + " ".join(acts)); stats["ubeh"] += 1
    for _ in range(rng.randint(0, 2)):
        h.step()
    order = victims[:]
    rng.shuffle(order)
    for v in order:
        if rng.random() < 0.9:
            h.ops.append(f"cancel {v}"); stats["cancel_top_ubeh"] += 1
            if v in h.top_live: h.top_live.remove(v)
        if rng.random() < 0.4:
            h.ops.append(rng.choice(["tick", "clock 5000", "clock 1000", "tickhang"]))
    for _ in range(rng.randint(0, 4)):
        h.step()
    h.ops.append(f"clock {rng.choice([5000, 10000, 30000])}")
    h.finish()
    stats["histories"] += 1
    stats["ops_len_%02d" % (len(h.ops) // 10 * 10)] += 1
    return h.ops


def winch_history(focus):
    """stand-alone terminals observing SIGWINCH next to the instance (`new … tt`): a second terminal joins / leaves the
    observers (tickit_term_observe_sigwinch) after the loop has started watching SIGWINCH; the signal then arrives
    before the next iteration, inside the wait, or from a callback"""
    h = Hist(focus)
    h.ops[0] += " tt"
    stats["histories_tt"] += 1
    observing = False
    for _ in range(rng.choice([0, 1, 1, 2])):
        k = h.slot("signal"); f = h.flags(); behs = []
        if rng.random() < 0.3:
            h.add_beh(k, "signal", 0, behs)
        h.ops += behs
        h.ops.append(f"signal {k} 28 {f}")
        h.watched_sigs.add(28); h.persistent.append(k); h.top_live.append(k)
    for _ in range(rng.choice([0, 1, 2])):
        h.reg_top()
    for _ in range(rng.choice([1, 2, 2, 3])):
        c = rng.random()
        if c < 0.75:
            observing = not observing
        h.ops.append(f"obs {1 if observing else 0}"); stats["obs"] += 1
        for _ in range(rng.randint(0, 2)):
            h.step()
        c = rng.random()
        if c < 0.5:
            h.ops.append("raise 28"); stats["raise_pre"] += 1
        elif c < 0.75:
            h.ops.append("inpoll 28"); stats["raise_inpoll"] += 1
        elif h.watched_sigs:
            h.ops.append(f"raise {rng.choice(sorted(h.watched_sigs))}"); stats["raise_pre"] += 1
        for _ in range(rng.choice([1, 2, 3])):
            h.ops.append(rng.choice(["tick", "tick", "tick", "tickhang"])); stats["tick"] += 1
        if len(h.ops) > 36:
            break
    h.finish()
    stats["histories"] += 1
    stats["ops_len_%02d" % (len(h.ops) // 10 * 10)] += 1
    return h.ops


def sigchld_history(focus):
    """SIGCHLD watched by the application next to process watches: the library's own SIGCHLD watcher (it reaps the
    children and invokes the process watches) runs among the user's watchers of the same signal; four and more
    live process watches; children exit, the signal arrives before / inside the wait / from a callback"""
    fb = rng.random() < 0.15
    h = Hist(focus, fb)
    stats["histories_sigchld"] += 1
    if fb:
        stats["histories_fb"] += 1

    def user17():
        k = h.slot("signal")
        f = h.flags()
        behs = []
        if rng.random() < 0.35:
            h.add_beh(k, "signal", 0, behs)
        h.ops += behs
        h.ops.append(f"signal {k} 17 {f}")
        h.watched_sigs.add(17)
        h.persistent.append(k); h.top_live.append(k)
        stats["reg_top_signal_sigchld"] += 1

    def proc(pid):
        k = h.slot("process")
        f = h.flags()
        behs = []
        if rng.random() < 0.3:
            h.add_beh(k, "process", 0, behs)
        h.ops += behs
        h.ops.append(f"process {k} {pid} {f}")
        h.top_live.append(k)
        stats["reg_top_process"] += 1

    for _ in range(rng.choice([0, 1, 1, 2])):
        user17()
    if rng.random() < 0.3:
        h.reg_top("signal")
    pids = PIDS8[:]
    rng.shuffle(pids)
    nproc = rng.choice([1, 2, 3, 4, 4, 5, 5, 6, 7, 8])
    watched = pids[:nproc]
    first = rng.randint(1, nproc)
    for p in watched[:first]:
        proc(p)
    for _ in range(rng.choice([1, 1, 2, 3])):
        user17()
    for p in watched[first:]:
        proc(p)
    if rng.random() < 0.3:
        proc(rng.choice(watched))          # two watches of one child
    if rng.random() < 0.3:
        user17()
    for _ in range(rng.choice([1, 2, 2, 3])):
        for p in rng.sample(watched, rng.randint(1, min(3, len(watched)))):
            h.ops.append(f"exit {p} {rng.choice([0, 256, 9])}"); stats["exit"] += 1
        c = rng.random()
        if c < 0.45:
            h.ops.append("raise 17"); stats["raise_pre"] += 1
        elif c < 0.85:
            h.ops.append("inpoll 17"); stats["raise_inpoll"] += 1
        h.ops.append(rng.choice(["tick", "tick", "tickhang"])); stats["tick"] += 1
        for _ in range(rng.randint(0, 3)):
            h.step()
        if len(h.ops) > 40:
            break
    h.finish()
    stats["histories"] += 1
    stats["ops_len_%02d" % (len(h.ops) // 10 * 10)] += 1
    return h.ops

def longdelay_history(focus):
    """relative timers whose delay in milliseconds, multiplied by 1000, does not fit a C int (above INT_MAX/1000 ms,
    about 35.8 minutes: 36 min .. 24 days), registered from outside or from a callback, next to short ones; the loop
    iterates at once, again after a clock advance that stays before the deadline, and after the deadline"""
    h = Hist(focus)
    stats["histories_longdelay"] += 1
    if rng.random() < 0.5:
        us = rng.choice([1, 999, 500001, 999999]); h.ops.append(f"clock {us}"); h.clock += us
    longs = []
    for _ in range(rng.choice([1, 1, 2])):
        ms = rng.choice([2147484, 2147483, 2147485, 40 * 60 * 1000, 36 * 60 * 1000 + rng.randint(0, 999), 3600 * 1000,
                         4294968, 4294967, 6442451, 86400 * 1000, rng.randint(2147484, 2000000000), 2147483647])
        k = h.slot("timer"); f = h.flags()
        behs = []
        if rng.random() < 0.3:
            h.add_beh(k, "timer", 0, behs)
        h.ops += behs
        if rng.random() < 0.25:
            k0 = h.slot("later")
            h.ops.append(f"beh {k0} 0 T,{k},{ms},{f}")
            h.ops.append(f"later {k0} 0")
            stats["longdelay_in_cb"] += 1
        else:
            h.ops.append(f"timer {k} {ms} {f}"); stats["longdelay_top"] += 1
        longs.append((k, h.clock + ms * 1000))
        if rng.random() < 0.5:
            h.reg_top("timer")
    h.ops.append("tick"); stats["tick"] += 1
    for _ in range(rng.randint(0, 3)):
        h.step()
    first = min(d for _, d in longs)
    # stay before the first long deadline
    room = first - h.clock
    if room > 10000000 and room < 2000000000000:
        step = rng.choice([room // 2, room - 5000000, 1000000, 2147483648 if room > 2200000000 else 1000000])
        h.ops.append(f"clock {step}"); h.clock += step; stats["clock"] += 1
        h.ops.append(rng.choice(["tick", "tick", "tickhang"])); stats["tick"] += 1
        if rng.random() < 0.5:
            k, _d = rng.choice(longs)
            if k in h.top_live: h.top_live.remove(k)
            h.ops.append(f"cancel {k}"); stats["longdelay_cancel"] += 1
        elif h.clock < first:
            step = first - h.clock + rng.choice([-1, 0, 1, 1000])
            h.ops.append(f"clock {step}"); h.clock += step; stats["clock"] += 1
            h.ops.append("tick"); h.ops.append("tick"); stats["tick"] += 2
    h.finish()
    stats["histories"] += 1
    stats["ops_len_%02d" % (len(h.ops) // 10 * 10)] += 1
    return h.ops


def blocked_history(focus):
    """the application has signals blocked in its own mask when the instance is built (`new Cnn blk=…`: a threaded
    program that blocks signals in main), then watches them: every delivery - before an iteration, inside the wait,
    from a callback - must still reach the watchers within the next iterations"""
    h = Hist(focus)
    stats["histories_blocked"] += 1
    sigs = rng.sample(SIGS, rng.choice([1, 1, 2]))
    if rng.random() < 0.2:
        sigs.append(28)                      # SIGWINCH, which the instance itself watches
    h.ops[0] += " blk=" + ",".join(str(x) for x in sigs)
    mine = [x for x in sigs if x != 28]
    for sg in mine:
        for _ in range(rng.choice([1, 1, 2])):
            k = h.slot("signal"); f = h.flags()
            behs = []
            if rng.random() < 0.3:
                h.add_beh(k, "signal", 0, behs)
            h.ops += behs
            h.ops.append(f"signal {k} {sg} {f}")
            h.persistent.append(k); h.top_live.append(k); h.watched_sigs.add(sg)
            stats["reg_top_signal"] += 1
    if rng.random() < 0.4:
        h.reg_top()
    for _ in range(rng.choice([1, 2, 3])):
        sg = rng.choice(mine)
        c = rng.random()
        if c < 0.45:
            h.ops.append(f"raise {sg}"); stats["raise_pre"] += 1
        elif c < 0.8:
            h.ops.append(f"inpoll {sg}"); stats["raise_inpoll"] += 1
        else:
            k = h.slot("later")
            h.ops.append(f"beh {k} 0 R,{sg}")
            h.ops.append(f"later {k} 0"); stats["act_raise"] += 1
        h.ops.append(rng.choice(["tick", "tick", "tickhang"])); stats["tick"] += 1
        if rng.random() < 0.5:
            h.ops.append("tick"); stats["tick"] += 1
    for _ in range(rng.randint(0, 6)):
        h.step()
    h.finish()
    stats["histories"] += 1
    stats["ops_len_%02d" % (len(h.ops) // 10 * 10)] += 1
    return h.ops


def random_history(focus):
    c = rng.random()
    if c < 0.2:
        return multi_history(focus)
    if c < 0.28:
        return carry_history(focus)
    if c < 0.36:
        return sigchld_history(focus)
    if c < 0.42:
        return winch_history(focus)
    if c < 0.52:
        return unbind_history(focus)
    if c < 0.56 and focus == "C17":
        return longdelay_history(focus)
    if c < 0.58 and focus == "C18":
        return blocked_history(focus)
    fb = rng.random() < 0.25
    h = Hist(focus, fb)
    if fb:
        stats["histories_fb"] += 1
        for _ in range(rng.choice([1, 2, 2, 3])):
            h.reg_top("signal")
    for _ in range(rng.choice([1, 2, 2, 3, 4])):
        h.reg_top()
    n = rng.randint(4, 22)
    for _ in range(n):
        h.step()
        if len(h.ops) > 36:
            break
    h.finish()
    stats["histories"] += 1
    stats["ops_len_%02d" % (len(h.ops) // 10 * 10)] += 1
    return h.ops


# ------------------------------------------------------------------------------------------ exhaustive

def exhaustive(prop):
    """Small-scope enumeration.

    C17: two or three one-shot watches chosen from {timer past, timer now, timer +5ms, timer +5ms (equal), later},
         the behaviour of the first and of the second drawn from
         {none, register timer past / now / +5ms, register later, cancel the other, cancel the third};
         then tick, clock +5ms, tick, tick, destroy, end.
    C18: {timer due?} x {later pending?} x {descriptor ready?} x {signal: none / raised before / inside the wait /
         from the timer callback / from the later callback} x {errno set by the timer callback / the later callback / not}
         x {one watcher, two watchers, first cancels second, first cancels itself}; tick, tick, tick, destroy, end.
    """
    out = []
    if prop == "C17":
        past = T0 - 1000
        eq = T0 + 5000
        WATCH = {
            "past": lambda k, f: f"timer_at {k} {past // 1000000} {past % 1000000} {f}",
            "now": lambda k, f: f"timer {k} 0 {f}",
            "fut": lambda k, f: f"timer {k} 5 {f}",
            "eq": lambda k, f: f"timer_at {k} {eq // 1000000} {eq % 1000000} {f}",
            "later": lambda k, f: f"later {k} {f}",
        }
        BEH = {
            "none": lambda me, other, third: None,
            "Tpast": lambda me, other, third: f"A,{me + 10},{past // 1000000},{past % 1000000},4",
            "Tnow": lambda me, other, third: f"T,{me + 10},0,4",
            "Tfut": lambda me, other, third: f"T,{me + 10},5,4",
            "L": lambda me, other, third: f"L,{me + 10},4",
            "Cother": lambda me, other, third: f"C,{other}",
            "Cthird": lambda me, other, third: f"C,{third}",
        }
        for n in (2, 3):
            for ws in itertools.product(WATCH, repeat=n):
                for b0, b1 in itertools.product(BEH, repeat=2):
                    if n == 2 and "Cthird" in (b0, b1):
                        continue
                    ops = ["new " + prop]
                    a0 = BEH[b0](0, 1, 2)
                    a1 = BEH[b1](1, 0, 2)
                    if a0: ops.append(f"beh 0 0 {a0}")
                    if a1: ops.append(f"beh 1 0 {a1}")
                    for k, w in enumerate(ws):
                        ops.append(WATCH[w](k, 2 if k == 2 else 6))
                    ops += ["tick", "clock 5000", "tick", "tick", "destroy", "end"]
                    out.append(ops)
    else:
        for timer, later, fd, sig, err, shape in itertools.product(
                (0, 1), (0, 1), (0, 1), ("none", "pre", "in", "cbt", "cbl"), ("none", "t", "l"),
                ("one", "two", "cancel2", "cancelself", "stop", "stop2sig")):
            if sig == "cbt" and not timer: continue
            if sig == "cbl" and not later: continue
            if err == "t" and not timer: continue
            if err == "l" and not later: continue
            ops = ["new " + prop]
            tacts, lacts = [], []
            if err == "t": tacts.append("E,11")
            if err == "l": lacts.append("E,11")
            if sig == "cbt": tacts.append("R,23")
            if sig == "cbl": lacts.append("R,23")
            if tacts: ops.append("beh 0 0 " + " ".join(tacts))
            if lacts: ops.append("beh 1 0 " + " ".join(lacts))
            if shape == "cancel2": ops.append("beh 3 0 C,4")
            if shape == "cancelself": ops.append("beh 3 0 C,3")
            if shape in ("stop", "stop2sig"): ops.append("beh 5 0 K")
            if shape in ("stop", "stop2sig"): ops.append("signal 5 10 0")
            ops.append("signal 3 23 2")
            if shape not in ("one", "stop2sig"): ops.append("signal 4 23 6")
            ops.append("io 2 100 1 6")
            if timer: ops.append("timer 0 0 0")
            if later: ops.append("later 1 0")
            if fd: ops.append("ready 100 1")
            if sig == "pre": ops.append("raise 23")
            if sig == "in": ops.append("inpoll 23")
            if shape == "stop2sig" and sig != "none": ops.append("raise 10")
            ops += ["tick", "ready 100 0", "tick", "tick", "destroy", "end"]
            out.append(ops)
    return out + exhaustive_multi(prop) + exhaustive_fb(prop)


def exhaustive_fb(prop):
    """The self-pipe configuration, small scope (C18 only).

    Watchers: 3 (signal 23, first) and 4 (signal 23, behind it) and 5 (signal 10);
    {timer due?} x {descriptor ready?} x
    {arrival: 23 before the iteration / inside the wait / from the timer callback / from watcher 3 itself (re-raise during
     dispatch) / 10 from watcher 3 (another signal during dispatch) / 23 from watcher 5 (earlier signal's callback), /
     both before} x {shape: plain, 3 cancels 4, 3 cancels itself, 4 cancels 3, 5 cancels 3};  tick x4, destroy, end.
    """
    out = []
    if prop != "C18":
        return out
    for timer, fd, arr, shape in itertools.product(
            (0, 1), (0, 1), ("pre", "in", "cbt", "self", "other", "from5", "both"),
            ("plain", "c34", "c33", "c43", "c53")):
        if arr == "cbt" and not timer: continue
        ops = ["new " + prop + " fb"]
        a3, a4, a5 = [], [], []
        if arr == "self": a3.append("R,23")
        if arr == "other": a3.append("R,10")
        if arr == "from5": a5.append("R,23")
        if shape == "c34": a3.append("C,4")
        if shape == "c33": a3.append("C,3")
        if shape == "c43": a4.append("C,3")
        if shape == "c53": a5.append("C,3")
        if arr == "cbt": ops.append("beh 0 0 R,23")
        if a3: ops.append("beh 3 0 " + " ".join(a3))
        if a4: ops.append("beh 4 0 " + " ".join(a4))
        if a5: ops.append("beh 5 0 " + " ".join(a5))
        ops += ["signal 3 23 2", "signal 4 23 6", "signal 5 10 0", "io 2 100 1 6"]
        if timer: ops.append("timer 0 0 0")
        if fd: ops.append("ready 100 1")
        if arr in ("pre", "self", "other", "both"): ops.append("raise 23")
        if arr in ("from5", "both"): ops.append("raise 10")
        if arr == "in": ops.append("inpoll 23")
        ops += ["tick", "ready 100 0", "tick", "tick", "tick", "destroy", "end"]
        out.append(ops)
    return out


def exhaustive_multi(prop):
    """Several toplevel instances, small scope (inside what the default loop supports: signals on the observer only).

    C18: the observer O (instance 0, or a later instance after 0 was destroyed) has one or two signal watchers;
         a second instance is {never built, built before the watch, built after the watch} and then
         {left alone, given a due timer and an iteration, destroyed, destroyed and rebuilt};
         the signal arrives {before the observer's iteration, inside its wait} x {a timer of the observer due or not};
         then two iterations of the observer, everything destroyed in either order.
    C17: two instances with a timer / deferred callback / io watch each (all flag combinations asking for notifications),
         one iteration each, destroyed in either order: every instance's remaining watches are notified by its own
         destruction only.
    """
    out = []
    if prop == "C18":
        for obs, second, what, sig, timer, two in itertools.product(
                ("first", "rebuilt", "third"), ("none", "before", "after"), ("alone", "tick", "destroy", "rebuild"),
                ("pre", "in"), (0, 1), (0, 1)):
            if second == "none" and what != "alone":
                continue
            ops = ["new " + prop]
            o = 0
            if obs == "rebuilt":
                ops += ["destroy", "inst 0"]                   # a fresh instance 0 becomes the observer again
            elif obs == "third":
                ops += ["inst 1", "use 0", "destroy", "inst 2"]  # 1 lives on and never observes; 2 takes over
                o = 2
            other = 1 if obs != "third" else 0
            if obs == "third" and second != "none":
                # the second instance of this scenario is number 0, built anew
                pass
            def build_second():
                r = [f"inst {other}"]
                if what == "tick":
                    r += ["timer 20 0 6", "tick"]
                elif what == "destroy":
                    r += ["later 20 4", "tick", "destroy"]
                elif what == "rebuild":
                    r += ["destroy", f"inst {other}", "io 20 101 1 6"]
                return r + [f"use {o}"]
            if second == "before":
                ops += build_second()
            ops.append("signal 3 23 2")
            if two:
                ops.append("signal 4 23 6")
            if second == "after":
                ops += build_second()
            if timer:
                ops.append("timer 0 0 0")
            ops.append("raise 23" if sig == "pre" else "inpoll 23")
            ops += ["tick", "tick"]
            alive = [o]
            if second != "none" and what != "destroy":
                alive.append(other)
            if obs == "third":
                if 1 not in alive: alive.append(1)
            for i in (alive if timer else alive[::-1]):
                ops += [f"use {i}", "destroy"]
            ops.append("end")
            out.append(ops)
    else:
        KINDS = {"timer": lambda k, f: f"timer {k} 5 {f}", "due": lambda k, f: f"timer {k} 0 {f}",
                 "later": lambda k, f: f"later {k} {f}", "io": lambda k, f: f"io {k} 100 1 {f}"}
        for k0, k1, f0, f1, order in itertools.product(KINDS, KINDS, (0, 2, 4, 6), (4, 6), (0, 1)):
            ops = ["new " + prop, KINDS[k0](0, f0), KINDS["timer"](1, f1), "inst 1", KINDS[k1](2, f1), KINDS["later"](3, f0),
                   "later 4 0", "tick", "use 0", "tick"]
            for i in ((0, 1) if order else (1, 0)):
                ops += [f"use {i}", "destroy"]
            ops.append("end")
            out.append(ops)
    return out


# ------------------------------------------------------------------------------------------ main

if a.tier == "exhaustive":
    hs = exhaustive(a.prop)
    bound = ("C17: 2-3 one-shot watches from {timer past/now/+5ms/equal deadline, later} x behaviours of the first two from "
             "{none, register timer past/now/future, register later, cancel other, cancel third}; tick, clock, tick, tick, destroy"
             if a.prop == "C17" else
             "C18: {timer due} x {later} x {fd ready} x {signal none/before/inside wait/from timer cb/from later cb} x "
             "{errno set by timer cb/later cb/not} x {1 watcher, 2, first cancels second, first cancels itself, "
             "a watcher that calls tickit_stop, a second lower-numbered signal whose watcher calls tickit_stop}")
    if a.prop == "C18":
        bound += ("; self-pipe configuration (hooks without signal members): {timer due} x {fd ready} x {signal before / inside the wait / "
                  "from the timer callback / re-raised by its own first watcher during dispatch / another watched signal raised "
                  "during dispatch / raised by the callback of an earlier signal / two signals before} x "
                  "{plain, first cancels second, first cancels itself, second cancels first, other signal's watcher cancels first}")
    bound += ("; several toplevel instances: {observer = first instance / instance 0 rebuilt / a third instance after the first was destroyed} x "
              "{second instance never built / built before / after the signal watch} x {left alone / iterated / destroyed / destroyed and rebuilt} x "
              "{signal before the iteration / inside the wait} x {observer's timer due} x {1, 2 watchers}"
              if a.prop == "C18" else
              "; two instances x watch kinds {timer, due timer, later, io} x notification flags x destruction order")
    for h in hs:
        lines += h
    with open(a.out, "w") as f:
        f.write("\n".join(lines) + "\n")
    print(json.dumps({"ops": len(lines), "histories": len(hs), "exhaustive_bound": bound}))
else:
    N = 1500 if a.tier == "quick" else 5000
    other = "C18" if a.prop == "C17" else "C17"
    for i in range(N):
        focus = a.prop if rng.random() < 0.8 else other
        stats["focus_" + focus] += 1
        lines += random_history(focus)
    with open(a.out, "w") as f:
        f.write("\n".join(lines) + "\n")
    d = dict(sorted(stats.items()))
    d["ops"] = len(lines)
    print(json.dumps(d))
