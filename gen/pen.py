#!/usr/bin/env python3
"""Operation generator for engine `pen` (C19).  All randomness from --seed.

Sections (each history starts with `new` and has at most ~40 operations):
  sweep      every attribute through every setter over -300..300 (complete for the setter of the attribute's own
             type, boundary values for the others), each followed by copy / equivattr probes
  pairs      every ordered pair of attributes x presence/value combinations x copy with and without overwrite
  desc       description strings from a grammar: names, name prefixes, hi-, numbers (signs, spaces, overflow),
             #rrggbb tails (short, spaced, signed, 0x, junk), random bytes, every single byte
  random     state-aware random histories over three pens (aliased and distinct operands), boundary-biased values
  exhaustive (tier exhaustive) every history up to a length over a small alphabet
Prints one JSON line with the distribution actually produced.
"""
import argparse, random, json, itertools, collections

ap = argparse.ArgumentParser()
ap.add_argument("--seed", type=int, default=1); ap.add_argument("--tier", default="quick")
ap.add_argument("--out", required=True); ap.add_argument("--prop", default="C19")
a = ap.parse_args()
rng = random.Random(a.seed)

FG, BG, BOLD, UNDER, ITALIC, REVERSE, STRIKE, ALTFONT, BLINK, SIZEPOS = range(1, 11)
N_ATTRS = 11
BOOLS = [BOLD, ITALIC, REVERSE, STRIKE, BLINK]
INTS = [UNDER, ALTFONT, SIZEPOS]
COLOURS = [FG, BG]
VALID = list(range(1, 11))
WIDTH = {FG: (9, True), BG: (9, True), UNDER: (3, True), ALTFONT: (5, True), SIZEPOS: (2, False)}
NAMES = ["black", "red", "green", "yellow", "blue", "magenta", "cyan", "white", "grey", "brown", "orange", "pink", "purple"]

lines = []
hist_len = 0
stats = collections.Counter()
desc_classes = collections.Counter()
value_classes = collections.Counter()


def new():
    global hist_len
    lines.append("new"); hist_len = 0


def emit(s, maxlen=40):
    global hist_len
    if not lines or hist_len >= maxlen:
        new()
    lines.append(s); hist_len += 1
    stats[s.split()[0]] += 1


def hexs(b):
    if isinstance(b, str):
        b = b.encode("latin-1")
    b = bytes(x for x in b if x != 0)
    return b.hex() if b else "-"


def vclass(attr, v):
    if attr in WIDTH:
        w, s = WIDTH[attr]
        lo, hi = (-(1 << (w - 1)), (1 << (w - 1)) - 1) if s else (0, (1 << w) - 1)
        if v in (lo, hi): return "edge"
        if v in (lo - 1, hi + 1): return "just-outside"
        return "inside" if lo <= v <= hi else "outside"
    return "n/a"


def boundary_values(attr):
    out = {-1, 0, 1, 2, 3}
    if attr in WIDTH:
        w, s = WIDTH[attr]
        for k in (w - 1, w, w + 1):
            for d in (-2, -1, 0, 1):
                out.add((1 << k) + d); out.add(-(1 << k) + d)
    out |= {255, 256, 257, -255, -256, -257, 511, 512, -512, -513, 65535, 65536, 1 << 20, -(1 << 20)}
    return sorted(out)


EXH = a.tier == "exhaustive"
# ------------------------------------------------------------------ tables
new(); emit("tables")

# ------------------------------------------------------------------ sweeps
def sweep():
    full = range(-300, 301)
    for attr in range(0, 13):
        for setter, own in (("seti", INTS), ("setc", COLOURS), ("setb", BOOLS + [UNDER])):
            if setter == "setb":
                vals = [0, 1, 2, -1, 256]
            elif attr in own:
                vals = full
            else:
                vals = [-257, -256, -1, 0, 1, 3, 4, 15, 16, 255, 256]
            new()
            for n, v in enumerate(vals):
                emit(f"{setter} 0 {attr} {v}", 36)
                value_classes[vclass(attr, v)] += 1
                k = n % 4
                if k == 0: emit(f"copy 1 0 1", 40)
                elif k == 1: emit(f"equivattr 0 1 {attr}", 40)
                elif k == 2: emit(f"copyattr 2 0 {attr}", 40)
                else: emit(f"equiv 0 1", 40)
if not EXH: sweep()

# ------------------------------------------------------------------ attribute pairs for copy / equiv
def set_op(i, attr, variant):
    """variant 0: absent, 1: default value, 2: non-default value, 3: another non-default value (+rgb for colours)"""
    if variant == 0:
        return []
    if attr in BOOLS:
        return [f"setb {i} {attr} {0 if variant == 1 else 1}"]
    if attr in INTS:
        return [f"seti {i} {attr} {[0, 1, 2][variant - 1]}"]
    ops = [f"setc {i} {attr} {[-1, 5, 5][variant - 1]}"]
    if variant == 3:
        ops.append(f"setrgb {i} {attr} 10 20 30")
    return ops


def pairs(variants):
    for x, y in itertools.product(VALID, VALID):
        for vx, vy, wx, wy in variants:
            for ow in (0, 1):
                new()
                for o in set_op(0, x, vx) + (set_op(0, y, vy) if y != x else []): emit(o)
                for o in set_op(1, x, wx) + (set_op(1, y, wy) if y != x else []): emit(o)
                emit("clone 2 1")
                emit(f"copy 1 0 {ow}")
                emit(f"equivattr 1 0 {x}"); emit(f"equivattr 1 2 {y}")
                emit("equiv 1 0")
                stats["pair_histories"] += 1

if EXH:
    pass
elif a.tier == "quick":
    pairs([(rng.randrange(4), rng.randrange(4), rng.randrange(4), rng.randrange(4)) for _ in range(2)] + [(2, 0, 3, 1)])
else:
    pairs([(rng.randrange(4), rng.randrange(4), rng.randrange(4), rng.randrange(4)) for _ in range(8)] + [(2, 0, 3, 1), (3, 3, 2, 0), (1, 2, 0, 3)])

# ------------------------------------------------------------------ RGB8 near misses: same index, one component differs
def rgb_near_miss():
    for attr in COLOURS:
        for comp in range(3):
            for delta in (1, 128, 255):
                base = [rng.randrange(256) for _ in range(3)]
                other = list(base); other[comp] = (other[comp] + delta) % 256
                idx = rng.choice([-1, 0, 5, 255])
                new()
                emit(f"setc 0 {attr} {idx}"); emit(f"setrgb 0 {attr} {base[0]} {base[1]} {base[2]}")
                emit(f"setc 1 {attr} {idx}"); emit(f"setrgb 1 {attr} {other[0]} {other[1]} {other[2]}")
                emit("equiv 0 1"); emit(f"equivattr 0 1 {attr}")
                emit("clone 2 1"); emit("copy 2 0 1"); emit("equiv 2 0"); emit("copy 1 0 0"); emit("equiv 1 0")
                emit(f"setrgb 1 {attr} {base[0]} {base[1]} {base[2]}"); emit("equiv 0 1")
                stats["rgb_near_miss_histories"] += 1
if not EXH: rgb_near_miss()

# ------------------------------------------------------------------ description strings
def gen_base():
    r = rng.random()
    if r < 0.25:
        n = rng.choice(NAMES); desc_classes["name"] += 1; return n
    if r < 0.35:
        n = rng.choice(NAMES); k = rng.randrange(0, len(n) + 1); desc_classes["name-prefix"] += 1; return n[:k]
    if r < 0.42:
        n = rng.choice(NAMES); desc_classes["name-mangled"] += 1
        return rng.choice([n + "x", n.upper(), n + " ", " " + n, n[:-1] + "z", n + n])
    if r < 0.65:
        desc_classes["number"] += 1
        return str(rng.choice([rng.randrange(0, 16), rng.randrange(0, 256), rng.randrange(-300, 600), 7, 8, 255, 256, -1, -256, -257]))
    if r < 0.75:
        desc_classes["number-odd"] += 1
        n = str(rng.randrange(0, 300))
        return rng.choice(["+" + n, " " + n, "\t\n " + n, "00" + n, "0x" + n, n + "abc", n + " ", "-" + n, "--" + n, "+-" + n, "- " + n, n + "e2", n + ".5", "\x0b\x0c\r" + n])
    if r < 0.85:
        desc_classes["number-overflow"] += 1
        return rng.choice(["2147483647", "2147483648", "2147483655", "-2147483648", "-2147483649", "4294967295", "4294967296", "4294967303",
                           "9223372036854775807", "9223372036854775808", "-9223372036854775808", "-9223372036854775809",
                           "18446744073709551615", "18446744073709551623", "99999999999999999999999", "-99999999999999999999999",
                           str(rng.randrange(1 << 31, 1 << 66)), "-" + str(rng.randrange(1 << 31, 1 << 66)), "0" * 30 + "5"])
    if r < 0.9:
        desc_classes["empty-base"] += 1; return ""
    desc_classes["junk"] += 1
    return bytes(rng.randrange(1, 256) for _ in range(rng.randrange(1, 6))).decode("latin-1")


def gen_hex6():
    return "".join(rng.choice("0123456789abcdefABCDEF") for _ in range(6))


def gen_tail():
    r = rng.random()
    if r < 0.3:
        desc_classes["tail:none"] += 1; return ""
    sp = " " * rng.choice([0, 0, 1, 1, 2, 5])
    if r < 0.6:
        desc_classes["tail:rrggbb"] += 1; return sp + "#" + gen_hex6()
    if r < 0.7:
        desc_classes["tail:short/long"] += 1
        h = gen_hex6() + gen_hex6()
        return sp + "#" + h[:rng.choice([0, 1, 2, 3, 4, 5, 7, 8, 12])]
    if r < 0.85:
        desc_classes["tail:odd"] += 1
        h = gen_hex6()
        return sp + "#" + rng.choice([" " + h, h[:2] + " " + h[2:4] + " " + h[4:], "0x" + h, "0X" + h[:4], "-1-2-3", "+f+f+f", "-f" + h, h[:3] + "g" + h[3:5],
                                      h[:5] + "g", "g" + h, "0x0x0x", "0x", "0xg", "00x123", "1 0x 3", "f\tf\nf", "#" + h, h + "#" + h, "- 1", "-", "+", "0x-1", "-0x1", "+0x1ab", "0x0" + h,
                                      "x" + h, " 0x1 0x2 0x3", "\x0b" + h])
    desc_classes["tail:junk"] += 1
    return sp + "#" + bytes(rng.randrange(1, 256) for _ in range(rng.randrange(0, 8))).decode("latin-1")


def gen_desc():
    hi = ""
    r = rng.random()
    if r < 0.3:
        hi = "hi-"; desc_classes["hi"] += 1
    elif r < 0.36:
        hi = rng.choice(["hi", "hi-hi-", "Hi-", "hi- ", " hi-", "h"]); desc_classes["hi-mangled"] += 1
    return hi + gen_base() + gen_tail()


def desc_section(n):
    for k in range(n):
        i = rng.randrange(3)
        attr = rng.choice([FG, FG, FG, BG, BG, rng.randrange(0, 13)])
        r = rng.random()
        if r < 0.15:
            emit(f"setc {i} {attr} {rng.randrange(0, 256)}")
            if rng.random() < 0.5: emit(f"setrgb {i} {attr} {rng.randrange(256)} {rng.randrange(256)} {rng.randrange(256)}")
        emit(f"desc {i} {attr} {hexs(gen_desc())}")
    # every single byte, alone and after a name / number, and in the RGB tail
    for b in range(1, 256):
        emit(f"desc 0 1 {hexs(bytes([b]))}"); desc_classes["single-byte"] += 1
    for b in range(1, 256):
        emit(f"desc 1 2 {hexs(b'red' + bytes([b]))}")
        emit(f"desc 2 1 {hexs(b'12' + bytes([b]))}")
        emit(f"desc 0 2 {hexs(b'4#' + bytes([b]) + b'abcde')}")
        emit(f"desc 0 1 {hexs(b'4#a' + bytes([b]) + b'bcde')}")
        desc_classes["byte-in-context"] += 4
    # every name, every proper prefix, with and without hi-
    for nme in NAMES:
        for k in range(0, len(nme) + 1):
            for hi in ("", "hi-"):
                emit(f"desc 0 1 {hexs(hi + nme[:k])}")
                emit(f"desc 1 1 {hexs(hi + nme[:k] + ' #102030')}")
                desc_classes["name-prefix-systematic"] += 2
    for v in list(range(-20, 300)) + [511, 512, -256, -257]:
        emit(f"desc 0 1 {hexs(str(v))}")
        emit(f"desc 1 2 {hexs('hi-' + str(v))}")
        desc_classes["number-systematic"] += 2

if not EXH: desc_section(1500 if a.tier == "quick" else 6000)

# ------------------------------------------------------------------ random histories
def rand_value(attr):
    r = rng.random()
    if attr in BOOLS:
        return rng.choice([0, 1])
    if r < 0.5 and attr in WIDTH:
        w, s = WIDTH[attr]
        lo, hi = (-(1 << (w - 1)), (1 << (w - 1)) - 1) if s else (0, (1 << w) - 1)
        return rng.randint(lo, hi)
    if r < 0.85:
        return rng.choice(boundary_values(attr))
    return rng.randint(-70000, 70000)


def rand_attr():
    r = rng.random()
    if r < 0.92:
        return rng.choice(VALID)
    return rng.choice([0, 11, 12, 13, -1, 257, 258, 100])


def random_history(nops):
    new()
    pal_idx = [rng.choice([-1, 0, 1, 7, 8, 255, rng.randrange(256)]) for _ in range(2)]
    b = [rng.randrange(256) for _ in range(3)]
    k = rng.randrange(3)
    pal_rgb = [tuple(b), tuple((v + (1 if n == k else 0)) % 256 for n, v in enumerate(b)), (0, 0, 0)]
    for _ in range(nops):
        i, j = rng.randrange(3), rng.randrange(3)
        if rng.random() < 0.15: j = i
        attr = rand_attr()
        r = rng.random()
        if r < 0.12:
            at = rng.choice(BOOLS + [UNDER]) if rng.random() < 0.8 else attr
            emit(f"setb {i} {at} {rng.choice([0, 1, 1, 2, -1])}", 60)
        elif r < 0.24:
            at = rng.choice(INTS) if rng.random() < 0.8 else attr
            v = rand_value(at); value_classes[vclass(at, v)] += 1
            emit(f"seti {i} {at} {v}", 60)
        elif r < 0.36:
            at = rng.choice(COLOURS) if rng.random() < 0.85 else attr
            v = rng.choice(pal_idx) if rng.random() < 0.5 else rand_value(at); value_classes[vclass(at, v)] += 1
            emit(f"setc {i} {at} {v}", 60)
        elif r < 0.46:
            at = rng.choice(COLOURS) if rng.random() < 0.85 else attr
            c = rng.choice(pal_rgb) if rng.random() < 0.7 else (rng.choice([0, 255, rng.randrange(256)]), rng.randrange(256), rng.randrange(256))
            emit(f"setrgb {i} {at} {c[0]} {c[1]} {c[2]}", 60)
        elif r < 0.52:
            at = rng.choice(COLOURS) if rng.random() < 0.85 else attr
            emit(f"desc {i} {at} {hexs(gen_desc())}", 60)
        elif r < 0.62:
            emit(f"clear {i} {attr}", 60)
        elif r < 0.64:
            emit(f"clearall {i}", 60)
        elif r < 0.76:
            emit(f"copy {i} {j} {rng.choice([0, 1])}", 60)
        elif r < 0.84:
            emit(f"copyattr {i} {j} {attr}", 60)
        elif r < 0.89:
            emit(f"clone {i} {j}", 60)
        elif r < 0.93:
            emit(f"equiv {i} {j}", 60)
        elif r < 0.97:
            emit(f"equivattr {i} {j} {attr}", 60)
        else:
            n = rng.randrange(0, 4)
            prs = []
            for _ in range(n):
                at = rng.choice(VALID + [257, 258, 257])
                if at >= 257:
                    prs += [str(at), hexs(gen_desc())]
                else:
                    v = rand_value(at)
                    prs += [str(at), str(v)]
            emit(" ".join([f"mkattrs {i} {n}"] + prs), 60)

NH = 0 if EXH else (1200 if a.tier == "quick" else 6000)
for _ in range(NH):
    random_history(rng.choice([5, 10, 20, 30, 38]))
stats["random_histories"] = NH

# ------------------------------------------------------------------ small-scope exhaustive enumeration
exh_bound = None
if a.tier == "exhaustive":
    lines, stats, desc_classes, value_classes = [], collections.Counter(), {}, {}
    A1 = ["setc 0 1 5", "setc 1 1 5", "setc 0 1 -1", "setrgb 0 1 1 2 3", "setrgb 1 1 1 2 3", "clear 0 1", "copy 1 0 0", "copy 1 0 1", "copy 0 1 1",
          "copyattr 1 0 1", "copyattr 0 0 1", "clone 1 0", "desc 0 1 72656423303130323033", "copy 0 0 1"]
    A2 = ["setb 0 3 1", "setb 1 3 0", "seti 0 4 2", "setb 1 4 1", "seti 0 10 3", "clear 0 3", "clear 1 4", "copy 1 0 0", "copy 1 0 1", "copy 0 1 0",
          "copyattr 1 0 4", "copyattr 1 0 5", "clone 0 1", "clearall 0"]
    S1 = ["setc 0 1 5", "setc 1 1 5", "setrgb 0 1 1 2 3", "setrgb 1 1 1 2 3", "clear 0 1", "copy 1 0 0", "copy 1 0 1", "copyattr 0 0 1", "clone 1 0"]
    S2 = ["setb 0 3 1", "setb 1 3 0", "seti 0 4 2", "setb 1 4 1", "clear 0 3", "copy 1 0 0", "copy 1 0 1", "copyattr 1 0 4"]
    L1, L2 = 4, 3
    for alpha, L in ((S1, L1), (S2, L1), (A1, L2), (A2, L2), (A1 + A2, 2)):
        for n in range(1, L + 1):
            for seq in itertools.product(alpha, repeat=n):
                lines.append("new")
                for o in seq:
                    lines.append(o); stats[o.split()[0]] += 1
                stats["exhaustive_histories"] += 1
    exh_bound = f"every history of length <= {L1} over a 9-operation colour/rgb alphabet and an 8-operation bool/int alphabet, of length <= {L2} over two 14-operation alphabets, and of length <= 2 over their union (28 operations), on pens 0 and 1"

open(a.out, "w").write("\n".join(lines) + "\n")
print(json.dumps({"ops": len(lines), "histories": sum(1 for l in lines if l == "new"), "op_mix": dict(stats),
                  "value_classes": dict(value_classes), "desc_classes": dict(desc_classes),
                  **({"exhaustive_bound": exh_bound} if exh_bound else {})}))
