#!/usr/bin/env python3
"""Operation generator for engine `input` (C14).  All randomness from --seed.

quick/thorough: random histories.  Each history builds a window tree (overlapping siblings, nesting, windows partly
outside their parent, hidden subtrees, stealing windows, LOWEST / ROOT_PARENT placement), binds key and mouse
handlers whose behaviour tables claim or decline and (in `mutating` histories) close / unref / hide / restack /
focus / steal / set_geometry (g<id>@dt@dl@dn@dc: move or resize a window) from inside the handler, places the focus, and then sends key events and press / drag / release /
wheel sequences at cells on and around window corners, interleaved with top-level tree operations and flushes.
A DRAG is never sent before the first PRESS of a history (the press memory is uninitialised before: assumption).
Handlers may be bound one-shot (`ko` / `mo`) and entries may unbind their own binding (`!`); mouse gestures also arrive
as X10-encoded bytes (`x10`: wheel turns before and inside drags, second buttons, the button-less release, bare motion,
reports libtermkey cannot classify).  Templates: move (a window that moves itself, its parent or a neighbour from inside
its mouse handler and lets the event through, or claims DRAG while another window is the drag source), stack, drag, chain, oneshot (handlers that leave the list they are run
from and hand the focus over from inside the dispatch), x10 (byte gestures over a small tree).

exhaustive: three fixed trees x every cell of the terminal x {press, wheel, press-drag-release to a second cell} x
all claim patterns of the handlers (<= 4 handlers), key events under every focus placement x all claim patterns,
and every single mutation (action x target) performed from inside every handler of a 4-window tree, for a key
event and for a press / drag / release sequence.
"""
import argparse, random, json, itertools

ap = argparse.ArgumentParser()
ap.add_argument("--seed", type=int, default=1); ap.add_argument("--tier", default="quick")
ap.add_argument("--out", required=True); ap.add_argument("--prop", default="C14")
a = ap.parse_args()
rng = random.Random(a.seed)
lines = []
mix, actmix, feat = {}, {}, {}

def emit(s):
    lines.append(s)
    k = s.split()[0]
    mix[k] = mix.get(k, 0) + 1

def count(d, k, n=1):
    d[k] = d.get(k, 0) + n

ACTS = "cukhsrRlLftTg"
MUT_WEIGHTS = {"c": 10, "u": 10, "h": 5, "s": 3, "k": 2, "r": 2, "R": 2, "l": 2, "L": 2, "f": 5, "t": 2, "T": 2, "g": 6}

def geom_delta():
    """(dtop, dleft, dlines, dcols) of a set_geometry from inside a handler: mostly a move, sometimes a resize."""
    x = rng.random()
    if x < 0.7:
        d = (rng.choice([-2, -1, 0, 1, 1, 2, 3]), rng.choice([-2, -1, 0, 1, 2, 2, 3]), 0, 0)
    elif x < 0.85:
        d = (0, 0, rng.choice([-1, 1, 2]), rng.choice([-1, 1, 2]))
    else:
        d = (rng.choice([-1, 0, 1]), rng.choice([-1, 0, 1]), rng.choice([-1, 0, 1]), rng.choice([-1, 0, 1]))
    return d

def actstr(k, w, d=None):
    if k == "g":
        if d is None: d = geom_delta()
        return "g%d@%d@%d@%d@%d" % ((w,) + tuple(d))
    return "%s%d" % (k, w)

class Hist:
    """Generator-side picture of a history (approximate: handler side effects are not simulated)."""
    def __init__(self, L, C):
        self.L, self.C = L, C
        self.par = {0: None}
        self.rect = {0: (0, 0, L, C)}
        self.kids = {0: []}
        self.gone = set()
        self.pressed = False

    def n(self):
        return len(self.par)

    def abs_origin(self, w):
        t = l = 0
        while w is not None:
            t += self.rect[w][0]; l += self.rect[w][1]
            w = self.par[w]
        return t, l

    def depth(self, w):
        d = 0
        while self.par[w] is not None:
            w = self.par[w]; d += 1
        return d

    def live(self):
        return [w for w in self.par if w not in self.gone]

def rand_rect(h, p):
    _, _, pl, pc = h.rect[p]
    pl, pc = max(pl, 1), max(pc, 1)
    x = rng.random()
    if x < 0.70:   # inside the parent
        t = rng.randint(0, max(0, pl - 1)); l = rng.randint(0, max(0, pc - 1))
        n = rng.randint(1, max(1, pl - t)); c = rng.randint(1, max(1, pc - l))
    elif x < 0.90:  # sticking out
        t = rng.randint(-2, pl); l = rng.randint(-2, pc)
        n = rng.randint(1, pl + 1); c = rng.randint(1, pc + 1)
    else:  # overlap an existing sibling exactly / share an edge
        sibs = [s for s in h.kids[p]]
        if sibs:
            st, sl, sn, sc = h.rect[rng.choice(sibs)]
            t = st + rng.choice([0, 0, 1, -1, sn]); l = sl + rng.choice([0, 0, 1, -1, sc])
            n = rng.choice([sn, max(1, sn - 1), sn + 1]); c = rng.choice([sc, max(1, sc - 1), sc + 1])
        else:
            t, l, n, c = 0, 0, pl, pc
    return (t, l, max(1, n), max(1, c))

def target(h, self_id):
    """Target of an action performed by a handler of window self_id (or at top level when None)."""
    ws = list(h.par.keys())
    x = rng.random()
    if self_id is not None and x < 0.35:
        return self_id
    if self_id is not None and x < 0.65:
        p = h.par[self_id]
        if p is not None:
            sibs = h.kids[p]
            i = sibs.index(self_id)
            # the next sibling in z-order (the one the saved `next` pointer refers to), or any sibling
            if i + 1 < len(sibs) and rng.random() < 0.6:
                return sibs[i + 1]
            return rng.choice(sibs)
    if self_id is not None and x < 0.75 and h.par[self_id] is not None:
        return h.par[self_id]
    if self_id is not None and x < 0.85 and h.kids[self_id]:
        return rng.choice(h.kids[self_id])
    if x < 0.97:
        return rng.choice(ws)
    return len(ws) + rng.randint(0, 2)   # a window that does not exist

def rand_action(h, self_id):
    ks = list(MUT_WEIGHTS.keys())
    k = rng.choices(ks, weights=[MUT_WEIGHTS[x] for x in ks])[0]
    w = target(h, self_id)
    if k in "cu" and w == 0 and rng.random() < 0.9:
        w = rng.choice(list(h.par.keys()))
    count(actmix, k)
    return actstr(k, w)

def rand_entry(h, self_id, mutating, claim_p, unbind_p=0.0):
    ret = 1 if rng.random() < claim_p else 0
    acts = []
    if rng.random() < unbind_p:
        acts.append("!"); count(feat, "self-unbind")
    if mutating and rng.random() < 0.45:
        for _ in range(rng.choice([1, 1, 1, 2, 2, 3])):
            acts.append(rand_action(h, self_id))
    return ",".join([str(ret)] + acts)

def rand_kind(kind, oneshot_p):
    if rng.random() < oneshot_p:
        count(feat, "oneshot")
        return kind + "o"
    return kind

# X10 button codes (ESC [ M <32+code> ...): button 1..3 = 0..2, release (no button named) = 3, motion +32, wheel 64/65,
# shift +4, alt +8, ctrl +16
X10_REL, X10_MOTION = 3, 32

def x10_cell(h):
    (l, c) = rand_cell(h)
    return (min(max(l, 0), 93), min(max(c, 0), 93))

def x10_seq(h):
    """A gesture that arrives as X10 bytes: wheel turns, a press, drags, the button-less release; sometimes a second
    button goes down in between, sometimes the gesture is cut short or interleaved with emitted events."""
    count(feat, "x10seq")
    mod = rng.choice([0, 0, 0, 4, 8, 16, 28])
    for _ in range(rng.choice([0, 0, 1, 1, 2])):
        (l, c) = x10_cell(h)
        emit("x10 %d %d %d" % (rng.choice([64, 65]) + mod, l, c)); count(feat, "x10wheel")
    if rng.random() < 0.1:
        return
    b = rng.choice([0, 0, 1, 2, 2])
    (l, c) = x10_cell(h)
    emit("x10 %d %d %d" % (b + mod, l, c)); h.pressed = True
    for _ in range(rng.choice([0, 1, 1, 2, 3])):
        x = rng.random()
        if x < 0.15:
            (wl, wc) = x10_cell(h)
            emit("x10 %d %d %d" % (rng.choice([64, 65]), wl, wc)); count(feat, "x10wheel-in-drag")
        elif x < 0.19:
            # a report libtermkey cannot classify (horizontal wheel), or bare motion with no button (= release + motion bit)
            emit("x10 %d %d %d" % (rng.choice([66, 67, 35, 35 + 4]), l, c)); count(feat, "x10odd")
        elif x < 0.29:
            emit("x10 %d %d %d" % (rng.choice([0, 1, 2]), l, c)); count(feat, "x10second-button")
        elif x < 0.36:
            top_action(h)
        if rng.random() < 0.4:
            l, c = min(max(l + rng.choice([-1, 0, 1]), 0), 93), min(max(c + rng.choice([-1, 0, 1]), 0), 93)
        else:
            (l, c) = x10_cell(h)
        emit("x10 %d %d %d" % ((b if rng.random() < 0.85 else rng.choice([0, 1, 2])) + X10_MOTION + mod, l, c))
    if rng.random() < 0.9:
        if rng.random() < 0.4:
            (l, c) = x10_cell(h)
        emit("x10 %d %d %d" % (X10_REL + mod, l, c))
        if rng.random() < 0.1:
            emit("x10 %d %d %d" % (X10_REL, l, c))

def interesting_cells(h):
    cells = []
    for w in h.par:
        t, l = h.abs_origin(w)
        _, _, n, c = h.rect[w]
        for (dt, dl) in [(0, 0), (n - 1, c - 1), (0, c - 1), (n - 1, 0), (-1, 0), (0, -1), (n, c - 1), (n - 1, c), (n // 2, c // 2)]:
            cells.append((t + dt, l + dl))
    return cells

def rand_cell(h):
    x = rng.random()
    if x < 0.65:
        return rng.choice(interesting_cells(h))
    if x < 0.95:
        return (rng.randint(0, h.L - 1), rng.randint(0, h.C - 1))
    return (rng.choice([-1, h.L, h.L + 3]), rng.choice([-1, h.C, 0]))

def top_action(h):
    k = rng.choices(list(MUT_WEIGHTS.keys()), weights=[6, 6, 8, 6, 2, 4, 4, 4, 4, 10, 4, 3, 3])[0]
    w = target(h, None)
    count(actmix, "top:" + k)
    emit("act " + actstr(k, w))
    if k == "c" or k == "u":
        pass

def mouse_seq(h):
    kind = rng.random()
    mod = rng.choice([0, 0, 0, 1, 2, 4, 7])
    if kind < 0.2:
        (l, c) = rand_cell(h)
        emit("mouse 4 %d %d %d %d" % (rng.choice([1, 2]), l, c, mod)); count(feat, "wheel")
        return
    button = rng.choice([1, 1, 2, 3])
    (l, c) = rand_cell(h)
    emit("mouse 1 %d %d %d %d" % (button, l, c, mod)); h.pressed = True
    if kind < 0.4:
        if rng.random() < 0.8:
            emit("mouse 3 %d %d %d %d" % (button, l, c, mod))
        count(feat, "click")
        return
    count(feat, "dragseq")
    for _ in range(rng.randint(1, 3)):
        if rng.random() < 0.25:
            top_action(h)
        x = rng.random()
        if x < 0.35:
            l, c = l + rng.choice([-1, 0, 1]), c + rng.choice([-1, 0, 1])
        else:
            (l, c) = rand_cell(h)
        emit("mouse 2 %d %d %d %d" % (button if rng.random() < 0.7 else rng.choice([1, 2, 3]), l, c, mod))
    if rng.random() < 0.2:
        top_action(h)
    if rng.random() < 0.9:
        if rng.random() < 0.5:
            (l, c) = rand_cell(h)
        emit("mouse 3 %d %d %d %d" % (rng.choice([button, button, 1]), l, c, mod))

def random_history():
    L, C = rng.randint(5, 12), rng.randint(8, 30)
    h = Hist(L, C)
    emit("new %d %d" % (L, C))
    mutating = rng.random() < 0.5
    claim_p = rng.choice([0.0, 0.15, 0.3, 0.6])
    oneshot_p = rng.choice([0.0, 0.0, 0.15, 0.4])
    unbind_p = rng.choice([0.0, 0.0, 0.1, 0.3])
    x10_p = rng.choice([0.0, 0.0, 0.3, 0.7, 1.0])
    count(feat, "mutating" if mutating else "static")
    nwin = rng.choice([1, 2, 3, 3, 4, 4, 5, 6, 7])
    for _ in range(nwin):
        cands = [w for w in h.par if h.depth(w) < 3]
        # prefer parents that already have children (sibling lists of length >= 2 are where routing is interesting)
        p = rng.choice(cands + [0, 0] + [w for w in cands if h.kids[w]])
        r = rand_rect(h, p)
        f = 0
        if rng.random() < 0.12: f |= 1; count(feat, "hidden")
        if rng.random() < 0.15: f |= 2; count(feat, "lowest")
        if rng.random() < 0.08: f |= 4; count(feat, "root_parent")
        if rng.random() < 0.12: f |= 8; count(feat, "steal")
        wid = h.n()
        emit("win %d %d %d %d %d %d" % ((p,) + r + (f,)))
        realp = p
        rr = r
        if f & 4:
            t, l = r[0], r[1]
            while h.par[realp] is not None:
                t += h.rect[realp][0]; l += h.rect[realp][1]
                realp = h.par[realp]
            rr = (t, l, r[2], r[3])
        h.par[wid] = realp; h.rect[wid] = rr; h.kids[wid] = []
        if f & 2: h.kids[realp].append(wid)
        else: h.kids[realp].insert(0, wid)
    count(feat, "depth%d" % max(h.depth(w) for w in h.par))
    # handlers
    for w in list(h.par.keys()):
        for kind in "km":
            if rng.random() < 0.8:
                nh = rng.choice([1, 1, 1, 2, 2, 3, 4])
                for _ in range(nh):
                    ne = rng.choice([1, 1, 2, 3])
                    emit("bind %d %s %s" % (w, rand_kind(kind, oneshot_p), " ".join(rand_entry(h, w, mutating, claim_p, unbind_p) for _ in range(ne))))
    # focus / visibility / restack set-up
    for _ in range(rng.choice([0, 1, 1, 2, 3])):
        x = rng.random()
        w = rng.choice(list(h.par.keys()))
        if x < 0.6: emit("act f%d" % w); count(feat, "focus-setup")
        elif x < 0.7: emit("act h%d" % w)
        elif x < 0.8: emit("act t%d" % w)
        else: emit("act %s%d" % (rng.choice("rRlL"), w))
    if rng.random() < 0.7: emit("flush")
    # events
    nev = rng.randint(4, 10)
    for _ in range(nev):
        x = rng.random()
        if x < 0.40:
            emit("key %d %d" % (rng.choice([1, 2]), rng.choice([0, 0, 1, 2, 4, 5])))
        elif x < 0.80:
            if rng.random() < x10_p: x10_seq(h)
            else: mouse_seq(h)
        elif x < 0.93:
            top_action(h)
        elif x < 0.97:
            emit("flush")
        else:
            w = rng.choice(list(h.par.keys()))
            if w != 0:
                r = rand_rect(h, h.par[w]); h.rect[w] = r
                emit("geom %d %d %d %d %d" % ((w,) + r))
    if rng.random() < 0.3: emit("flush")

# ----------------------------------------------------------------------------------------------- adversarial templates
def stack_history():
    """A stack of windows sharing one cell under a common parent (the root or a nested window); every window has
    handlers; one handler performs a mutation on a sibling, the parent or itself; key and mouse events at the cell."""
    L, C = rng.randint(5, 9), rng.randint(8, 16)
    emit("new %d %d" % (L, C))
    count(feat, "template:stack")
    parent = 0
    ids = [0]
    if rng.random() < 0.5:
        emit("win 0 1 1 %d %d 0" % (L - 2, C - 2)); parent = 1; ids.append(1)
    base_t, base_l = (1, 1) if parent == 1 else (0, 0)
    n = rng.randint(2, 4)
    stack = []
    for i in range(n):
        f = 0
        if rng.random() < 0.1: f |= 8
        if rng.random() < 0.1: f |= 1
        t, l = rng.randint(0, 1), rng.randint(0, 1)
        emit("win %d %d %d %d %d %d" % (parent, t, l, 3 - t, 3 - l, f))
        stack.append(len(ids)); ids.append(len(ids))
    if rng.random() < 0.4:   # one nested child on top of a stack member
        emit("win %d 0 0 2 2 0" % rng.choice(stack)); ids.append(len(ids))
    cell = (base_t + 1, base_l + 1)
    actor = rng.choice(ids[1:])
    kind_of_actor = rng.choice("km")
    for w in ids:
        for kind in "km":
            if w == actor and kind == kind_of_actor:
                a = rng.choice("ccuuhhsstT") if rng.random() < 0.8 else rng.choice(ACTS)
                tgt = rng.choice([rng.choice(ids), parent, actor, rng.choice(stack)])
                count(actmix, a)
                ent = "%d,%s" % (1 if rng.random() < 0.2 else 0, actstr(a, tgt))
                if rng.random() < 0.3:
                    a2 = rng.choice("cuhf"); count(actmix, a2)
                    ent += ",%s%d" % (a2, rng.choice(ids))
                emit("bind %d %s %s 0" % (w, kind, ent))
            elif rng.random() < 0.85:
                emit("bind %d %s %d" % (w, kind, 1 if rng.random() < 0.1 else 0))
    if rng.random() < 0.4: emit("act f%d" % rng.choice(ids))
    for _ in range(rng.randint(2, 4)):
        if rng.random() < 0.5:
            emit("key %d 0" % rng.choice([1, 2]))
        else:
            emit("mouse %d 1 %d %d 0" % (rng.choice([1, 4]), cell[0], cell[1]))
    if rng.random() < 0.5: emit("flush")

def drag_history():
    """A drag that starts in a (nested) window; between the drag events the source, an ancestor or something else is
    hidden, closed, destroyed or shown again; handlers may do the same from inside DRAG_START / DRAG_DROP / DRAG_STOP;
    the button reported while dragging may differ from the one pressed."""
    L, C = rng.randint(6, 10), rng.randint(10, 20)
    emit("new %d %d" % (L, C))
    count(feat, "template:drag")
    emit("win 0 1 1 4 6 0")           # 1
    emit("win 1 0 1 3 4 0")           # 2 (child of 1): absolute (1,2)
    nested = rng.random() < 0.5
    if nested: emit("win 2 1 1 2 2 0")  # 3 (child of 2): absolute (2,3)
    emit("win 0 %d %d 2 3 0" % (L - 2, C - 3))   # drop target
    ids = [0, 1, 2] + ([3] if nested else []) + [4 if nested else 3]
    src = 3 if nested else 2
    target = ids[-1]
    mut = rng.random() < 0.5
    for w in ids:
        ents = []
        for i in range(4):
            e = "1" if (w == src and rng.random() < 0.8) or rng.random() < 0.15 else "0"
            if mut and rng.random() < 0.25:
                a = rng.choice("uuchhs"); count(actmix, a)
                e += ",%s%d" % (a, rng.choice([src, src, 1, 2, w]))
            ents.append(e)
        if rng.random() < 0.9: emit("bind %d m %s" % (w, " ".join(ents)))
    pb = rng.choice([1, 1, 2])
    pl, pc = (2, 3) if nested else (1, 2)
    emit("mouse 1 %d %d %d 0" % (pb, pl, pc))
    db = pb if rng.random() < 0.6 else rng.choice([1, 2, 3])
    emit("mouse 2 %d %d %d 0" % (db, pl, pc + 1))
    if rng.random() < 0.6:
        a = rng.choice("hhhccus"); count(actmix, "top:" + a)
        emit("act %s%d" % (a, rng.choice([1, 2, src, src])))
    emit("mouse 2 %d %d %d 0" % (db, L - 2, C - 3))
    if rng.random() < 0.4:
        a = rng.choice("hsuc"); count(actmix, "top:" + a)
        emit("act %s%d" % (a, rng.choice([1, 2, src])))
    emit("mouse 3 %d %d %d 0" % (rng.choice([pb, db]), L - 2, C - 3))
    if rng.random() < 0.5:
        emit("mouse 1 1 %d %d 0" % (pl, pc)); emit("mouse 2 1 0 0 0")

def chain_history():
    """A chain of nested windows three to five deep over one cell (dialog > form > field …), with handlers on every
    level; the focus is placed on a deep window (keys travel down the focus chain and come back up through every
    ancestor's own handlers) and the mouse events hit the shared cell (or the deep windows steal input); a deep
    handler hides, closes, or shows again an ancestor two or more levels up — or any other window of the chain — and
    declines; later events and top-level show / hide repeat the exercise on the changed tree."""
    L, C = rng.randint(6, 10), rng.randint(10, 18)
    emit("new %d %d" % (L, C))
    count(feat, "template:chain")
    depth = rng.choice([3, 3, 4, 4, 5])
    chain = [0]
    for d in range(depth):
        f = 8 if rng.random() < 0.12 else 0
        emit("win %d 0 0 %d %d %d" % (chain[-1], max(1, L - 1 - d), max(1, C - 2 - d), f))
        chain.append(len(chain))
    ids = list(chain)
    # a sibling next to some level, so that "the rest" exists
    if rng.random() < 0.6:
        lvl = rng.randint(0, depth - 1)
        emit("win %d 0 0 2 2 %d" % (chain[lvl], 2 if rng.random() < 0.7 else 0))
        ids.append(len(ids))
    deep = rng.choice(chain[-2:])
    kind_of_actor = rng.choice("kkm")
    di = chain.index(deep)
    for w in ids:
        for kind in "km":
            if w == deep and kind == kind_of_actor:
                # an ancestor at least two levels up (when there is one), else anything on the chain
                far = chain[:max(1, di - 1)]
                tgt = rng.choice(far) if rng.random() < 0.75 else rng.choice(chain)
                a = rng.choice("hhhhccs"); count(actmix, a)
                e0 = "0,%s%d" % (a, tgt)
                if rng.random() < 0.3:
                    a2 = rng.choice("hcu"); count(actmix, a2)
                    e0 += ",%s%d" % (a2, rng.choice(chain[1:]))
                # later invocations: show it again, or do nothing
                a3 = rng.choice("ssh"); count(actmix, a3)
                e1 = "0,%s%d" % (a3, tgt) if rng.random() < 0.5 else "0"
                emit("bind %d %s %s %s 0" % (w, kind, e0, e1))
            elif rng.random() < 0.9:
                emit("bind %d %s %d" % (w, kind, 1 if rng.random() < 0.07 else 0))
    if rng.random() < 0.85: emit("act f%d" % deep); count(feat, "focus-setup")
    if rng.random() < 0.3: emit("act t%d" % rng.choice(chain[1:]))
    if rng.random() < 0.3: emit("act h%d" % rng.choice(chain[1:-1]))      # start with a hidden level sometimes
    for _ in range(rng.randint(3, 6)):
        x = rng.random()
        if x < 0.45: emit("key %d 0" % rng.choice([1, 2]))
        elif x < 0.80: emit("mouse %d 1 0 0 0" % rng.choice([1, 4, 1, 2, 3]))
        elif x < 0.92:
            a = rng.choice("sshf"); count(actmix, "top:" + a)
            emit("act %s%d" % (a, rng.choice(chain[1:])))
        else: emit("flush")

def oneshot_history():
    """Handlers that leave the list they are run from: a window (holding the focus, on the focus chain, or reached as
    "another child") with two to four handlers of one kind, of which the earlier ones are one-shot or unbind
    themselves and, from inside the dispatch, hand the focus over (to a child, to themselves, to the parent, to a
    sibling: the window is told it lost / gained the focus while its handlers are still being walked), hide, close or
    restack; the later handlers must still be offered the event, and a second and third event find the list without
    the handlers that are gone."""
    L, C = rng.randint(6, 10), rng.randint(10, 18)
    emit("new %d %d" % (L, C))
    count(feat, "template:oneshot")
    emit("win 0 0 0 2 %d 0" % C)                   # 1: an unrelated sibling
    emit("win 0 2 1 %d %d 0" % (L - 3, C - 2))     # 2: the dialog
    emit("win 2 1 1 1 %d 0" % max(1, C - 5))       # 3: its entry field
    ids = [0, 1, 2, 3]
    if rng.random() < 0.4:
        emit("win 2 2 1 1 3 0"); ids.append(4)     # 4: a second child of the dialog
    actor = rng.choice([2, 2, 2, 3, 1, 0])
    kind = rng.choice("kkkm")
    par = {0: None, 1: 0, 2: 0, 3: 2, 4: 2}
    kids = {0: [1, 2], 1: [], 2: [3] + ([4] if 4 in ids else []), 3: [], 4: []}
    def focus_target():
        x = rng.random()
        if x < 0.35 and kids[actor]: return rng.choice(kids[actor])
        if x < 0.60: return actor
        if x < 0.75 and par[actor] is not None: return par[actor]
        return rng.choice(ids)
    for w in ids:
        for k in "km":
            if w == actor and k == kind:
                nh = rng.choice([2, 2, 3, 4])
                leavers = rng.randint(1, nh - 1)
                for i in range(nh):
                    if i < leavers:
                        a = rng.choice("ffffffhcRlsk"); count(actmix, a)
                        tgt = focus_target() if a == "f" else rng.choice(ids)
                        act = "%s%d" % (a, tgt)
                        if rng.random() < 0.25:
                            a2 = rng.choice("fffh"); count(actmix, a2)
                            act += ",%s%d" % (a2, focus_target())
                        if rng.random() < 0.6:
                            count(feat, "oneshot")
                            emit("bind %d %so 0,%s 0" % (w, k, act))
                        else:
                            count(feat, "self-unbind")
                            emit("bind %d %s 0,!,%s 0" % (w, k, act))
                    else:
                        emit("bind %d %s %d" % (w, k, 1 if rng.random() < 0.5 else 0))
            elif rng.random() < 0.8:
                emit("bind %d %s %d" % (w, rand_kind(k, 0.15), 1 if rng.random() < 0.15 else 0))
    x = rng.random()
    if x < 0.5: emit("act f%d" % actor); count(feat, "focus-setup")
    elif x < 0.8: emit("act f%d" % rng.choice(ids)); count(feat, "focus-setup")
    if rng.random() < 0.5: emit("flush")
    for _ in range(rng.randint(2, 4)):
        if kind == "k":
            emit("key %d 0" % rng.choice([1, 2]))
        else:
            x = rng.random()
            if x < 0.5: emit("mouse %d 1 3 2 0" % rng.choice([1, 4]))
            elif x < 0.75: emit("x10 %d 3 2" % rng.choice([0, 64]))
            else: emit("mouse 1 1 3 2 0"); emit("mouse 2 1 3 3 0"); emit("mouse 3 1 3 3 0")
        if rng.random() < 0.2:
            emit("act f%d" % rng.choice(ids))

def x10_history():
    """Mouse gestures that arrive as X10-encoded bytes over a small tree: wheel turns before and inside a drag, presses
    of every button, drags across windows, the button-less release (whose button the terminal has to supply from its
    record of held buttons), second buttons, bare motion reports, releases with nothing held."""
    L, C = rng.randint(6, 10), rng.randint(10, 20)
    h = Hist(L, C)
    emit("new %d %d" % (L, C))
    count(feat, "template:x10")
    wins = [(0, (0, 0, L // 2, C), 0), (0, (L // 2, 0, L - L // 2, C), 0)]
    if rng.random() < 0.5: wins.append((1, (0, 1, 2, 4), 0))
    if rng.random() < 0.3: wins.append((0, (1, 2, 3, 3), rng.choice([0, 8, 1])))
    for (p, r, f) in wins:
        wid = h.n()
        emit("win %d %d %d %d %d %d" % ((p,) + r + (f,)))
        h.par[wid] = p; h.rect[wid] = r; h.kids[wid] = []; h.kids[p].insert(0, wid)
    claim_p = rng.choice([0.0, 0.3, 0.8, 1.0])
    for w in list(h.par.keys()):
        if rng.random() < 0.85:
            for _ in range(rng.choice([1, 1, 2])):
                emit("bind %d %s %s" % (w, rand_kind("m", 0.1), " ".join(rand_entry(h, w, rng.random() < 0.15, claim_p) for _ in range(rng.choice([1, 2])))))
    if rng.random() < 0.5: emit("flush")
    for _ in range(rng.randint(2, 4)):
        x = rng.random()
        if x < 0.85: x10_seq(h)
        elif x < 0.93: mouse_seq(h)
        else: top_action(h)

def move_history():
    """Windows that move (or resize) themselves, an ancestor or a neighbour from inside a mouse handler: a marker that
    follows the pointer and lets the event through to the window behind it and to its parent; a window that is dragged
    along (claims DRAG and moves) while another window is the drag source (DRAG_OUTSIDE); nested variants, in which the
    window moved is the parent or grandparent of the window whose handler runs.  Every other window must still be given
    the position relative to itself."""
    L, C = rng.randint(8, 14), rng.randint(20, 40)
    emit("new %d %d" % (L, C))
    count(feat, "template:move")
    ids = [0]
    parent = 0
    ot, ol = 0, 0
    if rng.random() < 0.6:
        ot, ol = rng.randint(0, 2), rng.randint(0, 4)
        emit("win 0 %d %d %d %d 0" % (ot, ol, L - ot - 1, C - ol - 2)); parent = 1; ids.append(1)
    # back: a large window; marker: a small one in front of it; both children of `parent`
    bt, bl = rng.randint(0, 2), rng.randint(0, 3)
    emit("win %d %d %d %d %d 0" % (parent, bt, bl, 5, 12)); back = len(ids); ids.append(back)
    mt, ml = bt + rng.randint(0, 2), bl + rng.randint(0, 4)
    emit("win %d %d %d %d %d %d" % (parent, mt, ml, 3, 4, 8 if rng.random() < 0.1 else 0)); marker = len(ids); ids.append(marker)
    inner = None
    if rng.random() < 0.5:
        emit("win %d 0 0 2 3 0" % marker); inner = len(ids); ids.append(inner)
    # a far window (drag source / drop target)
    emit("win 0 %d %d 2 4 0" % (L - 2, C - 5)); far = len(ids); ids.append(far)
    actor = inner if inner is not None and rng.random() < 0.6 else marker
    tgt = rng.choice([marker, marker, actor, actor, parent if parent else marker, back])
    claim_drag = rng.random() < 0.4
    for w in ids:
        if w == actor:
            es = []
            for i in range(rng.choice([1, 2, 3])):
                count(actmix, "g")
                e = "%d,%s" % (1 if claim_drag and rng.random() < 0.7 else 0, actstr("g", tgt))
                if rng.random() < 0.15:
                    a2 = rng.choice("hg"); count(actmix, a2)
                    e += "," + actstr(a2, rng.choice(ids[1:]))
                es.append(e)
            if rng.random() < 0.3: es.append("0")
            emit("bind %d m %s" % (w, " ".join(es)))
            if rng.random() < 0.4: emit("bind %d m %d" % (w, 1 if rng.random() < 0.3 else 0))
        elif rng.random() < 0.92:
            emit("bind %d m %s" % (w, " ".join("1" if rng.random() < (0.5 if w in (back, far) else 0.1) else "0" for _ in range(rng.choice([1, 2, 3])))))
        if rng.random() < 0.3: emit("bind %d k 0" % w)
    if rng.random() < 0.3: emit("flush")
    # the cell of the marker, absolute
    cl, cc = ot + mt + rng.randint(0, 1), ol + ml + rng.randint(0, 2)
    for _ in range(rng.randint(1, 3)):
        x = rng.random()
        if x < 0.35:
            emit("mouse %d 1 %d %d 0" % (rng.choice([1, 4]), cl, cc))
        elif x < 0.5:
            emit("x10 %d %d %d" % (rng.choice([0, 64]), cl, cc))
        elif x < 0.8:
            # press on the far window (or on the back one), drag over the marker, release
            (pl, pc) = (L - 2, C - 4) if rng.random() < 0.6 else (ot + bt + 4, ol + bl + 11)
            emit("mouse 1 1 %d %d 0" % (pl, pc))
            for _ in range(rng.randint(1, 3)):
                emit("mouse 2 1 %d %d 0" % (cl, cc))
                if rng.random() < 0.5: cl, cc = cl + rng.choice([0, 1]), cc + rng.choice([0, 1, 2])
            emit("mouse 3 1 %d %d 0" % (cl, cc))
        else:
            emit("mouse 1 1 %d %d 0" % (cl, cc)); emit("mouse 2 1 %d %d 0" % (cl + 1, cc + 1)); emit("mouse 3 1 %d %d 0" % (cl + 1, cc + 1))
        if rng.random() < 0.2: emit("key 1 0")
        if rng.random() < 0.2: emit("flush")

# ----------------------------------------------------------------------------------------------- exhaustive
def exhaustive():
    nh = 0
    # three fixed trees on a 5 x 8 terminal: (parent, rect, flags)
    trees = [
        [(0, (1, 1, 3, 4), 0), (0, (2, 3, 3, 4), 0), (1, (0, 1, 2, 2), 0)],                 # two overlapping siblings, one nested
        [(0, (0, 0, 3, 5), 0), (1, (1, 3, 3, 4), 0), (0, (2, 2, 2, 3), 1), (0, (3, 0, 2, 8), 2)],  # child sticking out, hidden sibling, lowest
        [(0, (1, 1, 2, 2), 8), (0, (1, 2, 3, 3), 0), (2, (0, 0, 1, 1), 0)],                 # stealing window behind another
    ]
    L, C = 5, 8
    for ti, tree in enumerate(trees):
        nw = len(tree) + 1
        handlers = list(range(min(nw, 4)))
        for claims in itertools.product([0, 1], repeat=len(handlers)):
            def setup(kind):
                emit("new %d %d" % (L, C))
                for (p, r, f) in tree:
                    emit("win %d %d %d %d %d %d" % ((p,) + r + (f,)))
                for w, cl in zip(handlers, claims):
                    emit("bind %d %s %d" % (w, kind, cl))
            # mouse: every cell, every kind; split over several histories to keep them short
            for row in range(-1, L + 1):
                setup("m"); nh += 1
                for col in range(-1, C + 1):
                    emit("mouse 1 1 %d %d 0" % (row, col))
                    emit("mouse 4 2 %d %d 0" % (row, col))
                    emit("mouse 2 1 %d %d 0" % ((row + 1) % L, (col + 2) % C))
                    emit("mouse 3 1 %d %d 0" % ((row + 2) % L, (col + 5) % C))
            # keys: every focus placement
            for fw in [None] + list(range(nw)):
                setup("k"); nh += 1
                if fw is not None: emit("act f%d" % fw)
                emit("key 2 0")
                emit("act t%d" % (nw - 1))
                emit("key 1 4")
    # every single mutation from inside every handler: 4-window tree (3 siblings + one nested)
    tree = [(0, (0, 0, 2, 4), 0), (0, (1, 1, 3, 4), 0), (0, (2, 2, 2, 4), 0), (2, (0, 0, 2, 2), 0)]
    nw = 5
    for hw in range(nw):
        for act in ACTS:
            for tw in range(nw):
                for claim in (0, 1):
                    for kind in "km":
                        emit("new 5 8"); nh += 1
                        for (p, r, f) in tree:
                            emit("win %d %d %d %d %d %d" % ((p,) + r + (f,)))
                        for w in range(nw):
                            if w == hw: emit("bind %d %s %d,%s 0" % (w, kind, claim, actstr(act, tw, (1, 1, 0, 0))))
                            else: emit("bind %d %s 0" % (w, kind))
                        if kind == "k":
                            emit("key 2 0"); emit("key 2 0"); emit("flush"); emit("key 1 0")
                        else:
                            emit("mouse 1 1 2 2 0"); emit("mouse 2 1 2 3 0"); emit("mouse 2 1 0 0 0"); emit("mouse 3 1 1 1 0"); emit("flush")
                            emit("mouse 1 1 1 1 0")
    # handlers that leave the list from inside the dispatch: the first handler of a window is one-shot (or unbinds
    # itself) and performs one action on one target, a second handler follows it; key and mouse
    for hw in range(nw):
        for act in ACTS:
            for tw in range(nw):
                for how in ("o", "!"):
                    for kind in "km":
                        emit("new 5 8"); nh += 1
                        for (p, r, f) in tree:
                            emit("win %d %d %d %d %d %d" % ((p,) + r + (f,)))
                        for w in range(nw):
                            if w == hw:
                                if how == "o": emit("bind %d %so 0,%s" % (w, kind, actstr(act, tw, (1, -1, 0, 0))))
                                else: emit("bind %d %s 0,!,%s" % (w, kind, actstr(act, tw, (-1, 1, 0, 1))))
                                emit("bind %d %s 0" % (w, kind))
                            else: emit("bind %d %s 0" % (w, kind))
                        if kind == "k":
                            if tw % 2 == 0: emit("act f%d" % hw)
                            emit("key 2 0"); emit("key 2 0")
                        else:
                            emit("mouse 1 1 2 2 0"); emit("mouse 2 1 2 3 0"); emit("mouse 3 1 1 1 0")
    # X10 byte input: every sequence of four reports over {wheel up, wheel down, press 1, press 3, drag 1, drag 3},
    # then the button-less release, twice
    alphabet = [64, 65, 0, 2, 32, 34]
    cells = [(1, 1), (2, 3), (3, 5), (0, 7)]
    for seq in itertools.product(alphabet, repeat=4):
        emit("new 5 8"); nh += 1
        for (p, r, f) in tree:
            emit("win %d %d %d %d %d %d" % ((p,) + r + (f,)))
        for w in range(nw):
            emit("bind %d m %d" % (w, 1 if w == 2 else 0))
        for code, (l, c) in zip(seq, cells):
            emit("x10 %d %d %d" % (code, l, c))
        emit("x10 3 3 6"); emit("x10 3 3 6")
    return {"exhaustive_bound": "3 fixed trees x every cell (incl. one ring outside) x press/wheel/drag/release x all claim patterns of <=4 handlers; "
            "key events x every focus placement x all claim patterns; every single action x target from inside every handler of a 5-window tree (key and mouse); "
            "the same from inside a one-shot / self-unbinding first handler followed by a second one; every sequence of four X10 reports over "
            "{wheel up/down, press 1/3, drag 1/3} followed by two button-less releases",
            "histories": nh}

info = {}
if a.tier == "exhaustive":
    info = exhaustive()
else:
    H = 1500 if a.tier == "quick" else 10000
    for _ in range(H):
        x = rng.random()
        if x < 0.46: random_history()
        elif x < 0.52: move_history()
        elif x < 0.64: stack_history()
        elif x < 0.73: drag_history()
        elif x < 0.82: chain_history()
        elif x < 0.91: oneshot_history()
        else: x10_history()
    info = {"histories": H}
open(a.out, "w").write("\n".join(lines) + "\n")
info.update({"ops": len(lines), "mix": mix, "handler_actions": actmix, "features": feat})
print(json.dumps(info))
