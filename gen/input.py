#!/usr/bin/env python3
import argparse, json
ap = argparse.ArgumentParser()
ap.add_argument("--seed", type=int, default=1); ap.add_argument("--tier", default="quick")
ap.add_argument("--out", required=True); ap.add_argument("--prop", default="C14")
a = ap.parse_args()
open(a.out, "w").write(open("/tmp/t1.ops").read())
print(json.dumps({"ops": 1}))
