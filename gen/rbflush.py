#!/usr/bin/env python3
"""Operation generator for engine `rbflush` (C04).  All randomness from --seed.

A history is: `new L C`, `term TL TC ORACLE WS PEN SEED` (the harness's grid terminal) or, for about a fifth of the
histories each, `termm TL TC PEN SEED` (the library's own mock terminal, at least as large as the buffer, one-column CHAR code
points only: a double-width character in its last column makes mtd_print write past the line - known finding) or
`termx TL TC BUF CAPS PEN SEED` (the library's real xterm driver behind an output buffer of BUF bytes - 0 = none, 1 .. a few
hundred, mostly far smaller than the runs that are flushed - and a recording output function, whose bytes a VT screen model
reads; capabilities rgb8 / colon sub-parameters on and off), a C03-style drawing program, `flush`, and (often) a second
and third round of drawing + `flush` onto the terminal as the previous flush left it.
CHAR cells carry code points of every UTF-8 length, with the first and last code point of each length (U+7F/U+80 only
where the sink is the grid driver, which gives a control one column; the mock terminal keeps to a fixed one-column list).

quick / thorough: random drawing programs (every primitive of engine `rb`) on buffers 1x1 .. 6x12, biased towards what
the flush has to get right: texts mixing single-width, double-width and zero-width characters; later operations
("cutters": char, erase, skip, line segments, masks, clips) aimed at columns *inside* texts already drawn, including
the two halves of double-width characters; erase runs followed and not followed by content (the moveend choice), runs
ending at the last column; adjacent line cells with equal and different pens (batching); every pen attribute.
A second stream of *wide* buffers (90-300 columns) carries line runs of more than 85 cells (one pen, a pen change and a
change to an equivalent pen mid-run), texts of more than 256 bytes and long erase runs: the growth paths of the flush's
scratch buffer.
Terminal: window at least as large as the buffer (sometimes smaller or larger), both cursor oracles and mixed ones,
direct print and print through write_str, with and without a prior pen, sentinel pattern from a seed.
A fourth stream of buffers *larger than the terminal* (more columns, and for the mock terminal also more lines), whose
content is mostly kept within the screen (by a clip, or by aiming at it; runs ending exactly in the screen's last
column and on its last line, an erase reaching the screen's edge with SKIP cells beyond) - the hypothesis of
flush_spec_screen - and sometimes reaches beyond it (only completion and the reset are claimed then).
exhaustive: every program of <= 3 operations over a reduced alphabet on a 2x6 buffer x {oracle stay, oracle move} x
{direct, write_str}, two terminals smaller than the buffer (grid 2x4, mock terminal 1x5) and the xterm driver behind a 4-byte
output buffer, then `flush`.
Prints one JSON line: the input distribution actually produced.
"""
import argparse, random, json, itertools, collections

ap = argparse.ArgumentParser()
ap.add_argument("--seed", type=int, default=1); ap.add_argument("--tier", default="quick")
ap.add_argument("--out", required=True); ap.add_argument("--prop", default="C04")
a = ap.parse_args()
rng = random.Random(a.seed)
stats = collections.Counter()
textkinds = collections.Counter()
sizes = collections.Counter()
feat = collections.Counter()


def hexs(b):
    return b.hex() if b else "-"


ASCII = "abcxyzAZ09 _.#"
COMBINING = ["\u0301", "\u0308", "\u20d7", "\u200b"]                       # width 0 (incl. ZERO WIDTH SPACE)
WIDE = ["\uff21", "\u4e00", "\u3042", "\uac00", "\U0001f600", "\u231a"]    # width 2 (mk_wcwidth and fullwidth.inc)
NARROW = ["\u00e9", "\u00ad", "\u2500", "\u03a9", "\U00010400"]            # width 1, 2-4 bytes
WIDTH = {}
for ch in ASCII + "".join(NARROW): WIDTH[ch] = 1
for ch in COMBINING: WIDTH[ch] = 0
for ch in WIDE: WIDTH[ch] = 2


# what the flush writes to: the harness's grid driver, the library's mock terminal, or the real xterm driver (+ VT model)
SINK = ["grid"]
XCOLON = [False]     # xterm sink: the driver uses ':' sub-parameters


def gen_text():
    """(bytes, list of (column, width) of the characters of width >= 1) - the latter only for well-formed texts."""
    k = rng.random()
    if k < 0.04:
        textkinds["malformed"] += 1
        bad = [b"ab\x01c", b"\x7f", b"a\xc2\x80b", b"\x80", b"ab\xbf", b"\xe3\x81", b"x\xf0\x9f\x98", b"\xff",
               b"a\x00bc", b"\x00", b"\xc3\x41z", b"\xc2\x9f", b"ab\xe2\x00\x80", b"\x1b[m"]
        if SINK[0] == "x":
            # C3 41 is counted as one character by next_utf8 (C07 known finding lax_continuation); a VT reads U+FFFD + A
            bad.remove(b"\xc3\x41z")
        return rng.choice(bad), []
    if k < 0.07:
        textkinds["empty"] += 1
        return b"", []
    if k < 0.10:
        textkinds["zero-width-only"] += 1
        return "".join(rng.choice(COMBINING) for _ in range(rng.randint(1, 2))).encode(), []
    n = rng.choice([1, 2, 2, 3, 3, 4, 5, 6, 8, 12])
    if k < 0.30:
        textkinds["ascii"] += 1
        s = "".join(rng.choice(ASCII) for _ in range(n))
    else:
        textkinds["mixed"] += 1
        out = []
        for _ in range(n):
            r = rng.random()
            if r < 0.40: out.append(rng.choice(ASCII))
            elif r < 0.72: out.append(rng.choice(WIDE))
            elif r < 0.87: out.append(rng.choice(COMBINING))
            else: out.append(rng.choice(NARROW))
        s = "".join(out)
    cols, c = [], 0
    for ch in s:
        w = WIDTH[ch]
        if w: cols.append((c, w))
        c += w
    return s.encode(), cols


def gen_pen(allow_null=True):
    if allow_null and rng.random() < 0.05:
        return "NULL"
    if rng.random() < 0.10:
        return "-"
    items = []
    def colour(name):
        idx = rng.choice([-1, 0, 1, 2, 3, 7, 8, 15, 16, 255])
        s = f"{name}={idx}"
        if rng.random() < 0.3:
            s += "#" + rng.choice(["ff0000", "00ff00", "0000ff", "000000", "102030", "ffffff"])
        return s
    p = rng.choice([0.15, 0.3, 0.6])
    if rng.random() < max(p, 0.4): items.append(colour("fg"))
    if rng.random() < p: items.append(colour("bg"))
    if rng.random() < p: items.append(f"b={rng.randint(0, 1)}")
    if rng.random() < p: items.append(f"u={rng.randint(0, 3)}")
    if rng.random() < p: items.append(f"i={rng.randint(0, 1)}")
    if rng.random() < p: items.append(f"rv={rng.randint(0, 1)}")
    if rng.random() < p / 2: items.append(f"strike={rng.randint(0, 1)}")
    if rng.random() < p / 2: items.append(f"af={rng.choice([-1, 0, 1, 5, 10])}")
    if rng.random() < p / 2: items.append(f"blink={rng.randint(0, 1)}")
    if rng.random() < p / 2: items.append(f"sizepos={rng.randint(0, 3)}")
    if SINK[0] == "x":
        # what SGR cannot say (C10 known findings sizepos_small, under_curly_no_colon) is kept out of the xterm sink
        items = [("sizepos=" + str(rng.choice([0, 2, 3]))) if it == "sizepos=1" else it for it in items]
        if not XCOLON[0]:
            items = [("u=" + str(rng.choice([0, 1, 2]))) if it == "u=3" else it for it in items]
    return ",".join(items) if items else "-"


# code points for char/char_at: overwhelmingly one column wide (the contract of a CHAR cell); rarely not
CHAR_W1 = [65, 97, 0x23, 0xe9, 0x2500, 0x3a9, 0x10400]
CHAR_OTHER = [0xff21, 0x301, 0x1f600, 0x200b]
# one column wide, every UTF-8 length, the first and the last code point of each length
CHAR_EDGE = [0x20, 0x7e, 0xa0, 0x7ff, 0x800, 0xfffd, 0xffff, 0x10000, 0x10001, 0x10ffff]
# the last 1-byte and the first 2-byte code point are controls (no width): only where the sink gives them a column
CHAR_CTRL_EDGE = [0x7f, 0x80]


ONLY_W1 = [False]   # histories flushed to the library's mock terminal keep to one-column CHAR code points


def gen_cp():
    if ONLY_W1[0]:
        return rng.choice(CHAR_W1)
    r = rng.random()
    if r < 0.015:
        feat["char_not_width1"] += 1
        return rng.choice(CHAR_OTHER)
    if r < 0.30:
        feat["char_utf8_edge"] += 1
        return rng.choice(CHAR_EDGE + (CHAR_CTRL_EDGE if SINK[0] == "grid" else []))
    return rng.choice(CHAR_W1)


class Hist:
    """One history; tracks an approximation of the auxiliary state so that operations mostly land."""
    def __init__(self, L, C):
        self.L, self.C = L, C
        self.ops = [f"new {L} {C}"]
        self.xl = (0, 0)
        self.saved = []
        self.cursor = False
        self.texts = []      # (buffer line, buffer column, [(col, width)]) of texts drawn in this round

    def emit(self, s):
        self.ops.append(s)
        stats[s.split()[0]] += 1

    def line(self):
        r = rng.random()
        if r < 0.88: v = rng.randint(0, self.L - 1)
        elif r < 0.97: v = rng.choice([-1, self.L, -2, self.L + 1])
        else: v = rng.choice([-5, self.L + 5, 1000, -1000])
        return v - self.xl[0]

    def col(self):
        r = rng.random()
        if r < 0.75: v = rng.randint(0, self.C - 1)
        elif r < 0.95: v = rng.randint(-4, self.C + 3)
        else: v = rng.choice([-1000, 1000, -self.C, 2 * self.C])
        return v - self.xl[1]

    def width(self):
        r = rng.random()
        if r < 0.80: return rng.randint(1, self.C + 1)
        if r < 0.93: return rng.choice([0, 1, self.C, self.C + 5])
        return rng.choice([-1, -3, 1000])

    def rect(self):
        r = rng.random()
        if r < 0.80:
            t = rng.randint(-1, self.L - 1); l = rng.randint(-2, self.C - 1)
            return (t - self.xl[0], l - self.xl[1], rng.randint(1, self.L + 1), rng.randint(1, self.C + 2))
        if r < 0.92:
            return (self.line(), self.col(), rng.randint(0, 2), rng.randint(0, 3))
        return (self.line(), self.col(), rng.choice([-1, 0, 1, 50]), rng.choice([-2, 0, 1, 50]))

    def text_op(self):
        bs, cols = gen_text()
        l, c = self.line(), self.col()
        # start so that the text tends to straddle an edge of the buffer or of the clip
        if rng.random() < 0.25 and cols:
            c = rng.choice([-1, -2, self.C - 1, self.C - 2, self.C - 3]) - self.xl[1]
        self.emit(f"{rng.choice(['text_at', 'text_at', 'text_at', 'textf_at'])} {l} {c} {hexs(bs)}")
        if cols:
            self.texts.append((l + self.xl[0], c + self.xl[1], cols))

    def target(self):
        """A (line, column, kind) inside a text drawn earlier: the first or the second column of one of its characters,
        or the column next to it - in *buffer* coordinates."""
        l, c0, cols = rng.choice(self.texts)
        col, w = rng.choice(cols)
        r = rng.random()
        if w == 2:
            if r < 0.45: feat["cut_wide_second_half"] += 1; return l, c0 + col + 1
            if r < 0.80: feat["cut_wide_first_half"] += 1; return l, c0 + col
            return l, c0 + col + 2
        feat["cut_narrow"] += 1
        return l, c0 + col + rng.choice([0, 0, 1])

    def cutter(self):
        """An operation aimed at a column inside an existing text."""
        l, c = self.target()
        l -= self.xl[0]; c -= self.xl[1]
        r = rng.random()
        if r < 0.22: self.emit(f"char_at {l} {c} {gen_cp()}")
        elif r < 0.44: self.emit(f"erase_at {l} {c} {rng.choice([1, 1, 2, 3])}")
        elif r < 0.58: self.emit(f"skip_at {l} {c} {rng.choice([1, 1, 2, 3])}")
        elif r < 0.72: self.emit(f"vline {l - rng.randint(0, 1)} {l + rng.randint(0, 1)} {c} {rng.randint(1, 3)} {rng.randint(0, 3)}")
        elif r < 0.80: self.emit(f"hline {l} {c} {c + rng.randint(0, 2)} {rng.randint(1, 3)} {rng.randint(0, 3)}")
        elif r < 0.88: self.emit(f"mask {l} {c} 1 {rng.choice([1, 1, 2])}")
        elif r < 0.94:
            bs, cols = gen_text()
            self.emit(f"text_at {l} {c} {hexs(bs)}")
            if cols: self.texts.append((l + self.xl[0], c + self.xl[1], cols))
        else:
            # a clip whose left or right edge is the target column
            if rng.random() < 0.5: self.emit(f"clip {-self.xl[0]} {c} {self.L} {self.C + 5}")
            else: self.emit(f"clip {-self.xl[0]} {-self.xl[1]} {self.L} {c + self.xl[1]}")

    def step(self):
        r = rng.random()
        if self.texts and r < 0.22:
            self.cutter()
        elif r < 0.40:
            self.text_op()
        elif r < 0.45:
            if not self.cursor and rng.random() < 0.8:
                self.emit(f"goto {self.line()} {self.col()}"); self.cursor = True
            bs, _ = gen_text()
            self.emit(f"{rng.choice(['text', 'text', 'textf'])} {hexs(bs)}")
        elif r < 0.53:
            self.emit(f"erase_at {self.line()} {self.col()} {self.width()}")
        elif r < 0.57:
            self.emit(f"skip_at {self.line()} {self.col()} {self.width()}")
        elif r < 0.61:
            if not self.cursor and rng.random() < 0.8:
                self.emit(f"goto {self.line()} {self.col()}"); self.cursor = True
            k = rng.choice(["erase", "skip", "erase_to", "skip_to", "char"])
            if k in ("erase", "skip"): self.emit(f"{k} {self.width()}")
            elif k == "char": self.emit(f"char {gen_cp()}")
            else: self.emit(f"{k} {self.col()}")
        elif r < 0.66:
            self.emit(f"char_at {self.line()} {self.col()} {gen_cp()}")
        elif r < 0.76:
            st, caps = rng.randint(1, 3), rng.randint(0, 3)
            if rng.random() < 0.5:
                c1 = self.col(); c2 = c1 + rng.choice([0, 1, 2, 3, self.C, -1])
                self.emit(f"hline {self.line()} {c1} {c2} {st} {caps}")
            else:
                l1 = self.line(); l2 = l1 + rng.choice([0, 1, 2, self.L, -1])
                self.emit(f"vline {l1} {l2} {self.col()} {st} {caps}")
        elif r < 0.78:
            self.emit("clear")
        elif r < 0.82:
            self.emit("%s %d %d %d %d" % ((rng.choice(["eraserect", "skiprect"]),) + self.rect()))
        elif r < 0.84:
            if rng.random() < 0.8:
                self.emit(f"goto {self.line()} {self.col()}"); self.cursor = True
            else:
                self.emit("ungoto"); self.cursor = False
        elif r < 0.86:
            d, rr = rng.choice([(0, 1), (1, 0), (-1, -1), (1, 2), (0, -3), (0, 0)])
            self.emit(f"xl {d} {rr}"); self.xl = (self.xl[0] + d, self.xl[1] + rr)
        elif r < 0.88:
            self.emit("clip %d %d %d %d" % self.rect())
        elif r < 0.91:
            self.emit("mask %d %d %d %d" % self.rect())
        elif r < 0.97:
            self.emit(f"setpen {gen_pen()}")
        elif r < 0.985:
            k = rng.choice(["save", "save", "savepen"])
            self.emit(k); self.saved.append((k, self.xl, self.cursor))
        else:
            self.emit("restore")
            if self.saved:
                k, xl, cur = self.saved.pop()
                if k == "save": self.xl = xl

    def flushed(self):
        self.xl = (0, 0); self.saved = []; self.cursor = False; self.texts = []


def gen_mockterm(L, C):
    """The library's own mock terminal (second configuration): at least as large as the buffer."""
    r = rng.random()
    if r < 0.6: tl, tc = L, C
    else: tl, tc = L + rng.choice([0, 1, 2]), C + rng.choice([0, 1, 3])
    pen = "NONE" if rng.random() < 0.3 else gen_pen(allow_null=False)
    feat["mockterm"] += 1
    return f"termm {tl} {tc} {pen} {rng.randint(0, 9999)}"


XBUF_SMALL = [0, 1, 1, 2, 3, 4, 5, 6, 7, 8, 8, 11, 16, 16, 31, 32, 64]
XBUF_WIDE = [0, 1, 8, 16, 64, 100, 255, 256, 257, 300, 500]


def gen_xterm(tl, tc, bufs=XBUF_SMALL):
    """The real xterm driver behind an output buffer (third configuration); sets the pen filter for the history."""
    caps = rng.choice([0, 0, 1, 2, 3, 3])
    SINK[0] = "x"; XCOLON[0] = bool(caps & 2)
    buf = rng.choice(bufs)
    pen = "NONE" if rng.random() < 0.3 else gen_pen(allow_null=False)
    feat["xterm"] += 1
    feat["xterm_unbuffered" if buf == 0 else "xterm_buffer_le_8" if buf <= 8 else "xterm_buffer_gt_8"] += 1
    return f"termx {tl} {tc} {buf} {caps} {pen} {rng.randint(0, 9999)}"


def sink_done():
    SINK[0] = "grid"; XCOLON[0] = False; ONLY_W1[0] = False


def gen_term(L, C):
    r = rng.random()
    if r < 0.55: tl, tc = L, C
    elif r < 0.85: tl, tc = L + rng.choice([0, 1, 2]), C + rng.choice([0, 1, 3])
    elif r < 0.93: tl, tc = max(1, L - 1), max(1, C - rng.choice([0, 0, 0, 1, 2]))
    else: tl, tc = L + 3, C + 8
    oracle = rng.choice([0, 0, 0x7fffffff, 0x7fffffff, 0x55555555 & 0x7fffffff, 0x2aaaaaaa, rng.getrandbits(31)])
    ws = 1 if rng.random() < 0.3 else 0
    pen = "NONE" if rng.random() < 0.3 else gen_pen(allow_null=False)
    feat["oracle_" + ("stay" if oracle == 0 else "move" if oracle == 0x7fffffff else "mixed")] += 1
    feat["print_via_write_str" if ws else "print_direct"] += 1
    feat["prior_pen_none" if pen == "NONE" else "prior_pen"] += 1
    return f"term {tl} {tc} {oracle} {ws} {pen} {rng.randint(0, 9999)}"


def random_history():
    L = rng.choice([1, 1, 2, 2, 3, 3, 4, 5, 6]); C = rng.choice([1, 2, 3, 4, 5, 5, 6, 7, 8, 10, 12])
    sizes[f"{L}x{C}"] += 1
    h = Hist(L, C)
    k = rng.random()
    if k < 0.22:
        ONLY_W1[0] = True; SINK[0] = "mock"
        h.emit(gen_mockterm(L, C))
    elif k < 0.44:
        r = rng.random()
        if r < 0.6: tl, tc = L, C
        else: tl, tc = L + rng.choice([0, 1, 2]), C + rng.choice([0, 1, 3])
        h.emit(gen_xterm(tl, tc))
    else:
        h.emit(gen_term(L, C))
    rounds = rng.choice([1, 1, 2, 2, 3])
    for k in range(rounds):
        if rng.random() < 0.15:
            h.emit("save"); h.saved.append(("save", h.xl, h.cursor))
            if rng.random() < 0.5: h.emit("mask %d %d %d %d" % h.rect())
        if k > 0 and SINK[0] == "x" and rng.random() < 0.35:
            feat["suspend_between_rounds"] += 1
            h.emit("suspend")
        for _ in range(rng.randint(2, 14) if k == 0 else rng.randint(0, 8)):
            h.step()
        h.emit("flush"); h.flushed()
    if rng.random() < 0.1:
        h.emit("getcells")
    sink_done()
    return h.ops


def wide_history():
    """A wide buffer (90-300 columns, 1-2 lines): runs long enough to make every scratch buffer of the flush grow -
    more than 85 adjacent line cells with equivalent pens (85 x 3 bytes fill the initial 256-byte rb->tmp), line runs
    whose pen changes (or changes to an *equivalent* pen) in the middle, texts of more than 256 bytes (ASCII, 2-4 byte
    and double-width characters), long erase runs, and mixtures with cutters in the middle of the long runs."""
    L = rng.choice([1, 1, 2]); C = rng.choice([90, 100, 128, 150, 200, 257, 300])
    sizes[f"{L}x{C}"] += 1
    feat["wide_history"] += 1
    h = Hist(L, C)
    tc = C + rng.choice([0, 0, 1, 5])
    oracle = rng.choice([0, 0x7fffffff, rng.getrandbits(31)])
    k = rng.random()
    if k < 0.3:
        h.emit(gen_xterm(L, tc, XBUF_WIDE))
    else:
        pen = "NONE" if rng.random() < 0.4 else gen_pen(allow_null=False)
        if k < 0.45:
            feat["mockterm"] += 1
            h.emit(f"termm {L} {tc} {pen} {rng.randint(0, 9999)}")
        else:
            h.emit(f"term {L} {tc} {oracle} {1 if rng.random() < 0.3 else 0} {pen} {rng.randint(0, 9999)}")

    def long_hline(line):
        c1 = rng.randint(0, 3); c2 = C - 1 - rng.randint(0, 3)
        st = rng.randint(1, 3)
        k = rng.random()
        if k < 0.35:
            feat["long_line_one_pen"] += 1
            h.emit(f"hline {line} {c1} {c2} {st} {rng.randint(0, 3)}")
        elif k < 0.65:
            feat["long_line_pen_change"] += 1
            m = rng.randint(c1 + 1, c2 - 1)
            h.emit(f"hline {line} {c1} {m} {st} {rng.randint(0, 3)}")
            h.emit(f"setpen {gen_pen(allow_null=False)}")
            h.emit(f"hline {line} {m + 1} {c2} {rng.randint(1, 3)} {rng.randint(0, 3)}")
        else:
            feat["long_line_equivalent_pen"] += 1      # b=0 / u=0 / fg=-1 are equivalent to absent: one batch
            m = rng.randint(c1 + 1, c2 - 1)
            h.emit("setpen -")
            h.emit(f"hline {line} {c1} {m} {st} {rng.randint(0, 3)}")
            h.emit(f"setpen {rng.choice(['b=0', 'u=0', 'fg=-1', 'i=0,rv=0', 'af=0'])}")
            h.emit(f"hline {line} {m + 1} {c2} {st} {rng.randint(0, 3)}")

    def long_text(line):
        k = rng.random()
        n = rng.randint(C - 20, C + 40)
        if k < 0.35:
            feat["long_text_ascii"] += 1
            s = "".join(rng.choice(ASCII) for _ in range(max(n, 260)))
        elif k < 0.7:
            feat["long_text_multibyte"] += 1
            s = "".join(rng.choice(NARROW + ["a", "z"]) for _ in range(n))
        else:
            feat["long_text_mixed"] += 1
            s = "".join(rng.choice(WIDE) if rng.random() < 0.4 else rng.choice(COMBINING) if rng.random() < 0.15
                        else rng.choice(NARROW + list(ASCII)) for _ in range(n))
        kind = "textf_at" if rng.random() < 0.3 else "text_at"
        h.emit(f"{kind} {line} {rng.choice([0, 0, 1, -3, -1])} {hexs(s.encode())}")

    for line in range(L):
        for _ in range(rng.choice([1, 1, 2])):
            r = rng.random()
            if r < 0.5: long_hline(line)
            elif r < 0.8: long_text(line)
            else:
                feat["long_erase"] += 1
                h.emit(f"erase_at {line} {rng.randint(0, 5)} {C - rng.randint(0, 10)}")
        # cutters in the middle of the long runs
        for _ in range(rng.choice([0, 1, 2, 3])):
            c = rng.randint(1, C - 2)
            r = rng.random()
            if r < 0.3: h.emit(f"vline {line - 1} {line + 1} {c} {rng.randint(1, 3)} 0")
            elif r < 0.5: h.emit(f"char_at {line} {c} {rng.choice(CHAR_W1)}")
            elif r < 0.7: h.emit(f"erase_at {line} {c} {rng.choice([1, 2, 90])}")
            elif r < 0.85: h.emit(f"skip_at {line} {c} {rng.choice([1, 3])}")
            else: h.emit(f"mask {line} {c} 1 {rng.choice([1, 2])}")
        if rng.random() < 0.3:
            h.emit(f"setpen {gen_pen()}")
    h.emit("flush")
    if rng.random() < 0.4:
        long_hline(rng.randint(0, L - 1))
        h.emit("flush")
    sink_done()
    return h.ops


def edge_history():
    """Buffer exactly as wide as the terminal, lines whose last column is filled by printed content (text, line cell,
    char - or an erase, for contrast), and following lines whose first pending cell is at column 0 (an erase, a text
    that starts with the blanked half of a double-width character, plain text, a line cell) or further right: whatever
    the flush assumes about the cursor after the last column (pending wrap on a VT) shows here."""
    L = rng.choice([2, 2, 3, 4]); C = rng.choice([2, 3, 4, 5, 6, 8, 12])
    sizes[f"{L}x{C}"] += 1
    feat["edge_history"] += 1
    h = Hist(L, C)
    oracle = rng.choice([0, 0x7fffffff, rng.getrandbits(31)])
    k = rng.random()
    if k < 0.3:
        h.emit(gen_xterm(L + rng.choice([0, 0, 1]), C))
    else:
        pen = "NONE" if rng.random() < 0.4 else gen_pen(allow_null=False)
        if k < 0.5:
            feat["mockterm"] += 1
            h.emit(f"termm {L + rng.choice([0, 0, 1])} {C} {pen} {rng.randint(0, 9999)}")
        else:
            h.emit(f"term {L + rng.choice([0, 0, 1])} {C} {oracle} {1 if rng.random() < 0.3 else 0} {pen} {rng.randint(0, 9999)}")
    for line in range(L):
        if rng.random() < 0.25:
            h.emit(f"setpen {gen_pen()}")
        # what starts the line
        r = rng.random()
        if r < 0.35: h.emit(f"erase_at {line} 0 {rng.randint(1, C)}"); feat["edge_first_erase"] += 1
        elif r < 0.50:
            h.emit(f"text_at {line} -1 {hexs((rng.choice(WIDE) + rng.choice(ASCII)).encode())}"); feat["edge_first_half_wide"] += 1
        elif r < 0.65: h.emit(f"text_at {line} 0 {hexs(rng.choice(ASCII).encode())}"); feat["edge_first_text"] += 1
        elif r < 0.75: h.emit(f"char_at {line} 0 {rng.choice(CHAR_W1)}")
        elif r < 0.85: h.emit(f"vline {line} {line} 0 {rng.randint(1, 3)} 3")
        # what fills the last column
        r = rng.random()
        if r < 0.30:
            k = rng.randint(1, min(C, 4))
            h.emit(f"text_at {line} {C - k} {hexs(''.join(rng.choice(ASCII) for _ in range(k + rng.choice([0, 0, 2]))).encode())}")
            feat["edge_last_text"] += 1
        elif r < 0.45 and C >= 2:
            h.emit(f"text_at {line} {C - 2} {hexs(rng.choice(WIDE).encode())}"); feat["edge_last_wide"] += 1
        elif r < 0.60: h.emit(f"char_at {line} {C - 1} {rng.choice(CHAR_W1)}"); feat["edge_last_char"] += 1
        elif r < 0.75: h.emit(f"hline {line} {rng.randint(0, C - 1)} {C - 1} {rng.randint(1, 3)} 3"); feat["edge_last_line"] += 1
        elif r < 0.87: h.emit(f"erase_at {line} {rng.randint(0, C - 1)} {C}"); feat["edge_last_erase"] += 1
    h.emit("flush")
    sink_done()
    return h.ops


def small_screen_history():
    """A buffer larger than the terminal: TC < C (both configurations) and, on the mock terminal (a real screen: cursor
    movements are clamped to it), also TL < L.  The drawing is kept within the screen - by a clip set first, or by
    aiming every operation at the screen's columns and lines - in about 85% of the histories (then the whole
    specification is evaluated); the rest draws anywhere in the buffer."""
    L = rng.choice([1, 2, 2, 3, 4, 5]); C = rng.choice([3, 4, 5, 6, 8, 10, 12])
    sizes[f"{L}x{C}"] += 1
    feat["small_screen_history"] += 1
    k = rng.random()
    xt = k < 0.25                   # the xterm sink: a VT screen, cursor movements clamped like the mock terminal's
    mock = k < 0.6
    tc = max(1, C - rng.choice([1, 1, 2, 3, C // 2]))
    tl = max(1, L - rng.choice([0, 1, 1, 2])) if mock else L + rng.choice([0, 0, 1])
    if mock and tl == L and rng.random() < 0.5: tl = max(1, L - 1)
    h = Hist(L, C)
    ONLY_W1[0] = True
    if xt:
        h.emit(gen_xterm(tl, tc))
    pen = "NONE" if rng.random() < 0.4 else gen_pen(allow_null=False)
    if xt:
        pass
    elif mock:
        feat["mockterm"] += 1
        h.emit(f"termm {tl} {tc} {pen} {rng.randint(0, 9999)}")
    else:
        oracle = rng.choice([0, 0x7fffffff, rng.getrandbits(31)])
        h.emit(f"term {tl} {tc} {oracle} {1 if rng.random() < 0.3 else 0} {pen} {rng.randint(0, 9999)}")
    sl = min(tl, L)                     # the lines of the buffer that are on the screen
    for k in range(rng.choice([1, 1, 2])):
        mode = rng.random()
        if mode < 0.35:
            feat["small_screen_clip"] += 1
            h.emit(f"clip 0 0 {sl} {tc}")
            for _ in range(rng.randint(2, 10)):
                h.step()
        elif mode < 0.85:
            feat["small_screen_aimed"] += 1
            for line in range(sl):
                if rng.random() < 0.2: h.emit(f"setpen {gen_pen()}")
                r = rng.random()
                # what ends in (or next to) the screen's last column
                if r < 0.25:
                    k2 = rng.randint(1, min(tc, 4))
                    h.emit(f"text_at {line} {tc - k2} {hexs(''.join(rng.choice(ASCII) for _ in range(k2)).encode())}")
                elif r < 0.35 and tc >= 2:
                    h.emit(f"text_at {line} {tc - 2} {hexs(rng.choice(WIDE).encode())}")
                elif r < 0.50: h.emit(f"erase_at {line} {rng.randint(0, tc - 1)} {tc}"); h.emit(f"skip_at {line} {tc} {C}")
                elif r < 0.60: h.emit(f"char_at {line} {tc - 1} {rng.choice(CHAR_W1)}")
                elif r < 0.72: h.emit(f"hline {line} {rng.randint(0, tc - 1)} {tc - 1} {rng.randint(1, 3)} {rng.randint(0, 3)}")
                elif r < 0.80:
                    bs, cols = gen_text()
                    h.emit(f"text_at {line} {rng.randint(-1, tc - 1)} {hexs(bs)}"); h.emit(f"skip_at {line} {tc} {C}")
                # something further left
                r = rng.random()
                if r < 0.3: h.emit(f"erase_at {line} 0 {rng.randint(1, tc)}"); h.emit(f"skip_at {line} {tc} {C}")
                elif r < 0.5 and tc >= 2: h.emit(f"text_at {line} 0 {hexs(rng.choice(ASCII).encode())}")
                elif r < 0.6: h.emit(f"vline {line} {line} {rng.randint(0, tc - 1)} {rng.randint(1, 3)} 3")
            if sl < L and rng.random() < 0.3:
                h.emit(f"skiprect {sl} 0 {L - sl} {C}")
        else:
            feat["small_screen_beyond"] += 1
            for _ in range(rng.randint(2, 8)):
                h.step()
        h.emit("flush"); h.flushed()
    sink_done()
    return h.ops


def pen_variant(p):
    """A pen that shares attribute values with pen `p`: the same, a part of it, more, or one value changed."""
    items = [] if p in ("-", "NULL", "NONE") else p.split(",")
    r = rng.random()
    if r < 0.40 or not items:
        feat["suspend_same_pen"] += 1
        return p if items else gen_pen(allow_null=False)
    have = {it.split("=")[0] for it in items}
    fresh = [it for it in gen_pen(allow_null=False).split(",") if it != "-"]
    if r < 0.58:
        feat["suspend_pen_part"] += 1
        keep = [it for it in items if rng.random() < 0.6]
        return ",".join(keep) if keep else "-"
    if r < 0.78:
        feat["suspend_pen_more"] += 1
        return ",".join(items + [it for it in fresh if it.split("=")[0] not in have])
    feat["suspend_pen_one_changed"] += 1
    k = rng.randrange(len(items))
    name = items[k].split("=")[0]
    repl = [it for it in fresh if it.split("=")[0] == name]
    out = items[:k] + repl + items[k + 1:]
    return ",".join(out) if out else "-"


def suspend_history():
    """Two or three frames flushed through the real xterm driver with the terminal paused and resumed in between
    (tickit_term_pause / tickit_term_resume, as around SIGTSTP): the first cells of a frame are drawn in a pen that
    shares attribute values with the last pen the previous frame used - what the terminal renders with after the
    resume is the "prior terminal pen" of that flush."""
    L = rng.choice([1, 2, 2, 3]); C = rng.choice([3, 4, 5, 6, 8, 10])
    sizes[f"{L}x{C}"] += 1
    feat["suspend_history"] += 1
    h = Hist(L, C)
    tl, tc = (L, C) if rng.random() < 0.6 else (L + rng.choice([0, 1]), C + rng.choice([0, 1, 3]))
    h.emit(gen_xterm(tl, tc))
    term_pen = h.ops[-1].split()[5]
    last = None if term_pen == "NONE" else term_pen
    for k in range(rng.choice([2, 2, 3])):
        if k > 0 and rng.random() < 0.9:
            h.emit("suspend")
            if rng.random() < 0.1: h.emit("suspend")
        first = pen_variant(last) if last is not None else gen_pen(allow_null=False)
        h.emit(f"setpen {first}")
        # the first cells of the frame: line 0 from column 0 (or a little further right)
        c0 = rng.choice([0, 0, 0, 1])
        r = rng.random()
        if r < 0.45: h.emit(f"text_at 0 {c0} {hexs(''.join(rng.choice(ASCII) for _ in range(rng.randint(1, 3))).encode())}")
        elif r < 0.65: h.emit(f"erase_at 0 {c0} {rng.randint(1, C)}")
        elif r < 0.80: h.emit(f"char_at 0 {c0} {rng.choice(CHAR_W1)}")
        else: h.emit(f"hline 0 {c0} {min(C - 1, c0 + rng.randint(0, 2))} {rng.randint(1, 3)} {rng.randint(0, 3)}")
        for _ in range(rng.choice([0, 0, 1, 2, 4])):
            h.step()
        # the last cells of the frame: the end of the last line, in a pen that is known
        last = gen_pen(allow_null=False) if rng.random() < 0.6 else first
        h.emit(f"setpen {last}")
        if rng.random() < 0.7: h.emit(f"text_at {L - 1 - h.xl[0]} {C - 2 - h.xl[1]} {hexs(''.join(rng.choice(ASCII) for _ in range(2)).encode())}")
        else: h.emit(f"erase_at {L - 1 - h.xl[0]} {C - 2 - h.xl[1]} 2")
        h.emit("flush"); h.flushed()
    sink_done()
    return h.ops


def exhaustive():
    """Every program of <= 3 drawing operations over a reduced alphabet on a 2x6 buffer, six terminal configurations."""
    alpha = [
        "text_at 0 0 78efbca1797a",      # x + fullwidth A + y z   (columns 0 | 1-2 | 3 | 4)
        "text_at 0 -1 61efbca162",       # a + fullwidth A + b, clipped on the left after `a`
        "text_at 0 3 78cc81e4b880",      # x + combining acute, CJK one: clipped on the right inside the wide character
        "erase_at 0 0 6",
        "erase_at 0 2 2",
        "skip_at 0 1 2",
        "char_at 0 2 65",
        "char_at 0 1 35",
        "hline 0 1 3 1 3",
        "vline 0 1 2 2 1",
        "hline 0 2 2 3 0",
        "setpen fg=1,b=1",
        "mask 0 2 1 1",
    ]
    terms = ["term 2 6 0 0 NONE 1", "term 2 6 2147483647 0 bg=2 2", "term 2 6 0 1 NONE 3", "term 3 8 2147483647 1 fg=3,rv=1 4",
             "term 2 4 2147483647 0 NONE 5", "termm 1 5 fg=2 6",   # a terminal smaller than the buffer (grid: columns; mock: lines, too)
             "termx 2 6 4 2 bg=1 7"]                               # the real xterm driver, a 4-byte output buffer
    out, n = [], 0
    for term in terms:
        for k in (1, 2, 3):
            for prog in itertools.product(alpha, repeat=k):
                out.append("new 2 6")
                out.append(term)
                out.extend(prog)
                out.append("flush")
                n += 1
    for op in out:
        stats[op.split()[0]] += 1
    return out, n


lines = []
info = {}
if a.tier == "exhaustive":
    lines, n = exhaustive()
    info = {"histories": n, "exhaustive_bound": "all programs of <= 3 operations over a 13-operation alphabet on a 2x6 buffer x 7 terminal configurations (two of them smaller than the buffer, one the real xterm driver behind a 4-byte output buffer), then flush"}
else:
    N = 1300 if a.tier == "quick" else 8000
    W = 150 if a.tier == "quick" else 600
    for _ in range(N):
        lines.extend(random_history())
    for _ in range(W):
        lines.extend(wide_history())
    E = 250 if a.tier == "quick" else 1500
    for _ in range(E):
        lines.extend(edge_history())
    S = 300 if a.tier == "quick" else 1800
    for _ in range(S):
        lines.extend(small_screen_history())
    P = 220 if a.tier == "quick" else 1300
    for _ in range(P):
        lines.extend(suspend_history())
    info = {"histories": N + W + E + S + P, "wide_histories": W, "edge_histories": E, "small_screen_histories": S,
            "suspend_histories": P}
open(a.out, "w").write("\n".join(lines) + "\n")
info.update({"ops": len(lines), "op_mix": dict(stats.most_common()), "text_kinds": dict(textkinds), "features": dict(feat),
             "buffer_sizes": dict(sizes.most_common(8))})
print(json.dumps(info))
