#!/usr/bin/env python3
"""Operation generator for engine `utf8` (C07).  All randomness from --seed.

Strings are built from *items* (one character each, or one malformed fragment) drawn from a weighted
alphabet; limits are chosen around the true totals of the string (the generator has its own reading of the
width tables of $VERIF_REPO, used only to aim at boundaries, never for a verdict).  Inputs whose only
malformation is a non-continuation byte inside a sequence (the known finding `lax_continuation`) go into
separate histories at the very end of the file.
"""
import argparse, random, json, itertools, os, re

ap = argparse.ArgumentParser()
ap.add_argument("--seed", type=int, default=1); ap.add_argument("--tier", default="quick")
ap.add_argument("--out", required=True); ap.add_argument("--prop", default="C07")
a = ap.parse_args()
rng = random.Random(a.seed)
REPO = os.environ.get("VERIF_REPO", "/repo")
NUL = b"\0"

# ---------------------------------------------------------------- the generator's own reading of the tables
def read_pairs(text):
    text = re.sub(r"/\*.*?\*/", " ", text, flags=re.S)
    text = re.sub(r"//[^\n]*", "", text)
    return [(int(x, 16), int(y, 16)) for x, y in re.findall(r"\{\s*0x([0-9A-Fa-f]+)\s*,\s*0x([0-9A-Fa-f]+)\s*\}", text)]
try:
    uni = open(os.path.join(REPO, "src", "unicode.h")).read()
    COMB = read_pairs(uni[uni.index("combining[]"):uni.index("bisearch")])
    FULL = read_pairs(open(os.path.join(REPO, "src", "fullwidth.inc")).read())
except Exception:
    COMB, FULL = [(0x300, 0x36f)], [(0x1100, 0x115f), (0x4e00, 0x9fff)]
WIDE_EXPR = [(0x1100, 0x115f), (0x2329, 0x232a), (0x2e80, 0xa4cf), (0xac00, 0xd7a3), (0xf900, 0xfaff), (0xfe10, 0xfe19),
             (0xfe30, 0xfe6f), (0xff00, 0xff60), (0xffe0, 0xffe6), (0x20000, 0x2fffd), (0x30000, 0x3fffd)]
def in_t(t, c): return any(x <= c <= y for x, y in t)
def width(c):
    if in_t(FULL, c): return 2
    if c == 0: return 0
    if c < 32 or 0x7f <= c < 0xa0: return -1
    if in_t(COMB, c): return 0
    return 2 if (in_t(WIDE_EXPR, c) and c != 0x303f) else 1
def enc(c):
    if c < 0x80: return bytes([c])
    if c < 0x800: return bytes([0xc0 | c >> 6, 0x80 | c & 63])
    if c < 0x10000: return bytes([0xe0 | c >> 12, 0x80 | c >> 6 & 63, 0x80 | c & 63])
    return bytes([0xf0 | c >> 18 & 7, 0x80 | c >> 12 & 63, 0x80 | c >> 6 & 63, 0x80 | c & 63])

# ---------------------------------------------------------------- alphabet: (name, weight, maker -> (bytes, width or None if an error fragment))
def pick_iv(t): x, y = rng.choice(t); return rng.randint(x, y)
def ch(c): return (enc(c), width(c))
def bad(b): return (bytes(b), None)
def trunc():
    c = rng.choice([0xe9, 0x5f61, 0x1f3e0, 0x301]); e = enc(c); return bad(e[:rng.randint(1, len(e) - 1)])
ALPHA = [
    ("ascii", 30, lambda: ch(rng.randint(0x20, 0x7e))),
    ("latin1", 8, lambda: ch(rng.randint(0xa0, 0xff))),
    ("bmp-narrow", 5, lambda: ch(rng.choice([0x3b1, 0x416, 0x5d0, 0x2500, 0x2501, 0x253b, 0x20ac, 0xad, 0x303f, 0xd7ff, 0xd800, 0xdfff, 0xe000, 0xfffd, 0xffff]))),
    ("combining", 14, lambda: ch(rng.choice([0x301, 0x300, 0x36f, 0x483, 0x20d0, 0xfe0f, 0x200b, 0x200d, 0xfeff, 0xe0100, 0x1d167]) if rng.random() < 0.7 else pick_iv(COMB))),
    ("jamo-lead", 3, lambda: ch(rng.randint(0x1100, 0x115f))),
    ("jamo-vowel", 3, lambda: ch(rng.randint(0x1160, 0x11ff))),
    ("cjk", 10, lambda: ch(rng.choice([0x5f61, 0x30ce, 0x7ca0, 0x4e00, 0x9fff, 0xac00, 0xd7a3, 0x3000]) if rng.random() < 0.6 else rng.randint(0x4e00, 0x9fff))),
    ("fullwidth-form", 3, lambda: ch(rng.randint(0xff01, 0xff60))),
    ("emoji", 6, lambda: ch(pick_iv([iv for iv in FULL if iv[0] >= 0x1f000] or FULL))),
    ("fullwidth-table", 3, lambda: ch(pick_iv(FULL))),
    ("both-tables", 2, lambda: ch(rng.choice([0x302a, 0x302f, 0x3099, 0x309a]))),
    ("astral", 3, lambda: ch(rng.choice([0x10000, 0x10ffff, 0x1d173, 0x20000, 0x2fffd, 0x2fffe, 0x3fffd, 0x3fffe, 0xe0001]) if rng.random() < 0.6 else rng.randint(0x10000, 0x10ffff))),
    ("beyond-unicode", 1, lambda: ch(rng.randint(0x110000, 0x1fffff))),
    ("overlong", 1, lambda: bad(rng.choice([[0xc1, 0x81], [0xc0, 0xa0], [0xe0, 0x81, 0x81], [0xf0, 0x80, 0x81, 0x81]])) if False else (bytes(rng.choice([[0xc1, 0x81], [0xe0, 0x81, 0x81], [0xf0, 0x80, 0x81, 0x81]])), 1)),
    ("C0", 2, lambda: bad([rng.randint(1, 0x1f)])),
    ("DEL", 1, lambda: bad([0x7f])),
    ("C1", 2, lambda: bad([0xc2, rng.randint(0x80, 0x9f)])),
    ("overlong-control", 1, lambda: bad(rng.choice([[0xc0, 0x80], [0xc0, 0x9b], [0xc1, 0xbf], [0xe0, 0x80, 0x80], [0xe0, 0x82, 0x9b]]))),
    ("bare-continuation", 2, lambda: bad([rng.randint(0x80, 0xbf)])),
    ("lead-f8-ff", 1, lambda: bad([rng.randint(0xf8, 0xff)] + [0x80] * rng.randint(0, 5))),
    ("truncated-at-end", 2, trunc),
]
NAMES = [n for n, _, _ in ALPHA]
WEIGHTS = [w for _, w, _ in ALPHA]
dist = {"alphabet": {n: 0 for n in NAMES}, "ops": {}, "strings": 0, "strings_with_error": 0, "limit_subsets": {}, "entry": {}}

def gen_string(maxitems, p_err=0.3):
    n = rng.choice([0, 1, 1, 2, 2, 3, 3, 4, 5, 6, 8, 12, maxitems])
    items = []
    allow_err = rng.random() < p_err
    for i in range(n):
        while True:
            k = rng.choices(range(len(ALPHA)), WEIGHTS)[0]
            name, _, mk = ALPHA[k]
            it = mk()
            if it[1] is None and not allow_err: continue
            if name == "truncated-at-end" and i != n - 1: continue   # in the middle it is followed by a non-continuation byte: malformed stream
            break
        dist["alphabet"][name] += 1
        items.append(it)
    # a sequence cut short by the terminator / the length (the only place where it is not followed by a
    # non-continuation byte)
    if rng.random() < 0.12:
        items.append(trunc()); dist["alphabet"]["truncated-at-end"] += 1
    dist["strings"] += 1
    if any(w is None for _, w in items): dist["strings_with_error"] += 1
    return items

def prefix_totals(items):
    """counter quadruples (bytes, cps, graphemes, cols) after each valid item, up to the first error fragment"""
    out, b, c, g, col = [(0, 0, 0, 0)], 0, 0, 0, 0
    for bs, w in items:
        if w is None: break
        b += len(bs); c += 1; g += 1 if w > 0 else 0; col += w
        out.append((b, c, g, col))
    return out

lines = []
def hexs(b): return b.hex() if b else "-"
def emit(op):
    dist["ops"][op.split()[0]] = dist["ops"].get(op.split()[0], 0) + 1
    lines.append(op)
class Hist:
    def __init__(self): self.n = 0
    def op(self, s, cap=30):
        if self.n % cap == 0: lines.append("new")
        self.n += 1
        emit(s)
H = Hist()

def quad(v): return ",".join(str(x) for x in v)
def near(x): return max(0, x + rng.choice([-2, -1, -1, 0, 0, 0, 1, 1, 2]))

def limit_for(items, subset):
    """a limit quadruple with the fields of `subset` set near a real prefix total (or 0, or far beyond)"""
    tot = prefix_totals(items)
    t = rng.choice(tot)
    v = [-1, -1, -1, -1]
    for i in subset:
        r = rng.random()
        v[i] = near(t[i]) if r < 0.75 else (0 if r < 0.85 else (tot[-1][i] + rng.randint(0, 3) if r < 0.97 else rng.choice([-2, -7])))
        if i == 0 and v[i] < 0: v[i] = 0
    return v
SUBSETS = [tuple(i for i in range(4) if m >> i & 1) for m in range(16)]

def ops_for_string(items):
    data = b"".join(bs for bs, _ in items)
    if 0 in data: return
    tot = prefix_totals(items)
    # --- every subset of the four limits, NUL-terminated and length-bounded
    for subset in SUBSETS:
        if a.tier == "quick" and rng.random() < 0.5 and len(subset) not in (0, 1, 4): continue
        lim = quad(limit_for(items, subset)) if (subset or rng.random() < 0.5) else "-"
        dist["limit_subsets"][len(subset)] = dist["limit_subsets"].get(len(subset), 0) + 1
        r = rng.random()
        if r < 0.45:
            H.op(f"count {hexs(data + NUL)} nul {lim} -"); dist["entry"]["count"] = dist["entry"].get("count", 0) + 1
        elif r < 0.8:
            # exactly `len` bytes before the guard page, no terminator
            k = len(data) if rng.random() < 0.6 else rng.randint(0, len(data))
            H.op(f"count {hexs(data[:k])} len={k} {lim} -"); dist["entry"]["ncount"] = dist["entry"].get("ncount", 0) + 1
        elif r < 0.9:
            # length shorter than the buffer (the rest must not be looked at), or longer with a NUL inside
            k = rng.randint(0, len(data))
            if rng.random() < 0.5: H.op(f"count {hexs(data)} len={k} {lim} -")
            else: H.op(f"count {hexs(data + NUL)} len={len(data) + 1 + rng.randint(0, 5)} {lim} -")
            dist["entry"]["ncount"] = dist["entry"].get("ncount", 0) + 1
        else:
            # resume from a true character boundary (or, rarely, from the middle of a sequence)
            s = rng.choice(tot) if rng.random() < 0.85 else (rng.randint(0, len(data)), rng.randint(0, 3), rng.randint(0, 3), rng.randint(0, 3))
            if rng.random() < 0.5:
                H.op(f"count {hexs(data + NUL)} nul {lim} {quad(s)}"); dist["entry"]["countmore"] = dist["entry"].get("countmore", 0) + 1
            else:
                H.op(f"count {hexs(data)} len={len(data)} {lim} {quad(s)}"); dist["entry"]["ncountmore"] = dist["entry"].get("ncountmore", 0) + 1
    # --- resumption: every byte split point, then limit pairs lim1 <= lim2
    for k in range(len(data) + 1):
        if a.tier == "quick" and len(data) > 6 and rng.random() < 0.5: continue
        mode, buf = ("nul", data + b"\0") if rng.random() < 0.5 else (f"len={len(data)}", data)
        H.op(f"split {hexs(buf)} {mode} {k},-1,-1,-1 {rng.choice(['-', '-1,-1,-1,-1', quad(limit_for(items, (0,)))])}")
    for _ in range(3):
        s1 = rng.choice(SUBSETS[1:]); l1 = limit_for(items, s1)
        l2 = [(-1 if rng.random() < 0.3 else x + rng.randint(0, 3)) if x != -1 else -1 for x in l1]
        if rng.random() < 0.15: l2 = limit_for(items, rng.choice(SUBSETS))     # unrelated pair: only the per-call checks apply
        mode, buf = ("nul", data + b"\0") if rng.random() < 0.5 else (f"len={len(data)}", data)
        H.op(f"split {hexs(buf)} {mode} {quad(l1)} {quad(l2)}")
    # --- wrappers
    H.op(f"mbs {hexs(data + NUL)}")
    H.op(f"b2c {hexs(data + NUL)} {near(rng.choice(tot)[0])}")
    H.op(f"c2b {hexs(data + NUL)} {near(rng.choice(tot)[3])}")

def interesting_cps():
    s = set()
    for t in (COMB, FULL, WIDE_EXPR):
        for x, y in t:
            for d in (-1, 0, 1): s.add(x + d); s.add(y + d)
    for x in (0, 1, 0x1f, 0x20, 0x7e, 0x7f, 0x80, 0x9f, 0xa0, 0xad, 0x7ff, 0x800, 0xffff, 0x10000, 0x10ffff, 0x110000, 0x1fffff, 0x200000,
              0x3ffffff, 0x4000000, 0x7fffffff, 0x303f, 0xd800, 0xdfff):
        s.add(x)
    return sorted(c for c in s if c >= 0)

def cp_ops(cps):
    for c in cps:
        H.op(f"cp {c:#x}", 200)
        if c < 0x200000: H.op(f"width {c:#x}", 200)
        H.op(f"seqlen {c:#x}", 200)
        n = len(enc(c)) if c < 0x200000 else (5 if c < 0x4000000 else 6)
        H.op(f"put {c:#x} {rng.choice([n, n, n + 1, n - 1, 0, 8, 'null'])}", 200)

# ================================================================ tiers
if a.tier == "exhaustive":
    # every string of <= 3 items over a 7-item alphabet x every limit quadruple over {-1,0,1,2,3} (bytes: {-1,0..4}),
    # NUL-terminated and length-bounded; every byte split point
    AL = [ch(0x61), ch(0x301), ch(0x5f61), ch(0xe9), bad([0x01]), bad([0x80]), bad([0xe5, 0xbd])]
    n_str = 0
    for n in range(0, 4):
        for items in itertools.product(AL, repeat=n):
            items = list(items); data = b"".join(bs for bs, _ in items); n_str += 1
            tb = prefix_totals(items)[-1][0]
            for lb in [-1] + list(range(0, min(tb, 7) + 2)):
                for lc in (-1, 0, 1, 2, 3):
                    for lg in (-1, 0, 1, 2):
                        for lcol in (-1, 0, 1, 2, 3):
                            lim = f"{lb},{lc},{lg},{lcol}"
                            if (lb + lc + lg + lcol) % 2 == 0: H.op(f"count {hexs(data + NUL)} nul {lim} -", 40)
                            else: H.op(f"count {hexs(data)} len={len(data)} {lim} -", 40)
            for k in range(len(data) + 2):
                for l2 in ("-", f"{k + 1},-1,-1,-1", f"-1,{k},-1,-1", f"{k+2},-1,-1,2"):
                    H.op(f"split {hexs(data + NUL)} nul {k},-1,-1,-1 {l2}", 40)
                    H.op(f"split {hexs(data)} len={len(data)} -1,-1,{k},-1 {l2}", 40)
            for k in range(len(data) + 1):
                H.op(f"count {hexs(data[:k])} len={k} - -", 40)
    for lo in range(0, 0x200000, 0x4000):
        H.op(f"sweep {lo:#x} {lo + 0x4000:#x}", 8)
    H.op("table combining"); H.op("table fullwidth")
    dist["exhaustive_bound"] = f"all strings of <= 3 items over a 7-item alphabet ({n_str} strings) x all limit quadruples over small values x both entry kinds; all byte split points; every code point 0..0x1FFFFF (sweep)"
else:
    quick = a.tier == "quick"
    H.op("table combining"); H.op("table fullwidth")
    # fixed probes of the repo's own test strings
    for s in [b"hello", b"caf\xc3\xa9", b"cafe\xcc\x81", b"\xe5\xbd\xa1", b"\xf0\x9f\x8f\xa0", b"A\xef\xbc\xa1", b"\xcc\x81a", b""]:
        H.op(f"count {hexs(s + NUL)} nul - -")
    for _ in range(4000 if quick else 15000):
        ops_for_string(gen_string(rng.choice([6, 16, 40])))
    # a long string crossing a page boundary
    big = [ch(rng.choice([0x61, 0x5f61, 0x301, 0xe9, 0x1f3e0])) for _ in range(3000)]
    data = b"".join(b for b, _ in big)
    H.op(f"count {hexs(data + NUL)} nul - -"); H.op(f"count {hexs(data)} len={len(data)} -1,-1,-1,{rng.randint(1, 4000)} -")
    # unterminated / over-long inputs: the guard page must be hit, and both sides must say so
    H.op("count 4142 nul - -"); H.op("count 4142 len=3 - -"); H.op("count 41e5bd nul - -"); H.op("count 4142 len=2 - 3,0,0,0")
    cps = interesting_cps()
    step = 0x1fffff // (3000 if quick else 30000)
    cps += [min(0x1fffff, k * step + rng.randint(0, step - 1)) for k in range(0x1fffff // step)]
    cp_ops(cps)
    for lo in (rng.sample(range(0, 0x200000, 0x1000), 48 if quick else 192)):
        H.op(f"sweep {lo:#x} {lo + 0x1000:#x}", 8)
    # ---- separate malformed stream, last: a non-continuation byte where a continuation byte is required
    H.n = 0
    for _ in range(10 if quick else 60):
        items = [it for it in gen_string(6, p_err=0.0) if it[1] is not None]
        lead = enc(rng.choice([0xe9, 0x5f61, 0x1f3e0]))
        cut = rng.randint(1, len(lead) - 1)
        frag = (lead[:cut] + bytes([rng.choice([0x41, 0x20, 0x7e, 0xc3, 0xe5, 0x0a, 0xff])]), None)
        pos = rng.randint(0, len(items))
        items = items[:pos] + [frag] + items[pos:]
        data = b"".join(bs for bs, _ in items)
        dist["alphabet"]["bad-continuation"] = dist["alphabet"].get("bad-continuation", 0) + 1
        H.op(f"count {hexs(data + NUL)} nul - -", 4)
        H.op(f"count {hexs(data)} len={len(data)} {quad(limit_for(items, rng.choice(SUBSETS)))} -", 4)

open(a.out, "w").write("\n".join(lines) + "\n")
dist["total_ops"] = len(lines)
print(json.dumps(dist))
