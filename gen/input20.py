#!/usr/bin/env python3
"""Operation generator for engine `input20` (C20).  All randomness from --seed.

Byte streams are built from a grammar of what a terminal really sends (UTF-8 text incl. combining and wide
characters, C0 keys, CSI / SS3 function and cursor keys with modifiers, Alt-prefixed keys, SGR-1006, rxvt-1015
and legacy X10 mouse reports for every button code, modifiers and positions up to 223 and beyond, DECRPM and
DECRQSS replies, cursor position reports, OSC/DCS strings, a bare ESC) plus a separate malformed stream.
Each `push` names the cut offsets at which the fragmented terminal receives the stream in pieces.

tiers:  quick       random histories + every 2- and 3-fragmentation of a few short streams
        thorough    10x the random histories, more short streams
        exhaustive  every 2- and 3-fragmentation of every stream of <= 3 atoms over a small alphabet of
                    atoms (<= 24 bytes), in both terminfo configurations
"""
import argparse, random, json, itertools, collections, re

ap = argparse.ArgumentParser()
ap.add_argument("--seed", type=int, default=1); ap.add_argument("--tier", default="quick")
ap.add_argument("--out", required=True); ap.add_argument("--prop", default="C20")
a = ap.parse_args()
rng = random.Random(a.seed * 7919 + 20)
dist = collections.Counter()

ESC = b"\x1b"
X10_RELEASE = ESC + b"[M#!!"

# libtermkey 0.22 (the trusted tokenizer) reads out of bounds and crashes on a CSI that has an intermediate byte
# (0x20..0x2f) and one of the final bytes ABCDEFHPQRSZ (e.g. ESC [ SP Z): its SS3-style handler indexes a table
# with the command word that then carries the intermediate.  No terminal sends such a key; the property trusts
# the tokenizer, so the generators keep the byte stream of every tokenizer lifetime free of that shape
# (conservatively: any CSI body containing such a byte).
# With the installed terminfo entry (kmous = CSI <) libtermkey reads `CSI <` + 3 raw bytes as an X10 report, and its
# two drivers disagree while those bytes are incomplete: the terminfo driver says AGAIN, the CSI driver already sees
# a complete sequence if one of the bytes is a final byte (0x40..0x7f) and wins.  So `CSI < Z c f` is one mouse report
# when pushed whole and an unknown CSI plus text when cut after the Z: the tokenizer itself is not Incremental there.
# No SGR report has a final byte among its first three parameter bytes; the generators keep to that.
KMOUS_AMBIGUOUS = re.compile(rb"\x1b\[<[^\x40-\x7f]{0,2}[\x40-\x7f]", re.S)

# Over-approximation (on the raw bytes, whatever the alignment of the tokenizer) of "contains a mouse report that
# libtermkey classifies as UNKNOWN" — the trigger of the second known finding; used to keep the main section free
# of it.  X10 form: the byte after `CSI M` (and after `CSI <` when terminfo says kmous = CSI <); numeric forms:
# the first parameter of `CSI [<] n ; … M|m`.
X10_CODE = re.compile(rb"(?:\x1b\[|\x9b)(?:(?![^\x40-\x7f]*;[^\x40-\x7f]*;)[^\x40-\x7f]*M|<)(.)", re.S)
NUM_CODE = re.compile(rb"(?:\x1b\[|\x9b)<?(\d*);[^\x40-\x7f]*[Mm]", re.S)
def known_code(c):
    return (c & 0xc3) in (0, 1, 2, 3, 64, 65)
def has_unknown_mouse(b):
    for m in X10_CODE.finditer(b):
        if not known_code((m.group(1)[0] - 0x20) & 0xff):
            return True
    for m in NUM_CODE.finditer(b):
        if not m.group(1) or not known_code(int(m.group(1)) & 0xff):
            return True
    return False

# It also reads uninitialised parameters — different TermKey instances then decode the same bytes differently — for
# `CSI ~` / `CSI u` without a numeric parameter and for CSI bodies that contain anything but parameter bytes
# (0x30..0x3f): C0 controls, bytes >= 0x80, intermediates.  The only such sequence a terminal sends is the DECRPM
# reply `CSI ? Pn ; Pn $ y`.  Same treatment: every CSI in a generated stream has a body of parameter bytes only.
TERMKEY_CRASH = re.compile(rb"(?:\x1b\[|\x9b)(?:[\x30-\x3f]*(?!\$y)[^\x30-\x7f]|[^\x30-\x39\x40-\x7f]*[~u])", re.S)
# what every tokenizer lifetime ends with: a final byte that completes whatever CSI is pending, then an X10
# release of all buttons, which reveals the held-button mask
TAIL = b"@" + X10_RELEASE


def utf8(cp):
    return chr(cp).encode("utf-8")

# ---------------------------------------------------------------- atoms
def a_ascii():
    return bytes([rng.choice(b"abcxyzABC019 ;:<[]~$MmOP?!\"")])

def a_word():
    return bytes(rng.choice(b"abcdefghij XYZ012") for _ in range(rng.randint(2, 9)))

def a_multibyte():
    cp = rng.choice([0xe9, 0x109, 0x3b1, 0x7ff, 0x800, 0x20ac, 0x4e2d, 0xff21, 0xffff, 0x10000, 0x1f600, 0x10ffff, 0xa0, 0x80])
    return utf8(cp)

def a_combining():
    return rng.choice([b"e", b"a", utf8(0x4e2d)]) + b"".join(utf8(rng.choice([0x301, 0x308, 0x20dd, 0x300])) for _ in range(rng.randint(1, 3)))

def a_c0():
    return bytes([rng.choice([0, 1, 3, 8, 9, 10, 13, 26, 27 + 1, 31, 0x7f, 0x08, 0x09, 0x0d])])

def csi_mod():
    return rng.choice([2, 3, 4, 5, 6, 7, 8, 1, 9, 16])

def a_csi_cursor():
    f = rng.choice(b"ABCDHFEZ")
    k = rng.random()
    if k < 0.45:
        return ESC + b"[" + bytes([f])
    if k < 0.9:
        return ESC + b"[1;%d" % csi_mod() + bytes([f])
    return ESC + b"[%d" % rng.randint(1, 9) + bytes([f])

def a_csi_tilde():
    n = rng.choice([1, 2, 3, 4, 5, 6, 7, 8, 11, 12, 13, 14, 15, 17, 18, 19, 20, 21, 23, 24, 25, 34, 200, 201, 0, 99])
    if rng.random() < 0.5:
        return ESC + b"[%d~" % n
    return ESC + b"[%d;%d~" % (n, csi_mod())

def a_ss3():
    f = rng.choice(b"ABCDHFPQRSMjklmnopqrstuvwxyXI ")
    if rng.random() < 0.15:
        return ESC + b"O%d" % csi_mod() + bytes([f])
    return ESC + b"O" + bytes([f])

def a_csi_u():
    cp = rng.choice([97, 65, 13, 27, 9, 127, 32, 0xe9, 0x20ac, 0x1f600])
    return ESC + b"[%d;%du" % (cp, csi_mod())

def a_alt():
    return ESC + rng.choice([a_ascii(), a_multibyte(), a_c0(), a_csi_cursor(), a_ss3()])

# Histories come in two sections.  The main section avoids the inputs that trigger the two known findings of
# C20 (a push longer than libtermkey's buffer; a mouse report libtermkey classifies as UNKNOWN: code & 0xc3 not in
# {0,1,2,3,64,65}); the tail section is rich in them.  bin/check examines only the first three failing histories
# of a file, so on a tree without the repairs the known findings must not crowd out anything else; on a tree with
# the repairs both sections are ordinary input.
TRIGGERS = False
BUTTON_CODES_ALL = [0, 1, 2, 3, 32, 33, 34, 35, 64, 65, 66, 67, 96, 97, 98, 128, 129, 130, 131, 160, 192, 255, 36, 68]
BUTTON_CODES_KNOWN = [c for c in BUTTON_CODES_ALL if known_code(c)]
POSITIONS = [1, 1, 2, 3, 10, 80, 94, 95, 96, 127, 128, 200, 222, 223, 224, 255, 256, 1000, 2047, 2048, 4095, 4096, 0]

def mouse_code():
    c = rng.choice(BUTTON_CODES_ALL if TRIGGERS else BUTTON_CODES_KNOWN) if rng.random() < 0.35 else rng.choice([0, 0, 1, 2, 2, 3, 32, 34, 64, 65])
    if rng.random() < 0.35:
        c |= rng.choice([4, 8, 16, 12, 20, 24, 28])
    return c & 0xff if rng.random() < 0.97 or not TRIGGERS else c | 256

def mouse_pos(limit=None):
    p = rng.choice(POSITIONS) if rng.random() < 0.5 else rng.randint(1, 120)
    return min(p, limit) if limit is not None else p

def a_mouse_sgr(code=None, final=None):
    code = mouse_code() if code is None else code
    final = rng.choice(b"MMMm") if final is None else final
    return ESC + b"[<%d;%d;%d" % (code, mouse_pos(), mouse_pos()) + bytes([final])

def a_mouse_rxvt():
    # libtermkey takes the first parameter as the button code itself
    return ESC + b"[%d;%d;%dM" % (mouse_code(), mouse_pos(), mouse_pos())

def a_mouse_x10(code=None):
    code = (mouse_code() % 224) if code is None else code   # code + 32 must fit a byte
    b = (code + 32) & 0xff
    return ESC + b"[M" + bytes([b, 32 + mouse_pos(223), 32 + mouse_pos(223)])

def a_mouse_seq():
    """press … drag … release, the way a terminal reports a gesture (one protocol throughout)."""
    proto = rng.choice(["sgr", "x10"])
    out = b""
    btns = rng.sample([0, 1, 2], rng.randint(1, 3))
    mod = rng.choice([0, 0, 4, 8, 16])
    for b in btns:
        out += a_mouse_sgr(b | mod, ord("M")) if proto == "sgr" else a_mouse_x10(b | mod)
        for _ in range(rng.randint(0, 2)):
            out += a_mouse_sgr(b | mod | 32, ord("M")) if proto == "sgr" else a_mouse_x10(b | mod | 32)
    rng.shuffle(btns)
    if proto == "sgr":
        for b in btns[:rng.randint(0, len(btns))]:
            out += a_mouse_sgr(b | mod, ord("m"))
    if rng.random() < 0.7:
        out += a_mouse_sgr(3 | mod, ord("M")) if proto == "sgr" and rng.random() < 0.3 else a_mouse_x10(3 | mod)
    return out

def a_wheel():
    c = rng.choice([64, 65, 66, 67] if TRIGGERS else [64, 65]) | rng.choice([0, 0, 4, 16])
    return a_mouse_sgr(c, ord("M")) if rng.random() < 0.6 else a_mouse_x10(c & 0xdf)

def a_decrpm():
    mode = rng.choice([1, 12, 25, 69, 127, 128, 1000, 1002, 1003, 1006, 1049, 2004, 255, 256, 65535])
    q = b"?" if rng.random() < 0.8 else b""
    return ESC + b"[" + q + b"%d;%d$y" % (mode, rng.randint(0, 4))

def a_decrqss():
    k = rng.random()
    if k < 0.55:
        payload = rng.choice([b"0 q", b"2 q", b"1;4r", b"0m", b"1;38:5:100m", b"\"p", b"", b"1$r", b"x" * rng.randint(1, 30)])
        return ESC + b"P1$r" + payload + ESC + b"\\"
    if k < 0.75:
        return ESC + b"P0$r" + rng.choice([b"", b" q"]) + ESC + b"\\"
    if k < 0.9:
        return ESC + b"P" + a_word() + ESC + b"\\"
    return ESC + b"P1$r" + a_word() + b"\x9c"

def a_osc():
    t = b"\x07" if rng.random() < 0.5 else ESC + b"\\"
    return ESC + b"]%d;" % rng.choice([0, 2, 4, 52]) + a_word() + t

def a_cpr():
    q = b"?" if rng.random() < 0.3 else b""
    return ESC + b"[" + q + b"%d;%dR" % (rng.randint(1, 300), rng.randint(1, 300))

def a_bare_esc():
    return ESC

def a_junk():
    k = rng.random()
    if k < 0.2:
        return bytes(rng.randint(0, 255) if TRIGGERS else rng.choice(b"\x00\x05\x1b\x1b[[O<M;01239~$y\x7f\x80\x9b\xa9\xc3\xe2\xff") for _ in range(rng.randint(1, 6)))
    if k < 0.35:
        return bytes([rng.choice([0x80, 0x9b, 0x8f, 0x90, 0x9d, 0xc0, 0xc3, 0xe2, 0xf0, 0xf8, 0xfe, 0xff])])
    if k < 0.5:
        return ESC + b"[" + bytes(rng.choice(b"0123456789;:<=>?") for _ in range(rng.randint(0, 8)))   # unterminated
    if k < 0.6:
        return ESC + b"[" + bytes(rng.choice(b"0123456789;") for _ in range(rng.randint(0, 6))) + bytes([rng.choice(b"\x00\x18\x1a\x1b\x7f\x80 !")])
    if k < 0.7:
        return ESC + b"[" + b";".join(b"%d" % rng.randint(0, 70000) for _ in range(rng.randint(3, 18))) + bytes([rng.choice(b"ABmMu~R")])
    if k < 0.78:
        return ESC + b"[M" + bytes(rng.choice(b" !\"#@A`a\x20\x7f\xff") for _ in range(rng.randint(0, 2)))   # truncated X10
    if k < 0.86:
        return ESC + b"[<" + bytes(rng.choice(b"0123456789;") for _ in range(rng.randint(0, 8)))      # truncated SGR
    if k < 0.93:
        return rng.choice([b"\xc3", b"\xe2\x82", b"\xf0\x9f\x98", b"\xc0\xaf", b"\xed\xa0\x80", b"\xf4\x90\x80\x80"])
    return ESC + rng.choice([b"O", b"P", b"]", b"[", b"N", b"\\", b"_", b"^", b"X"])

ATOMS = [
    ("ascii", a_ascii, 8), ("word", a_word, 5), ("multibyte", a_multibyte, 6), ("combining", a_combining, 3), ("c0", a_c0, 4),
    ("csi_cursor", a_csi_cursor, 7), ("csi_tilde", a_csi_tilde, 5), ("ss3", a_ss3, 4), ("csi_u", a_csi_u, 2), ("alt", a_alt, 4),
    ("mouse_sgr", a_mouse_sgr, 9), ("mouse_rxvt", a_mouse_rxvt, 2), ("mouse_x10", a_mouse_x10, 8), ("mouse_seq", a_mouse_seq, 6),
    ("wheel", a_wheel, 3), ("decrpm", a_decrpm, 3), ("decrqss", a_decrqss, 3), ("osc", a_osc, 1), ("cpr", a_cpr, 1),
    ("bare_esc", a_bare_esc, 2), ("junk", a_junk, 4),
]
ATOM_NAMES = [n for (n, _, _) in ATOMS]
ATOM_W = [w for (_, _, w) in ATOMS]
ATOM_F = {n: f for (n, f, _) in ATOMS}


def stream(natoms, no_junk=False):
    out = b""
    for _ in range(natoms):
        n = rng.choices(ATOM_NAMES, ATOM_W)[0]
        if no_junk and n in ("junk", "bare_esc"):
            n = "ascii"
        dist["atom:" + n] += 1
        out += ATOM_F[n]()
    return out


def cuts_for(n):
    """1 or 2 cuts mostly (2- and 3-fragmentations), sometimes none or many."""
    if n < 2:
        dist["cuts:0"] += 1
        return []
    k = rng.choices([0, 1, 2, 3, 6, n - 1], [1, 6, 6, 2, 1, 1])[0]
    k = max(0, min(k, n - 1, 60))
    dist["cuts:%d" % min(k, 4)] += 1
    return sorted(rng.sample(range(1, n), k))


def hexs(b):
    return b.hex() if b else "-"


def op_push(b, cuts):
    dist["op:push"] += 1
    dist["len:" + ("0" if not b else "1-8" if len(b) <= 8 else "9-24" if len(b) <= 24 else "25-100" if len(b) <= 100 else "101-256" if len(b) <= 256 else ">256")] += 1
    return "push %s %s" % (hexs(b), ",".join(map(str, cuts)) if cuts else "-")


lines = []
nhist = 0
BUDGET = 256 - len(TAIL) - 2

def begin(utf8flag, usec0, kmous):
    global nhist
    nhist += 1
    dist["cfg:utf8=%d,kmous=%d" % (utf8flag, kmous)] += 1
    lines.append("new %d %d %d" % (utf8flag, usec0, kmous))


def random_history(triggers):
    global TRIGGERS
    TRIGGERS = triggers
    dist["section:" + ("tail(known-finding triggers)" if triggers else "main")] += 1
    utf8flag = 1 if rng.random() < 0.8 else 0
    kmous = 1 if rng.random() < 0.65 else 0
    begin(utf8flag, rng.choice([0, 0, 500000, 949999, 950000, 950001, 999999, 123456]), kmous)
    nops = rng.randint(3, 14)
    # main section: no more bytes per tokenizer lifetime than libtermkey's buffer holds, so that nothing can be
    # refused whatever is pending (the short count of termkey_push_bytes is the first known finding)
    budget = [BUDGET]
    sofar = [b""]
    def fit(gen):
        """a piece from gen() that keeps this tokenizer lifetime inside the budget (main section) and free of the
        shapes libtermkey mishandles (both sections) and of the known-finding triggers (main section)"""
        for attempt in range(12):
            b = gen() if attempt < 11 else b"a"
            if not triggers:
                b = b[:budget[0]]
            whole = sofar[0] + b + TAIL
            if TERMKEY_CRASH.search(whole):
                dist["avoided:termkey_crash_shape"] += 1
                continue
            if not kmous and KMOUS_AMBIGUOUS.search(whole):
                dist["avoided:termkey_kmous_ambiguity"] += 1
                continue
            if not triggers and has_unknown_mouse(whole):
                dist["avoided:unknown_mouse_in_main"] += 1
                continue
            break
        if not triggers:
            budget[0] -= len(b)
        sofar[0] += b
        return b
    for _ in range(nops):
        r = rng.random()
        if r < 0.08:
            dist["op:check"] += 1
            lines.append("check %d" % rng.choice([0, 1, 10, 49, 50, 51, 100, 1000, 20]))
        elif r < 0.10:
            dist["op:reset"] += 1
            lines.append("reset %d" % utf8flag)
            budget[0] = BUDGET
            sofar[0] = b""
        elif r < 0.13 and triggers:
            # longer than libtermkey's buffer (256 bytes)
            def long_stream():
                b = stream(rng.randint(30, 60), no_junk=True)
                while len(b) <= 256:
                    b += stream(8, no_junk=True)
                return b
            b = fit(long_stream)
            lines.append(op_push(b, cuts_for(len(b))))
        elif r < 0.16:
            b = fit(lambda: stream(rng.randint(8, 30), no_junk=rng.random() < 0.7)[:250])
            lines.append(op_push(b, cuts_for(len(b))))
        else:
            b = fit(lambda: stream(rng.choices([1, 2, 3, 4, 6], [5, 5, 3, 2, 1])[0]))
            lines.append(op_push(b, cuts_for(len(b))))
    # reveal the held-button mask and what is left in the tokenizer
    dist["op:check"] += 1
    lines.append("check 1000")
    lines.append(op_push(b"@", []))
    lines.append(op_push(X10_RELEASE, []))


def all_frags(n):
    for c in range(1, n):
        yield [c]
    for c1, c2 in itertools.combinations(range(1, n), 2):
        yield [c1, c2]


def exhaustive_stream(b, utf8flag, kmous, per_hist=12, allow_unknown=False):
    """every 2- and 3-fragmentation of b, each from a fresh pair of terminals"""
    if TERMKEY_CRASH.search(b + TAIL):
        dist["avoided:termkey_crash_shape"] += 1
        return
    if not kmous and KMOUS_AMBIGUOUS.search(b + TAIL):
        dist["avoided:termkey_kmous_ambiguity"] += 1
        return
    if not TRIGGERS and not allow_unknown and has_unknown_mouse(b + TAIL):
        dist["avoided:unknown_mouse_in_main"] += 1
        return
    combos = list(all_frags(len(b)))
    dist["exhaustive_streams"] += 1
    dist["exhaustive_fragmentations"] += len(combos)
    for i in range(0, len(combos), per_hist):
        begin(utf8flag, 0, kmous)
        for j, cuts in enumerate(combos[i:i + per_hist]):
            if j:
                dist["op:reset"] += 1
                lines.append("reset %d" % utf8flag)
            lines.append(op_push(b, cuts))
            lines.append(op_push(TAIL, []))


SMALL_ALPHABET = [
    b"a", utf8(0xe9), utf8(0x20ac) + utf8(0x301), ESC + b"[A", ESC + b"[1;5C", ESC + b"[3~", ESC + b"OP", ESC + b"x", ESC,
    ESC + b"[<0;5;7M", ESC + b"[<0;5;7m", ESC + b"[<2;300;223M", ESC + b"[<35;1;1M", ESC + b"[<64;9;9M",
    ESC + b"[M !!", ESC + b"[M\"\xff\xff", ESC + b"[M#!!", ESC + b"[M`!!", ESC + b"[?69;1$y", ESC + b"P1$r0 q" + ESC + b"\\", b"\x01",
]
TRIGGER_ATOMS = [ESC + b"[<66;2;2M", ESC + b"[Mb!!", ESC + b"[<128;2;2m"]

if a.tier == "exhaustive":
    for alphabet, must in ((SMALL_ALPHABET, None), (SMALL_ALPHABET + TRIGGER_ATOMS, TRIGGER_ATOMS)):
        for kmous in (1, 0):
            for n in (1, 2, 3):
                for combo in itertools.product(alphabet, repeat=n):
                    if must is not None and not any(x in must for x in combo):
                        continue
                    b = b"".join(combo)
                    if len(b) > 24:
                        continue
                    if n == 3 and rng.random() > 0.04:      # all 1- and 2-atom streams, a sample of the 3-atom ones
                        continue
                    exhaustive_stream(b, 1, kmous, allow_unknown=must is not None)
    bound = "every 2- and 3-fragmentation of every stream of 1 or 2 atoms (and a 4%% sample of 3 atoms) over %d atoms, <= 24 bytes, kmous in {0,1}" % (len(SMALL_ALPHABET) + len(TRIGGER_ATOMS))
else:
    nrand = 2000 if a.tier == "quick" else 8000
    nshort = 30 if a.tier == "quick" else 100
    for _ in range(nrand):
        random_history(False)
    for _ in range(nshort):
        b = b""
        while not (4 <= len(b) <= 24):
            b = stream(rng.randint(1, 3))
        exhaustive_stream(b, 1 if rng.random() < 0.85 else 0, 1 if rng.random() < 0.7 else 0)
    for _ in range(nrand // 10):
        random_history(True)
    bound = None

open(a.out, "w").write("\n".join(lines) + "\n")
info = {"ops": len(lines), "histories": nhist, "distribution": dict(sorted(dist.items()))}
if bound:
    info["exhaustive_bound"] = bound
print(json.dumps(info))
