#!/usr/bin/env python3
"""Operation generator for engine `rectset` (C05).  All randomness from --seed.
quick/thorough: random histories biased towards rectangles that touch, overlap or nest existing ones.
exhaustive: every history of <= 3 add/sub operations over all rectangles of a 3x3 grid (and of <= 2 over a 4x4 grid),
each followed by all contains/intersects queries of the grid."""
import argparse, random, json, itertools
ap = argparse.ArgumentParser()
ap.add_argument("--seed", type=int, default=1); ap.add_argument("--tier", default="quick")
ap.add_argument("--out", required=True); ap.add_argument("--prop", default="C05")
a = ap.parse_args()
rng = random.Random(a.seed)
lines = []
mix = {}
def emit(s):
    lines.append(s); mix[s.split()[0]] = mix.get(s.split()[0], 0) + 1
def rects_of_grid(n, m):
    return [(t, l, h, w) for t in range(n) for l in range(m) for h in range(1, n - t + 1) for w in range(1, m - l + 1)]
info = {}
if a.tier == "exhaustive":
    g3 = rects_of_grid(3, 3)
    nh = 0
    for k in (1, 2, 3):
        for rs in itertools.product(g3, repeat=k):
            for kinds in itertools.product(("add", "sub"), repeat=k):
                if kinds[0] == "sub": continue
                emit("new")
                for kd, r in zip(kinds, rs): emit("%s %d %d %d %d" % ((kd,) + r))
                # queries: a spread of the grid's rectangles
                for q in g3[:: (1 if k < 3 else 7)]:
                    emit("contains %d %d %d %d" % q)
                nh += 1
    g4 = rects_of_grid(4, 4)
    for rs in itertools.product(g4, repeat=2):
        for kinds in (("add", "add"), ("add", "sub")):
            emit("new")
            for kd, r in zip(kinds, rs): emit("%s %d %d %d %d" % ((kd,) + r))
            for q in g4[::5]: emit("contains %d %d %d %d" % q)
            nh += 1
    info = {"exhaustive_bound": "all histories of <=3 add/sub over the 36 rectangles of a 3x3 grid + all add-add/add-sub pairs over the 100 rectangles of a 4x4 grid, with contains queries", "histories": nh}
else:
    H = 2500 if a.tier == "quick" else 25000
    for h in range(H):
        emit("new")
        if h % 25 == 7:
            # many members at once (array growth paths of insert_rect: 4 -> 8 -> 16 -> 32 ...): a staircase /
            # checkerboard of rectangles that only touch at corners never merges
            n = rng.choice([9, 13, 14, 17, 20, 33, 40])
            step = rng.choice([1, 2])
            cells = [(i * step, (i * step) if rng.random() < 0.7 else ((n - i) * step)) for i in range(n)]
            rng.shuffle(cells)
            for (t, l) in cells:
                emit("add %d %d %d %d" % (t, l, step, step))
            for _ in range(4):
                t, l = rng.choice(cells)
                emit(rng.choice(["contains", "intersects"]) + " %d %d %d %d" % (t, l, step, rng.randint(1, 2 * step)))
            t, l = rng.choice(cells)
            emit("sub %d %d %d %d" % (t, max(0, l - 1), step, step + 2))
            emit("xl %d %d" % (rng.randint(-2, 2), rng.randint(-2, 2)))
            emit("add %d %d %d %d" % (n * step + 1, 0, 1, 3))
            continue
        size = rng.choice([4, 5, 7, 7, 10, 30])
        off = rng.choice([0, 0, 0, -3, -50, 1000])
        cur = []   # rectangles added so far (current coordinates)
        nops = rng.randint(2, 14)
        def fresh():
            t = rng.randint(0, size - 1); l = rng.randint(0, size - 1)
            return (t + off, l + off, rng.randint(1, size - t), rng.randint(1, size - l))
        def near():
            if not cur or rng.random() < 0.25: return fresh()
            t, l, n, c = rng.choice(cur)
            b, r = t + n, l + c
            # share edges / touch / overlap / nest
            nt = rng.choice([t, b, t - rng.randint(0, 2), t + rng.randint(0, n), b - rng.randint(0, n)])
            nl = rng.choice([l, r, l - rng.randint(0, 2), l + rng.randint(0, c), r - rng.randint(0, c)])
            nn = rng.choice([n, max(1, b - nt), rng.randint(1, max(1, size // 2))])
            nc = rng.choice([c, max(1, r - nl), rng.randint(1, max(1, size // 2))])
            return (nt, nl, max(1, nn), max(1, nc))
        for _ in range(nops):
            x = rng.random()
            if x < 0.45:
                r = near(); cur.append(r); emit("add %d %d %d %d" % r)
            elif x < 0.62:
                emit("sub %d %d %d %d" % near())
            elif x < 0.78:
                emit("contains %d %d %d %d" % near())
            elif x < 0.90:
                emit("intersects %d %d %d %d" % near())
            elif x < 0.97:
                d, k = rng.randint(-3, 3), rng.randint(-3, 3)
                cur = [(t + d, l + k, n, c) for (t, l, n, c) in cur]; emit("xl %d %d" % (d, k))
            else:
                cur = []; emit("clear")
        # closing queries
        for _ in range(2):
            emit("contains %d %d %d %d" % near())
    info = {"histories": H}
open(a.out, "w").write("\n".join(lines) + "\n")
info.update({"ops": len(lines), "mix": mix})
print(json.dumps(info))
